"""C14 — only sshuttle's own marked lines in the hosts file ever change.

Correspondence: the real `firewall.rewrite_etc_hosts` / `restore_etc_hosts` with
`firewall.HOSTSFILE` pointed into a scratch directory, `os.chown` patched out, and every
file-system call the function makes (`open`, `os.*`, `shutil.*`, `f.write`, `f.close`) wrapped so
that it is logged, can be refused (`OSError`), and so that the run can be stopped after the k-th
operation (crash) or handed to a second instance (interleaving) — against `Code/Hosts.lean` run
on `Env/Fs.lean`.  Compared: the operation list with every answer, and the content of the hosts
file / backup / temporary after every operation.

Oracle (on the real files only, no model): lines(after) = [l in lines(before) | not own] ++ host
lines; at every crash point the hosts path holds the old or the new complete content; after a
session exactly the original non-own lines; instances side by side keep each other's lines.
"""
import errno
import io
import sys
import itertools
import os
import re
import shutil
import tempfile
import threading

import common

RULE = ("cases = (initial hosts-file content, backup present or not, host map / update history, port, fault set, "
        "crash point or two-instance schedule) run through the real rewrite_etc_hosts/restore_etc_hosts in a "
        "scratch directory; contents: missing, empty, blank, no trailing newline, CRLF / lone CR, comments, '#' in "
        "lines, other ports' markers, stale own markers (also last / preceded by blank lines), non-ASCII white "
        "space, undecodable bytes, 1-200 lines; maps of 0-50 hosts; histories of <= 30 updates followed by restore; "
        "every crash point k of every single-instance case; a refused operation at every index of small cases; "
        "segment-level and random (thorough: exhaustive) interleavings of two instances; complete helper sessions through the real firewall.main() (fake packet-filter method and stdin: ROUTES, NSLIST, PORTS, GO, HOST lines, then EOF / read error / bad command) with the IPv4 and/or IPv6 teardown raising and with single file-system calls (chown, chmod, rename, close, write, open, stat, read of the first or a later HOST) refused, and with the helper's stderr/stdout failing (EIO, EPIPE, closed file) from a chosen point on at verbosity 0-3 through the real helpers.log/debug*; crash-recovery host tables at scale through the real firewall.main (1, 3, 16, 63, 64, 65, 70, 100, 257, 300, 1000 names, names re-announced with new addresses; file inspected while the session is up and after it ended; stored in the replay by generator parameters); histories (a helper dies between writing its temporary and the rename, optionally the admin edits the file, a new session on the same port publishes fewer hosts and restores); a case is non-trivial "
        "when a line was filtered, a backup made, a fault or crash injected, or two instances overlapped; "
        "distinct = distinct canonical case description; every case of every kind additionally runs under a short-write mode from a rotation (write(2) on the file the code writes transfers at most 1 / 100 / 4096 / half the bytes per call, or a size limit after which writes fail with ENOSPC; at the os.write level and underneath file objects from open / os.fdopen) and at a verbosity level from the rotation [0,0,3,0,2,0,13,1] (13 = -vvv with stderr/stdout failing with EIO) indexed by a per-run case counter shifted by the seed, through the real helpers.log/debug*, and is replayed at that level")
MANIFEST = dict(
    level_text=("Machine-checked Lean 4 theorems (19, core Lean + Std, no sorry/axiom/native_decide) over a "
                "statement-by-statement model of rewrite_etc_hosts / restore_etc_hosts (a resumption issuing "
                "file-system operations) run on a file-system model with inodes, hard links and atomic rename. "
                "For every content, host map and port the new content is exactly the non-own lines followed by the "
                "sorted host lines (C14_rewrite). The marker match is exact for all ports p, q and any surrounding "
                "text: a line marked for q is matched by p iff p = q, never by a decimal prefix or extension "
                "(C14_marker_match_exact, C14_marker_prefix_ports, C14_foreign_marker_kept; the match expression and "
                "marker format are regenerated from the source and pinned). For every update history the file is "
                "original-lines + current block and after restore the original lines (C14_session). For every crash "
                "point k the hosts path holds the old or the new complete content (C14_atomic). For EVERY history of "
                "one port - updates in any order with repeats, restores, error endings, later sessions on the same "
                "port - over every initial file the lines not carrying the port's marker are the same file line for "
                "line (C14_history_foreign_lines, exact form C14_history_foreign_lines_exact), also when a rewrite is "
                "cut at any operation k and any history follows (C14_history_crash_recovery). Any non-overlapping "
                "history of several instances keeps the original lines and one block per instance "
                "(C14_serial_instances); only each port's last map matters, not the order "
                "(C14_serial_order_irrelevant), so two instances that do not overlap commute "
                "(C14_two_instances_commute). The statement for OVERLAPPING read-modify-write sequences is proved "
                "FALSE (C14_concurrent_full_false: lost update; C14_concurrent_resurrection) and replayed on the real "
                "function. The model is tied to the code on every run by a differential run (operation list, every "
                "answer, every intermediate file content) plus an oracle on the real files; what stays decided by "
                "oracle only is the part outside rewrite/restore: firewall.main's exit path (teardown errors, "
                "refused file-system calls, a dead stderr at -v/-vv) and open-flag / temp-location behaviour."),
    level_note=("Trusted: Lean kernel; axioms propext/Classical.choice/Quot.sound only; the correspondence harness; "
                "the file-system model (rename atomic, a crash loses nothing already done, no fsync semantics, "
                "owner/mode bits not checked on disk); CPython text-mode decoding/newline translation. Reading of "
                "'lines': terminators normalised, white space at the very end of the file is not a line (EqEof in "
                "the history theorems is equality up to exactly that; equality is exact when the non-own lines end "
                "in a non-blank line). Hypotheses: host names/addresses free of line breaks (and of '#' for the "
                "multi-instance theorems); the per-port temporary is not another name of the hosts file (Apart / "
                "TmpApart, preserved by every complete rewrite: apart_rewrite); the crash-recovery theorem covers one "
                "cut rewrite per history (several cuts are covered by the harness only). "
                "Known finding F10: two instances whose rewrites overlap lose / resurrect each other's lines "
                "(needs a lock; recorded, not fixed)."),
    technique="Lean 4 proof (resumption semantics + invariants by induction over histories, decide witnesses for the "
              "race) + differential correspondence with the real rewrite_etc_hosts under crash/fault/interleaving "
              "injection + whole-helper sessions through the real firewall.main",
)
DRIVER_TARGETS = ['SshuttleModel.Spec.HostsFile']
ASSUMPTIONS = [
    "lines of a file = split('\\n') after normalising \\r\\n and \\r to \\n and discarding white space at the very "
    "end of the file; a missing/empty/blank file is the single empty line",
    "os.rename within one directory is atomic; a crash stops the process between two file-system calls and loses "
    "nothing already done (no fsync/durability semantics)",
    "the shutil.move fallback after a failed rename is excluded from the atomicity claim (the code's own warning)",
    "the hosts file is decodable in the locale's encoding (UTF-8 here); otherwise the function raises "
    "UnicodeDecodeError before touching anything (modelled)",
    "host names and addresses contain no line break (C19's sanitisation); no '#' for the multi-instance theorems",
    "sys.platform != 'win32'",
]

MARK = '# sshuttle-firewall-%d AUTOCREATED'     # the property's marker, restated here for the oracle


class _Crash(BaseException):
    """Private: the process stops here."""


# ------------------------------------------------------------------ canonical text

def hx(b):
    return b.hex() if b else '-'


def hxs(s):
    return hx(s.encode('utf-8'))


def opt(b):
    return 'N' if b is None else hx(b)


def hm_tok(items):
    items = list(items)
    if not items:
        return '-'
    return ','.join('%s:%s' % (hxs(n), hxs(i)) for n, i in items)


# ------------------------------------------------------------------ the instrumented sandbox

# ------------------------------------------------------------------ verbosity as a dimension of every case

LEVELS = [0, 0, 3, 0, 2, 0, 13, 1]      # 13 = level 3 with a stderr/stdout whose write() raises EIO
_ROT = dict(n=0, shift=0)               # per-run case counter, shifted by the check's seed (not ctx.rng)
_CUR = dict(level=0, short='none', limit_bytes=None)   # level / short-write mode of the case being run


def rot_reset(seed):
    _ROT['n'] = 0
    _ROT['s'] = 0
    _ROT['shift'] = seed


def next_level():
    lv = LEVELS[(_ROT['n'] + _ROT['shift']) % len(LEVELS)]
    _ROT['n'] += 1
    return lv


# Short writes as a dimension of every case: how many bytes one write(2) on a file the code writes transfers.
# 'chunk:N' = at most N bytes per call ('half' = half of what the call offered), which write(2) may always do;
# 'limit:N' = a file-size limit / full disk: N bytes in total go through, the call that crosses the limit is
# short, every later one fails with ENOSPC ('half' = half of the new content).  13 entries: coprime with LEVELS.
SHORTS = ['none', 'chunk:1', 'none', 'none', 'chunk:100', 'none', 'limit:100', 'none', 'chunk:4096', 'none',
          'chunk:half', 'none', 'limit:half']
_ROT['s'] = 0


def next_short():
    sm = SHORTS[(_ROT['s'] + _ROT['shift']) % len(SHORTS)]
    _ROT['s'] += 1
    return sm


def leveled(fn):
    """Every case kind runs at a verbosity level and under a short-write mode: taken from the rotations,
    or given (replay)."""
    def wrap(*a, level=None, short=None, **k):
        if level is None:
            level = next_level()
        if short is None:
            short = next_short()
        if short.startswith('limit') and fn.__name__ != 'single_case':
            short = 'chunk' + short[5:]       # histories assume every rewrite completes: keep the transparent variant
        old = dict(_CUR)
        _CUR['level'] = level
        _CUR['short'] = short
        _CUR['limit_bytes'] = None
        try:
            return fn(*a, **k)
        finally:
            _CUR.clear()
            _CUR.update(old)
    wrap.__name__ = fn.__name__
    wrap.__doc__ = fn.__doc__
    return wrap


class _Verbosity:
    """Around every call into the real code: sshuttle.helpers.verbose, the real helpers.log behind
    firewall.log, and sys.stderr / sys.stdout (a sink, or at level 13 a stream failing with EIO)."""

    def __init__(self, sb):
        self.sb = sb

    def __enter__(self):
        import sys
        import sshuttle.helpers as helpers
        lv = self.sb.level
        self.saved = None
        if not lv:
            return self
        fw = self.sb.fw
        self.saved = (sys.stdout, sys.stderr, helpers.verbose, fw.log)
        stream = _DyingStream('eio', 0) if lv == 13 else _DyingStream('closed', 1 << 60)
        helpers.verbose = 3 if lv == 13 else lv
        fw.log = self.sb.saved['log']
        sys.stdout = stream
        sys.stderr = stream
        return self

    def __exit__(self, *a):
        if self.saved is not None:
            import sys
            import sshuttle.helpers as helpers
            sys.stdout, sys.stderr, helpers.verbose, self.sb.fw.log = self.saved
        return False


class _ShortRaw(io.RawIOBase):
    """A raw file whose write() transfers what the sandbox's short-write mode allows and returns that
    count.  A BufferedWriter on top retries the remainder (and raises when that fails); an unbuffered
    user sees the short count."""

    def __init__(self, raw, sb):
        io.RawIOBase.__init__(self)
        self.raw, self.sb = raw, sb

    def writable(self):
        return True

    def fileno(self):
        return self.raw.fileno()

    def write(self, b):
        b = bytes(b)
        n = self.sb.short_take(len(b))
        return self.raw.write(b[:n])

    def close(self):
        if not self.closed:
            try:
                io.RawIOBase.close(self)
            finally:
                self.raw.close()


class Inst:
    """One running instance (one call of the real function) and what it is allowed to do."""

    def __init__(self, tag, port):
        self.tag = tag
        self.port = port
        self.idx = 0                 # index of the next operation of this instance
        self.crash_at = None
        self.err_at = ()
        self.fail_ops = set()        # {(operation name, occurrence)}: refused once with OSError
        self.op_counts = {}
        self.outcome = None
        # scheduling (interleaved runs only)
        self.ready = threading.Semaphore(0)
        self.go = threading.Semaphore(0)
        self.finished = False
        self.abort = False
        self.scheduled = False


class Sandbox:
    """Scratch directory + patched module globals of sshuttle.firewall.  Use as context manager."""

    def __init__(self, snapshots=True):
        self.snapshots = snapshots
        self.log = []                # canonical op lines
        self.tags = []               # which instance did each op
        self.tmp_at_rename = []      # content of the temporary each time it was renamed/moved
        self.hosts_seen = []         # hosts content after every op (bytes or None)
        self.default = None
        self.latin = False           # undecodable case: show bytes as latin-1 text
        self.foreign_tmp = []        # rename/move sources that were not beside the hosts file
        self.fd_names = {}           # descriptors obtained through the wrapped os.open
        self.level = _CUR['level']   # verbosity level of the case this sandbox belongs to
        self.short = _CUR['short']   # short-write mode of the case
        self.limit_bytes = _CUR['limit_bytes']
        self.short_written = 0

    def __enter__(self):
        import sshuttle.firewall as fw
        import sshuttle.helpers as helpers
        self.fw = fw
        helpers.verbose = 0
        # root/etc stands for the hosts file's directory, root/tmp for the process temp dir (TMPDIR);
        # as on most machines (tmpfs /tmp) they count as different file systems: a rename between
        # the two directories fails with EXDEV, renames inside one directory work normally
        self.root = tempfile.mkdtemp(prefix='c14_')
        self.dir = os.path.join(self.root, 'etc')
        self.tmpdir = os.path.join(self.root, 'tmp')
        os.mkdir(self.dir)
        os.mkdir(self.tmpdir)
        self.saved_tempdir = tempfile.tempdir
        tempfile.tempdir = self.tmpdir
        self.hosts = os.path.join(self.dir, 'hosts')
        self.bak = self.hosts + '.sbak'
        self.saved = dict(HOSTSFILE=fw.HOSTSFILE, os=fw.os, shutil=fw.shutil, log=fw.log,
                          has_open='open' in fw.__dict__, open=fw.__dict__.get('open'))
        fw.HOSTSFILE = self.hosts
        fw.os = _OsProxy(self)
        fw.shutil = _ShProxy(self)
        fw.open = self._open
        fw.log = lambda s: None
        self.saved_hook = sys.unraisablehook
        if self.short.startswith('limit'):
            # a buffered file that could not flush (disk full) complains again when it is collected
            sys.unraisablehook = lambda u: None
        return self

    def __exit__(self, *a):
        fw = self.fw
        try:
            fw.HOSTSFILE = self.saved['HOSTSFILE']
            fw.os = self.saved['os']
            fw.shutil = self.saved['shutil']
            fw.log = self.saved['log']
            if self.saved['has_open']:
                fw.open = self.saved['open']
            else:
                del fw.open
        finally:
            sys.unraisablehook = self.saved_hook
            tempfile.tempdir = self.saved_tempdir
            shutil.rmtree(self.root, ignore_errors=True)
        return False

    # ---- short writes
    def short_take(self, k):
        """How many of the k bytes offered to one write(2) go through (may raise ENOSPC)."""
        mode, _, n = self.short.partition(':')
        if mode == 'chunk':
            return min(k, max(1, k // 2) if n == 'half' else int(n))
        if mode == 'limit':
            room = self.limit_bytes - self.short_written
            if room <= 0 and k:
                raise OSError(errno.ENOSPC, 'No space left on device')
            t = min(k, room)
            self.short_written += t
            return t
        return k

    def open_w(self, target, mode, buffering=-1, encoding=None, errors=None, newline=None, **k):
        """open()/os.fdopen() for writing, with the short-write mode underneath the file object."""
        plain = self.short == 'none' or '+' in mode or k
        if plain:
            if isinstance(target, int):
                return os.fdopen(target, mode, buffering, encoding, errors, newline, **k)
            return open(target, mode, buffering, encoding, errors, newline, **k)
        raw = _ShortRaw(io.FileIO(target, 'a' if 'a' in mode else 'x' if 'x' in mode else 'w'), self)
        if 'b' in mode and buffering == 0:
            return raw
        buf = io.BufferedWriter(raw)
        if 'b' in mode:
            return buf
        return io.TextIOWrapper(buf, encoding=encoding, errors=errors, newline=newline)

    # ---- raw access (never through the patched names)
    def tmp(self, port):
        return '%s.%d.tmp' % (self.hosts, port)

    def raw(self, path):
        try:
            with open(path, 'rb') as f:
                return f.read()
        except FileNotFoundError:
            return None

    def put(self, path, data, mode=None):
        if data is None:
            if os.path.exists(path):
                os.unlink(path)
            return
        with open(path, 'wb') as f:
            f.write(data)
        if mode is not None:
            os.chmod(path, mode)

    def show(self, b):
        if b is None:
            return 'N'
        if self.latin:
            return hx(b.decode('latin-1').encode('utf-8'))
        return hx(b)

    def same_fs(self, a, b):
        return os.path.dirname(os.path.abspath(a)) == os.path.dirname(os.path.abspath(b))

    def name(self, path):
        if path == self.hosts:
            return 'H'
        if path == self.bak:
            return 'B'
        m = re.match(re.escape(self.hosts) + r'\.(\d+)\.tmp$', str(path))
        if m:
            return 'T%d' % int(m.group(1))
        return '?' + os.path.basename(str(path))

    def snap(self):
        return (self.raw(self.hosts), self.raw(self.bak))

    def final(self, ports):
        st = None
        try:
            st = os.stat(self.hosts)
        except OSError:
            pass
        return 'hosts=%s bak=%s %s mode=%s' % (
            self.show(self.raw(self.hosts)), self.show(self.raw(self.bak)),
            ' '.join('tmp%d=%s' % (p, self.show(self.raw(self.tmp(p)))) for p in ports),
            'N' if st is None else st.st_mode & 0o7777)

    # ---- the gate every wrapped call goes through
    def cur(self):
        return getattr(threading.current_thread(), 'c14_inst', None) or self.default

    def gate(self, faultable=True):
        """Returns (inst, refused).  Raises _Crash at the crash point."""
        inst = self.cur()
        if inst.scheduled:
            inst.ready.release()
            inst.go.acquire()
            if inst.abort:
                raise _Crash()
        if inst.crash_at is not None and inst.idx >= inst.crash_at:
            raise _Crash()
        refused = faultable and inst.idx in inst.err_at
        inst.idx += 1
        if not hasattr(self, 'prev'):
            self.prev = self.snap()
        return inst, refused

    def record(self, inst, op, ans):
        if self.snapshots:
            cur = self.snap()
            t = self.raw(self.tmp(inst.port))
            h = '=' if cur[0] == self.prev[0] else self.show(cur[0])
            b = '=' if cur[1] == self.prev[1] else self.show(cur[1])
            tl = 'N' if t is None else len(t.decode('utf-8', 'replace'))
            self.prev = cur
            self.hosts_seen.append(cur[0])
            line = '%s -> %s ; h=%s b=%s t=%s' % (op, ans, h, b, tl)
        else:
            line = '%s -> %s' % (op, ans)
        if inst.scheduled:
            line = '%s:%s' % (inst.tag, line)
        self.log.append(line)
        self.tags.append(inst.tag)

    def call(self, op, fn, okfmt=lambda r: 'ok', faultable=True):
        inst, refused = self.gate(faultable)
        kind = op.split(' ', 1)[0]
        inst.op_counts[kind] = inst.op_counts.get(kind, 0) + 1
        if faultable and (kind, inst.op_counts[kind]) in inst.fail_ops:
            refused = True
        if refused:
            if getattr(self, 'in_restore', False):
                self.refused_in_restore = True
            self.record(inst, op, 'err')
            raise OSError(errno.EIO, 'injected')
        try:
            r = fn()
        except FileNotFoundError:
            self.record(inst, op, 'enoent')
            raise
        except OSError:
            self.record(inst, op, 'err')
            raise
        self.record(inst, op, okfmt(r))
        return r

    # ---- open()
    def _open(self, path, mode='r', *a, **k):
        sb = self
        nm = self.name(path)
        if 'w' in mode or 'a' in mode or '+' in mode:
            f = self.call('openw %s' % nm, lambda: self.open_w(path, mode, *a, **k))
            return _WFile(sb, f, nm)
        # open(...).read() is one operation
        inst, refused = self.gate()
        op = 'read %s' % nm
        if refused:
            self.record(inst, op, 'err')
            raise OSError(errno.EIO, 'injected')
        try:
            f = open(path, mode, *a, **k)
        except FileNotFoundError:
            self.record(inst, op, 'enoent')
            raise
        except OSError:
            self.record(inst, op, 'err')
            raise
        return _RFile(sb, f, inst, op)


class _RFile:
    def __init__(self, sb, f, inst, op):
        self.sb, self.f, self.inst, self.op = sb, f, inst, op

    def read(self, *a):
        try:
            s = self.f.read(*a)
        except UnicodeDecodeError:
            self.sb.record(self.inst, self.op, 'undec')
            self.f.close()
            raise
        self.f.close()
        self.sb.record(self.inst, self.op, 'text:' + hxs(s))
        return s

    def __getattr__(self, n):
        return getattr(self.f, n)


class _WFile:
    def __init__(self, sb, f, nm):
        self.sb, self.f, self.nm = sb, f, nm

    def write(self, s):
        def do():
            n = self.f.write(s)
            self.f.flush()       # the environment may flush at any time; doing it now makes the
            return n             # on-disk temporary deterministic (it is never the hosts path)
        return self.sb.call('write %s %s' % (self.nm, hxs(s)), do)

    def close(self):
        return self.sb.call('close %s' % self.nm, self.f.close)

    def __enter__(self):
        return self

    def __exit__(self, *a):
        self.close()

    def __getattr__(self, n):
        return getattr(self.f, n)


class _PathProxy:
    def __init__(self, sb):
        self._sb = sb

    def exists(self, p):
        return self._sb.call('exists %s' % self._sb.name(p), lambda: os.path.exists(p),
                             lambda r: 'true' if r else 'false', faultable=False)

    def __getattr__(self, n):
        return getattr(os.path, n)


class _OsProxy:
    def __init__(self, sb):
        self._sb = sb
        self.path = _PathProxy(sb)

    def open(self, p, flags, mode=0o777, **k):
        # the real file system honours the flags (O_CREAT without O_TRUNC keeps an existing file's content)
        if not flags & (os.O_WRONLY | os.O_RDWR):
            return os.open(p, flags, mode, **k)
        nm = self._sb.name(p)
        fd = self._sb.call('openw %s' % nm, lambda: os.open(p, flags, mode, **k))
        self._sb.fd_names[fd] = nm
        return fd

    def fdopen(self, fd, mode='r', *a, **k):
        nm = self._sb.fd_names.pop(fd, None)
        if nm is None or not ('w' in mode or 'a' in mode):
            return os.fdopen(fd, mode, *a, **k)
        return _WFile(self._sb, self._sb.open_w(fd, mode, *a, **k), nm)

    def write(self, fd, data):
        nm = self._sb.fd_names.get(fd)
        if nm is None:
            return os.write(fd, data)

        def do():
            data_ = bytes(data)
            return os.write(fd, data_[:self._sb.short_take(len(data_))])
        return self._sb.call('oswrite %s %d' % (nm, len(data)), do, lambda r: 'ok:%d' % r)

    def close(self, fd):
        self._sb.fd_names.pop(fd, None)
        return os.close(fd)

    def stat(self, p, *a, **k):
        return self._sb.call('stat %s' % self._sb.name(p), lambda: os.stat(p, *a, **k),
                             lambda st: 'info:%d.%d.%d' % (st.st_uid, st.st_gid, st.st_mode))

    def link(self, a, b, **k):
        return self._sb.call('link %s %s' % (self._sb.name(a), self._sb.name(b)), lambda: os.link(a, b, **k))

    def chown(self, p, u, g, **k):
        # patched out (would need privileges / change the sandbox): existence is still checked
        return self._sb.call('chown %s %d %d' % (self._sb.name(p), u, g), lambda: os.stat(p) and None)

    def chmod(self, p, m, **k):
        return self._sb.call('chmod %s %d' % (self._sb.name(p), m), lambda: os.chmod(p, m, **k))

    def rename(self, a, b, **k):
        def do():
            if not self._sb.same_fs(a, b):
                self._sb.foreign_tmp.append(str(a))
                raise OSError(errno.EXDEV, 'Invalid cross-device link')
            self._sb.tmp_at_rename.append(self._sb.raw(a))
            return os.rename(a, b, **k)
        return self._sb.call('rename %s %s' % (self._sb.name(a), self._sb.name(b)), do)

    def __getattr__(self, n):
        return getattr(os, n)


class _ShProxy:
    def __init__(self, sb):
        self._sb = sb

    def copyfile(self, a, b, **k):
        return self._sb.call('copy %s %s' % (self._sb.name(a), self._sb.name(b)), lambda: shutil.copyfile(a, b, **k))

    def move(self, a, b, **k):
        sb = self._sb
        if not sb.same_fs(a, b):
            # what shutil.move does across file systems (its own os.rename fails with EXDEV):
            # copy2 = open the target for writing (truncating it), copy, then unlink the source.
            # Each step is a file-system operation of its own, i.e. a crash point.
            sb.foreign_tmp.append(str(a))
            data = sb.raw(a)
            sb.tmp_at_rename.append(data)
            nb = sb.name(b)
            f = sb.call('move-open %s' % nb, lambda: open(b, 'wb'))
            half = len(data) // 2
            for part in (data[:half], data[half:]):
                def wr(part=part):
                    f.write(part)
                    f.flush()
                sb.call('move-copy %s %d' % (nb, len(part)), wr)
            sb.call('move-close %s' % nb, f.close)
            sb.call('move-unlink %s' % sb.name(a), lambda: os.unlink(a))
            return b

        def do():
            sb.tmp_at_rename.append(sb.raw(a))
            return shutil.move(a, b, **k)
        return sb.call('move %s %s' % (sb.name(a), sb.name(b)), do)

    def __getattr__(self, n):
        return getattr(shutil, n)


def classify(e):
    """Exception leaving the real function -> the model's outcome text."""
    if e is None:
        return 'done'
    if isinstance(e, _Crash):
        return 'crashed'
    if isinstance(e, UnicodeDecodeError):
        return 'raised:unicodeDecode'
    if isinstance(e, OSError):
        return 'raised:osError'
    return 'raised:%s' % type(e).__name__


def call_real(sb, inst, kind, hm, port):
    """kind 'w': rewrite_etc_hosts(hm, port); 'r': restore_etc_hosts(hm, port)."""
    fn = sb.fw.rewrite_etc_hosts if kind == 'w' else sb.fw.restore_etc_hosts
    try:
        fn(hm, port)
        inst.outcome = 'done'
    except _Crash as e:
        inst.outcome = classify(e)
    except Exception as e:  # noqa
        inst.outcome = classify(e)
    return inst.outcome


def run_single(sb, kind, hm, port, crash_at=None, err_at=()):
    """One call on the sandbox's current files.  Returns (model line, canonical result line)."""
    inst = Inst('a', port)
    inst.crash_at = crash_at
    inst.err_at = tuple(err_at)
    sb.default = inst
    n0 = len(sb.log)
    if hasattr(sb, 'prev'):
        del sb.prev
    sb.prev = sb.snap()
    with _Verbosity(sb):
        out = call_real(sb, inst, kind, hm, port)
    ops = sb.log[n0:]
    line = '%s %d %s %s %s %s' % (kind, port, 'A' if crash_at is None else crash_at,
                                  ','.join(map(str, err_at)) or '-', '0' if sb.latin else '-', hm_tok(hm.items()))
    # the model names the failing call site; map the real traceback-free outcome onto it
    res = '%s || end=%s %s' % (' | '.join(ops), out, sb.final([port]))
    return line, res, ops, out


SITE = re.compile(r'raised:osError:[a-z-]+')


def norm_model(line):
    """The model says which call raised; the real run only shows an OSError leaving."""
    return SITE.sub('raised:osError', line)


# ------------------------------------------------------------------ the property on real files (oracle)

def py_lines(data):
    """Lines of a file as the property reads them (data = bytes or None)."""
    if data is None:
        return ['']
    s = data.decode('utf-8').replace('\r\n', '\n').replace('\r', '\n')
    return s.rstrip().split('\n')


def trim(ls):
    """What a list of lines reads back as once written out (end-of-file white space is no line)."""
    return py_lines(''.join(l + '\n' for l in ls).encode('utf-8'))


def own(port, line):
    return (MARK % port) in line


def host_lines(port, hm):
    return ['%-30s %s' % ('%s %s' % (hm[n], n), MARK % port) for n in sorted(hm)]


def expected_after(port, hm, before):
    return [l for l in py_lines(before) if not own(port, l)] + host_lines(port, hm)


# ------------------------------------------------------------------ generators

NAME_CH = 'abcdefghijklmnopqrstuvwxyzABCXYZ0123456789-_.'


def gen_name(rng, wild=False):
    r = rng.random()
    if wild and r < 0.25:
        return rng.choice(['', 'a b', 'x#y', 'héllo', 'tab\there', ' em', 'n' * 70,
                           'evil ' + MARK % rng.choice([10, 12300]), '#', ' lead', 'trail '])
    n = rng.choice([1, 3, 8, 12, 25, 26, 27, 40])
    return ''.join(rng.choice(NAME_CH) for _ in range(n))


def gen_ip(rng, wild=False):
    if wild and rng.random() < 0.2:
        return rng.choice(['', '::1', 'fe80::1%eth0', '1.2.3.4 extra', '999.1.1.1'])
    return '.'.join(str(rng.choice([0, 1, 10, 127, 192, 255, rng.randrange(256)])) for _ in range(4))


def gen_map(rng, n, wild=False):
    hm = {}
    while len(hm) < n:
        hm[gen_name(rng, wild)] = gen_ip(rng, wild)
        if wild and len(hm) < n and rng.random() < 0.1:
            break
    return hm


def gen_line(rng, port):
    r = rng.random()
    if r < 0.25:
        return '%s %s' % (gen_ip(rng), gen_name(rng))
    if r < 0.35:
        return '# ' + gen_name(rng) + ' comment'
    if r < 0.45:
        return '%s %s # %s' % (gen_ip(rng), gen_name(rng), gen_name(rng))
    if r < 0.55:
        q = rng.choice([port + 1, port * 10, port // 10 if port >= 10 else port + 7, 1, 12300, port + 100])
        if q == port:
            q += 1
        return '%-30s %s' % ('%s %s' % (gen_ip(rng), gen_name(rng)), MARK % q)       # another port's line
    if r < 0.65:
        return '%-30s %s' % ('%s %s' % (gen_ip(rng), gen_name(rng)), MARK % port)    # stale own line
    if r < 0.70:
        return rng.choice(['', '', ' ', '\t', '  \t '])
    if r < 0.75:
        return (MARK % port)[:-1]                                                    # almost the marker
    if r < 0.80:
        return 'x' + MARK % port + 'y'                                               # marker inside a line
    if r < 0.85:
        return rng.choice(['café 1.1.1.1', 'nb sp', 'nel\u0085x', 'ls x', 'fs\x1cx', 'vt\x0bx', 'ff\x0cx'])
    if r < 0.90:
        return '# sshuttle-firewall-%s AUTOCREATED' % rng.choice(['', 'x', '0%d' % port, '%d ' % port, '+%d' % port])
    return ''.join(rng.choice(NAME_CH + '  #\t') for _ in range(rng.randrange(0, 60)))


def gen_content(rng, port, kind=None):
    """bytes or None (missing)."""
    kind = kind or rng.choice(['missing', 'empty', 'blank', 'nonl', 'crlf', 'cr', 'plain', 'plain', 'plain',
                               'stale-last', 'stale-blank', 'trailing-ws', 'big', 'leading-blank', 'only-own'])
    if kind == 'missing':
        return kind, None
    if kind == 'empty':
        return kind, b''
    if kind == 'blank':
        return kind, rng.choice(['\n', '\n\n\n', '  \n\t\n', ' ', '\r\n\r\n', ' \n', '\x0c\n']).encode('utf-8')
    n = rng.choice([1, 2, 3, 5, 9]) if kind != 'big' else rng.choice([50, 120, 200])
    ls = [gen_line(rng, port) for _ in range(n)]
    if kind == 'stale-last':
        ls.append('%-30s %s' % ('9.9.9.9 stale', MARK % port))
    if kind == 'stale-blank':
        ls += [rng.choice(['', '  ', 'kept   ']), '%-30s %s' % ('9.9.9.9 stale', MARK % port)]
    if kind == 'only-own':
        ls = ['%-30s %s' % ('9.9.9.%d s%d' % (i, i), MARK % port) for i in range(n)]
    if kind == 'leading-blank':
        ls = ['', ''] + ls
    nl = '\n'
    if kind == 'crlf':
        nl = '\r\n'
    if kind == 'cr':
        nl = rng.choice(['\r', '\n', '\r\n'])
    s = nl.join(ls)
    if kind == 'nonl':
        pass
    elif kind == 'trailing-ws':
        s += rng.choice(['  \n', '\n\n', '\n \n\t\n', ' \t', '\n\x0c', '\n \n'])
    else:
        s += nl
    return kind, s.encode('utf-8')


# ------------------------------------------------------------------ cases

class Case:
    def __init__(self, kind):
        self.kind = kind
        self.ins = []
        self.outs = []
        self.desc = None
        self.nontrivial = True

    def add(self, i, o):
        self.ins.append(i)
        self.outs.append(o)


def fs_line(sb, content, bak):
    st = os.stat(sb.hosts) if content is not None else None
    return 'fs %s %s %d %d %d' % (sb.show(content), sb.show(bak), (st.st_mode & 0o7777) if st else 0,
                                  st.st_uid if st else 0, st.st_gid if st else 0)


def setup_fs(sb, content, bak, mode, stale_tmp=None, port=None):
    sb.put(sb.hosts, content, mode if content is not None else None)
    sb.put(sb.bak, bak)
    if stale_tmp is not None:
        sb.put(sb.tmp(port), stale_tmp)


def violation(ctx, key, case, expected, observed, note='', kind='input'):
    ctx.violation(key, case=case, expected=expected, observed=observed, note=note, kind=kind)


def b2s(b):
    return None if b is None else b.decode('utf-8', 'replace')


@leveled
def single_case(ctx, content, bak, hm, port, mode=0o644, err_at=(), crash_all=True, kind='w',
                stale_tmp=None, latin=False, label='single'):
    """Full run (+ every crash point) of one call on a fresh sandbox; oracle on the real files."""
    case = Case(label)
    desc = dict(level=_CUR['level'], short=_CUR['short'], stream='single', content=opt(content), bak=opt(bak), hm=[[n, i] for n, i in hm.items()],
                port=port, mode=mode, err_at=list(err_at), kind=kind, stale_tmp=opt(stale_tmp))
    case.desc = desc
    limited = _CUR['short'].startswith('limit')
    if limited:
        n_ = _CUR['short'].split(':')[1]
        if n_ == 'half':
            try:
                new_text = ''.join(l + '\n' for l in expected_after(port, {} if kind == 'r' else hm, content))
            except UnicodeDecodeError:
                new_text = ''
            _CUR['limit_bytes'] = max(1, len(new_text.encode('utf-8')) // 2)
        else:
            _CUR['limit_bytes'] = int(n_)
        desc['limit_bytes'] = _CUR['limit_bytes']
    with Sandbox() as sb:
        sb.latin = latin
        setup_fs(sb, content, bak, mode, stale_tmp, port)
        case.add(fs_line(sb, content, bak), 'ok')
        if stale_tmp is not None:
            case.add('tmp %d %s' % (port, hx(stale_tmp)), 'ok')
        line, res, ops, out = run_single(sb, kind, dict(hm), port, err_at=err_at)
        case.add(line, res)
        after = sb.raw(sb.hosts)
        seen = list(sb.hosts_seen)
        renamed_ok = any(o.startswith('rename') and '-> ok' in o for o in ops) or \
            (out == 'done' and bool(sb.foreign_tmp))
        foreign_tmp = list(sb.foreign_tmp)
        # the documented non-atomic fallback: shutil.move after a *refused* rename of a temporary that
        # was beside the hosts file.  A rename that fails because the code put its temporary on another
        # file system is the code's own doing and stays inside the atomicity claim.
        moved = any(o.startswith('move') for o in ops) and not foreign_tmp
        nops = len(ops)
    if foreign_tmp:
        violation(ctx, 'C14:atomic:temporary-not-beside-hosts-file', desc,
                  'the file renamed over the hosts file lives in the hosts file\'s directory (only then is the '
                  'final rename atomic; across file systems it fails with EXDEV and the fallback rewrites the '
                  'hosts file in place)', dict(renamed_from=[os.path.basename(x) for x in foreign_tmp],
                                               ops=[o.split(' ;')[0][:80] for o in ops[-8:]]), kind='faults')
    ctx.hist('ops:%s' % ('<=12' if nops <= 12 else '<=40' if nops <= 40 else '>40'))
    ctx.hist('outcome:' + out)
    if moved:
        ctx.hist('branch:move-fallback')
    if any(o.startswith('copy') for o in ops):
        ctx.hist('branch:copy-fallback')
    if any(o.startswith('link') and '-> ok' in o for o in ops):
        ctx.hist('branch:backup-linked')
    # --- oracle 1: the rewrite itself
    skip_restore = kind == 'r' and len(hm) == 0
    if out == 'done' and not latin:
        eff_hm = {} if kind == 'r' else hm
        if skip_restore:
            if after != content:
                violation(ctx, 'C14:restore:touched-file-without-own-hosts', desc,
                          'file untouched (no hosts were ever added)', dict(after=b2s(after)))
        else:
            exp = expected_after(port, eff_hm, content)
            got = py_lines(after)
            if got != trim(exp):
                violation(ctx, 'C14:rewrite:lines-differ', desc,
                          dict(lines=trim(exp)), dict(lines=got, raw=b2s(after)),
                          'lines(after) must be the non-own lines of before, in order, then the host lines')
            if any(own(port, l) for l in py_lines(content)):
                ctx.hist('branch:own-lines-filtered')
    elif out.startswith('raised') and not moved and not renamed_ok and after != content:
        # a failure was reported before anything was renamed: the previous version must still be there
        violation(ctx, 'C14:rewrite:failed-but-file-changed', desc, dict(hosts=b2s(content)),
                  dict(hosts=b2s(after), outcome=out), 'a rewrite that reports a failure leaves the previous file',
                  kind='faults')
    if _CUR['short'] != 'none':
        ctx.hist('short-writes:' + _CUR['short'])
    # --- oracle 2: atomicity at every operation boundary of the full run
    if not moved:
        final_ok = [content] + ([after] if renamed_ok else [])
        for k, h in enumerate(seen):
            if h not in final_ok:
                violation(ctx, 'C14:atomic:partial-content-visible', dict(desc, crash_k=k + 1),
                          'hosts path holds the old or the new complete content after every operation',
                          dict(after_op=k + 1, hosts=b2s(h)), kind='faults')
                break
    # --- every crash point, by really stopping the function there
    if crash_all and not err_at:
        for k in range(nops + 1):
            with Sandbox(snapshots=False) as sb:
                sb.latin = latin
                setup_fs(sb, content, bak, mode, stale_tmp, port)
                _l, _r, kops, kout = run_single(sb, kind, dict(hm), port, crash_at=k)
                hk = sb.raw(sb.hosts)
                ctx.count()
                want_out = 'crashed' if k < nops else out
                if kout != want_out or len(kops) != min(k, nops):
                    ctx.corr_break('crash-run', case=dict(desc, crash_k=k), impl='%s after %d ops' % (kout, len(kops)),
                                   model='%s after %d ops' % (want_out, min(k, nops)),
                                   note='stopping the real function at k did not stop it there')
                if not moved and hk not in ([content] + ([after] if renamed_ok else [])):
                    violation(ctx, 'C14:atomic:partial-content-visible', dict(desc, crash_k=k),
                              'after a crash at any point the hosts path holds the old or the new complete content',
                              dict(crash_k=k, hosts=b2s(hk)), kind='faults')
                    break
                # the state at crash point k is the state after op k of the full run
                if k >= 1 and k <= len(seen) and hk != seen[k - 1]:
                    ctx.corr_break('crash-run', case=dict(desc, crash_k=k), impl=b2s(hk), model=b2s(seen[k - 1]),
                                   note='state at crash point k differs from the state after op k of the full run')
        ctx.hist('crash-points', nops + 1)
        # explicit model run for one crash point
        k = ctx.rng.randrange(0, nops + 1)
        with Sandbox() as sb:
            sb.latin = latin
            setup_fs(sb, content, bak, mode, stale_tmp, port)
            case.add(fs_line(sb, content, bak), 'ok')
            if stale_tmp is not None:
                case.add('tmp %d %s' % (port, hx(stale_tmp)), 'ok')
            line, res, _o, _out = run_single(sb, kind, dict(hm), port, crash_at=k)
            case.add(line, res)
    if limited:
        case.ins, case.outs = [], []     # oracle only: the model has no disk-full answer for a write
    return case


@leveled
def session_case(ctx, content, updates, port):
    """One instance: update history then restore (optionally other instances' serial activity between)."""
    case = Case('session')
    desc = dict(level=_CUR['level'], short=_CUR['short'], stream='session', content=opt(content), updates=[list(u) for u in updates], port=port)
    case.desc = desc
    hm = {}
    with Sandbox() as sb:
        setup_fs(sb, content, None, 0o644)
        case.add(fs_line(sb, content, None), 'ok')
        base = [l for l in py_lines(content) if not own(port, l)]
        for j, (n, i) in enumerate(updates):
            hm[n] = i
            line, res, _ops, out = run_single(sb, 'w', hm, port)
            case.add(line, res)
            got = py_lines(sb.raw(sb.hosts))
            if got != base + host_lines(port, hm):
                violation(ctx, 'C14:session:lines-differ', dict(desc, upto=j + 1),
                          dict(lines=base + host_lines(port, hm)), dict(lines=got), kind='history')
                break
        line, res, _ops, out = run_single(sb, 'r', hm, port)
        case.add(line, res)
        got_raw = sb.raw(sb.hosts)
        if updates:
            if py_lines(got_raw) != trim(base):
                violation(ctx, 'C14:session:restore-differs', desc, dict(lines=trim(base)),
                          dict(lines=py_lines(got_raw)), 'after restore exactly the original non-own lines',
                          kind='history')
        elif got_raw != content:
            violation(ctx, 'C14:restore:touched-file-without-own-hosts', desc, 'file untouched', dict(after=b2s(got_raw)),
                      kind='history')
    ctx.hist('session-len:%s' % ('0' if not updates else '<=5' if len(updates) <= 5 else '>5'))
    # the model keeps the dict order of insertion; check setHost separately
    case.add('lib sethost - ' + ' '.join('%s:%s' % (hxs(n), hxs(i)) for n, i in updates) if updates else 'lib sethost -',
             hm_tok(hm.items()))
    return case


@leveled
def serial_case(ctx, content, events):
    """Several instances, rewrites not overlapping.  events: list of (port, kind, hm)."""
    case = Case('serial')
    desc = dict(level=_CUR['level'], short=_CUR['short'], stream='serial', content=opt(content), events=[[p, k, [[n, i] for n, i in hm.items()]] for p, k, hm in events])
    case.desc = desc
    ports = sorted({p for p, _k, _h in events})
    cur = {}
    with Sandbox() as sb:
        setup_fs(sb, content, None, 0o644)
        case.add(fs_line(sb, content, None), 'ok')
        base0 = [l for l in py_lines(content) if not any(own(p, l) for p in ports)]
        for j, (p, k, hm) in enumerate(events):
            line, res, _ops, out = run_single(sb, k, dict(hm), p)
            case.add(line, res)
            if k == 'w' or len(hm) > 0:
                cur[p] = dict(hm) if k == 'w' else {}
            got = py_lines(sb.raw(sb.hosts))
            bad = None
            gb = [l for l in got if not any(own(q, l) for q in ports)]
            # with no block left, end-of-file white space of the base lines is not a line
            if gb != base0 and gb != trim(base0):
                bad = 'other-lines-changed'
            for q in cur:
                if [l for l in got if own(q, l)] != host_lines(q, cur[q]):
                    bad = bad or 'block-wrong'
            if bad:
                violation(ctx, 'C14:serial:' + bad, dict(desc, upto=j + 1),
                          dict(base=base0, blocks={q: host_lines(q, cur[q]) for q in cur}), dict(lines=got),
                          'instances whose rewrites do not overlap keep the original lines and one block each',
                          kind='history')
                break
    return case


def run_threads(sb, specs, sched, finish=True):
    """specs: [(tag, kind, hm, port)] for 'a' and 'b'; sched: iterable of tags.  Returns the executed
    tag sequence and outcomes."""
    insts = {}
    threads = {}
    for tag, kind, hm, port in specs:
        inst = Inst(tag, port)
        inst.scheduled = True
        insts[tag] = inst

        def body(inst=inst, kind=kind, hm=hm, port=port):
            try:
                call_real(sb, inst, kind, dict(hm), port)
            finally:
                inst.finished = True
                inst.ready.release()
        t = threading.Thread(target=body, daemon=True)
        t.c14_inst = inst
        threads[tag] = t
    sb.prev = sb.snap()
    with _Verbosity(sb):
        for tag in insts:
            threads[tag].start()
            insts[tag].ready.acquire()          # at its first gate, or finished
        for tag in sched:
            inst = insts[tag]
            if inst.finished:
                continue
            inst.go.release()
            inst.ready.acquire()
        for tag in ('a', 'b'):
            inst = insts[tag]
            while not inst.finished:
                if not finish:
                    inst.abort = True
                inst.go.release()
                inst.ready.acquire()
        for t in threads.values():
            t.join(5)
    return list(sb.tags), {t: insts[t].outcome for t in insts}


@leveled
def inter_case(ctx, content, pre, specs, sched, label='inter'):
    """pre: serial events establishing the starting state; then the two calls of `specs` interleaved."""
    case = Case(label)
    desc = dict(level=_CUR['level'], short=_CUR['short'], stream='inter', content=opt(content), pre=[[p, k, [[n, i] for n, i in hm.items()]] for p, k, hm in pre],
                specs=[[t, k, [[n, i] for n, i in hm.items()], p] for t, k, hm, p in specs], sched=''.join(sched))
    case.desc = desc
    (ta, ka, hma, pa), (tb, kb, hmb, pb) = specs
    with Sandbox() as sb:
        setup_fs(sb, content, None, 0o644)
        case.add(fs_line(sb, content, None), 'ok')
        cur = {}
        for p, k, hm in pre:
            line, res, _ops, _out = run_single(sb, k, dict(hm), p)
            case.add(line, res)
            cur[p] = dict(hm) if k == 'w' else {}
        start = sb.raw(sb.hosts)
        sb.log, sb.tags, sb.hosts_seen, sb.tmp_at_rename = [], [], [], []
        tags, outs = run_threads(sb, specs, sched)
        final = sb.raw(sb.hosts)
        line = 'inter %d %s %s %d %s %s %s' % (pa, ka, hm_tok(hma.items()), pb, kb, hm_tok(hmb.items()), ''.join(tags) or '-')
        res = '%s || end=%s,%s %s same=true' % (' | '.join(sb.log), outs['a'], outs['b'], sb.final([pa, pb]))
        case.add(line, res)
        seen = list(sb.hosts_seen)
        complete = [start] + list(sb.tmp_at_rename)
    for p, k, hm in ((pa, ka, hma), (pb, kb, hmb)):
        if k == 'w' or len(hm) > 0:
            cur[p] = dict(hm) if k == 'w' else {}
    ports = sorted(set(cur) | {pa, pb})
    s = ''.join(tags)
    serial = re.fullmatch(r'a*b*|b*a*', s) is not None
    ctx.hist('inter:' + ('serial' if serial else 'overlapping'))
    got = py_lines(final)
    base0 = [l for l in py_lines(content) if not any(own(q, l) for q in ports)]
    gb = [l for l in got if not any(own(q, l) for q in ports)]
    prefix = 'C14:serial:' if serial else 'C14:concurrent:'
    if gb != base0 and gb != trim(base0):
        violation(ctx, prefix + 'other-lines-changed', desc, dict(base=base0), dict(lines=got), kind='ops')
    for h in seen:
        if h not in complete:
            violation(ctx, prefix + 'partial-content-visible', desc,
                      'hosts path always holds the starting content or a completely written temporary',
                      dict(hosts=b2s(h)), kind='ops')
            break
    for q in sorted(cur):
        blk = [l for l in got if own(q, l)]
        want = host_lines(q, cur[q])
        if blk != want:
            if serial:
                key = 'C14:serial:block-wrong'
            elif not want:
                key = 'C14:concurrent:resurrection'
            else:
                key = 'C14:concurrent:lost-update'
            violation(ctx, key, desc, dict(port=q, block=want), dict(port=q, block=blk, lines=got),
                      'two instances whose read-modify-write sequences overlap' if not serial else
                      'non-overlapping rewrites', kind='ops')
    return case


# ------------------------------------------------------------------ crash, then a new session on the same port

@leveled
def recovery_case(ctx, content, port, hm1, crash_back, hm2, admin=None, admin_edit=False, first_kind='w'):
    """A helper dies `crash_back` operations before the end of a rewrite (1 = just before the rename), leaving
    its temporary behind; optionally the admin then edits the hosts file; then a NEW session on the same port
    publishes `hm2` and restores.  The stale temporary must not leak into the hosts file."""
    case = Case('recovery')
    desc = dict(level=_CUR['level'], short=_CUR['short'], stream='recovery', content=opt(content), port=port, hm1=[[n, i] for n, i in hm1.items()],
                crash_back=crash_back, hm2=[[n, i] for n, i in hm2.items()], admin=opt(admin),
                admin_edit=admin_edit, first_kind=first_kind)
    case.desc = desc
    with Sandbox(snapshots=False) as sb:
        setup_fs(sb, content, None, 0o644)
        if first_kind == 'r':
            run_single(sb, 'w', dict(hm1), port)          # published completely, the restore is what dies
        _l, _r, ops, _o = run_single(sb, first_kind, dict(hm1), port)
        nops = len(ops)
    with Sandbox() as sb:
        setup_fs(sb, content, None, 0o644)
        case.add(fs_line(sb, content, None), 'ok')
        if first_kind == 'r':
            line, res, _ops, _out = run_single(sb, 'w', dict(hm1), port)
            case.add(line, res)
        k = max(0, nops - crash_back)
        line, res, _ops, out = run_single(sb, first_kind, dict(hm1), port, crash_at=k)
        case.add(line, res)
        stale = sb.raw(sb.tmp(port))
        if admin_edit:
            bak = sb.raw(sb.bak)
            if os.path.exists(sb.hosts):
                os.unlink(sb.hosts)      # the editor replaces the file: the hard-linked backup keeps the old content
            sb.put(sb.hosts, admin, 0o644 if admin is not None else None)
            case.add(fs_line(sb, admin, bak), 'ok')
            if stale is not None:
                case.add('tmp %d %s' % (port, hx(stale)), 'ok')
        before = sb.raw(sb.hosts)
        ctx.hist('recovery:stale-tmp=%s' % ('none' if stale is None else 'shorter' if len(stale) <= len(before or b'')
                                            else 'longer-than-hosts'))
        line, res, _ops, out2 = run_single(sb, 'w', dict(hm2), port)
        case.add(line, res)
        after = sb.raw(sb.hosts)
        if out2 == 'done':
            exp = trim(expected_after(port, hm2, before))
            if py_lines(after) != exp:
                violation(ctx, 'C14:recovery:lines-differ', desc, dict(lines=exp),
                          dict(lines=py_lines(after), stale_temporary=b2s(stale)),
                          'a new session after a crash: only its own host lines are added, nothing of the dead '
                          'session\'s temporary may appear', kind='history')
        line, res, _ops, out3 = run_single(sb, 'r', dict(hm2), port)
        case.add(line, res)
        if hm2 and out3 == 'done':
            exp = trim([l for l in py_lines(before) if not own(port, l)])
            if py_lines(sb.raw(sb.hosts)) != exp:
                violation(ctx, 'C14:recovery:restore-differs', desc, dict(lines=exp),
                          dict(lines=py_lines(sb.raw(sb.hosts)), stale_temporary=b2s(stale)), kind='history')
    return case


# ------------------------------------------------------------------ complete helper sessions (firewall.main)

class _FakeMethod:
    """Stands in for the packet-filter backend (the OS boundary of firewall.main)."""
    name = 'fake'

    def __init__(self, fail, exc, setup_fails):
        self.fail = set(fail)
        self.exc = exc
        self.setup_fails = setup_fails
        self.calls = []

    def is_supported(self):
        return True

    def setup_firewall(self, port, dnsport, nslist, family, subnets, udp, user, group, tmark):
        self.calls.append(('setup', family))
        if self.setup_fails:
            raise self._exc('packet filter set-up failed')

    def wait_for_firewall_ready(self, pid):
        raise NotImplementedError()

    def firewall_command(self, line):
        return False

    def _exc(self, msg):
        import sshuttle.helpers as helpers
        return {'fatal': helpers.Fatal, 'oserror': OSError, 'runtime': RuntimeError}[self.exc](msg)

    def restore_firewall(self, port, family, udp, user, group):
        self.calls.append(('restore', family))
        if family in self.fail:
            raise self._exc('packet filter command returned 1')


class _Stdin:
    """The helper's stdin: the given lines, then EOF or a read error."""

    def __init__(self, data, then_error, on_eof=None):
        import io
        self.f = io.BytesIO(data)
        self.then_error = then_error
        self.on_eof = on_eof

    def readline(self, n=-1):
        r = self.f.readline(n)
        if not r and self.on_eof:
            self.on_eof()
        if not r and self.then_error:
            raise IOError(errno.ECONNRESET, 'parent went away')
        return r


class _DyingStream:
    """The helper's stderr / stdout (sys.stderr, sys.stdout as helpers.log uses them): swallows output,
    and from a chosen point on every write and flush fails -- `after` = number of writes that still
    succeed, or 'eof' = it dies when the helper's stdin reaches its end (the terminal went away)."""

    def __init__(self, kind, after):
        self.kind, self.after = kind, after
        self.n = 0
        self.dead = False

    def _chk(self):
        if self.dead or (isinstance(self.after, int) and self.n >= self.after):
            if self.kind == 'eio':
                raise OSError(errno.EIO, 'Input/output error')
            if self.kind == 'epipe':
                raise BrokenPipeError(errno.EPIPE, 'Broken pipe')
            raise ValueError('I/O operation on closed file')

    def write(self, s):
        self._chk()
        self.n += 1
        return len(s)

    def flush(self):
        self._chk()

    def isatty(self):
        return False


@leveled
def helper_case(ctx, content, hosts, with_v4, with_v6, fail, end='eof', exc='fatal', setup_fails=False,
                fs_fail=(), verbose=0, log_fail=None):
    """One complete helper session through the real firewall.main() on the sandbox hosts file.
    hosts: list of (name, ip) HOST lines; fail: families ('4', '6') whose teardown raises;
    end: 'eof' | 'ioerror' | 'bad-command'; fs_fail: [(operation name, occurrence)] file-system calls of
    the session that are refused once with OSError (e.g. ('chown', 1) = the chown of the first HOST);
    verbose: helpers.verbose (-v count) with the REAL helpers.log/debug*; log_fail = (kind, after): the helper's
    stderr and stdout fail with EIO / EPIPE / ValueError(closed file) from that point on."""
    import io
    import socket
    if not verbose and not log_fail and _CUR['level']:
        verbose = 3 if _CUR['level'] == 13 else _CUR['level']
        log_fail = ('eio', 0) if _CUR['level'] == 13 else None
        from_rotation = True
    else:
        from_rotation = False
    case = Case('helper')
    desc = dict(level=_CUR['level'], short=_CUR['short'], stream='helper', content=opt(content), hosts=[list(h) for h in hosts], v4=with_v4, v6=with_v6,
                fail=sorted(fail), end=end, exc=exc, setup_fails=setup_fails, fs_fail=[list(x) for x in fs_fail],
                verbose=verbose, log_fail=list(log_fail) if log_fail else None)
    case.desc = desc
    p6, p4 = (12300 if with_v6 else 0), 12299
    port = p6 or p4
    fams = {'4': int(socket.AF_INET), '6': int(socket.AF_INET6)}
    lines = ['ROUTES']
    if with_v4:
        lines.append('%d,24,0,10.9.0.0,0,0' % fams['4'])
    if with_v6:
        lines.append('%d,64,0,2404:6800:4004:80c::,0,0' % fams['6'])
    lines += ['NSLIST', 'PORTS %d,%d,0,0' % (p6, p4), 'GO 0 - - 0x01 %d' % os.getpid()]
    lines += ['HOST %s,%s' % (n, i) for n, i in hosts]
    if end == 'bad-command':
        lines.append('BOGUS command')
    data = ('\n'.join(lines) + '\n').encode('ASCII')
    method = _FakeMethod([fams[f] for f in fail], exc, setup_fails)
    with Sandbox(snapshots=False) as sb:
        fw = sb.fw
        import sshuttle.helpers as helpers
        setup_fs(sb, content, None, 0o644)
        sb.default = Inst('a', port)
        sb.default.fail_ops = {(k, int(n)) for k, n in fs_fail}
        saved = dict(setup_daemon=fw.setup_daemon, get_method=fw.get_method, restore=fw.restore_etc_hosts,
                     flush=fw.flush_systemd_dns_cache, pid=fw.sshuttle_pid, prefix=helpers.logprefix)

        def in_restore(hm, p, real=fw.restore_etc_hosts):
            sb.in_restore = True          # a refusal from here on hits the clean-up itself
            return real(hm, p)
        fw.restore_etc_hosts = in_restore
        stdout = io.BytesIO()
        import sys as _sys
        saved_std = (_sys.stdout, _sys.stderr, helpers.verbose, fw.log)
        dying = _DyingStream(*log_fail) if log_fail else None

        def on_eof():
            if dying is not None and dying.after == 'eof':
                dying.dead = True
        if verbose or log_fail:
            # the real logging path: helpers.log / debug1-3 writing to the process's stderr
            fw.log = sb.saved['log']
            helpers.verbose = verbose
            sink = dying or _DyingStream('closed', 1 << 60)
            _sys.stdout = sink
            _sys.stderr = sink
        fw.setup_daemon = lambda: (_Stdin(data, end == 'ioerror', on_eof), stdout)
        fw.get_method = lambda name: method
        fw.flush_systemd_dns_cache = lambda: None
        ended = 'returned'
        try:
            try:
                fw.main('fake', False)
            except Exception as e:  # noqa
                ended = type(e).__name__
        finally:
            _sys.stdout, _sys.stderr, helpers.verbose, fw.log = saved_std
            fw.setup_daemon = saved['setup_daemon']
            fw.get_method = saved['get_method']
            fw.restore_etc_hosts = saved['restore']
            fw.flush_systemd_dns_cache = saved['flush']
            fw.sshuttle_pid = saved['pid']
            helpers.logprefix = saved['prefix']
        after = sb.raw(sb.hosts)
        renames = len([o for o in sb.log if o.startswith(('rename', 'move')) and '-> ok' in o])
        cleanup_refused = getattr(sb, 'refused_in_restore', False)
    if cleanup_refused:
        # the injected refusal hit the clean-up rewrite itself: it cannot succeed, nothing to demand
        ctx.hist('helper:fault-hit-the-clean-up-itself')
        return case
    ctx.hist('helper:end=%s,fail=%s%s' % (end, ''.join(sorted(fail)) or '-',
                                          ',fs=' + '+'.join(k for k, _n in fs_fail) if fs_fail else ''))
    published = bool(hosts) and not setup_fails
    tail = '-after-fs-error' if fs_fail else '-after-log-error' if log_fail and not from_rotation else \
        '-after-teardown-error' if fail else '-at-verbosity-%d' % _CUR['level'] if from_rotation else ''
    if verbose or log_fail:
        ctx.hist('helper:verbose=%d,log=%s' % (verbose, '%s@%s' % tuple(log_fail) if log_fail else 'ok'))
    if published:
        base = [l for l in py_lines(content) if not own(port, l)]
        got = py_lines(after)
        left = [l for l in got if own(port, l)]
        if renames < len(hosts) and not fs_fail:
            ctx.corr_break('helper', case=desc, impl='%d rewrites' % renames, model='>= %d' % len(hosts),
                           note='the session never published its HOST lines')
        if left:
            violation(ctx, 'C14:session-end:marked-lines-remain' + tail, desc,
                      'when the helper ends none of its marked lines is left in the hosts file',
                      dict(left=left, main_ended=ended, method_calls=[c[0] + str(c[1]) for c in method.calls]),
                      'helper session through firewall.main(); packet-filter teardown raising for %s'
                      % (sorted(fail) or 'no family'), kind='history')
        elif got != trim(base):
            violation(ctx, 'C14:session-end:other-lines-changed' + tail, desc, dict(lines=trim(base)),
                      dict(lines=got, main_ended=ended), kind='history')
    elif after != content:
        violation(ctx, 'C14:session-end:touched-file-without-own-hosts', desc, 'file untouched',
                  dict(after=b2s(after), main_ended=ended), kind='history')
    return case


# ------------------------------------------------------------------ host tables at scale (firewall.main)

def scale_hosts(n, reannounce):
    """The HOST announcements of a scale session, from its generator parameters: n distinct names, then
    `reannounce` of them again with a new address (the last one back to its first address: A -> B -> A)."""
    ann = [('h%04d.scale.example' % i, '10.%d.%d.%d' % (i >> 16 & 255, i >> 8 & 255, i & 255)) for i in range(n)]
    for j in range(reannounce):
        i = (j * 37 + 5) % n
        ann.append((ann[i][0], '172.16.%d.%d' % (j >> 8 & 255, j & 255)))
    if reannounce and n:
        ann.append(ann[(5) % n])
    return ann


class _ChownOnly:
    """`os` as firewall.py sees it in a scale session: everything real except chown (patched out)."""

    def chown(self, *a, **k):
        return None

    def __getattr__(self, n):
        return getattr(os, n)


@leveled
def scale_case(ctx, content, n, reannounce, with_v6=False):
    """One complete helper session through the real firewall.main() with a host table of `n` names.
    The hosts file is inspected while the session is still up (all announcements consumed, the client
    idle: the moment stdin would block) and after the helper ended.  Real open/os/shutil (no per-write
    instrumentation: the table is large), os.chown patched out."""
    import io
    import socket
    import sys as _sys
    import sshuttle.firewall as fw
    import sshuttle.helpers as helpers
    case = Case('scale')
    level = _CUR['level']
    desc = dict(level=level, stream='scale', content=opt(content), n=n, reannounce=reannounce, v6=with_v6)
    case.desc = desc
    p6, p4 = (12300 if with_v6 else 0), 12299
    port = p6 or p4
    ann = scale_hosts(n, reannounce)
    last = {}
    for name, ip in ann:
        last[name] = ip
    lines = ['ROUTES', '%d,24,0,10.9.0.0,0,0' % int(socket.AF_INET)]
    if with_v6:
        lines.append('%d,64,0,2404:6800:4004:80c::,0,0' % int(socket.AF_INET6))
    lines += ['NSLIST', 'PORTS %d,%d,0,0' % (p6, p4), 'GO 0 - - 0x01 %d' % os.getpid()]
    lines += ['HOST %s,%s' % (nm, ip) for nm, ip in ann]
    data = ('\n'.join(lines) + '\n').encode('ASCII')
    method = _FakeMethod([], 'fatal', False)
    root = tempfile.mkdtemp(prefix='c14s_')
    hosts = os.path.join(root, 'hosts')
    seen = {}
    saved = dict(HOSTSFILE=fw.HOSTSFILE, os=fw.os, log=fw.log, setup_daemon=fw.setup_daemon,
                 get_method=fw.get_method, flush=fw.flush_systemd_dns_cache, pid=fw.sshuttle_pid,
                 prefix=helpers.logprefix, verbose=helpers.verbose, out=_sys.stdout, err=_sys.stderr)

    def raw():
        try:
            with open(hosts, 'rb') as f:
                return f.read()
        except FileNotFoundError:
            return None

    def on_eof():
        seen.setdefault('up', raw())     # the client has gone idle, the session is still up

    ended = 'returned'
    try:
        if content is not None:
            with open(hosts, 'wb') as f:
                f.write(content)
        fw.HOSTSFILE = hosts
        fw.os = _ChownOnly()
        fw.setup_daemon = lambda: (_Stdin(data, False, on_eof), io.BytesIO())
        fw.get_method = lambda name: method
        fw.flush_systemd_dns_cache = lambda: None
        helpers.verbose = 3 if level == 13 else level
        if level:
            stream = _DyingStream('eio', 0) if level == 13 else _DyingStream('closed', 1 << 60)
            _sys.stdout = stream
            _sys.stderr = stream
        else:
            fw.log = lambda s: None
        try:
            fw.main('fake', False)
        except Exception as e:  # noqa
            ended = type(e).__name__
        after = raw()
    finally:
        _sys.stdout, _sys.stderr = saved['out'], saved['err']
        helpers.verbose = saved['verbose']
        helpers.logprefix = saved['prefix']
        fw.HOSTSFILE, fw.os, fw.log = saved['HOSTSFILE'], saved['os'], saved['log']
        fw.setup_daemon, fw.get_method = saved['setup_daemon'], saved['get_method']
        fw.flush_systemd_dns_cache, fw.sshuttle_pid = saved['flush'], saved['pid']
        shutil.rmtree(root, ignore_errors=True)
    ctx.hist('scale:n=%d' % n)
    base = [l for l in py_lines(content) if not own(port, l)]
    want_block = host_lines(port, last)
    if 'up' not in seen:
        ctx.corr_break('scale', case=desc, impl='stdin never reached its end (%s)' % ended, model='session consumed its input')
        return case
    got = py_lines(seen['up']) if n else None
    if n:
        blk = [l for l in got if own(port, l)]
        rest = [l for l in got if not own(port, l)]
        if blk != want_block:
            missing = [l for l in want_block if l not in blk]
            extra = [l for l in blk if l not in want_block]
            violation(ctx, 'C14:scale:marked-lines-differ-from-announced-map-while-up', desc,
                      dict(marked_lines=len(want_block), note='one marked line per announced name, with its last address'),
                      dict(marked_lines=len(blk), missing=missing[:4], n_missing=len(missing), stale_or_extra=extra[:4],
                           n_stale_or_extra=len(extra)),
                      'hosts file inspected while the session is up, after all %d announcements were consumed'
                      % len(ann), kind='history')
        if rest != base:
            violation(ctx, 'C14:scale:other-lines-changed-while-up', desc, dict(lines=base[:6]), dict(lines=rest[:6]),
                      kind='history')
        if py_lines(after) != trim(base):
            left = [l for l in py_lines(after) if own(port, l)]
            violation(ctx, 'C14:scale:lines-differ-after-end', desc, dict(lines=trim(base)[:6]),
                      dict(lines=py_lines(after)[:6], marked_left=len(left), main_ended=ended), kind='history')
    elif after != content or seen['up'] != content:
        violation(ctx, 'C14:session-end:touched-file-without-own-hosts', desc, 'file untouched',
                  dict(after=b2s(after), main_ended=ended), kind='history')
    return case


# ------------------------------------------------------------------ library streams

def lib_cases(ctx):
    rng = ctx.rng
    case = Case('lib')
    texts = ['', 'a', 'a\n', 'a\n\n', '\n', ' a \n b \t\n', 'a\r\nb\r\n', 'a\rb', 'a\r', '\r\n', '\r\r\n\n', 'x ',
             'x\u0085', 'x y ', 'x\x1c\x1d\x1e\x1f', 'x\x0b\x0c', '　', 'a​', 'a﻿', 'a\x00 ']
    for _ in range(ctx.scale(60, 600)):
        texts.append(''.join(rng.choice('ab \n\r\t# \x0c x') for _ in range(rng.randrange(0, 14))))
    d = tempfile.mkdtemp(prefix='c14lib_')
    try:
        for t in texts:
            case.add('lib rstrip ' + hxs(t), hxs(t.rstrip()))
            case.add('lib nonblank ' + hxs(t), '1' if t.strip() else '0')
            case.add('lib split ' + hxs(t), ','.join(hxs(x) for x in t.split('\n')))
            p = os.path.join(d, 'f')
            with open(p, 'wb') as f:
                f.write(t.encode('utf-8'))
            with open(p) as f:
                rd = f.read()
            case.add('lib normnl ' + hxs(t), hxs(rd))
            case.add('lib lines ' + hxs(t), ','.join(hxs(x) for x in py_lines(t.encode('utf-8'))))
    finally:
        shutil.rmtree(d, ignore_errors=True)
    case.add('lib lines N', '-')
    for _ in range(ctx.scale(80, 800)):
        port = rng.choice([0, 1, 9, 10, 12300, 65535, rng.randrange(65536)])
        q = rng.choice([port, port * 10, port + 1, port // 10, 1])
        l = gen_line(rng, port)
        case.add('lib find %s %s' % (hxs(MARK % q), hxs(l)), '1' if l.find(MARK % q) >= 0 else '0')
        pat = rng.choice(['', 'a', 'ab', '#', l[1:4], l[-3:]])
        case.add('lib find %s %s' % (hxs(pat), hxs(l)), '1' if l.find(pat) >= 0 else '0')
        case.add('lib marker %d' % port, hxs(MARK % port))
        hm = gen_map(rng, rng.choice([0, 1, 2, 5, 12]), wild=True)
        case.add('lib hostlines %d %s' % (port, hm_tok(hm.items())), ','.join(hxs(x) for x in host_lines(port, hm)))
    cps = [0, 8, 9, 13, 14, 27, 28, 32, 33, 0x85, 0xa0, 0x1680, 0x180e, 0x2000, 0x200a, 0x200b, 0x2028, 0x2029,
           0x202f, 0x205f, 0x3000, 0xfeff, 0x10ffff] + [rng.randrange(0x110000) for _ in range(200)]
    case.add('lib isspace ' + ','.join(map(str, cps)), ''.join('1' if chr(c).isspace() else '0' for c in cps))
    case.nontrivial = True
    return case


# ------------------------------------------------------------------ the run

WITNESS_LOST = dict(content=b'127.0.0.1 localhost\n', pre=[],
                    specs=[('a', 'w', {'alpha': '10.0.0.1'}, 12300), ('b', 'w', {'beta': '10.0.0.2'}, 12299)],
                    sched='a' + 'b' * 40)
WITNESS_RESURRECT = dict(content=b'127.0.0.1 localhost\n',
                         pre=[(12300, 'w', {'alpha': '10.0.0.1'}), (12299, 'w', {'beta': '10.0.0.2'})],
                         specs=[('a', 'w', {'alpha': '10.0.0.1', 'gamma': '10.0.0.3'}, 12300),
                                ('b', 'r', {'beta': '10.0.0.2'}, 12299)],
                         sched='a' + 'b' * 40)


def gen_cases(ctx):
    rng = ctx.rng
    rot_reset(ctx.seed)
    cases = [lib_cases(ctx)]
    # the repository's own test, first
    cases.append(single_case(ctx, b'1.2.3.3 existing\n', None, {'myhost': '1.2.3.4', 'myotherhost': '1.2.3.5'}, 10))
    # fixed boundary contents
    fixed = [None, b'', b'\n', b'a', b'a\n\n', b'a \n', b'a\r\nb\r\n', b'a\rb\r', b'\r', b'# c\n',
             ('%s\n' % (MARK % 10)).encode(), ('x\n\n%s\n' % (MARK % 10)).encode(), ('x  \n%s' % (MARK % 10)).encode(),
             ('k\n%s\n' % (MARK % 100)).encode(), ('k\n%s\n' % (MARK % 1)).encode(), 'café \n'.encode('utf-8')]
    for c in fixed:
        for hm in ({}, {'h': '1.1.1.1'}):
            cases.append(single_case(ctx, c, None, hm, 10, label='single-fixed'))
    cases.append(single_case(ctx, b'ok\n\xff\xfe bad\n', None, {'h': '1.1.1.1'}, 10, latin=True, label='single-undecodable'))
    cases.append(single_case(ctx, b'a\n', b'older backup\n', {'h': '1.1.1.1'}, 10, label='single-bak-present'))
    cases.append(single_case(ctx, b'a\n', None, {'h': '1.1.1.1'}, 10, stale_tmp=b'left over from a crash\n', label='single-stale-tmp'))
    cases.append(single_case(ctx, b'a\n', None, {'h': '1.1.1.1'}, 10, mode=0o600, label='single-mode'))
    # short writes on the file the code writes (os.write level or file-object level, whichever it uses):
    # per-call chunks, and a size limit / full disk after which writes fail with ENOSPC
    big = ''.join('10.%d.%d.%d bighost%03d.example.net # line %d\n' % (i // 250, i % 250, i % 7, i, i)
                  for i in range(110)).encode()          # > 4096 bytes
    for sm, cont, crash in (('chunk:1', b'a\nb\n', True), ('chunk:100', big, False), ('chunk:4096', big, False),
                            ('chunk:half', big, False), ('limit:1', b'a\nb\n', True), ('limit:100', big, False),
                            ('limit:half', big, False), ('limit:4096', big, False)):
        cases.append(single_case(ctx, cont, None, {'h': '1.1.1.1', 'g': '2.2.2.2'}, 10, crash_all=crash,
                                 label='short-write', short=sm))
    cases.append(single_case(ctx, big, None, {'h': '1.1.1.1'}, 10, crash_all=False, kind='r', label='short-write',
                             short='limit:half'))
    # generated single cases with all crash points
    for i in range(ctx.scale(40, 600)):
        port = rng.choice([1, 10, 99, 1024, 12300, 12299, 65535])
        kind, content = gen_content(rng, port, 'big' if i % 20 == 19 else None)
        nh = rng.choice([0, 0, 1, 2, 3, 8, 20, 50]) if kind != 'big' else rng.choice([0, 3, 50])
        hm = gen_map(rng, nh, wild=rng.random() < 0.3)
        bak = rng.choice([None, None, None, b'previous backup\n'])
        ctx.hist('content:' + kind)
        ctx.hist('hosts:%s' % ('0' if not hm else '<=3' if len(hm) <= 3 else '<=20' if len(hm) <= 20 else '>20'))
        cases.append(single_case(ctx, content, bak, hm, port, mode=rng.choice([0o644, 0o644, 0o600, 0o664]),
                                 crash_all=(kind != 'big' or i % 40 == 19 or ctx.thorough), label='single'))
    # restore directly (empty / non-empty map)
    for _ in range(ctx.scale(6, 60)):
        port = rng.choice([10, 12300])
        kind, content = gen_content(rng, port)
        hm = gen_map(rng, rng.choice([0, 0, 1, 4]))
        cases.append(single_case(ctx, content, None, hm, port, kind='r', label='restore'))
    # a refused operation at every index (small cases), plus the two double faults that reach the fallbacks' failures
    for content in (b'a\n', None, ('k\n%s\n' % (MARK % 10)).encode()):
        hm = {'h': '1.1.1.1'}
        with Sandbox(snapshots=False) as sb:
            setup_fs(sb, content, None, 0o644)
            _l, _r, ops, _o = run_single(sb, 'w', dict(hm), 10)
        for j, o in enumerate(ops):
            if o.startswith('exists'):
                continue
            cases.append(single_case(ctx, content, None, hm, 10, err_at=(j,), label='fault'))
            if o.startswith(('link', 'rename')):
                cases.append(single_case(ctx, content, None, hm, 10, err_at=(j, j + 1), label='fault'))
    for _ in range(ctx.scale(10, 150)):
        port = 10
        kind, content = gen_content(rng, port)
        hm = gen_map(rng, rng.choice([0, 1, 3]))
        with Sandbox(snapshots=False) as sb:
            setup_fs(sb, content, None, 0o644)
            _l, _r, ops, _o = run_single(sb, 'w', dict(hm), port)
        idx = [j for j, o in enumerate(ops) if not o.startswith('exists')]
        j = rng.choice(idx)
        errs = (j,) if rng.random() < 0.6 else (j, j + 1)
        cases.append(single_case(ctx, content, None, hm, port, err_at=errs, label='fault'))
    # sessions
    for i in range(ctx.scale(12, 200)):
        port = rng.choice([10, 12300, 65535])
        kind, content = gen_content(rng, port)
        n = rng.choice([0, 1, 2, 5, 12, 30])
        pool = [gen_name(rng, wild=(i % 4 == 0)) for _ in range(max(1, n // 2 + 1))]
        updates = [(rng.choice(pool), gen_ip(rng)) for _ in range(n)]
        ctx.hist('content:' + kind)
        cases.append(session_case(ctx, content, updates, port))
    # several instances, not overlapping
    for _ in range(ctx.scale(10, 150)):
        ports = rng.sample([10, 100, 1, 12300, 12299, 1230], rng.choice([2, 3]))
        kind, content = gen_content(rng, ports[0])
        state = {p: {} for p in ports}
        events = []
        for _e in range(rng.randrange(2, 12)):
            p = rng.choice(ports)
            if state[p] and rng.random() < 0.3:
                events.append((p, 'r', dict(state[p])))
                state[p] = {}
            else:
                state[p][gen_name(rng)] = gen_ip(rng)
                events.append((p, 'w', dict(state[p])))
        cases.append(serial_case(ctx, content, events))
    # complete helper sessions through firewall.main(): clean and failing packet-filter teardown
    base_c = b'127.0.0.1 localhost\n# kept by the admin\n' + ('%-30s %s\n' % ('10.7.0.9 other', MARK % 12999)).encode()
    two = [('alpha', '10.9.0.1'), ('beta', '10.9.0.2')]
    for with_v4, with_v6 in ((True, False), (False, True), (True, True)):
        fams = ([''] + (['4'] if with_v4 else []) + (['6'] if with_v6 else []) + (['46'] if with_v4 and with_v6 else []))
        for f in fams:
            for end in ('eof', 'ioerror', 'bad-command'):
                cases.append(helper_case(ctx, base_c, two, with_v4, with_v6, set(f), end=end,
                                         exc=rng.choice(['fatal', 'oserror', 'runtime'])))
    cases.append(helper_case(ctx, base_c, [], True, True, {'4', '6'}))
    cases.append(helper_case(ctx, base_c, two, True, False, set(), setup_fails=True))
    for _ in range(ctx.scale(10, 200)):
        with_v6 = rng.random() < 0.6
        with_v4 = rng.random() < 0.7 or not with_v6
        port = 12300 if with_v6 else 12299
        kind, content = gen_content(rng, port, rng.choice(['missing', 'plain', 'crlf', 'nonl', 'stale-last', 'blank']))
        pool = [gen_name(rng) for _ in range(rng.choice([1, 2, 4]))]
        hosts = [(rng.choice(pool), gen_ip(rng)) for _ in range(rng.choice([0, 1, 2, 5, 12]))]
        fail = {f for f in '46' if rng.random() < 0.5 and ((f == '4' and with_v4) or (f == '6' and with_v6))}
        cases.append(helper_case(ctx, content, hosts, with_v4, with_v6, fail,
                                 end=rng.choice(['eof', 'eof', 'ioerror', 'bad-command']),
                                 exc=rng.choice(['fatal', 'oserror', 'runtime'])))
    # faults on the file-system calls of a whole session (first host and later hosts), transient
    for kind_ in ('chown', 'chmod', 'rename', 'close', 'write', 'openw', 'stat', 'read'):
        for occ in (1, 2, 3):
            cases.append(helper_case(ctx, base_c, two + [('gamma', '10.9.0.3')], True, occ % 2 == 0, set(),
                                     fs_fail=[(kind_, occ)]))
    cases.append(helper_case(ctx, base_c, two, True, False, set(), fs_fail=[('rename', 1), ('move', 1)]))
    cases.append(helper_case(ctx, base_c, [('alpha', '10.9.0.1')], True, False, {'4'}, fs_fail=[('chmod', 1)]))
    for _ in range(ctx.scale(8, 150)):
        nh = rng.choice([1, 1, 2, 4])
        hosts = [(gen_name(rng), gen_ip(rng)) for _ in range(nh)]
        kind, content = gen_content(rng, 12299, rng.choice(['missing', 'plain', 'nonl', 'blank']))
        ff = [(rng.choice(['chown', 'chmod', 'rename', 'close', 'write', 'stat']), rng.randrange(1, nh + 1))]
        if ff[0][0] == 'rename' and rng.random() < 0.5:
            ff.append(('move', 1))
        cases.append(helper_case(ctx, content, hosts, True, False, set(), end=rng.choice(['eof', 'bad-command']),
                                 fs_fail=ff))
    # host tables across the range of sizes (and re-announced names in a large table), file inspected while
    # the session is up and after it ended; the large ones are few
    for n, re_ in ((1, 0), (3, 2), (16, 0), (63, 0), (64, 5), (65, 0), (70, 9), (100, 0), (257, 20), (300, 0)):
        cases.append(scale_case(ctx, base_c, n, re_, with_v6=(n % 2 == 0)))
    cases.append(scale_case(ctx, None, 1000, 40))
    cases.append(scale_case(ctx, base_c, 0, 0))
    if ctx.thorough:
        for n in (2, 15, 17, 31, 32, 33, 48, 66, 79, 80, 81, 96, 127, 128, 129, 255, 256, 511, 512, 513, 2000):
            cases.append(scale_case(ctx, [base_c, None, b'a\r\nb'][n % 3], n, [0, 3, n // 2][n % 3]))
    # the helper's stderr/stdout go away (EIO: closed terminal, EPIPE, closed file) at verbosity 0..3,
    # through the real helpers.log / debug1-3: the clean-up must still happen
    for v in (0, 1, 2, 3):
        for kind_ in ('eio', 'epipe', 'closed'):
            for after in (0, 'eof', 4):
                cases.append(helper_case(ctx, base_c, two, True, v % 2 == 1, set(), verbose=v,
                                         log_fail=(kind_, after)))
        cases.append(helper_case(ctx, base_c, two, True, True, set(), verbose=v))
    cases.append(helper_case(ctx, base_c, two, True, True, {'4', '6'}, verbose=2, log_fail=('eio', 'eof')))
    cases.append(helper_case(ctx, base_c, two, True, False, set(), end='bad-command', verbose=2, log_fail=('eio', 'eof')))
    cases.append(helper_case(ctx, base_c, two, True, False, set(), end='ioerror', verbose=3, log_fail=('eio', 'eof')))
    for _ in range(ctx.scale(8, 150)):
        nh = rng.choice([1, 2, 4])
        hosts = [(gen_name(rng), gen_ip(rng)) for _ in range(nh)]
        kind, content = gen_content(rng, 12299, rng.choice(['missing', 'plain', 'nonl', 'blank']))
        cases.append(helper_case(ctx, content, hosts, True, rng.random() < 0.5,
                                 {f for f in '4' if rng.random() < 0.3},
                                 end=rng.choice(['eof', 'eof', 'ioerror', 'bad-command']),
                                 verbose=rng.choice([0, 1, 2, 2, 3]),
                                 log_fail=(rng.choice(['eio', 'eio', 'epipe', 'closed']),
                                           rng.choice(['eof', 0, rng.randrange(0, 40)]))))
    # a helper dies between writing its temporary and the rename; a new session on the same port follows
    many = {'host%02d.example.net' % i: '10.8.0.%d' % i for i in range(6)}
    for cb in (1, 2, 3, 4, 6):
        cases.append(recovery_case(ctx, b'127.0.0.1 localhost\n', 12300, many, cb, {'only': '10.8.1.1'}))
        cases.append(recovery_case(ctx, b'127.0.0.1 localhost\n', 12300, many, cb, {}))
    cases.append(recovery_case(ctx, None, 12300, many, 1, {'a': '1.1.1.1'}))
    # the restore of a published session dies; the admin then shortens the file; new session, same port
    cases.append(recovery_case(ctx, b'127.0.0.1 localhost\n10.1.0.1 lab1\n10.1.0.2 lab2 with a long comment # x\n',
                               12300, {'a': '1.1.1.1'}, 1, {'b': '2.2.2.2'}, admin=b'127.0.0.1 localhost\n',
                               admin_edit=True, first_kind='r'))
    for _ in range(ctx.scale(8, 150)):
        port = rng.choice([10, 12300])
        kind, content = gen_content(rng, port, rng.choice(['missing', 'plain', 'plain', 'nonl', 'crlf', 'stale-last']))
        hm1 = gen_map(rng, rng.choice([3, 6, 12]))
        hm2 = gen_map(rng, rng.choice([0, 1, 2]))
        edit = rng.random() < 0.3
        admin = gen_content(rng, port, rng.choice(['empty', 'plain', 'missing']))[1] if edit else None
        cases.append(recovery_case(ctx, content, port, hm1, rng.randrange(1, 8), hm2, admin=admin, admin_edit=edit,
                                   first_kind=rng.choice(['w', 'w', 'r'])))
    # two instances overlapping: the two designated races first
    for w in (WITNESS_LOST, WITNESS_RESURRECT):
        cases.append(inter_case(ctx, w['content'], w['pre'], w['specs'], w['sched'], label='inter-witness'))
    # segment-level schedules: [read..link] [tmp file] [rename] of each instance, all 20 orders
    seg_cases = [(b'127.0.0.1 localhost\n', [], [('a', 'w', {'x': '1.1.1.1'}, 10), ('b', 'w', {'y': '2.2.2.2'}, 100)]),
                 (None, [], [('a', 'w', {'x': '1.1.1.1'}, 10), ('b', 'w', {'y': '2.2.2.2'}, 1)]),
                 (b'l\n', [(10, 'w', {'x': '1.1.1.1'}), (100, 'w', {'y': '2.2.2.2'})],
                  [('a', 'r', {'x': '1.1.1.1'}, 10), ('b', 'w', {'y': '2.2.2.2', 'z': '3.3.3.3'}, 100)])]
    for content, pre, specs in seg_cases:
        lens = {}
        for tag, kind, hm, port in specs:
            with Sandbox(snapshots=False) as sb:
                setup_fs(sb, content, None, 0o644)
                for p, k, h in pre:
                    run_single(sb, k, dict(h), p)
                _l, _r, ops, _o = run_single(sb, kind, dict(hm), port)
            first = next((j for j, o in enumerate(ops) if o.startswith('openw')), max(0, len(ops) - 2))
            lens[tag] = [first, max(0, len(ops) - 1 - first), 1]
        for order in sorted(set(itertools.permutations('aaabbb'))):
            pos = {'a': 0, 'b': 0}
            sched = ''
            for t in order:
                sched += t * lens[t][pos[t]]
                pos[t] += 1
            cases.append(inter_case(ctx, content, pre, specs, sched, label='inter-segments'))
    # random fine-grained schedules
    for _ in range(ctx.scale(40, 1500)):
        pa, pb = rng.sample([10, 100, 1, 12300, 12299], 2)
        kind, content = gen_content(rng, pa, rng.choice(['missing', 'plain', 'blank', 'crlf', 'nonl']))
        hma, hmb = gen_map(rng, rng.choice([1, 2])), gen_map(rng, rng.choice([1, 2]))
        pre = []
        ka = kb = 'w'
        if rng.random() < 0.5:
            pre = [(pa, 'w', dict(hma)), (pb, 'w', dict(hmb))]
            if rng.random() < 0.5:
                kb = 'r'
            else:
                hmb = dict(hmb, extra='9.9.9.9')
        sched = ''.join(rng.choice('ab') for _ in range(rng.randrange(0, 40)))
        cases.append(inter_case(ctx, content, pre, [('a', ka, hma, pa), ('b', kb, hmb, pb)], sched, label='inter-random'))
    if ctx.thorough:
        # exhaustive: every interleaving of two 9-operation rewrites of a missing file (C(18,9) = 48620)
        specs = [('a', 'w', {'x': '1.1.1.1'}, 10), ('b', 'w', {'y': '2.2.2.2'}, 100)]
        n = 9
        count = 0
        for pos in itertools.combinations(range(2 * n), n):
            count += 1
            if count % 4 != ctx.seed % 4:       # a quarter per seed keeps the tier within its budget
                continue
            s = ['b'] * (2 * n)
            for p in pos:
                s[p] = 'a'
            cases.append(inter_case(ctx, None, [], specs, ''.join(s), label='inter-exhaustive'))
    return cases


def compare(ctx, cases):
    if not ctx.model_available:
        ctx.notes.append('model driver unavailable: correspondence skipped, oracle only')
        return
    ins = []
    for c in cases:
        ins.extend(c.ins)
    outs = common.LeanBatch('C14').run(ins)
    if len(outs) != len(ins):
        ctx.corr_break('C14', case=None, impl='%d lines' % len(ins), model='%d lines' % len(outs),
                       note='driver output length differs')
        return
    pos = 0
    for c in cases:
        n = len(c.ins)
        mo = [norm_model(x) for x in outs[pos:pos + n]]
        pos += n
        if mo != c.outs:
            i = next(k for k in range(n) if mo[k] != c.outs[k])
            ctx.corr_break(c.kind, case=dict(desc=c.desc, lines=c.ins[:i + 1]), impl=c.outs[i][:4000], model=mo[i][:4000])
            if len(ctx.corr_breaks) > 20:
                return


def run(ctx):
    cases = gen_cases(ctx)
    for c in cases:
        ctx.count(max(1, len(c.ins)))
        ctx.hist('case:' + c.kind)
        ctx.mark((c.kind, c.ins or repr(c.desc)), c.nontrivial)
    shown = set()
    for c in cases:
        if c.kind not in shown and c.kind != 'lib':
            shown.add(c.kind)
            ctx.sample(dict(kind=c.kind, input=[l[:160] for l in c.ins[:3]], real_code_output=[l[:300] for l in c.outs[:3]]),
                       limit=8)
    compare(ctx, cases)


def search(ctx):
    """The tie broke: look harder on the real code alone (oracle only)."""
    ctx.model_available = False
    gen_cases(ctx)


def _hm(pairs):
    return {n: i for n, i in pairs}


def _unopt(s):
    return None if s == 'N' else common.unhex(s)


def replay(ctx, rep):
    case = rep['case']
    st = case.get('stream')
    n0 = len(ctx.violations)
    if st == 'single':
        single_case(ctx, _unopt(case['content']), _unopt(case['bak']), _hm(case['hm']), case['port'],
                    mode=case.get('mode', 0o644), err_at=tuple(case.get('err_at', ())), kind=case.get('kind', 'w'),
                    stale_tmp=_unopt(case.get('stale_tmp', 'N')), level=case.get('level', 0),
                    short=case.get('short', 'none'))
    elif st == 'session':
        session_case(ctx, _unopt(case['content']), [tuple(u) for u in case['updates']], case['port'],
                     level=case.get('level', 0), short=case.get('short', 'none'))
    elif st == 'serial':
        serial_case(ctx, _unopt(case['content']), [(p, k, _hm(h)) for p, k, h in case['events']],
                    level=case.get('level', 0), short=case.get('short', 'none'))
    elif st == 'inter':
        inter_case(ctx, _unopt(case['content']), [(p, k, _hm(h)) for p, k, h in case['pre']],
                   [(t, k, _hm(h), p) for t, k, h, p in case['specs']], case['sched'], level=case.get('level', 0), short=case.get('short', 'none'))
    elif st == 'helper':
        helper_case(ctx, _unopt(case['content']), [tuple(h) for h in case['hosts']], case['v4'], case['v6'],
                    set(case['fail']), end=case['end'], exc=case.get('exc', 'fatal'),
                    setup_fails=case.get('setup_fails', False),
                    fs_fail=[tuple(x) for x in case.get('fs_fail', [])], verbose=case.get('verbose', 0),
                    log_fail=tuple(case['log_fail']) if case.get('log_fail') else None,
                    level=case.get('level', 0), short=case.get('short', 'none'))
    elif st == 'scale':
        scale_case(ctx, _unopt(case['content']), case['n'], case['reannounce'], with_v6=case.get('v6', False),
                   level=case.get('level', 0), short=case.get('short', 'none'))
    elif st == 'recovery':
        recovery_case(ctx, _unopt(case['content']), case['port'], _hm(case['hm1']), case['crash_back'],
                      _hm(case['hm2']), _unopt(case.get('admin', 'N')) if case.get('admin_edit') else None,
                      admin_edit=case.get('admin_edit', False), first_kind=case.get('first_kind', 'w'),
                      level=case.get('level', 0), short=case.get('short', 'none'))
    else:
        return False, 'unknown replay stream %r' % st
    new = ctx.violations[n0:]
    if new:
        v = new[0]
        return True, '%s: expected %s; real code gave %s' % (v['key'], str(v['expected'])[:300], str(v['observed'])[:400])
    return False, 'the real code satisfies the property on this case'
