"""C03 — traffic is intercepted exactly when its most specific subnet entry is an include.

Correspondence: the real `Method.setup_firewall` of nat / nft / tproxy / pf (FreeBsd, OpenBsd,
Darwin classes instantiated directly) with `subprocess.call/check_output/Popen`, the pf ioctl
and `pf_get_dev` replaced by recorders, against `Code/FwRules.lean` (argv / rule text token by
token), and the Lean packet walk + Lean spec against this file's independent walk + spec.

Oracle (independent of the model): the argv / pf text the REAL code emitted is parsed back into
rules by this file, every cell of the arrangement induced by the plan (prefix boundaries +-1 x
port boundaries +-1 x proto x local/forwarded x owner) is walked, and the verdict is compared
with the property evaluated directly from its text.
"""
import ipaddress
import re
import socket
import sys
import io

import common

AF_INET = int(socket.AF_INET)
AF_INET6 = int(socket.AF_INET6)

RULE = ("cases = interception plans (0-8 entries per family built by truncating a few seed addresses to widths "
        "{0,1,7,8,9,15,16,17,24,31,32 | 0,1,63,64,65,127,128} so that nested/equal/disjoint prefixes are the rule; "
        "ports none/single/range from a small pool so that equal-width and overlapping ranges collide; include and "
        "exclude with equal keys; 0-3 name servers per family; user/group/none; UDP on/off; IPv4, IPv6 or both) x "
        "7 method variants (nat, nft, tproxy, tproxy+udp, pf FreeBSD/OpenBSD/Darwin), each driven through the real "
        "setup_firewall; plus single setup_firewall calls with unsupported family / udp / empty subnets / mixed "
        "name-server families. A third of the random plans, every corpus plan and a stream of nested chains (3-5 "
        "nested entries of alternating action with one common port spec, both families, shuffled) are fed through "
        "the REAL firewall.main() over its ROUTES/NSLIST/PORTS/GO line protocol (fake stdin/stdout, fakes only at "
        "the subprocess/ioctl boundary) and the rules installed when it says STARTED are judged. End-to-end cases: "
        "the dialogue bytes are produced by the REAL FirewallClient (real __init__ over a socketpair with a fake "
        "Popen, real setup()/start()) for plans with user/group ids in {None, 0, 1, 1000} and fed unchanged to "
        "the real firewall.main; verdicts per owner are judged against the plan the client was given. Stale-session "
        "cases (nat, nft, tproxy, tproxy+udp): the real set-up of a first plan acts on a stateful table/chain/rule "
        "state (tool exit codes and the -nL listing come from that state), no tear-down runs (the helper was "
        "killed), then the real set-up of a different plan with the same ports/families/owner runs on top and the "
        "resulting rule state is judged against the SECOND plan; for nat the killed and the new session may differ "
        "in user/group (none->user, user->none, A->B, groups): the stateful iptables model refuses what the kernel "
        "refuses (-D of an absent rule, -X of a referenced or non-empty chain, -N of an existing chain, -F/-A/-I "
        "of a missing chain), a refusal of the new session to start is acceptable, and if it starts the whole "
        "rule state (stale rules included) is judged for every owner. pf-history cases (FreeBSD/OpenBSD/Darwin): a first "
        "session runs and ends normally against a stateful pf (anchor calls of the main ruleset via the real "
        "DIOCCHANGERULE buffers, `pfctl -s all` listing, anchor contents), then a second session whose ports are a "
        "decimal prefix of / equal to / unrelated to the first's is set up and only the anchors the main ruleset "
        "really calls are judged against its plan. Per plan every cell of the address x port arrangement is decided by the oracle. "
        "Every cell is judged for both origins: locally generated (nat/mangle OUTPUT, nft chains registered at "
        "hook output, pf pass-out) and forwarded (PREROUTING, nft chains registered at hook prerouting); the nft "
        "fake parses `add chain ... { type nat hook <h> priority <p>; }` and traverses the base chains by the hook "
        "they were registered at (by priority), not by their names. The Lean model of nft identifies the two "
        "paths by the chain names output/prerouting; that each of them is declared at the hook of its name is a "
        "regenerated parameter pinned by C03_params_nft_hooks, and the hook attachment itself is judged by the "
        "oracle. Verbosity is a dimension of every case (direct, via firewall.main, via the client, stale-session, "
        "pf-history, single odd calls): sshuttle.helpers.verbose is set to a level from the rotation "
        "[0,0,3,0,2,0,3,1] indexed by a per-run case counter shifted by the seed (not drawn from the PRNG, so the "
        "plans are the same at every level), stderr/stdout are captured around every call into the real code, "
        "the level is stored in the replay and restored by --replay; the oracle is unchanged. "
        "A case is non-trivial when the plan has overlapping entries, a port range, an owner restriction or a name "
        "server; distinct = distinct (method, canonical plan)")
MANIFEST = dict(
    level_text=("Machine-checked Lean 4 theorems (core Lean, no sorry/axiom/native_decide) over a model of subnet_weight, "
                "Python's stable sort and the four rule generators, for EVERY subnet list, port range, name-server list, "
                "family and packet (induction over the sorted list / rule list / command list, no enumeration). "
                "Ordering: key order = the property's precedence (narrowest port range, longest prefix, exclusion wins "
                "ties); first match of the descending sort / last match of the ascending sort is an include iff the most "
                "specific matching entry is. Per-call verdict theorems (DNS to listed name servers, TCP by most specific "
                "entry, other UDP only when forwarded, other family untouched, local vs forwarded, owner): C03_nat "
                "(any destination), C03_nft, C03_pf (FreeBSD/Darwin and OpenBSD anchors), C03_tproxy_v4 / "
                "C03_tproxy_partial (whole pipeline incl. non-terminating MARK, mark routing, -m socket, tcp/udp "
                "interleaving; IPv6 with the known-finding class excluded by hypothesis Mask32Safe, negation witness "
                "C03_tproxy_dns_mask32_v6_false), C03_tproxy_chains_agree. Whole-plan theorems: the rule state after "
                "firewall.main's two setup_firewall calls (IPv6 then IPv4, inactive family skipped) gives for every "
                "packet of either family the property's verdict on the whole plan - C03_nat_plan, C03_nft_plan, "
                "C03_tproxy_plan_partial, C03_pf_plan (commands only write their own family's tables; a walk only reads "
                "its own space). Stale state: C03_nft_stale_state and C03_nat_stale_state - set-up from ANY rule state in "
                "which killed sessions left arbitrary old rules in the per-port chain and stale jump/owner rules yields "
                "the NEW plan's verdicts; C03_nft_setup_leaves_other_tables / C03_nat_setup_touches_only_own_chains - "
                "foreign chains are untouched. Local destinations: C03_tproxy_local_destination, "
                "C03_nft_local_destination (only DNS to a listed name server is taken); for nat the analogous claim is "
                "false (C03_nat_local_destination_can_be_diverted: LOCAL is the last rule) and C03_nat covers local "
                "destinations as they are. Tied to the code on every run by regenerated parameters, a token-by-token "
                "differential run of the real setup_firewall of nat/nft/tproxy/pf, the real FirewallClient -> "
                "firewall.main line protocol, stale-session and pf-history cases on stateful rule states, and an oracle "
                "that parses the real argv / pf text and decides every cell of the arrangement."),
    level_note=("Trusted: Lean kernel; the packet-walk environment model (netfilter first match, RETURN, non-terminating "
                "MARK, REDIRECT/TPROXY/ACCEPT, jumps; -N/-F/-I/-A and nft add/flush as state updates; pf last-match filter "
                "+ first-match rdr, from the manual pages, unvalidated: no pf in the sandbox); tproxy's documented policy "
                "routing (fwmark -> lo) and 'a new flow has no local socket'; address text -> number by inet_pton. The "
                "stale-state theorems are about the rule-creating commands of setup_firewall; the restore_firewall prefix "
                "of nat/tproxy set-up (it only deletes from the same objects) and command failures (-N on an existing "
                "chain) are C04's model and, here, the stale-session oracle; stale state for tproxy and pf (anchor-call "
                "history) and pf with a loopback source are correspondence + oracle only; there is no Lean-side argv "
                "parser (the oracle parses the real argv in Python). nft/tproxy/pf ignore user/group (proved: "
                "C03_owner_ignored_by_nft_tproxy_pf; the client refuses the options for them, C15). Known findings: "
                "(1) tproxy renders DNS rules with /32 for IPv6 name servers too; recorded, not repaired, because the "
                "repository's own test pins /32; the model follows the code as it is. (2) nat after a killed session "
                "with a DIFFERENT owner restriction on the same port: the old owner's mangle MARK rule survives the new "
                "session's restore_firewall, so the old owner's traffic is diverted too (C03_nat_stale_owner_rule_false; "
                "C03_nat_stale_state_partial carries the excluded case as a hypothesis); recorded, not repaired: "
                "restore_firewall cannot know the old owner."),
    technique="Lean 4 proof (sorted first/last-match lemma, key order = spec order, chain-walk induction, command-list congruence) + differential correspondence + per-cell oracle on real rules",
)
DRIVER_TARGETS = ['SshuttleModel.Code.FwRules', 'SshuttleModel.Env.PacketWalk', 'SshuttleModel.Spec.MostSpecific']
ASSUMPTIONS = [
    "every firewall command succeeds and restore_firewall at the start of setup_firewall finds no left-over "
    "chain, except in the stale-session cases, where exit codes and chain listings come from a stateful model "
    "of the tools (-N fails on an existing chain, -X on a referenced/non-empty one, -D without an equal rule, "
    "nft add table/chain idempotent); the killed session used the same ports, families, owner and mark",
    "iptables/ip6tables/nft/pf parse an address text to the number inet_pton gives and compare masked prefixes",
    "netfilter: first matching rule decides, RETURN/end of chain resumes the caller, MARK is non-terminating, "
    "mangle OUTPUT precedes nat OUTPUT; nft inet tables see both families",
    "tproxy: the documented `ip rule fwmark` / `ip route local default dev lo` policy routing is in place; a new "
    "connection has no matching local socket (`-m socket` false)",
    "pf: filter rules last-match, rdr first-match on lo0 (from the manual pages; not validated, no pf in the sandbox)",
    "the client always adds an exclude for the listener address of every active family (so pf's `if subnets:` is "
    "taken); that firewall.main hands each setup_firewall call exactly the entries and name servers of its family "
    "is no longer assumed: it is checked on the plans driven through the real firewall.main",
]
TRUSTED_EXTRA = ["Env/PacketWalk.lean: netfilter and pf evaluation order (modelled; netfilter semantics spot-validated "
                 "in a network namespace in the thorough tier when available)"]

METHODS = ['nat', 'nft', 'tproxy', 'tproxy-udp', 'pf-freebsd', 'pf-openbsd', 'pf-darwin']
V4_WIDTHS = [0, 1, 7, 8, 9, 15, 16, 17, 24, 31, 32]
V6_WIDTHS = [0, 1, 63, 64, 65, 127, 128]
PORT_POOL = [(0, 0)] * 6 + [(80, 80), (443, 443), (8080, 8080), (1, 1), (65535, 65535),
                            (8000, 9000), (8000, 8080), (8080, 9000), (80, 90), (85, 95), (79, 89),
                            (1, 65535), (1, 1024), (1024, 65535), (2, 65535), (53, 53), (50, 60)]


# ------------------------------------------------------------------ helpers

def bits_of(fam):
    return 128 if fam == AF_INET6 else 32


def addr_num(fam, text):
    return int.from_bytes(socket.inet_pton(fam, text), 'big')


def addr_text(fam, num):
    return socket.inet_ntop(fam, num.to_bytes(16 if fam == AF_INET6 else 4, 'big'))


class Plan(object):
    def __init__(self, subnets, nslist, port6, port4, dns6, dns4, udp, user, group, tmark):
        self.subnets = subnets      # [(fam, width, excl, ip, fport, lport)]
        self.nslist = nslist        # [(fam, ip)]
        self.port6, self.port4, self.dns6, self.dns4 = port6, port4, dns6, dns4
        self.udp, self.user, self.group, self.tmark = udp, user, group, tmark

    def to_json(self):
        return dict(subnets=[list(s) for s in self.subnets], nslist=[list(n) for n in self.nslist],
                    port6=self.port6, port4=self.port4, dns6=self.dns6, dns4=self.dns4, udp=self.udp,
                    user=self.user, group=self.group, tmark=self.tmark)

    @staticmethod
    def from_json(d):
        return Plan([tuple(s) for s in d['subnets']], [tuple(n) for n in d['nslist']], d['port6'], d['port4'],
                    d['dns6'], d['dns4'], d['udp'], d['user'], d['group'], d['tmark'])

    def calls(self):
        """The calls firewall.main makes (firewall.py:326-345): IPv6 first, then IPv4."""
        out = []
        for fam, port, dns in ((AF_INET6, self.port6, self.dns6), (AF_INET, self.port4, self.dns4)):
            sn = [s for s in self.subnets if s[0] == fam]
            ns = [n for n in self.nslist if n[0] == fam]
            if sn or ns:
                out.append(dict(port=port, dnsport=dns, nslist=ns, family=fam, subnets=sn, udp=self.udp,
                                user=self.user, group=self.group, tmark=self.tmark))
        return out


def ns_field(nslist):
    if not nslist:
        return '-'
    return ';'.join('%d,%s,%d' % (f, ip, addr_num(f, ip)) for f, ip in nslist)


def sn_field(subnets):
    if not subnets:
        return '-'
    return ';'.join('%d,%d,%d,%s,%d,%d,%d' % (f, w, 1 if x else 0, ip, addr_num(f, ip), fp, lp)
                    for f, w, x, ip, fp, lp in subnets)


def setup_line(method, c):
    m = 'tproxy' if method == 'tproxy-udp' else method
    ns = ';'.join('%d,%s,%d' % (f, ip, addr_num(f, ip) if f in (AF_INET, AF_INET6) else 0) for f, ip in c['nslist']) or '-'
    return 'setup %s %d %d %d %d %s %s %s %s %s' % (
        m, c['family'], c['port'], c['dnsport'], 1 if c['udp'] else 0, c['user'] or '-', c['group'] or '-',
        c['tmark'], ns, sn_field(c['subnets']))


def plan_line(method, p):
    m = 'tproxy' if method == 'tproxy-udp' else method
    return 'plan %s %d %d %d %d %d %s %s %s %s %s' % (
        m, p.port6, p.port4, p.dns6, p.dns4, 1 if p.udp else 0, p.user or '-', p.group or '-', p.tmark,
        ns_field(p.nslist), sn_field(p.subnets))


def pkt_field(k):
    fam6, dst, dport, proto, loc, dl, uid, gid, sock = k
    return '%d,%d,%d,%s,%d,%d,%s,%s,%d' % (fam6, dst, dport, proto, loc, dl, uid, gid, sock)


# ------------------------------------------------------------------ the real code, recorded

class _FakePopen(object):
    def __init__(self, rec, argv, pfstate=None, **kw):
        self.argv = list(argv)
        self.rec = rec
        self.pfstate = pfstate
        self.returncode = 0

    def communicate(self, stdin=None):
        self.rec.append(('popen', self.argv, stdin))
        if '-E' in self.argv:
            return (b'', b'Token : 4242\n')
        if self.pfstate is not None and self.argv and self.argv[0] == 'pfctl':
            return (self.pfstate.pfctl(self.argv, stdin), b'')
        return (b'', b'')

    def wait(self):
        return 0


# Verbosity is a dimension of every case: the level each case runs at comes from this rotation, indexed by a
# per-run case counter and shifted by the check's seed (over seeds 0..7 every directed case runs at every
# level).  It is NOT drawn from ctx.rng, so the generated plans are the same at every level.  The oracle is
# unchanged: what the rules do to a packet must not depend on how much sshuttle logs.
VERBOSITY_ROTATION = [0, 0, 3, 0, 2, 0, 3, 1]
_CUR = {'level': 0}


def begin_case(ctx):
    """Choose the verbosity for the next case and make it the level of every call into the real code."""
    n = ctx.__dict__.get('_c03_case_counter', 0)
    ctx.__dict__['_c03_case_counter'] = n + 1
    lvl = VERBOSITY_ROTATION[(n + ctx.seed) % len(VERBOSITY_ROTATION)]
    _CUR['level'] = lvl
    ctx.hist('verbosity:%d' % lvl)
    if not ctx.__dict__.get('_c03_wrapped'):
        ctx.__dict__['_c03_wrapped'] = True
        orig = ctx.violation

        def violation(key, case=None, *a, **kw):
            if isinstance(case, dict) and 'verbosity' not in case:
                case = dict(case, verbosity=_CUR['level'])     # stored in the replay, restored by --replay
            return orig(key, case, *a, **kw)
        ctx.violation = violation
    return lvl


class _RealCodeIO(object):
    """Around every call into the real code: sshuttle.helpers.verbose = the case's level, sys.stderr and
    sys.stdout captured; everything restored afterwards."""

    def __enter__(self):
        import sshuttle.helpers as helpers
        self.helpers = helpers
        self.saved = (helpers.verbose, helpers.logprefix, sys.stderr, sys.stdout)
        helpers.verbose = _CUR['level']
        sys.stderr = io.StringIO()
        sys.stdout = io.StringIO()
        return self

    def __exit__(self, *exc):
        self.helpers.verbose, self.helpers.logprefix, sys.stderr, sys.stdout = self.saved
        return False


def _at_os_boundary(method, body, kernel=None, pfstate=None):
    """Run body(method_object, rec) with subprocess.call/check_output/Popen (and, for pf, the ioctl and
    pf_get_dev) replaced by recorders; everything is restored afterwards.  Returns body's value.
    With `kernel` (a KernelState) the iptables/ip6tables/nft commands act on that state: their exit status
    and the `-nL` listing come from it instead of "always succeeds / nothing exists"."""
    import subprocess
    from sshuttle.methods import get_method
    rec = []
    old = (subprocess.call, subprocess.check_output, subprocess.Popen)
    io_guard = _RealCodeIO().__enter__()

    def _call(argv, **kw):
        rec.append(('call', list(argv), None))
        return kernel.apply([str(a) for a in argv]) if kernel is not None else 0

    def _query(argv, **kw):
        rec.append(('query', list(argv), None))
        return kernel.listing([str(a) for a in argv]) if kernel is not None else b''
    subprocess.call = _call
    subprocess.check_output = _query
    subprocess.Popen = lambda argv, **kw: _FakePopen(rec, argv, pfstate, **kw)
    pfmod = None
    pf_saved = None
    try:
        if method.startswith('pf-'):
            import sshuttle.methods.pf as pfmod
            pf_saved = (pfmod.pf, pfmod.ioctl, pfmod.pf_get_dev, dict(pfmod._pf_context))
            pfmod.pf = {'pf-freebsd': pfmod.FreeBsd, 'pf-openbsd': pfmod.OpenBsd, 'pf-darwin': pfmod.Darwin}[method]()
            pfmod.ioctl = (lambda fd, req, buf: pfstate.ioctl(pfmod.pf, req, buf)) if pfstate is not None \
                else (lambda *a, **k: 0)
            pfmod.pf_get_dev = lambda: 99
            pfmod._pf_context.update(started_by_sshuttle=0, loaded_by_sshuttle=True, Xtoken=[])
            m = get_method('pf')
        elif method in ('tproxy', 'tproxy-udp'):
            m = get_method('tproxy')
        else:
            m = get_method(method)
        return body(m, rec)
    finally:
        subprocess.call, subprocess.check_output, subprocess.Popen = old
        io_guard.__exit__(None, None, None)
        if pf_saved:
            pfmod.pf, pfmod.ioctl, pfmod.pf_get_dev = pf_saved[:3]
            pfmod._pf_context.clear()
            pfmod._pf_context.update(pf_saved[3])


def _rule_cmds(rec):
    cmds = []
    for kind, argv, stdin in rec:
        if kind == 'call' and argv[0] in ('iptables', 'ip6tables', 'nft'):
            cmds.append([str(a) for a in argv])
        elif kind == 'popen' and argv[0] == 'pfctl' and '-a' in argv and '-f' in argv:
            lines = stdin.decode('latin-1').split('\n')
            if lines and lines[-1] == '':
                lines.pop()
            cmds.append([str(a) for a in argv] + lines)
    return cmds


def _classify_exc(e):
    import sshuttle.helpers as helpers
    if isinstance(e, UnboundLocalError):
        s = str(e)
        return 'internalError', ('includes unbound' if 'includes' in s else 'table unbound' if 'table' in s else s)
    if isinstance(e, helpers.Fatal):
        return 'fatal', str(e)
    s = str(e)
    tag = 'udp' if 'UDP not supported' in s else 'family' if 'Address family' in s or 'Unsupported family' in s \
        else type(e).__name__ + ':' + s
    return 'exc', tag


def run_real_setup(method, c, kernel=None, pfstate=None):
    """Call the real setup_firewall once.  Returns ('ok', [argv...]) | ('exc', tag) | ('internalError', tag)."""
    def body(m, rec):
        try:
            m.setup_firewall(c['port'], c['dnsport'], list(c['nslist']), c['family'], list(c['subnets']),
                             c['udp'], c['user'], c['group'], c['tmark'])
        except Exception as e:  # noqa
            return _classify_exc(e)
        return 'ok', _rule_cmds(rec)
    return _at_os_boundary(method, body, kernel, pfstate)


def run_real_restore(method, c, pfstate):
    """The real restore_firewall of a session that ends normally."""
    def body(m, rec):
        try:
            m.restore_firewall(c['port'], c['family'], c['udp'], c['user'], c['group'])
        except Exception as e:  # noqa
            return _classify_exc(e)
        return 'ok', []
    return _at_os_boundary(method, body, None, pfstate)


class _HelperStdout(object):
    """stdout of the firewall helper: remembers how many commands had been issued when STARTED was written."""

    def __init__(self, rec):
        self.rec = rec
        self.data = b''
        self.started_at = None

    def write(self, b):
        self.data += bytes(b)
        if b == b'STARTED\n' and self.started_at is None:
            self.started_at = len(self.rec)
        return len(b)

    def flush(self):
        pass


def helper_input(plan):
    """What client.FirewallClient.setup/start writes to the helper (client.py:411-441)."""
    lines = ['ROUTES']
    for (f, w, x, ip, fp, lp) in plan.subnets:
        lines.append('%d,%d,%d,%s,%d,%d' % (f, w, 1 if x else 0, ip, fp, lp))
    lines.append('NSLIST')
    for (f, ip) in plan.nslist:
        lines.append('%d,%s' % (f, ip))
    lines.append('PORTS %d,%d,%d,%d' % (plan.port6, plan.port4, plan.dns6, plan.dns4))
    lines.append('GO %d %s %s %s %d' % (1 if plan.udp else 0, plan.user or '-', plan.group or '-', plan.tmark, 4242))
    return ('\n'.join(lines) + '\n').encode('ASCII')


class _ClientHelperProc(object):
    """What FirewallClient gets from `Popen(...)`: a helper that is alive; its end of the socketpair is kept
    open (dup) so that the client's writes can be read back, and it has already said READY and STARTED."""

    def __init__(self, argv, stdout=None, stdin=None, **kw):
        import os as _os
        self.argv = list(argv)
        self.pid = 4243
        self.sock = socket.socket(fileno=_os.dup(stdout.fileno()))
        self.method_name = argv[argv.index('--method') + 1] if '--method' in argv else 'auto'
        self.sock.sendall(('READY %s\nSTARTED\n' % self.method_name).encode('ascii'))

    def poll(self):
        return None

    def received(self):
        self.sock.setblocking(False)
        data = b''
        try:
            while True:
                chunk = self.sock.recv(65536)
                if not chunk:
                    break
                data += chunk
        except (BlockingIOError, InterruptedError):
            pass
        return data

    def close(self):
        try:
            self.sock.close()
        except OSError:
            pass


def client_owner(x):
    """The owner as client.main hands it to FirewallClient.setup: a numeric id (pwd/grp lookup done)."""
    return None if x is None else int(x)


def client_dialogue(method, plan):
    """The bytes the REAL FirewallClient (real __init__ over a real socketpair with a fake Popen, real setup(),
    real start()) writes to the firewall helper for this plan."""
    import subprocess
    import sshuttle.client as client
    mname = 'pf' if method.startswith('pf-') else 'tproxy' if method.startswith('tproxy') else method
    procs = []
    old = (subprocess.Popen,)
    io_guard = _RealCodeIO().__enter__()
    subprocess.Popen = lambda argv, **kw: (procs.append(_ClientHelperProc(argv, **kw)), procs[-1])[1]
    fwc = None
    try:
        fwc = client.FirewallClient(mname, False)
        inc = [(f, ip, w, fp, lp) for (f, w, x, ip, fp, lp) in plan.subnets if not x]
        exc = [(f, ip, w, fp, lp) for (f, w, x, ip, fp, lp) in plan.subnets if x]
        fwc.setup(inc, exc, list(plan.nslist), plan.port6, plan.port4, plan.dns6, plan.dns4, plan.udp,
                  client_owner(plan.user), client_owner(plan.group), plan.tmark)
        fwc.start()
        return procs[-1].received()
    finally:
        subprocess.Popen, = old
        io_guard.__exit__(None, None, None)
        for pr in procs:
            pr.close()
        try:
            if fwc is not None:
                fwc.pfile.close()
        except Exception:  # noqa
            pass


def run_real_main(method, plan, dialogue=None):
    """Drive the REAL sshuttle.firewall.main() over its line protocol (fake stdin/stdout, fakes only at the
    subprocess / ioctl boundary) and return the rule-creating commands it had issued when it said STARTED
    (the tear-down that follows the end of stdin is not part of the installed rule set)."""
    import sshuttle.firewall as fw

    def body(m, rec):
        out = _HelperStdout(rec)
        stdin = io.BytesIO(helper_input(plan) if dialogue is None else dialogue)
        saved = (fw.setup_daemon, fw.get_method, fw.rewrite_etc_hosts, fw.restore_etc_hosts,
                 fw.flush_systemd_dns_cache, m.is_supported)
        fw.setup_daemon = lambda: (stdin, out)
        fw.get_method = lambda name: m
        fw.rewrite_etc_hosts = lambda *a, **k: None          # never touch /etc/hosts
        fw.restore_etc_hosts = lambda *a, **k: None
        fw.flush_systemd_dns_cache = lambda: None
        m.is_supported = lambda: True
        try:
            try:
                fw.main('pf' if method.startswith('pf-') else 'tproxy' if method.startswith('tproxy') else method,
                        False)
            except Exception as e:  # noqa
                if out.started_at is None:
                    return _classify_exc(e)
        finally:
            (fw.setup_daemon, fw.get_method, fw.rewrite_etc_hosts, fw.restore_etc_hosts,
             fw.flush_systemd_dns_cache) = saved[:5]
            try:
                del m.is_supported
            except AttributeError:
                m.is_supported = saved[5]
        if out.started_at is None:
            return 'fatal', 'helper ended without STARTED: %r' % out.data[-80:]
        return 'ok', _rule_cmds(rec[:out.started_at])
    return _at_os_boundary(method, body)


def real_plan_cmds(method, plan, via):
    """-> ('ok', cmds, per-call results) | (kind, tag, per-call results)."""
    if via == 'helper':
        res = run_real_main(method, plan)
        return (res[0], res[1], [])
    if via == 'client':
        try:
            dialogue = client_dialogue(method, plan)
        except Exception as e:  # noqa
            return ('client-failed', '%s: %s' % (type(e).__name__, e), [])
        res = run_real_main(method, plan, dialogue)
        return (res[0], res[1], [])
    cmds = []
    per_call = []
    for c in plan.calls():
        res = run_real_setup(method, c)
        per_call.append((c, res))
        if res[0] != 'ok':
            return (res[0], res[1], per_call)
        cmds.extend(res[1])
    return ('ok', cmds, per_call)


def canon(res):
    kind, val = res
    if kind == 'ok':
        return 'ok ' + ' ;; '.join('\t'.join(argv) for argv in val)
    return '%s %s' % (kind, val)


# ------------------------------------------------------------------ oracle part 1: parse real rules

class Unparsable(Exception):
    pass


def _num(s, what):
    if not re.fullmatch(r'\d+', s):
        raise Unparsable('%s: %r' % (what, s))
    return int(s)


def parse_dest(fam, text):
    """`addr[/width]` as the tool of family `fam` reads it -> (lo, hi) inclusive."""
    n = bits_of(fam)
    if '/' in text:
        a, w = text.split('/', 1)
        w = _num(w, 'mask')
    else:
        a, w = text, n
    if w > n:
        raise Unparsable('mask /%d too long for family' % w)
    try:
        v = addr_num(fam, a)
    except (OSError, ValueError):
        raise Unparsable('address %r not of family %d' % (a, fam))
    size = 1 << (n - w)
    lo = v - v % size
    return (lo, lo + size - 1)


def parse_ports(text, sep):
    if sep in text:
        a, b = text.split(sep, 1)
        a, b = _num(a.strip(), 'port'), _num(b.strip(), 'port')
    else:
        a = b = _num(text.strip(), 'port')
    if a > b or b > 65535:
        raise Unparsable('invalid port range %r (the tool rejects it)' % text)
    return (a, b)


def parse_ipt_rule(fam, args):
    r = dict(fam=fam, mods=set())
    i = 0

    def val():
        nonlocal i
        i += 1
        if i >= len(args):
            raise Unparsable('missing value after %r' % args[i - 1])
        return args[i]
    while i < len(args):
        a = args[i]
        if a == '-j':
            r['target'] = val()
        elif a in ('--dest', '-d', '--destination'):
            r['dst'] = parse_dest(fam, val())
        elif a == '-p':
            r['proto'] = val()
        elif a == '--dport':
            r['dports'] = parse_ports(val(), ':')
        elif a == '--to-ports':
            r['to'] = _num(val(), 'to-ports')
        elif a == '--on-port':
            r['to'] = _num(val(), 'on-port')
        elif a == '-m':
            r['mods'].add(val())
        elif a == '--dst-type':
            if val() != 'LOCAL':
                raise Unparsable('dst-type')
            r['dst_local'] = True
        elif a == '--mark':
            r['mark'] = val()
        elif a == '--uid-owner':
            r['uid'] = val()
        elif a == '--gid-owner':
            r['gid'] = val()
        elif a == '--set-mark':
            r['set_mark'] = val()
        elif a == '--tproxy-mark':
            r['set_mark'] = val()
        else:
            raise Unparsable('unknown iptables argument %r' % a)
        i += 1
    if 'target' not in r:
        raise Unparsable('rule without target')
    if 'dports' in r and r.get('proto') not in ('tcp', 'udp'):
        raise Unparsable('--dport without -p tcp/udp')
    if r['target'] in ('REDIRECT', 'TPROXY') and 'to' not in r:
        raise Unparsable('%s without port' % r['target'])
    if 'socket' in r['mods']:
        r['socket'] = True
    if 'owner' in r['mods']:
        r['owner'] = True
    return r


def load_netfilter(cmds):
    """tables[(space)][chain] -> rules.  space = ('ipt', fam, table) | ('nft', tablename)."""
    tables = {}
    for argv in cmds:
        if argv[0] in ('iptables', 'ip6tables'):
            fam = AF_INET6 if argv[0] == 'ip6tables' else AF_INET
            if argv[1:3] != ['-w', '-t']:
                raise Unparsable('argv head %r' % argv[:4])
            sp = ('ipt', fam, argv[3])
            t = tables.setdefault(sp, {'OUTPUT': [], 'PREROUTING': []})
            op, rest = argv[4], argv[5:]
            if op == '-N':
                t.setdefault(rest[0], [])
            elif op == '-F':
                t[rest[0]] = []
            elif op == '-I':
                if rest[1] != '1':
                    raise Unparsable('-I position')
                t[rest[0]].insert(0, parse_ipt_rule(fam, rest[2:]))
            elif op == '-A':
                if rest[0] not in t:
                    raise Unparsable('append to missing chain %r' % rest[0])
                t[rest[0]].append(parse_ipt_rule(fam, rest[1:]))
            else:
                raise Unparsable('iptables op %r' % op)
        elif argv[0] == 'nft':
            action = argv[1]
            if argv[2] != 'inet':
                raise Unparsable('nft family')
            sp = ('nft', argv[3])
            toks = ' '.join(argv[4:]).split()
            if action == 'add table':
                tables.setdefault(sp, {})
            elif action == 'add chain':
                nft_add_chain(tables[sp], toks)
            elif action == 'flush chain':
                tables[sp][toks[0]] = []
            elif action == 'add rule':
                tables[sp][toks[0]].append(parse_nft_rule(toks[1:]))
            else:
                raise Unparsable('nft action %r' % action)
    return tables


NFT_NAT_HOOKS = ('prerouting', 'input', 'output', 'postrouting')


def parse_nft_chain_decl(toks):
    """`{ type nat hook <h> priority <p>; policy accept; }` -> (type, hook, priority); None for a regular chain."""
    if not toks:
        return None
    text = ' '.join(toks)
    m = re.fullmatch(r'\{\s*type\s+(\w+)\s+hook\s+(\w+)\s+priority\s+(-?\d+)\s*;\s*(?:policy\s+(\w+)\s*;\s*)?\}', text)
    if not m:
        raise Unparsable('nft chain declaration %r' % text)
    typ, hook, prio, policy = m.group(1), m.group(2), int(m.group(3)), m.group(4)
    if typ != 'nat' or hook not in NFT_NAT_HOOKS:
        raise Unparsable('nft base chain of type %r at hook %r' % (typ, hook))
    if policy not in (None, 'accept'):
        raise Unparsable('nft base chain policy %r' % policy)
    return (typ, hook, prio)


def nft_add_chain(table, toks):
    """`add chain` is idempotent: an existing chain keeps its rules and its hook."""
    name = toks[0]
    decl = parse_nft_chain_decl(toks[1:])
    if name not in table:
        table[name] = []
        if decl is not None:
            table.setdefault('__hooks__', {})[name] = decl


def nft_base_chains(table, hook):
    """The base chains of `table` the kernel traverses at netfilter hook `hook`, by priority: what counts is
    the hook a chain was REGISTERED at, not what the chain is called."""
    hooks = table.get('__hooks__', {})
    names = [n for n, (typ, h, prio) in hooks.items() if h == hook and n in table]
    return sorted(names, key=lambda n: hooks[n][2])


def parse_nft_rule(toks):
    r = dict(mods=set())
    i = 0
    n = len(toks)
    while i < n:
        t = toks[i]
        if t == 'meta' and toks[i + 1] == 'nfproto':
            if toks[i + 2] == '!=':
                r['nfproto_ne'] = toks[i + 3]
                i += 4
            else:
                r['nfproto'] = toks[i + 2]
                i += 3
        elif t == 'meta' and toks[i + 1] == 'l4proto':
            r['proto'] = toks[i + 2]
            i += 3
        elif t in ('tcp', 'udp') and toks[i + 1] == 'dport':
            r['proto'] = t
            if toks[i + 2] == '{':
                j = toks.index('}', i)
                r['dports'] = parse_ports(' '.join(toks[i + 3:j]), '-')
                i = j + 1
            else:
                r['dports'] = parse_ports(toks[i + 2], '-')
                i += 3
        elif t in ('ip', 'ip6') and toks[i + 1] == 'daddr':
            fam = AF_INET6 if t == 'ip6' else AF_INET
            r['fam'] = fam
            r['dst'] = parse_dest(fam, toks[i + 2])
            i += 3
        elif toks[i:i + 4] == ['fib', 'daddr', 'type', 'local']:
            r['dst_local'] = True
            i += 4
        elif t == 'return':
            r['target'] = 'RETURN'
            i += 1
        elif t == 'jump':
            r['target'] = toks[i + 1]
            i += 2
        elif toks[i:i + 2] == ['redirect', 'to']:
            r['target'] = 'REDIRECT'
            r['to'] = _num(toks[i + 2].lstrip(':'), 'redirect port')
            i += 3
        else:
            raise Unparsable('unknown nft token %r' % t)
    if 'target' not in r:
        raise Unparsable('nft rule without verdict')
    return r


PF_NET = r'(?P<net>[0-9a-fA-F:.]+)/(?P<w>\d+)(?: port (?P<f>\d+):(?P<l>\d+))?'
PF_RX = [
    ('table', re.compile(r'table <dns_servers> \{(?P<ips>[^}]*)\}$')),
    ('rdr', re.compile(r'rdr pass on lo0 (?P<inet>inet6?) proto tcp from ! (?P<lo>\S+) to ' + PF_NET +
                       r' -> (?P<lo2>\S+) port (?P<port>\d+)$')),
    ('rdr_dns', re.compile(r'rdr pass on lo0 (?P<inet>inet6?) proto udp to <dns_servers> port 53 -> (?P<lo2>\S+) '
                           r'port (?P<port>\d+)$')),
    ('divert', re.compile(r'pass in on lo0 (?P<inet>inet6?) proto tcp to ' + PF_NET +
                          r' divert-to (?P<lo2>\S+) port (?P<port>\d+)$')),
    ('divert_dns', re.compile(r'pass in on lo0 (?P<inet>inet6?) proto udp to <dns_servers> port 53 rdr-to (?P<lo2>\S+) '
                              r'port (?P<port>\d+)$')),
    ('out_route', re.compile(r'pass out route-to lo0 (?P<inet>inet6?) proto tcp to ' + PF_NET + r' keep state$')),
    ('out_route', re.compile(r'pass out (?P<inet>inet6?) proto tcp to ' + PF_NET + r' route-to lo0 keep state$')),
    ('out_route_dns', re.compile(r'pass out route-to lo0 (?P<inet>inet6?) proto udp to <dns_servers> port 53 keep state$')),
    ('out_route_dns', re.compile(r'pass out (?P<inet>inet6?) proto udp to <dns_servers> port 53 route-to lo0 keep state$')),
    ('out_pass', re.compile(r'pass out (?P<inet>inet6?) proto tcp to ' + PF_NET + r'$')),
]


def load_pf(cmds):
    anchors = []
    for argv in cmds:
        if argv[0] != 'pfctl':
            continue
        lines = argv[5:]
        rules = []
        for ln in lines:
            for kind, rx in PF_RX:
                m = rx.match(ln)
                if m:
                    break
            else:
                raise Unparsable('pf line %r' % ln)
            d = m.groupdict()
            r = dict(kind=kind)
            if kind == 'table':
                r['ips'] = [x for x in d['ips'].split(',') if x]
            else:
                fam = AF_INET6 if d['inet'] == 'inet6' else AF_INET
                r['fam'] = fam
                lo_expect = '::1' if fam == AF_INET6 else '127.0.0.1'
                if d.get('lo2') is not None and d['lo2'] != lo_expect:
                    raise Unparsable('redirect target %r is not the loopback address' % d['lo2'])
                if d.get('net') is not None:
                    r['dst'] = parse_dest(fam, '%s/%s' % (d['net'], d['w']))
                    if d.get('f') is not None:
                        r['dports'] = parse_ports('%s:%s' % (d['f'], d['l']), ':')
                if d.get('port') is not None:
                    r['to'] = int(d['port'])
            rules.append(r)
        anchors.append(rules)
    return anchors


# ------------------------------------------------------------------ oracle part 2: walk

def _match(r, k, mark):
    fam6, dst, dport, proto, loc, dl, uid, gid, sock = k
    fam = AF_INET6 if fam6 else AF_INET
    if r.get('socket') and not sock:
        return False
    if 'dst' in r:
        if r.get('fam', fam) != fam:
            return False
        lo, hi = r['dst']
        if not (lo <= dst <= hi):
            return False
    if 'proto' in r and r['proto'] != proto:
        return False
    if 'dports' in r and not (r['dports'][0] <= dport <= r['dports'][1]):
        return False
    if r.get('dst_local') and not dl:
        return False
    if 'mark' in r and mark != r['mark']:
        return False
    if r.get('owner') and not loc:
        return False
    if 'uid' in r and not (loc and uid == r['uid']):
        return False
    if 'gid' in r and not (loc and gid == r['gid']):
        return False
    if 'nfproto' in r and r['nfproto'] != ('ipv6' if fam6 else 'ipv4'):
        return False
    if 'nfproto_ne' in r and r['nfproto_ne'] == ('ipv6' if fam6 else 'ipv4'):
        return False
    return True


def walk_chain(table, chain, k, mark, depth=0):
    """-> ('fall', mark) | ('accept', mark) | ('divert', port, mark)."""
    if depth > 4:
        raise Unparsable('jump loop')
    for r in table.get(chain, ()):
        if not _match(r, k, mark):
            continue
        t = r['target']
        if t == 'RETURN':
            return ('fall', mark)
        if t == 'ACCEPT':
            return ('accept', mark)
        if t == 'REDIRECT':
            return ('divert', r['to'], mark)
        if t == 'TPROXY':
            return ('divert', r['to'], r.get('set_mark', mark))
        if t == 'MARK':
            mark = r['set_mark']
            continue
        if t not in table:
            raise Unparsable('jump to unknown chain %r' % t)
        res = walk_chain(table, t, k, mark, depth + 1)
        if res[0] == 'fall':
            mark = res[1]
            continue
        return res
    return ('fall', mark)


def verdict_real(method, loaded, plan, k):
    """What the rules the real code emitted do to packet k: 'u' or 'd<port>'."""
    fam6, dst, dport, proto, loc, dl, uid, gid, sock = k
    fam = AF_INET6 if fam6 else AF_INET
    if method == 'nat':
        mark = None
        if loc:
            mark = walk_chain(loaded.get(('ipt', fam, 'mangle'), {}), 'OUTPUT', k, None)[-1]
        res = walk_chain(loaded.get(('ipt', fam, 'nat'), {}), 'OUTPUT' if loc else 'PREROUTING', k, mark)
        return 'd%d' % res[1] if res[0] == 'divert' else 'u'
    if method == 'nft':
        for name in ('sshuttle-ipv6-%d' % plan.port6, 'sshuttle-ipv4-%d' % plan.port4):
            t = loaded.get(('nft', name))
            if t is None:
                continue
            # a locally generated packet traverses the nat chains registered at the OUTPUT hook, a forwarded
            # one those registered at the PREROUTING hook - whatever the chains are called
            for base in nft_base_chains(t, 'output' if loc else 'prerouting'):
                res = walk_chain(t, base, k, None)
                if res[0] == 'divert':
                    return 'd%d' % res[1]
        return 'u'
    if method in ('tproxy', 'tproxy-udp'):
        t = loaded.get(('ipt', fam, 'mangle'), {})
        mark = None
        if loc:
            mark = walk_chain(t, 'OUTPUT', k, None)[-1]
            if mark is None:
                return 'u'
        res = walk_chain(t, 'PREROUTING', k, mark)
        return 'd%d' % res[1] if res[0] == 'divert' else 'u'
    # pf
    for rules in loaded:
        table = []
        for r in rules:
            if r['kind'] == 'table':
                table = r['ips']

        def to_ok(r):
            if r['fam'] != fam:
                return False
            if r['kind'].endswith('_dns'):
                if proto != 'udp' or dport != 53:
                    return False
                return any(_same_addr(fam, ip, dst) for ip in table)
            if proto != 'tcp':
                return False
            lo, hi = r['dst']
            if not (lo <= dst <= hi):
                return False
            return 'dports' not in r or r['dports'][0] <= dport <= r['dports'][1]
        last = None
        for r in rules:
            if r['kind'] in ('out_route', 'out_route_dns', 'out_pass') and to_ok(r):
                last = r
        if last is None or last['kind'] == 'out_pass':
            continue
        trans = [r for r in rules if r['kind'] in ('rdr', 'rdr_dns', 'divert', 'divert_dns') and to_ok(r)]
        if not trans:
            continue
        pick = trans[-1] if method == 'pf-openbsd' else trans[0]
        return 'd%d' % pick['to']
    return 'u'


def _same_addr(fam, ip, dst):
    try:
        return addr_num(fam, ip) == dst
    except (OSError, ValueError):
        return False


def load_real(method, cmds):
    return load_pf(cmds) if method.startswith('pf-') else load_netfilter(cmds)


# ------------------------------------------------------------------ oracle part 3: the property

def honours_owner(method):
    return method == 'nat'


def spec_verdict(method, plan, k):
    """The property text, evaluated directly (no sorting, no rule order)."""
    fam6, dst, dport, proto, loc, dl, uid, gid, sock = k
    fam = AF_INET6 if fam6 else AF_INET
    if honours_owner(method) and (plan.user is not None or plan.group is not None):
        if not loc:
            return 'u'
        if plan.user is not None and uid != plan.user:
            return 'u'
        if plan.group is not None and gid != plan.group:
            return 'u'
    if proto == 'udp' and dport == 53 and any(f == fam and addr_num(f, ip) == dst for f, ip in plan.nslist):
        return 'd%d' % (plan.dns6 if fam6 else plan.dns4)
    if proto == 'udp' and not (method == 'tproxy-udp'):
        return 'u'
    cands = []
    for (f, w, x, ip, fp, lp) in plan.subnets:
        if f != fam:
            continue
        n = bits_of(f)
        a = addr_num(f, ip)
        size = 1 << (n - w)
        lo = a - a % size
        if not (lo <= dst < lo + size):
            continue
        if fp != 0 and not (fp <= dport <= lp):
            continue
        narrowness = (lp - fp) if fp != 0 else float('inf')     # smaller = narrower
        cands.append((narrowness, -w, 0 if x else 1, x))         # exclusion wins ties
    if not cands:
        return 'u'
    best = min(cands)
    return 'u' if best[3] else 'd%d' % (plan.port6 if fam6 else plan.port4)


def wf_plan(plan):
    for (f, w, x, ip, fp, lp) in plan.subnets:
        if f not in (AF_INET, AF_INET6) or not (0 <= w <= bits_of(f)):
            return False
        if not ((fp == 0 and lp == 0) or (1 <= fp <= lp <= 65535)):
            return False
    return True


def cells(plan, method, rng, budget):
    """Packets deciding every cell of the arrangement induced by the plan."""
    out = []
    owners = [('u0', 'g0')]
    if plan.user is not None or plan.group is not None:
        u, g = plan.user or 'u0', plan.group or 'g0'
        owners = [(u, g), (u + 'x', g), (u, g + 'x')]
    for fam in (AF_INET, AF_INET6):
        fam6 = 1 if fam == AF_INET6 else 0
        n = bits_of(fam)
        top = (1 << n) - 1
        addrs = set()
        for (f, w, x, ip, fp, lp) in plan.subnets:
            if f != fam:
                continue
            a = addr_num(f, ip)
            size = 1 << (n - w)
            lo = a - a % size
            addrs.update((lo - 1, lo, lo + size - 1, lo + size, a))
        nsaddrs = set()
        for (f, ip) in plan.nslist:
            if f == fam:
                a = addr_num(f, ip)
                nsaddrs.add(a)
                addrs.update((a - 1, a, a + 1, a ^ (1 << 40 if n == 128 else 1 << 4), a ^ (1 << 100 if n == 128 else 1 << 9)))
        if not addrs:
            addrs.update((1, top // 3))        # the family has no entry: everything must be untouched
        addrs.update((0, top))
        addrs = sorted(a for a in addrs if 0 <= a <= top)
        ports = {1, 52, 53, 54, 65535}
        for (f, w, x, ip, fp, lp) in plan.subnets:
            if f == fam and fp:
                ports.update((fp - 1, fp, lp, lp + 1))
        ports = sorted(p for p in ports if 1 <= p <= 65535)
        full = [(a, p) for a in addrs for p in ports]
        if len(full) > budget:
            full = rng.sample(full, budget)
        protos_full = ['tcp', 'udp'] if method == 'tproxy-udp' else ['tcp']
        for a, p in full:
            for pr in protos_full:
                out.append((fam6, a, p, pr, 1, 0, owners[0][0], owners[0][1], 0))      # locally generated
                out.append((fam6, a, p, pr, 0, 0, owners[0][0], owners[0][1], 0))      # forwarded
        side = full if len(full) <= 80 else rng.sample(full, 80)
        for a, p in side:
            out.append((fam6, a, p, 'tcp', 0, 0, owners[0][0], owners[0][1], 0))
            if 'udp' not in protos_full:
                out.append((fam6, a, p, 'udp', rng.randrange(2), 0, owners[0][0], owners[0][1], 0))
            else:
                out.append((fam6, a, p, 'udp', 0, 0, owners[0][0], owners[0][1], 0))
            for (u, g) in owners[1:]:
                out.append((fam6, a, p, 'tcp', 1, 0, u, g, 0))
        for a in addrs:                       # DNS row: every address, port 53 +-1, both origins, local ns too
            for p in (52, 53, 54):
                for loc in (1, 0):
                    out.append((fam6, a, p, 'udp', loc, 1 if (a in nsaddrs and p == 53 and loc) else 0,
                                owners[0][0], owners[0][1], 0))
            if a in nsaddrs:
                out.append((fam6, a, 53, 'tcp', 1, 0, owners[0][0], owners[0][1], 0))
                for (u, g) in owners[1:]:
                    out.append((fam6, a, 53, 'udp', 1, 0, u, g, 0))
    return out


# ------------------------------------------------------------------ stale session: a stateful rule state

class KernelState(object):
    """Tables / chains / rules as the kernel keeps them between commands, in the format `load_netfilter`
    produces, with the tools' success / failure behaviour (measured in a network namespace while the design was
    written): iptables `-N` fails on an existing chain, `-F`/`-A`/`-I` on a missing one, `-X` on a missing,
    non-empty or referenced one, `-D` when no equal rule exists; nft `add table` / `add chain` succeed
    silently on existing objects, `flush chain` / `add rule` need the chain, `delete table` needs the table."""

    def __init__(self):
        self.tables = {}

    def _ipt_table(self, fam, name):
        return self.tables.setdefault(('ipt', fam, name), {'OUTPUT': [], 'PREROUTING': []})

    def listing(self, argv):
        if argv[0] not in ('iptables', 'ip6tables') or '-nL' not in argv:
            return b''
        fam = AF_INET6 if argv[0] == 'ip6tables' else AF_INET
        t = self._ipt_table(fam, argv[argv.index('-t') + 1])
        out = []
        for name, rules in t.items():
            out.append('Chain %s (%s)' % (name, 'policy ACCEPT' if name in ('OUTPUT', 'PREROUTING') else
                                         '%d references' % self._refs(t, name)))
            out.append('target     prot opt source               destination')
            out.extend('rule' for _ in rules)
            out.append('')
        return '\n'.join(out).encode('ascii')

    @staticmethod
    def _refs(t, name):
        return sum(1 for rules in t.values() for r in rules if r.get('target') == name)

    def apply(self, argv):
        try:
            if argv[0] in ('iptables', 'ip6tables'):
                return self._ipt(argv)
            if argv[0] == 'nft':
                return self._nft(argv)
        except Unparsable:
            return 2                      # the tool rejects the command line
        return 0

    def _ipt(self, argv):
        fam = AF_INET6 if argv[0] == 'ip6tables' else AF_INET
        if argv[1:3] != ['-w', '-t']:
            raise Unparsable('argv head')
        t = self._ipt_table(fam, argv[3])
        op, rest = argv[4], argv[5:]
        builtin = ('OUTPUT', 'PREROUTING')
        if op == '-N':
            if rest[0] in t:
                return 1
            t[rest[0]] = []
        elif op == '-F':
            if rest[0] not in t:
                return 1
            t[rest[0]] = []
        elif op == '-X':
            if rest[0] not in t or rest[0] in builtin or t[rest[0]] or self._refs(t, rest[0]):
                return 1
            del t[rest[0]]
        elif op in ('-I', '-A', '-D'):
            if rest[0] not in t:
                return 1
            args = rest[1:]
            if op == '-I':
                if args[0] != '1':
                    raise Unparsable('-I position')
                args = args[1:]
            r = parse_ipt_rule(fam, args)
            if r['target'] not in ('RETURN', 'ACCEPT', 'REDIRECT', 'TPROXY', 'MARK') and r['target'] not in t:
                return 2                  # jump to a chain that does not exist
            if op == '-I':
                t[rest[0]].insert(0, r)
            elif op == '-A':
                t[rest[0]].append(r)
            else:
                if r not in t[rest[0]]:
                    return 1
                t[rest[0]].remove(r)
        else:
            raise Unparsable('iptables op %r' % op)
        return 0

    def _nft(self, argv):
        action = argv[1]
        if argv[2] != 'inet':
            raise Unparsable('nft family')
        sp = ('nft', argv[3])
        toks = ' '.join(argv[4:]).split()
        if action == 'add table':
            self.tables.setdefault(sp, {})
        elif action == 'delete table':
            if sp not in self.tables:
                return 1
            del self.tables[sp]
        elif action == 'add chain':
            if sp not in self.tables:
                return 1
            nft_add_chain(self.tables[sp], toks)
        elif action == 'flush chain':
            if toks[0] not in self.tables.get(sp, {}):
                return 1
            self.tables[sp][toks[0]] = []
        elif action == 'add rule':
            if toks[0] not in self.tables.get(sp, {}):
                return 1
            r = parse_nft_rule(toks[1:])
            if r['target'] not in ('RETURN', 'REDIRECT') and r['target'] not in self.tables[sp]:
                return 1
            self.tables[sp][toks[0]].append(r)
        else:
            raise Unparsable('nft action %r' % action)
        return 0


class PfState(object):
    """What pf keeps between sessions (from the manual pages): the anchor calls in the main ruleset
    (`anchor "NAME"` for filter rules, `rdr-anchor "NAME"` for translation rules; sshuttle adds them through
    DIOCCHANGERULE and never removes them) and the contents of each anchor (`pfctl -a NAME -f` replaces them,
    `-a NAME -F all` empties them).  An anchor's rules are evaluated only if the main ruleset calls it."""

    def __init__(self):
        self.calls = []          # [(kind, name)] in the order they were added
        self.anchors = {}        # name -> rule lines

    def pfctl(self, argv, stdin):
        if '-s' in argv and 'all' in argv:
            out = ['TRANSLATION RULES:']
            out += ['rdr-anchor "%s" all' % n for k, n in self.calls if k == 'rdr']
            out += ['', 'FILTER RULES:']
            out += ['anchor "%s" all' % n for k, n in self.calls if k == 'pass']
            out += ['', 'INFO:', 'Status: Enabled', '']
            return '\n'.join(out).encode('ascii')
        if '-a' in argv:
            name = argv[argv.index('-a') + 1]
            if '-f' in argv:
                lines = (stdin or b'').decode('latin-1').split('\n')
                self.anchors[name] = [ln for ln in lines if ln]
            elif '-F' in argv:
                self.anchors[name] = []
        return b''

    def ioctl(self, pf, req, buf):
        import struct
        if req != pf.DIOCCHANGERULE:
            return 0
        raw = bytes(buf.raw) if hasattr(buf, 'raw') else bytes(buf)
        action = struct.unpack('I', raw[pf.ACTION_OFFSET:pf.ACTION_OFFSET + 4])[0]
        if action != pf.PF_CHANGE_ADD_TAIL:
            return 0
        name = raw[pf.ANCHOR_CALL_OFFSET:pf.ANCHOR_CALL_OFFSET + pf.MAXPATHLEN].split(b'\0')[0].decode('ascii')
        kind = struct.unpack('I', raw[pf.RULE_ACTION_OFFSET:pf.RULE_ACTION_OFFSET + 4])[0]
        self.calls.append(('rdr' if kind == pf.PF_RDR else 'pass', name))
        return 0

    def effective(self, method):
        """The anchors as `load_pf` input, each reduced to the rules the main ruleset actually reaches."""
        cmds = []
        for name, lines in self.anchors.items():
            keep = []
            for ln in lines:
                is_rdr = ln.startswith('rdr ')
                need = 'rdr' if (is_rdr and method != 'pf-openbsd') else 'pass'
                if ln.startswith('table ') or (need, name) in self.calls:
                    keep.append(ln)
            cmds.append(['pfctl', '-a', name, '-f', '/dev/stdin'] + keep)
        return cmds


PF_METHODS = ['pf-freebsd', 'pf-openbsd', 'pf-darwin']


def run_pf_history(method, first, plan):
    """A first session runs and ends normally (its anchor is flushed, its anchor calls stay in the main
    ruleset, as the code leaves them); then the second session is set up.  -> ('ok', cmds) | (kind, tag)."""
    st = PfState()
    for c in first.calls():
        res = run_real_setup(method, c, None, st)
        if res[0] != 'ok':
            return res
    for c in first.calls():
        res = run_real_restore(method, c, st)
        if res[0] != 'ok':
            return res
    for c in plan.calls():
        res = run_real_setup(method, c, None, st)
        if res[0] != 'ok':
            return res
    return 'ok', st.effective(method)


def evaluate_pf_history(method, first, plan, k):
    kind, val = run_pf_history(method, first, plan)
    if kind != 'ok':
        return ('setup failed: %s %s' % (kind, val), spec_verdict(method, plan, k))
    try:
        return (verdict_real(method, load_pf(val), plan, k), spec_verdict(method, plan, k))
    except Unparsable as e:
        return ('rule rejected: %s' % e, spec_verdict(method, plan, k))


def pf_history_case(ctx, method, first, plan, budget):
    """The second session's rules must take effect whatever anchor calls earlier sessions left behind."""
    begin_case(ctx)
    rng = ctx.rng
    ctx.hist('pf-history:' + method)
    kind, val = run_pf_history(method, first, plan)
    base = dict(method=method, via='pf-history', first_plan=first.to_json(), plan=plan.to_json(), packet=None)
    if kind != 'ok':
        ctx.violation('C03:pf-history:%s:setup-fails' % method, case=base,
                      expected='the second session installs its rules', observed='%s %s' % (kind, val))
        return
    try:
        loaded = load_pf(val)
    except Unparsable as e:
        ctx.violation('C03:pf-history:%s:rules-not-loadable' % method, case=base,
                      expected='every emitted rule is accepted by pfctl', observed=str(e))
        return
    ks = cells(plan, method, rng, budget)
    bad = {}
    for k in ks:
        got = verdict_real(method, loaded, plan, k)
        want = spec_verdict(method, plan, k)
        if got != want:
            key = _classify('pf-history:' + method, plan, k, got, want)
            if key not in bad:
                bad[key] = (k, got, want)
    ctx.count(len(ks))
    ctx.hist('cells', len(ks))
    reported = ctx.__dict__.setdefault('_c03_reported', set())
    for key in sorted(bad):
        k, got, want = bad[key]
        ctx.hist('violating-plans:' + key)
        if key in reported:
            continue
        reported.add(key)

        def still(f, p2):
            g, w = evaluate_pf_history(method, f, p2, k)
            return g != w and _classify('pf-history:' + method, p2, k, g, w) == key
        f, p2 = first, plan
        changed = True
        while changed:
            changed = False
            for which in (0, 1):
                cur = (f, p2)[which]
                for field in ('subnets', 'nslist'):
                    items = list(getattr(cur, field))
                    for i in range(len(items)):
                        trial = Plan.from_json(cur.to_json())
                        setattr(trial, field, items[:i] + items[i + 1:])
                        if any(not [x for x in trial.subnets if x[0] == fam] and [x for x in trial.nslist if x[0] == fam]
                               for fam in (AF_INET, AF_INET6)) or not trial.subnets:
                            continue
                        pair = (trial, p2) if which == 0 else (f, trial)
                        if still(*pair):
                            f, p2 = pair
                            changed = True
                            break
                    if changed:
                        break
                if changed:
                    break
        g2, w2 = evaluate_pf_history(method, f, p2, k)
        ctx.violation(key,
                      case=dict(method=method, via='pf-history', first_plan=f.to_json(), plan=p2.to_json(),
                                packet=list(k),
                                packet_text='%s %s port %d to %s, %s' % (
                                    'IPv6' if k[0] else 'IPv4', k[3], k[2],
                                    addr_text(AF_INET6 if k[0] else AF_INET, k[1]),
                                    'locally generated' if k[4] else 'forwarded')),
                      expected='%s (property evaluated on the second session\'s plan)' % w2,
                      observed='%s (pf state after a first session on ports %d/%d that ended normally, then the real '
                               'set-up of the second session on ports %d/%d; only anchors the main ruleset calls are '
                               'evaluated)' % (g2, f.port6, f.port4, p2.port6, p2.port4))


STALE_METHODS = ['nat', 'nft', 'tproxy', 'tproxy-udp']
STALE_OWNER_PAIRS = [
    ((None, None), (None, None)), ((None, None), ('alice', None)), (('alice', None), (None, None)),
    (('alice', None), ('bob', None)), (('alice', None), ('alice', None)), ((None, None), (None, 'staff')),
    ((None, 'staff'), (None, 'wheel')), (('alice', None), (None, 'staff')), ((None, 'staff'), (None, None)),
    (('alice', 'staff'), ('alice', 'staff')), (('alice', 'staff'), ('bob', 'staff')), ((None, None), ('bob', 'wheel')),
]


def run_sessions(method, plans):
    """The real set-up of each plan in turn on ONE kernel state, without any tear-down in between (the
    earlier sessions' helpers were killed).  -> ('ok', tables) | (kind, tag)."""
    kernel = KernelState()
    for plan in plans:
        for c in plan.calls():
            res = run_real_setup(method, c, kernel)
            if res[0] != 'ok':
                return res
    return 'ok', kernel.tables


def evaluate_sessions(method, first, plan, k):
    kind, val = run_sessions(method, [first, plan])
    if kind != 'ok':
        return ('setup failed: %s %s' % (kind, val), spec_verdict(method, plan, k))
    try:
        return (verdict_real(method, val, plan, k), spec_verdict(method, plan, k))
    except Unparsable as e:
        return ('rule rejected: %s' % e, spec_verdict(method, plan, k))


def second_plan(rng, method, first):
    """A different plan for the same ports, families, owner and mark as `first`."""
    fams = sorted({s[0] for s in first.subnets} | {n[0] for n in first.nslist})
    for _ in range(50):
        p = rand_plan(rng, method) if rng.random() < 0.6 else nested_plan(rng, method)
        if sorted({s[0] for s in p.subnets} | {n[0] for n in p.nslist}) == fams:
            break
    else:
        p = Plan([s for s in first.subnets[::2]], list(first.nslist[1:]), 0, 0, 0, 0, first.udp, None, None, '')
        for f in fams:                                       # keep every family of the first session active
            if not [s for s in p.subnets if s[0] == f] and not [n for n in p.nslist if n[0] == f]:
                p.subnets.append((f, 8, False, addr_text(f, 0), 0, 0))
    p.port6, p.port4, p.dns6, p.dns4 = first.port6, first.port4, first.dns6, first.dns4
    p.user, p.group, p.tmark, p.udp = first.user, first.group, first.tmark, first.udp
    return p


KNOWN_STALE_OWNER_KEY = 'C03:stale-session:nat:stale-owner-mark:traffic-of-the-killed-sessions-owner-diverted'


def owners_differ(first, plan):
    return (first.user, first.group) != (plan.user, plan.group)


def _owner_ok(pl, k):
    return k[4] == 1 and (pl.user is None or k[6] == pl.user) and (pl.group is None or k[7] == pl.group)


def is_stale_owner_mark_class(method, first, plan, k, got, want):
    """nat; the killed session AND the new one both had an owner restriction, a different one; the packet is
    locally generated by the KILLED session's owner (not the new session's) and is diverted.  (The new session's
    restore_firewall deletes the old mark-matching jump - same arguments - but looks for the mangle MARK rule of
    its OWN uid/gid, so the killed session's `-m owner ... -j MARK --set-mark <port>` stays and keeps marking.)"""
    if method != 'nat' or not owners_differ(first, plan):
        return False
    if (first.user is None and first.group is None) or (plan.user is None and plan.group is None):
        return False
    return want == 'u' and got.startswith('d') and _owner_ok(first, k) and not _owner_ok(plan, k)


def stale_key(method, first, plan, k, got, want):
    if is_ipv6_ns_mask32_class(method, plan, k, got, want):
        return KNOWN_MASK32_KEY
    if is_stale_owner_mark_class(method, first, plan, k, got, want):
        return KNOWN_STALE_OWNER_KEY
    return _classify('stale-session:' + method, plan, k, got, want)


def stale_session_case(ctx, method, first, plan, budget):
    """Session 1 (`first`) is set up and killed; session 2 (`plan`) is set up on what it left.  If session 2
    starts, the whole resulting rule state (stale rules included) must implement `plan` for every owner; when the
    two sessions differ in their owner restriction a refusal to start (Fatal) is acceptable."""
    begin_case(ctx)
    rng = ctx.rng
    ctx.hist('stale-session:' + method)
    kind, val = run_sessions(method, [first, plan])
    case0 = dict(method=method, via='stale-session', first_plan=first.to_json(), plan=plan.to_json(), packet=None)
    if kind == 'fatal' and owners_differ(first, plan):
        ctx.hist('stale-session-refused-to-start:' + method)
        return
    if kind != 'ok':
        ctx.violation('C03:stale-session:%s:setup-fails' % method, case=case0,
                      expected='the second session installs its rules over what the killed session left',
                      observed='%s %s' % (kind, val))
        return
    if not wf_plan(plan):
        return
    ks = cells(plan, method, rng, budget) + [k for k in cells(first, method, rng, budget // 3) if k[3] == 'tcp']
    bad = {}
    nbad = {}
    for k in ks:
        try:
            got = verdict_real(method, val, plan, k)
        except Unparsable as e:
            got = 'rule rejected: %s' % e
        want = spec_verdict(method, plan, k)
        if got != want:
            key = stale_key(method, first, plan, k, got, want)
            nbad[key] = nbad.get(key, 0) + 1
            if key not in bad or (bad[key][0][4] == 0 and k[4] == 1):
                bad[key] = (k, got, want)
    ctx.count(len(ks))
    ctx.hist('cells', len(ks))
    reported = ctx.__dict__.setdefault('_c03_reported', set())
    for key in sorted(bad):
        k, got, want = bad[key]
        ctx.hist('violating-plans:' + key)
        if key in reported:
            continue
        reported.add(key)

        def still(f, p2):
            g, w = evaluate_sessions(method, f, p2, k)
            if g == w:
                return False
            return stale_key(method, f, p2, k, g, w) == key
        f, p2 = first, plan
        changed = True
        while changed:                                   # drop entries of either session while it still fails
            changed = False
            for which in (0, 1):
                cur = (f, p2)[which]
                for field in ('subnets', 'nslist'):
                    items = list(getattr(cur, field))
                    for i in range(len(items)):
                        trial = Plan.from_json(cur.to_json())
                        setattr(trial, field, items[:i] + items[i + 1:])
                        pair = (trial, p2) if which == 0 else (f, trial)
                        if which == 1 and sorted({x[0] for x in trial.subnets} | {x[0] for x in trial.nslist}) != \
                                sorted({x[0] for x in cur.subnets} | {x[0] for x in cur.nslist}):
                            continue                     # the second session keeps serving the same families
                        if still(*pair):
                            f, p2 = pair
                            changed = True
                            break
                    if changed:
                        break
                if changed:
                    break
        g2, w2 = evaluate_sessions(method, f, p2, k)
        ctx.violation(key,
                      case=dict(method=method, via='stale-session', first_plan=f.to_json(), plan=p2.to_json(),
                                packet=list(k),
                                packet_text='%s %s port %d to %s, %s' % (
                                    'IPv6' if k[0] else 'IPv4', k[3], k[2],
                                    addr_text(AF_INET6 if k[0] else AF_INET, k[1]),
                                    'locally generated' if k[4] else 'forwarded')),
                      expected='%s (property evaluated on the SECOND session\'s plan)' % w2,
                      observed='%s (walk over the rule state after the real set-up of first_plan, no tear-down, then '
                               'the real set-up of plan on the same ports); %d of %d cells disagree in this class'
                               % (g2, nbad[key], len(ks)))


# ------------------------------------------------------------------ generators

def rand_plan(rng, method, size_hint=None):
    fams = rng.choice([[AF_INET]] * 5 + [[AF_INET6]] * 2 + [[AF_INET, AF_INET6]] * 3)
    subnets = []
    nslist = []
    for fam in fams:
        n = bits_of(fam)
        widths = V6_WIDTHS if fam == AF_INET6 else V4_WIDTHS
        seeds = [rng.getrandbits(n) for _ in range(rng.choice([1, 1, 2, 3]))]
        if fam == AF_INET:
            seeds = [(s & 0x00ffffff) | (rng.choice([10, 172, 192, 8, 100]) << 24) for s in seeds]
        else:
            seeds = [(s & ((1 << 112) - 1)) | (rng.choice([0x2001, 0x2404, 0xfd00, 0xfe80]) << 112) for s in seeds]
        cnt = size_hint if size_hint is not None else rng.choice([0, 1, 2, 2, 3, 3, 4, 5, 6, 8])
        if method.startswith('pf-') and cnt == 0:
            cnt = 1
        for _ in range(cnt):
            s = rng.choice(seeds)
            w = rng.choice(widths)
            size = 1 << (n - w)
            a = s - s % size if rng.random() < 0.85 else s      # sometimes keep host bits
            fp, lp = rng.choice(PORT_POOL)
            x = rng.random() < 0.35
            subnets.append((fam, w, x, addr_text(fam, a), fp, lp))
            if rng.random() < 0.2:                               # same key, opposite flag
                subnets.append((fam, w, not x, addr_text(fam, a), fp, lp))
            if rng.random() < 0.15 and fp:                       # same narrowness, shifted range
                d = rng.choice([1, 5, lp - fp])
                if lp + d <= 65535:
                    subnets.append((fam, w, rng.random() < 0.5, addr_text(fam, a), fp + d, lp + d))
        for _ in range(rng.choice([0, 0, 1, 1, 2, 3])):
            s = rng.choice(seeds)
            a = s if rng.random() < 0.6 else rng.getrandbits(n)
            if rng.random() < 0.15:
                a = addr_num(fam, '127.0.0.53' if fam == AF_INET else '::1')
            nslist.append((fam, addr_text(fam, a)))
    rng.shuffle(subnets)
    user = group = None
    r = rng.random()
    if method == 'nat':
        if r < 0.15:
            user = rng.choice(['alice', '1000', 'svc_x'])
        elif r < 0.25:
            group = rng.choice(['staff', '100'])
        elif r < 0.4:
            user, group = 'bob', 'wheel'
    elif r < 0.1:
        group = 'staff'          # these methods ignore it (the client refuses the option for them, C15)
    ports = rng.sample(range(1024, 65536), 4)
    if rng.random() < 0.2:
        ports = [12300, 12299, 12298, 12297]
    tmark = rng.choice(['0x01', '0x01', '0x2a', '0xff'])
    return Plan(subnets, nslist, ports[0], ports[1], ports[2], ports[3], method == 'tproxy-udp', user, group, tmark)


def nested_plan(rng, method):
    """3-5 nested entries with ALTERNATING action and one common port spec per family (a chain
    A include > B exclude > C include ... or its mirror image), optionally with a sibling and a name server;
    order shuffled.  Only such plans distinguish "most specific entry" from "some containing entry"."""
    fams = rng.choice([[AF_INET]] * 3 + [[AF_INET6]] * 2 + [[AF_INET, AF_INET6]] * 2)
    subnets = []
    nslist = []
    for fam in fams:
        n = bits_of(fam)
        pool = [0, 8, 12, 16, 20, 24, 28, 32] if fam == AF_INET else [0, 16, 32, 48, 56, 64, 96, 128]
        depth = rng.choice([3, 3, 3, 4, 5])
        widths = sorted(rng.sample(pool, depth))
        base = rng.getrandbits(n)
        if fam == AF_INET:
            base = (base & 0x00ffffff) | (rng.choice([10, 172, 192, 100]) << 24)
        else:
            base = (base & ((1 << 112) - 1)) | (rng.choice([0x2001, 0xfd00]) << 112)
        fp, lp = rng.choice(PORT_POOL)
        x = rng.random() < 0.5
        for w in widths:
            size = 1 << (n - w)
            subnets.append((fam, w, x, addr_text(fam, base - base % size), fp, lp))
            x = not x
        if rng.random() < 0.3:                      # a sibling of the innermost net, any action
            w = widths[-1]
            if w > 0:
                size = 1 << (n - w)
                sib = (base - base % size) ^ size
                subnets.append((fam, w, rng.random() < 0.5, addr_text(fam, sib), fp, lp))
        if rng.random() < 0.2:                      # same chain position, different ports: must not interfere
            w = rng.choice(widths)
            size = 1 << (n - w)
            subnets.append((fam, w, rng.random() < 0.5, addr_text(fam, base - base % size), 443, 443))
        if rng.random() < 0.3:
            nslist.append((fam, addr_text(fam, base if rng.random() < 0.5 else rng.getrandbits(n))))
    rng.shuffle(subnets)
    user = group = None
    if method == 'nat' and rng.random() < 0.2:
        user = 'alice'
    ports = rng.sample(range(1024, 65536), 4)
    return Plan(subnets, nslist, ports[0], ports[1], ports[2], ports[3], method == 'tproxy-udp', user, group, '0x01')


def lattice_plans(method):
    """All plans with <= 2 entries over a small lattice (thorough tier)."""
    nets = [('10.0.0.0', 8), ('10.1.0.0', 16), ('10.1.0.0', 8), ('10.1.2.3', 32), ('0.0.0.0', 0)]
    prts = [(0, 0), (80, 80), (80, 90), (85, 95), (1, 65535)]
    entries = [(AF_INET, w, x, ip, fp, lp) for ip, w in nets for fp, lp in prts for x in (False, True)]
    for i, a in enumerate(entries):
        yield Plan([a], [], 12300, 12299, 12298, 12297, method == 'tproxy-udp', None, None, '0x01')
        for b in entries[i:]:
            yield Plan([a, b], [(AF_INET, '10.1.2.3')], 12300, 12299, 12298, 12297, method == 'tproxy-udp',
                       None, None, '0x01')


def odd_calls(rng):
    """Single setup_firewall calls outside what firewall.main produces."""
    base = dict(port=1025, dnsport=1027, nslist=[(AF_INET, '1.2.3.33')], family=AF_INET,
                subnets=[(AF_INET, 24, False, '1.2.3.0', 8000, 9000), (AF_INET, 32, True, '1.2.3.66', 8080, 8080)],
                udp=False, user=None, group=None, tmark='0x01')
    out = []
    for m in METHODS:
        mm = 'tproxy' if m == 'tproxy-udp' else m
        out.append((mm, dict(base)))
        out.append((mm, dict(base, udp=True)))
        out.append((mm, dict(base, family=0)))
        out.append((mm, dict(base, family=1, udp=True)))
        out.append((mm, dict(base, subnets=[])))
        out.append((mm, dict(base, subnets=[], nslist=[])))
        out.append((mm, dict(base, user='carol')))
        out.append((mm, dict(base, group='ops', user='carol')))
        out.append((mm, dict(base, family=AF_INET6, port=1024, dnsport=1026,
                             nslist=[(AF_INET6, '2404:6800:4004:80c::33')],
                             subnets=[(AF_INET6, 64, False, '2404:6800:4004:80c::', 8000, 9000),
                                      (AF_INET6, 128, True, '2404:6800:4004:80c::101f', 8080, 8080)])))
        if not m.startswith('pf-'):
            out.append((mm, dict(base, nslist=[(AF_INET6, '2404:6800:4004:80c::33'), (AF_INET, '1.2.3.33'),
                                              (AF_INET, '9.9.9.9')])))
    return out


# ------------------------------------------------------------------ one plan through everything

class Case(object):
    def __init__(self):
        self.ins = []
        self.outs = []


def minimise(method, plan, k, want_bad):
    """Drop entries / name servers while packet k still disagrees with the property."""
    cur = plan
    changed = True
    while changed:
        changed = False
        for field in ('subnets', 'nslist'):
            items = list(getattr(cur, field))
            for i in range(len(items)):
                trial = Plan.from_json(cur.to_json())
                setattr(trial, field, items[:i] + items[i + 1:])
                if method.startswith('pf-') and any(
                        not [s for s in trial.subnets if s[0] == f] and [n for n in trial.nslist if n[0] == f]
                        for f in (AF_INET, AF_INET6)):
                    continue
                if want_bad(trial, k):
                    cur = trial
                    changed = True
                    break
            if changed:
                break
    return cur


def evaluate_plan(method, plan, k, via='direct'):
    """-> (real verdict or error text, spec verdict) for one packet, real code only."""
    kind, val, _pc = real_plan_cmds(method, plan, via)
    if kind != 'ok':
        return ('setup failed: %s %s' % (kind, val), spec_verdict(method, plan, k))
    try:
        loaded = load_real(method, val)
        return (verdict_real(method, loaded, plan, k), spec_verdict(method, plan, k))
    except Unparsable as e:
        return ('rule rejected: %s' % e, spec_verdict(method, plan, k))


KNOWN_MASK32_KEY = 'C03:tproxy:ipv6-ns-mask32:dns-divert-of-non-nameserver'


def is_ipv6_ns_mask32_class(method, plan, k, got, want):
    """tproxy / tproxy-udp, IPv6 packet, UDP port 53, sent to the DNS listener although its destination is
    NOT a configured name server but lies inside the /32 of a configured IPv6 name server."""
    fam6, dst, dport, proto, loc, dl, uid, gid, sock = k
    if method not in ('tproxy', 'tproxy-udp') or not fam6 or proto != 'udp' or dport != 53:
        return False
    if got != 'd%d' % plan.dns6 or want == got:
        return False
    ns6 = [addr_num(f, ip) for f, ip in plan.nslist if f == AF_INET6]
    if dst in ns6:
        return False
    return any((a >> 96) == (dst >> 96) for a in ns6)


def classify(method, plan, k, got, want, via='direct'):
    """Class of a disagreement.  The known tproxy class keeps its exact key on both paths; everything seen on
    the path through firewall.main is keyed `C03:via-helper:...`."""
    if is_ipv6_ns_mask32_class(method, plan, k, got, want):
        return KNOWN_MASK32_KEY
    if via == 'helper':
        method = 'via-helper:' + method
    if via == 'client':
        method = 'via-client:' + method
    return _classify(method, plan, k, got, want)


def _classify(method, plan, k, got, want):
    fam6, dst, dport, proto, loc, dl, uid, gid, sock = k
    if got.startswith('rule rejected') or got.startswith('setup failed'):
        return 'C03:%s:rules-not-loadable' % method
    if want == 'u' and got.startswith('d') and (plan.user is not None or plan.group is not None) and \
            method.split(':')[-1] == 'nat' and \
            (not loc or (plan.user is not None and uid != plan.user) or (plan.group is not None and gid != plan.group)):
        return 'C03:%s:traffic-of-another-owner-diverted' % method
    dnsport = plan.dns6 if fam6 else plan.dns4
    if got == 'd%d' % dnsport and want != got:
        return 'C03:%s:dns-divert-of-non-nameserver' % method
    if want == 'd%d' % dnsport and proto == 'udp' and dport == 53:
        return 'C03:%s:dns-not-diverted' % method
    if proto == 'udp':
        return 'C03:%s:udp-verdict' % method
    if want == 'u':
        return 'C03:%s:diverted-but-most-specific-is-not-include' % method
    return 'C03:%s:not-diverted-but-most-specific-is-include' % method


def run_plan(ctx, method, plan, log, budget, lean_cells, via='direct'):
    begin_case(ctx)
    rng = ctx.rng
    tag = 'via-helper:' + method if via == 'helper' else 'via-client:' + method if via == 'client' else method
    kind, val, per_call = real_plan_cmds(method, plan, via)
    for c, res in per_call:
        log.ins.append(setup_line(method, c))
        log.outs.append(canon(res))
    log.ins.append(plan_line(method, plan))
    if kind != 'ok':
        log.outs.append('%s %s' % (kind, val))
        ctx.hist('plan-setup-' + kind)
        if wf_plan(plan):
            ctx.violation('C03:%s:setup-raises' % tag,
                          case=dict(method=method, via=via, plan=plan.to_json(), packet=None),
                          expected='rules installed for a well-formed plan', observed='%s %s' % (kind, val))
        return
    cmds = val
    log.outs.append('ok %d' % len(cmds))
    try:
        loaded = load_real(method, cmds)
    except Unparsable as e:
        ctx.violation('C03:%s:rules-not-loadable' % tag,
                      case=dict(method=method, via=via, plan=plan.to_json(), packet=None),
                      expected='every emitted rule is accepted by the tool', observed=str(e))
        return
    if not wf_plan(plan):
        return
    ks = cells(plan, method, rng, budget)
    bad = {}          # class key -> (packet, got, want), locally generated packets preferred
    nbad = {}
    verdicts = {}
    for k in ks:
        got = verdict_real(method, loaded, plan, k)
        want = spec_verdict(method, plan, k)
        verdicts[k] = (got, want)
        if got != want:
            key = classify(method, plan, k, got, want, via)
            nbad[key] = nbad.get(key, 0) + 1
            if key not in bad or (bad[key][0][4] == 0 and k[4] == 1):
                bad[key] = (k, got, want)
    ctx.count(len(ks))
    ctx.hist('cells', len(ks))
    ctx.hist('cells-diverted', sum(1 for g, w in verdicts.values() if w != 'u'))
    reported = ctx.__dict__.setdefault('_c03_reported', set())
    for key in sorted(bad):
        k, got, want = bad[key]
        ctx.hist('violating-plans:' + key)
        if key in reported:
            continue              # same class already has its minimised replay in this run
        reported.add(key)

        def want_bad(tp, kk, key=key):
            g, w = evaluate_plan(method, tp, kk, via)
            return g != w and classify(method, tp, kk, g, w, via) == key
        small = minimise(method, plan, k, want_bad)
        g2, w2 = evaluate_plan(method, small, k, via)
        ctx.violation(key,
                      case=dict(method=method, via=via, plan=small.to_json(), packet=list(k),
                                packet_text='%s %s port %d to %s, %s' % (
                                    'IPv6' if k[0] else 'IPv4', k[3], k[2],
                                    addr_text(AF_INET6 if k[0] else AF_INET, k[1]),
                                    'locally generated' if k[4] else 'forwarded')),
                      expected='%s (property evaluated on the plan)' % w2,
                      observed='%s (walk over the rules the real %s emitted); %d of %d cells of the original plan '
                               'disagree in this class' % (
                                   g2, 'firewall.main + setup_firewall' if via == 'helper' else
                                   'FirewallClient.start -> firewall.main -> setup_firewall' if via == 'client' else
                                   'setup_firewall',
                                   nbad[key], len(ks)))
    # a sample of cells goes through the Lean walk and the Lean spec as well
    if lean_cells and ks:
        interesting = [k for k in ks if verdicts[k][1] != 'u']
        pick = rng.sample(interesting, min(len(interesting), lean_cells // 2)) + \
            rng.sample(ks, min(len(ks), lean_cells - min(len(interesting), lean_cells // 2)))
        log.ins.append('walk ' + ';'.join(pkt_field(k) for k in pick))
        log.outs.append(' '.join(verdicts[k][0] for k in pick) + ' | ' + ' '.join(verdicts[k][1] for k in pick))


def nontrivial(plan):
    if plan.nslist or plan.user or plan.group:
        return True
    if any(s[4] for s in plan.subnets):
        return True
    return len(plan.subnets) >= 2


def canon_plan(method, plan):
    return (method, repr(sorted(plan.to_json().items())))


def gen_and_run(ctx):
    rng = ctx.rng
    logs = []
    # 1. single calls outside main's envelope (exceptions, filters)
    lg = Case()
    for m, c in odd_calls(rng):
        begin_case(ctx)
        lg.ins.append(setup_line(m, c))
        lg.outs.append(canon(run_real_setup(m if m != 'tproxy' else 'tproxy', c)))
        ctx.count()
        ctx.hist('odd-call:' + lg.outs[-1].split(' ')[0])
        ctx.mark(('odd', m, lg.ins[-1]))
    logs.append(('odd', lg))
    # 2. corpus: hand-written boundary plans
    for method in METHODS:
        for plan in corpus(method):
            for via in ('direct', 'helper'):
                lg = Case()
                run_plan(ctx, method, plan, lg, 1500, 40 if via == 'direct' else 12, via)
                logs.append((method, lg))
                ctx.hist('plan:' + method)
                ctx.hist('path:' + via)
                ctx.mark(canon_plan(method, plan) + (via,), nontrivial(plan))
    # 2b. nested alternating chains through the real firewall.main (ROUTES/NSLIST/PORTS/GO line protocol)
    for i in range(ctx.scale(14, 400)):
        for method in METHODS:
            plan = nested_plan(rng, method)
            lg = Case()
            run_plan(ctx, method, plan, lg, 300, 10, 'helper')
            logs.append((method, lg))
            ctx.hist('nested-plan:' + method)
            ctx.hist('path:helper')
            ctx.mark(canon_plan(method, plan) + ('helper',), True)
            if i < 1 and method == 'nft':
                ctx.sample(dict(method=method, path='firewall.main', helper_stdin=helper_input(plan).decode('ascii'),
                                real_code_output=lg.outs[:1]))
    # 2b'. end to end: the dialogue bytes come from the REAL FirewallClient.setup()/start() and are fed unchanged
    #      to the real firewall.main; owner restriction by numeric id as client.main resolves it
    ids = [None, '0', '1', '1000']
    combos = [(u, g) for u in ids for g in ids]
    for i in range(ctx.scale(16, 320)):
        for method in METHODS:
            if method != 'nat' and i >= ctx.scale(4, 60):
                continue
            plan = rand_plan(rng, method) if i % 2 else nested_plan(rng, method)
            plan.user, plan.group = combos[i % len(combos)] if method == 'nat' else (None, None)
            lg = Case()
            run_plan(ctx, method, plan, lg, 250, 10, 'client')
            logs.append((method, lg))
            ctx.hist('path:client')
            if method == 'nat':
                ctx.hist('client-owner:user=%s,group=%s' % (plan.user, plan.group))
            ctx.mark(canon_plan(method, plan) + ('client',), True)
            if i == 1 and method == 'nat':
                ctx.sample(dict(method=method, path='FirewallClient -> firewall.main', verbosity=_CUR['level'],
                                client_dialogue=client_dialogue(method, plan).decode('ascii'),
                                real_code_output=lg.outs[:1]))
    # 2c. a session set up on top of what a killed session left (same ports, no tear-down in between)
    for i in range(ctx.scale(16, 500)):
        for method in STALE_METHODS:
            first = rand_plan(rng, method) if i % 2 else nested_plan(rng, method)
            if i == 0:
                first = Plan([(AF_INET, 8, False, '10.0.0.0', 0, 0), (AF_INET, 24, False, '192.168.7.0', 0, 0)],
                             [(AF_INET, '10.0.0.53')], 12300, 12300, 12299, 12299, method == 'tproxy-udp',
                             None, None, '0x01')
                plan = Plan([(AF_INET, 16, False, '10.1.0.0', 0, 0), (AF_INET, 24, True, '10.1.2.0', 0, 0)],
                            [], 12300, 12300, 12299, 12299, method == 'tproxy-udp', None, None, '0x01')
            else:
                plan = second_plan(rng, method, first)
            if method == 'nat':
                # (killed session's owner, new session's owner): same / none->user / user->none / A->B / groups
                o1, o2 = STALE_OWNER_PAIRS[i % len(STALE_OWNER_PAIRS)]
                (first.user, first.group), (plan.user, plan.group) = o1, o2
                ctx.hist('stale-owners:%s->%s' % ('/'.join(str(x) for x in o1), '/'.join(str(x) for x in o2)))
            stale_session_case(ctx, method, first, plan, 250)
            ctx.mark(('stale', method, repr(first.to_json()), repr(plan.to_json())), True)
    # 2d. pf: a session after earlier sessions left their anchor calls in the main ruleset; the new ports are
    #     decimal prefixes of / equal to / unrelated to the old ones
    for i in range(ctx.scale(9, 240)):
        for method in PF_METHODS:
            plan = nested_plan(rng, method) if i % 2 else rand_plan(rng, method)
            first = rand_plan(rng, method)
            small = rng.sample(range(1024, 6553), 4)
            plan.port6, plan.port4, plan.dns6, plan.dns4 = small
            rel = ('prefix', 'same', 'unrelated')[i % 3]
            if rel == 'prefix':
                first.port6, first.port4 = small[0] * 10 + rng.randrange(10), small[1] * 10 + rng.randrange(10)
            elif rel == 'same':
                first.port6, first.port4 = small[0], small[1]
            ctx.hist('pf-history-ports:' + rel)
            pf_history_case(ctx, method, first, plan, 200)
            ctx.mark(('pf-history', method, rel, repr(first.to_json()), repr(plan.to_json())), True)
    # 3. generated plans
    nplans = ctx.scale(150, 2500)
    for i in range(nplans):
        for method in METHODS:
            plan = rand_plan(rng, method)
            via = 'helper' if i % 3 == 2 else 'direct'
            lg = Case()
            run_plan(ctx, method, plan, lg, 400 if not ctx.thorough else 900, 24, via)
            logs.append((method, lg))
            ctx.hist('plan:' + method)
            ctx.hist('path:' + via)
            ctx.hist('entries:%d' % min(len(plan.subnets), 9))
            if plan.user or plan.group:
                ctx.hist('owner-restricted' if method == 'nat' else 'owner-given-but-ignored-by-method')
            ctx.mark(canon_plan(method, plan) + (via,), nontrivial(plan))
            if i < 1 and method in ('nat', 'pf-openbsd'):
                ctx.sample(dict(method=method, plan=plan.to_json(), real_code_output=lg.outs[:2]))
        if len([v for v in ctx.violations if v['key'] != KNOWN_MASK32_KEY]) > 12:
            break
    # 4. thorough: every plan with <= 2 entries over a small lattice
    if ctx.thorough:
        for method in ('nat', 'nft', 'tproxy-udp', 'pf-freebsd', 'pf-openbsd'):
            for plan in lattice_plans(method):
                lg = Case()
                run_plan(ctx, method, plan, lg, 2000, 0)
                if method == 'nat':
                    logs.append((method, lg))
                ctx.hist('lattice-plan:' + method)
                ctx.mark(canon_plan(method, plan), True)
    return logs


def corpus(method):
    udp = method == 'tproxy-udp'
    P = lambda sn, ns=(), user=None, group=None: Plan(list(sn), list(ns), 1024, 1025, 1026, 1027, udp, user, group, '0x01')  # noqa
    v4, v6 = AF_INET, AF_INET6
    yield P([(v4, 24, False, '1.2.3.0', 8000, 9000), (v4, 32, True, '1.2.3.66', 8080, 8080)], [(v4, '1.2.3.33')])
    yield P([(v6, 64, False, '2404:6800:4004:80c::', 8000, 9000), (v6, 128, True, '2404:6800:4004:80c::101f', 8080, 8080)],
            [(v6, '2404:6800:4004:80c::33')])
    # narrow port range on a short prefix beats a long prefix without ports
    yield P([(v4, 8, True, '10.0.0.0', 443, 443), (v4, 32, False, '10.1.2.3', 0, 0), (v4, 0, False, '0.0.0.0', 0, 0)])
    # equal key, opposite flags, both orders
    yield P([(v4, 16, False, '10.1.0.0', 80, 90), (v4, 16, True, '10.1.0.0', 80, 90)])
    yield P([(v4, 16, True, '10.1.0.0', 80, 90), (v4, 16, False, '10.1.0.0', 80, 90)])
    # same narrowness, shifted ranges, exclusion wins the overlap
    yield P([(v4, 16, False, '10.1.0.0', 80, 90), (v4, 16, True, '10.1.0.0', 85, 95)])
    # 1-65535 is still narrower than "no ports"
    yield P([(v4, 32, True, '10.1.2.3', 0, 0), (v4, 8, False, '10.0.0.0', 1, 65535)])
    # three and four nested levels with alternating action and equal port spec (include > exclude > include ...)
    yield P([(v4, 8, False, '10.0.0.0', 0, 0), (v4, 16, True, '10.1.0.0', 0, 0), (v4, 24, False, '10.1.1.0', 0, 0)])
    yield P([(v4, 24, True, '10.1.1.0', 0, 0), (v4, 0, False, '0.0.0.0', 0, 0), (v4, 16, False, '10.1.0.0', 0, 0),
             (v4, 8, True, '10.0.0.0', 0, 0)])
    yield P([(v6, 32, False, '2001:db8::', 443, 443), (v6, 48, True, '2001:db8:1::', 443, 443),
             (v6, 64, False, '2001:db8:1:2::', 443, 443)])
    # both families, name servers in both, one inside an excluded net
    yield P([(v4, 0, False, '0.0.0.0', 0, 0), (v4, 8, True, '127.0.0.0', 0, 0), (v6, 0, False, '::', 0, 0),
             (v6, 128, True, '::1', 0, 0)], [(v4, '127.0.0.53'), (v6, '2001:db8::53'), (v4, '8.8.8.8')])
    if method == 'nat':
        yield P([(v4, 0, False, '0.0.0.0', 0, 0), (v4, 24, True, '192.168.1.0', 0, 0)], [(v4, '192.168.1.1')], user='alice')
        yield P([(v4, 0, False, '0.0.0.0', 0, 0)], [], group='staff')
        yield P([(v6, 0, False, '::', 0, 0), (v4, 8, False, '10.0.0.0', 22, 22)], [(v6, 'fd00::1')], user='bob', group='wheel')


def compare(ctx, logs):
    if not ctx.model_available:
        ctx.notes.append('model driver unavailable: correspondence skipped, oracle only')
        return
    ins = []
    for _m, lg in logs:
        ins.extend(lg.ins)
    outs = common.LeanBatch('C03').run(ins)
    if len(outs) != len(ins):
        ctx.corr_break('C03', case=None, impl='%d lines' % len(ins), model='%d lines' % len(outs),
                       note='driver output length differs')
        return
    pos = 0
    for m, lg in logs:
        n = len(lg.ins)
        mo = outs[pos:pos + n]
        pos += n
        if mo != lg.outs:
            i = next(j for j in range(n) if mo[j] != lg.outs[j])
            ctx.corr_break(m, case=lg.ins[:i + 1][-3:], impl=lg.outs[i][:3000], model=mo[i][:3000],
                           note=first_diff(lg.outs[i], mo[i]))
            if len(ctx.corr_breaks) > 20:
                return


def first_diff(a, b):
    if ' | ' in a and ' | ' in b and not a.startswith('ok'):
        ia, sa = a.split(' | ')
        ib, sb = b.split(' | ')
        notes = []
        if ia != ib:
            notes.append('packet walk differs (real rules by harness walk vs model rules by Lean walk)')
        if sa != sb:
            notes.append('spec differs (harness spec vs Lean spec)')
        return '; '.join(notes)
    ca, cb = a.split(' ;; '), b.split(' ;; ')
    for i, (x, y) in enumerate(zip(ca, cb)):
        if x != y:
            return 'command %d: real %r model %r' % (i, x.split('\t'), y.split('\t'))
    return 'command count: real %d model %d' % (len(ca), len(cb))


def run(ctx):
    logs = gen_and_run(ctx)
    compare(ctx, logs)


def search(ctx):
    """The tie broke without an oracle hit: more plans, bigger budgets."""
    gen_and_run(ctx)


def replay(ctx, rep):
    case = rep['case']
    _CUR['level'] = int(case.get('verbosity', 0) or 0)
    method = case['method']
    via = case.get('via', 'direct')
    plan = Plan.from_json(case['plan'])
    if via == 'pf-history':
        first = Plan.from_json(case['first_plan'])
        if case.get('packet') is None:
            kind, val = run_pf_history(method, first, plan)
            return kind != 'ok', 'second pf session: %s %s' % (kind, val if kind != 'ok' else 'rules installed')
        k = tuple(case['packet'])
        got, want = evaluate_pf_history(method, first, plan, k)
        return got != want, 'packet %s (%s), pf session after an earlier session on ports %d/%d: effective rules ' \
            '-> %s, property -> %s' % (pkt_field(k), case.get('packet_text', ''), first.port6, first.port4, got, want)
    if via == 'stale-session':
        first = Plan.from_json(case['first_plan'])
        if case.get('packet') is None:
            kind, val = run_sessions(method, [first, plan])
            return kind != 'ok', 'second set-up on the killed session\'s state: %s %s' % (
                kind, val if kind != 'ok' else 'rules installed')
        k = tuple(case['packet'])
        got, want = evaluate_sessions(method, first, plan, k)
        if got.startswith('setup failed: fatal') and owners_differ(first, plan):
            return False, 'the second session refuses to start on the killed session\'s state (acceptable): ' + got
        return got != want, 'packet %s (%s), second session on a killed session\'s state: rule state -> %s, ' \
            'property (second plan) -> %s' % (pkt_field(k), case.get('packet_text', ''), got, want)
    if case.get('packet') is None:
        kind, val, _pc = real_plan_cmds(method, plan, via)
        if kind != 'ok':
            return True, 'real code (%s path): %s %s' % (via, kind, val)
        try:
            load_real(method, val)
        except Unparsable as e:
            return True, 'emitted rule not loadable: %s' % e
        return False, 'rules installed'
    k = tuple(case['packet'])
    got, want = evaluate_plan(method, plan, k, via)
    return got != want, 'packet %s (%s), %s path: real rules -> %s, property -> %s' % (
        pkt_field(k), case.get('packet_text', ''), via, got, want)
