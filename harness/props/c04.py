"""C04 — firewall changes are undone on every exit path.

The REAL `sshuttle.firewall.main` runs in-process (setup_daemon replaced, HOSTSFILE in a scratch
directory, stdin/stdout scripted) with every subprocess call of sshuttle.linux / firewall /
methods.pf routed to a packet-filter environment.  That environment exists twice: `PyEnv` below
(so the oracle works without Lean) and `Env/FwState.lean` behind the driver; every command's
status/output and the final configuration are cross-checked between the two, so the real Python
executes against exactly the environment the theorems talk about.  Then the code model
(`Code/FwSession.lean`) runs the same dialogue and fault schedule and its command trace, exit and
final configuration are diffed with what the real code did.

Oracle (does not use the code model): final configuration == initial configuration for the
fault-free run, for every truncation point of the dialogue and for every k-th set-up command
failing; foreign chains/rules and a second instance's rules untouched; after a tear-down fault
the foreign part is untouched and a later fault-free session on the same port starts and leaves
no more than was left.
"""
import io
import os
import re
import shutil
import sys
import tempfile

import common

RULE = ("cases = (method, plan, dialogue cut, fault schedule, pre-existing foreign configuration): plans vary the "
        "families present, DNS servers, excludes/port ranges, user/group, udp, resolvectl; every plan is run "
        "fault-free, cut after every line and inside lines, with STARTED unwritable, with every single k-th "
        "external command failing (k over the whole run, learnt from the fault-free run) -- with the exit statuses the "
        "real tools produce (iptables/ip6tables 1, 2, 3, 4; nft and pfctl 1; natural failures answer 1/2/4 as iptables "
        "1.8 does) and by OSError EAGAIN/ENOENT raised at the subprocess boundary (the process cannot be spawned); what "
        "is left after a failing command must not depend on which non-zero status it returned --, on a machine where "
        "every `-m owner` command fails persistently (status 2/4: --user/--group without the owner match; the next "
        "session on the port must still start); every case runs at a helper verbosity taken from the rotation "
        "[0,0,3,0,2,0,3,1] shifted by the seed (stored in the replay case; behaviour must not depend on it); with foreign chains/"
        "rules (some carrying non-ASCII UTF-8 comments, which every `-nL` listing read by ipt_chain_exists then shows) "
        "and a second instance on another port present before or arriving during the session, also combined with "
        "tear-down faults; the helper's log streams (sys.stderr / sys.stdout behind the real helpers.log) failing "
        "with EIO / EPIPE / closed-file at verbosity 0/1/2 during the tear-down or all along with a set-up fault to "
        "undo; pf (OpenBSD flavour; Darwin in thorough) sessions incl. a long one with many QUERY_PF_NAT lines under a "
        "descriptor budget at the OS boundary (os.open / Popen answer EMFILE when it is used up), and for the "
        "dual-family OpenBSD-style session (both halves share _pf_context) every command of set-up and tear-down failing "
        "once as exit status and as OSError, pf's enabled flag / tokens / anchor contents compared with before; plus signal "
        "sequences (SIGHUP/SIGPIPE/SIGINT/SIGTERM, repeated) delivered to real helper processes started with default "
        "dispositions, with os.setsid() succeeding and failing (EPERM, process-group leader), before the dialogue, "
        "after STARTED and while the tear-down runs; and the client side of the tear-down: the real FirewallClient "
        "(constructor, setup, start, done) against the real firewall.main on the other end of its socketpair, the "
        "helper's first tear-down command taking 0 s / 1 s / 6 s / 60 s / 15 min of virtual time, every wait / poll / "
        "kill / terminate / send_signal of the client recorded (method and verbosity rotate with the seed); a case is "
        "non-trivial when at least one firewall command was issued; distinct = distinct (method, dialogue, "
        "faults, prelude)")
MANIFEST = dict(
    level_text=("Machine-checked Lean 4 theorems (core Lean, no sorry/axiom/native_decide) over a model of firewall.main's "
                "try/finally (four separately guarded restore blocks) and of setup_firewall/restore_firewall of the nat, "
                "tproxy and nft methods as command sequences with the nonfatal placement read from the source, running "
                "against a netfilter/nft environment model with natural command failures and a fault schedule. PROVED, for "
                "each of nat, tproxy (mangle table, the three chains sshuttle-m/d/t-<port> and the OUTPUT/PREROUTING jumps) "
                "and nft (table, chains, rules, delete-table undo), for every chain body / subnet list, port, family "
                "(both halves, IPv6 then IPv4), user/group (nat) and every pre-existing foreign configuration, by "
                "induction over the command sequence: (1) C04_<m>_setup_prefix_partial - set-up stopped by a fault at any "
                "command index (any number of faults, initial restore included) leaves the base configuration with a "
                "partial view of ours laid over it and nothing else touched; (2) C04_<m>_restore_from_partial - "
                "restore_firewall with naturally behaving commands maps every partial view back to exactly the base "
                "configuration; (3) C04_<m>_setup_fault / _kth_setup_command_fails / _identity_and_truncation - the whole "
                "session (every dialogue; C04_<m>_truncation_every_byte: the dialogue the reader obtains from every byte "
                "prefix of every text, whether the source gives an unfinished last line up - fix ff70e94, regenerated flag "
                "FW_READER_DROPS_UNFINISHED, reader model of Code/FwDialogue.lean - or takes it for a line; nothing is "
                "issued before GO) ends in exactly the "
                "initial configuration under every fault schedule over the try body; (4) C04_fresh_{nat,tp,nft}Fresh - "
                "the specification's `fresh port` implies the freshness hypotheses. Tied to the code on every run: the "
                "real firewall.main executes in-process against the same environment for nat, tproxy and nft (every k as "
                "exit status and as OSError, all cuts of the dialogue, foreign rules incl. non-ASCII listings, a second "
                "instance before/during the session, signals to a real helper process) and is diffed command by command "
                "with the model; an oracle compares the configuration before and after on the real code."),
    level_note=("Trusted: Lean kernel; the netfilter environment model (thorough tier replays the real code's command "
                "sequences, partial states included, against real iptables/ip6tables/nft in a network namespace); the "
                "harness fakes at the subprocess boundary. The tproxy theorems assume the chain bodies refer to nothing of "
                "ours except `-j sshuttle-d-<port>` from the tproxy chain (TpBodiesOk; the harness checks it on every body "
                "the real code emits) and hold for the repaired tproxy.py (fix commit a1baf82: nonfatal on -D/-F; with the "
                "1.3.0 code C04_tproxy_restore_from_partial does not build). tproxy has no route/rule (`ip rule`) commands "
                "in firewall.py, so none are modelled. CORRESPONDENCE-ONLY (oracle on the real code, not proved): tear-down "
                "faults (other family still restored, foreign part untouched, later session starts); commands that cannot "
                "be spawned (OSError instead of an exit status) - every index of set-up and tear-down is injected; foreign "
                "commands interleaved with the session (second instance / foreign rules arriving during it); the hosts "
                "file; failing log streams (EIO/EPIPE/closed file at verbosity 0-2, real helpers.log) in tear-down and "
                "set-up-undo histories. pf: modelled in Lean and in PyEnv from the manual pages (unvalidated), no "
                "theorem and no code-model diff; driven on the real code with a descriptor budget (a long session of "
                "QUERY_PF_NAT lines must not exhaust it; pf must be back in its pre-session state), environments "
                "cross-checked; single faults in every set-up and tear-down command of a dual-family session (set-up: pf "
                "exactly as before; tear-down: only the failing command's own anchor may keep its content, the other "
                "family's anchor is flushed and pf is enabled/disabled as before); the anchor references add_anchors() "
                "leaves in the main ruleset are a known finding. "
                "Signals: not a theorem; decided on real "
                "helper processes on every run (real setup_daemon, default dispositions at start, file-backed packet "
                "filter), in both environments (os.setsid() succeeding; failing with EPERM as under sudo use_pty) and at "
                "three moments (before the client has sent anything, session up, tear-down under way): SIGHUP/SIGPIPE "
                "leave the helper alive and serving, SIGINT/SIGTERM are relayed to the client every time they arrive, the "
                "rules are restored once the helper has ended by whatever route. "
                "SIGKILL of the helper is outside (nothing can clean up). Client side: FirewallClient.done() is "
                "driven for real against a helper whose restore takes virtual time; it must wait without a deadline and "
                "never kill/terminate/signal the helper, and the rules must be as before when it returns (oracle only)."),
    technique="Lean 4 proof (partial-state invariant + frame, Hoare rules over a fault schedule, method-independent layered "
              "session argument) + in-process differential run of the real firewall.main with exhaustive single-fault "
              "enumeration",
)
DRIVER_TARGETS = ['SshuttleModel.Code.FwSession', 'SshuttleModel.Spec.FwOwned']
ASSUMPTIONS = [
    "iptables/ip6tables/nft behave as Env/FwState.lean says (natural failures; a failing command has no effect)",
    "an injected fault makes the command exit non-zero, or makes subprocess raise OSError, without any effect",
    "hosts-file operations succeed (file-system faults belong to C14)",
    "the helper is not SIGKILLed; finally blocks run for every Python exception",
    "pf: semantics taken from the pfctl manual pages, never executed here",
    "pf on Darwin: a pf that is enabled before the session is held by a `pfctl -E` reference of another tool; the effect of "
    "releasing the last reference on a pf that was switched on with a plain `-e` is not specified there and not judged",
]
TRUSTED_EXTRA = ["PyEnv in harness/props/c04.py (cross-checked command by command against Env/FwState.lean)"]

BUILTIN = {
    'nat': ['PREROUTING', 'INPUT', 'OUTPUT', 'POSTROUTING'],
    'mangle': ['PREROUTING', 'INPUT', 'FORWARD', 'OUTPUT', 'POSTROUTING'],
    'filter': ['INPUT', 'FORWARD', 'OUTPUT'],
    'raw': ['PREROUTING', 'OUTPUT'],
    'security': ['INPUT', 'FORWARD', 'OUTPUT'],
}
TBLS = ['nat', 'mangle', 'filter', 'raw', 'security']
BUILTIN_NAMES = ['PREROUTING', 'INPUT', 'FORWARD', 'OUTPUT', 'POSTROUTING']
STD_TARGETS = ["ACCEPT", "DROP", "RETURN", "REDIRECT", "MARK", "TPROXY", "DNAT", "SNAT", "MASQUERADE", "LOG",
               "REJECT", "QUEUE", "NFQUEUE", "CT", "NOTRACK", "TOS", "TTL", "CONNMARK"]


def hexs(s):
    if isinstance(s, str):
        s = s.encode('latin-1')
    return s.hex() if s else '-'


# ------------------------------------------------------------------ the environment, in Python

class PyEnv:
    """Same semantics and same canonical text as Env/FwState.lean + Drivers/C04.lean."""

    def __init__(self, pfinit=None):
        self.ipt = {(f, t): [[n, []] for n in BUILTIN[t]] for f in ('v4', 'v6') for t in TBLS}
        self.nft = []
        p = pfinit or {}
        self.pf = dict(en=bool(p.get('en')), tok=[], next=1, ld=bool(p.get('ld', True)),
                       skip=bool(p.get('skip')), main=[], anch=[])
        self.count = 0
        self.faults = set()
        self.spawn_faults = {}   # command index -> errno name: the process cannot be started at all
        self.fault_status = {}   # command index -> exit status of the injected failure (default 1)
        self.env_fail = []       # [(argv token, status)]: every command carrying the token fails (missing extension)
        self.log = []

    # ---- parsing
    @staticmethod
    def parse_rule(args):
        args = list(args)
        for i in range(len(args) - 1):
            if args[i] == '-j':
                x = args[i + 1]
                tgt = ('S.' + x) if x in STD_TARGETS else ('C.' + x)
                return (tgt, tuple(args[:i] + args[i + 2:]))
        return ('-', tuple(args))

    def parse(self, argv, stdin):
        a = list(argv)
        if a and a[0] in ('iptables', 'ip6tables'):
            f = 'v4' if a[0] == 'iptables' else 'v6'
            if a[1:3] != ['-w', '-t'] or len(a) < 5 or a[3] not in TBLS:
                return None
            t, rest = a[3], a[4:]
            if rest == ['-nL']:
                return ('list', f, t)
            if len(rest) == 2 and rest[0] in ('-N', '-F', '-X'):
                return (rest[0], f, t, rest[1])
            if len(rest) >= 3 and rest[0] == '-I' and rest[2] == '1':
                return ('-I', f, t, rest[1], self.parse_rule(rest[3:]))
            if len(rest) >= 2 and rest[0] in ('-A', '-D'):
                return (rest[0], f, t, rest[1], self.parse_rule(rest[2:]))
            return None
        if a and a[0] == 'nft':
            w = [x for x in ' '.join(a[1:]).split(' ') if x != '']
            if len(w) == 4 and w[:3] == ['add', 'table', 'inet']:
                return ('nft-add-table', w[3])
            if len(w) == 4 and w[:3] == ['delete', 'table', 'inet']:
                return ('nft-delete-table', w[3])
            if len(w) >= 5 and w[:3] == ['add', 'chain', 'inet']:
                return ('nft-add-chain', w[3], w[4], ' '.join(w[5:]))
            if len(w) == 5 and w[:3] == ['flush', 'chain', 'inet']:
                return ('nft-flush-chain', w[3], w[4])
            if len(w) >= 5 and w[:3] == ['add', 'rule', 'inet']:
                return ('nft-add-rule', w[3], w[4], tuple(w[5:]))
            return None
        if a and a[0] == 'pfctl':
            r = a[1:]
            lines = [x for x in stdin.decode('latin-1').split('\n') if x != '']
            if r == ['-s', 'all']:
                return ('pf-show-all',)
            if r == ['-s', 'Interfaces', '-i', 'lo', '-v']:
                return ('pf-show-lo',)
            if r == ['-f', '/dev/stdin']:
                return ('pf-load-main', lines)
            if len(r) == 4 and r[0] == '-a' and r[2:] == ['-f', '/dev/stdin']:
                return ('pf-load-anchor', r[1], lines)
            if len(r) == 4 and r[0] == '-a' and r[2:] == ['-F', 'all']:
                return ('pf-flush-anchor', r[1])
            if r in (['-e'], ['-d'], ['-E']):
                return ('pf' + r[0],)
            if len(r) == 2 and r[0] == '-X' and r[1].isdigit():
                return ('pf-X', int(r[1]))
            return None
        if a == ['kldload', 'pf']:
            return ('kldload',)
        if a == ['kldunload', 'pf']:
            return ('kldunload',)
        if len(a) == 3 and a[0] == 'ioctl-anchor' and a[1] in ('rdr', 'pass'):
            return ('pf-anchor-ref', a[1] == 'rdr', a[2])
        if a == ['resolvectl', 'flush-caches']:
            return ('resolvectl',)
        return None

    # ---- natural behaviour: returns (ok, out, err) and mutates on success
    def has(self, tab, c):
        return any(ch[0] == c for ch in tab)

    def tgt_ok(self, tab, rule):
        return (not rule[0].startswith('C.')) or self.has(tab, rule[0][2:])

    def apply(self, c):
        k = c[0]
        if k == 'list':
            tab = self.ipt[(c[1], c[2])]
            return True, ''.join(
                'Chain %s (policy ACCEPT)\n' % ch[0] +
                ''.join('%s all -- %s\n' % ('' if r[0] == '-' else r[0][2:], ' '.join(r[1])) for r in ch[1])
                for ch in tab), ''
        if k in ('-N', '-F', '-X', '-I', '-A', '-D'):
            tab = self.ipt[(c[1], c[2])]
            name = c[3]
            if k == '-N':
                if self.has(tab, name):
                    return False, '', ''
                tab.append([name, []])
                return True, '', ''
            if k == '-F':
                if not self.has(tab, name):
                    return False, '', ''
                for ch in tab:
                    if ch[0] == name:
                        ch[1] = []
                return True, '', ''
            if k == '-X':
                if not self.has(tab, name) or name in BUILTIN_NAMES:
                    return False, '', ''
                if any(ch[0] == name and ch[1] for ch in tab):
                    return False, '', ''
                if any(r[0] == 'C.' + name for ch in tab for r in ch[1]):
                    return False, '', ''
                tab[:] = [ch for ch in tab if ch[0] != name]
                return True, '', ''
            rule = c[4]
            if k in ('-I', '-A'):
                if not self.has(tab, name) or not self.tgt_ok(tab, rule):
                    return False, '', ''
                for ch in tab:
                    if ch[0] == name:
                        ch[1] = [rule] + ch[1] if k == '-I' else ch[1] + [rule]
                return True, '', ''
            if k == '-D':
                if not any(ch[0] == name and rule in ch[1] for ch in tab):
                    return False, '', ''
                for ch in tab:
                    if ch[0] == name and rule in ch[1]:
                        ch[1] = list(ch[1])
                        ch[1].remove(rule)
                return True, '', ''
        if k.startswith('nft-'):
            return self.apply_nft(c), '', ''
        if k.startswith('pf') or k.startswith('kld'):
            return self.apply_pf(c)
        if k == 'resolvectl':
            return True, '', ''
        raise AssertionError(c)

    def nft_table(self, n):
        for t in self.nft:
            if t[0] == n:
                return t
        return None

    def apply_nft(self, c):
        k = c[0]
        t = self.nft_table(c[1])
        if k == 'nft-add-table':
            if t is None:
                self.nft.append([c[1], []])
            return True
        if k == 'nft-delete-table':
            if t is None:
                return False
            self.nft[:] = [x for x in self.nft if x[0] != c[1]]
            return True
        if t is None:
            return False
        chain = None
        for ch in t[1]:
            if ch[0] == c[2]:
                chain = ch
        if k == 'nft-add-chain':
            if chain is None:
                t[1].append([c[2], c[3], []])
            return True
        if chain is None:
            return False
        if k == 'nft-flush-chain':
            for ch in t[1]:
                if ch[0] == c[2]:
                    ch[2] = []
            return True
        if k == 'nft-add-rule':
            r = c[3]
            if len(r) >= 2 and r[0] in ('jump', 'goto') and not any(ch[0] == r[1] for ch in t[1]):
                return False
            for ch in t[1]:
                if ch[0] == c[2]:
                    ch[2] = ch[2] + [r]
            return True
        raise AssertionError(c)

    def apply_pf(self, c):
        p = self.pf
        k = c[0]
        if k == 'pf-show-all':
            return True, ('FILTER RULES:\n' + ''.join(l + '\n' for l in p['main']) + '\nINFO:\nStatus: '
                          + ('Enabled' if p['en'] else 'Disabled') + '\n'), ''
        if k == 'pf-show-lo':
            return True, ('lo0 (skip)\n' if p['skip'] else 'lo0\n'), ''
        if k == 'pf-load-main':
            p['main'] = list(c[1])
            p['skip'] = False
            return True, '', ''
        if k == 'pf-load-anchor':
            p['anch'] = [a for a in p['anch'] if a[0] != c[1]] + [[c[1], list(c[2])]]
            return True, '', ''
        if k == 'pf-flush-anchor':
            p['anch'] = [a for a in p['anch'] if a[0] != c[1]]
            return True, '', ''
        if k == 'pf-e':
            if p['en']:
                return False, '', ''
            p['en'] = True
            return True, '', ''
        if k == 'pf-d':
            if not p['en']:
                return False, '', ''
            p['en'] = False
            return True, '', ''
        if k == 'pf-E':
            p['en'] = True
            p['tok'].append(p['next'])
            p['next'] += 1
            return True, '', 'pf enabled\nToken : %d\n' % p['tok'][-1]
        if k == 'pf-X':
            if c[1] not in p['tok']:
                return False, '', ''
            p['tok'].remove(c[1])
            p['en'] = bool(p['tok'])
            return True, '', ''
        if k == 'pf-anchor-ref':
            p['main'].append(('rdr-anchor "' if c[1] else 'anchor "') + c[2] + '" all')
            return True, '', ''
        if k == 'kldload':
            if p['ld']:
                return False, '', ''
            p['ld'] = True
            return True, '', ''
        if k == 'kldunload':
            if not p['ld']:
                return False, '', ''
            p['ld'] = False
            p['en'] = False
            return True, '', ''
        raise AssertionError(c)

    def run(self, argv, stdin=b'', foreign=False):
        c = self.parse(argv, stdin or b'')
        if c is None:
            raise AssertionError('unparsed command %r' % (argv,))
        if not foreign:
            idx = self.count
            self.count += 1
            if idx in self.spawn_faults:
                self.log.append((list(argv), False))
                raise SpawnFault(self.spawn_faults[idx])
            if idx in self.faults:
                self.log.append((list(argv), False))
                return int(self.fault_status.get(idx, 1)), '', ''
            for tok, st in self.env_fail:
                if tok in argv:
                    self.log.append((list(argv), False))
                    return int(st), '', ''
        rc_fail = self.natural_status(c)
        ok, out, err = self.apply(c)
        if not foreign:
            self.log.append((list(argv), ok))
        return (0 if ok else rc_fail), out, err

    def natural_status(self, c):
        """Exit status the real tool gives for a natural failure of `c` in the current state (iptables 1.8
        nf_tables: 1 for a missing/existing chain or rule, 2 for a target chain that does not exist, 4 when the
        kernel refuses to delete a chain that is in use; nft and pfctl: 1).  Only consulted when `c` fails."""
        k = c[0]
        if k == '-X':
            tab = self.ipt[(c[1], c[2])]
            if self.has(tab, c[3]) and c[3] not in BUILTIN_NAMES:
                return 4
        if k in ('-I', '-A'):
            tab = self.ipt[(c[1], c[2])]
            if self.has(tab, c[3]) and not self.tgt_ok(tab, c[4]):
                return 2
        return 1

    # ---- canonical text (identical to Drivers/C04.lean showState)
    @staticmethod
    def show_rule(r):
        return r[0] + '/' + hexs(' '.join(r[1]))

    def show(self):
        parts = []
        for f in ('v4', 'v6'):
            for t in TBLS:
                tab = self.ipt[(f, t)]
                parts.append('%s.%s{%s}' % (f, t, ';'.join(
                    ch[0] + '=' + ','.join(self.show_rule(r) for r in ch[1]) for ch in tab)))
        parts.append('nft{' + '+'.join(
            t[0] + '(' + ';'.join(ch[0] + '<' + hexs(ch[1]) + '>=' + ','.join(hexs(' '.join(r)) for r in ch[2])
                                  for ch in t[1]) + ')' for t in self.nft) + '}')
        p = self.pf
        parts.append('pf{en=%d;tok=%s;next=%d;ld=%d;skip=%d;main=%s;anch=%s}' % (
            p['en'], ','.join(str(x) for x in p['tok']), p['next'], p['ld'], p['skip'],
            ','.join(hexs(l) for l in p['main']),
            '+'.join(a[0] + '=' + ','.join(hexs(l) for l in a[1]) for a in p['anch'])))
        return ' '.join(parts)

    # ---- the property's vocabulary, evaluated directly (spec side, no Lean)
    @staticmethod
    def owns_name(port, name):
        m = re.match(r'^sshuttle-(?:[mtd]-)?(\d+)$', name)
        return bool(m) and m.group(1) == str(port)

    @classmethod
    def owns_rule(cls, port, r):
        if r[0].startswith('C.'):
            return cls.owns_name(port, r[0][2:])
        if r[0] == 'S.MARK':
            return list(r[1][-2:]) == ['--set-mark', str(port)]
        return False

    def foreign_view(self, ports):
        """Everything that does not belong to any of `ports` (canonical text)."""
        parts = []
        for f in ('v4', 'v6'):
            for t in TBLS:
                tab = self.ipt[(f, t)]
                parts.append(';'.join(
                    ch[0] + '=' + ','.join(self.show_rule(r) for r in ch[1]
                                           if not any(self.owns_rule(p, r) for p in ports))
                    for ch in tab if not any(self.owns_name(p, ch[0]) for p in ports)))
        parts.append('+'.join(repr(t) for t in self.nft
                              if not any(re.match(r'^sshuttle-ipv[46]-%d$' % p, t[0]) for p in ports)))
        pf = self.pf
        parts.append(repr([a for a in pf['anch'] if not any(re.match(r'^sshuttle6?-%d$' % p, a[0]) for p in ports)]))
        return ' | '.join(parts)

    def pretty(self):
        out = []
        for (f, t), tab in sorted(self.ipt.items()):
            for ch in tab:
                if ch[1] or ch[0] not in BUILTIN_NAMES:
                    out.append('%s/%s/%s: %s' % (f, t, ch[0], ' ; '.join(r[0] + ' ' + ' '.join(r[1]) for r in ch[1])))
        for t in self.nft:
            out.append('nft/%s: %s' % (t[0], '; '.join('%s[%d rules]' % (ch[0], len(ch[2])) for ch in t[1])))
        p = self.pf
        if p['en'] or p['main'] or p['anch'] or p['tok'] or not p['ld']:
            out.append('pf: enabled=%s loaded=%s main=%r anchors=%r tokens=%r' % (p['en'], p['ld'], p['main'], p['anch'], p['tok']))
        return out


# ------------------------------------------------------------------ routing the real code's commands

class Mismatch(Exception):
    pass


class SpawnFault(Exception):
    """PyEnv's way of saying: this command could not be spawned (errno name); no effect."""

    def __init__(self, name):
        Exception.__init__(self, name)
        self.name = name


class Router:
    """Where every external command of the real code goes: PyEnv, and the Lean Env in lock-step."""

    def __init__(self, pyenv, lean=None, ctx=None):
        self.py = pyenv
        self.lean = lean
        self.ctx = ctx
        self.foreign = False
        self.foreign_log = []    # foreign commands, in order
        self.undo_at = None      # command count when the finally block started

    def spawn_pending(self):
        return (not self.foreign) and self.py.count in self.py.spawn_faults

    def run(self, argv, stdin=b''):
        argv = [a.decode('latin-1') if isinstance(a, bytes) else str(a) for a in argv]
        try:
            rc, out, err = self.py.run(argv, stdin, foreign=self.foreign)
        except SpawnFault as sf:
            if self.lean is not None:
                # the Lean Env has the same index in its schedule: a failing command without effect
                toks = ' '.join(hexs(a) for a in argv)
                ans = self.lean.ask(('xin %s %s' % (hexs(stdin), toks)) if stdin else 'x ' + toks)[0]
                if ans != 'rc=1 out=- err=-':
                    raise Mismatch('command %r (spawn fault): Lean Env says %s' % (argv, ans))
            import errno as _errno
            code = getattr(_errno, sf.name)
            raise OSError(code, os.strerror(code), argv[0])
        if self.foreign:
            self.foreign_log.append(argv)
        if self.lean is not None:
            toks = ' '.join(hexs(a) for a in argv)
            if stdin:
                line = 'xin %s %s' % (hexs(stdin), toks)
                assert not self.foreign
            else:
                line = ('xf ' if self.foreign else 'x ') + toks
            ans = self.lean.ask(line)[0]
            # (the Lean Env knows success / failure, not which non-zero status)
            exp = 'rc=%d out=%s err=%s' % (0 if rc == 0 else 1, hexs(out) if rc == 0 else '-',
                                           hexs(err) if rc == 0 else '-')
            if ans != exp:
                raise Mismatch('command %r: PyEnv says %s, Lean Env says %s' % (argv, exp, ans))
        return rc, out.encode('latin-1'), err.encode('latin-1')


class FakeSub:
    """Stands in for the `subprocess` module inside sshuttle.linux / firewall / methods.pf."""
    PIPE = -1

    class CalledProcessError(Exception):
        def __init__(self, returncode, cmd):
            Exception.__init__(self, returncode, cmd)
            self.returncode = returncode
            self.cmd = cmd

    def __init__(self, router):
        self.router = router

    def call(self, argv, **kw):
        self.router.need_fds(1)
        return self.router.run(argv)[0]

    def check_output(self, argv, **kw):
        self.router.need_fds(2)
        rc, out, _ = self.router.run(argv)
        if rc:
            raise self.CalledProcessError(rc, argv)
        return out

    def Popen(self, argv, stdin=None, stdout=None, stderr=None, env=None):
        router = self.router
        router.need_fds(3)             # the pipes of stdin/stdout/stderr
        if router.spawn_pending():
            router.run(argv, b'')      # raises OSError, as subprocess.Popen() does when fork/exec fails

        class P:
            returncode = None

            def communicate(self, inp=None):
                rc, out, err = router.run(argv, inp or b'')
                self.returncode = rc
                return out, err

            def wait(self):
                if self.returncode is None:
                    self.communicate()
                return self.returncode
        return P()


class FailingStream:
    """The helper's sys.stderr / sys.stdout when the terminal or pipe behind it has gone: every write
    and flush fails (EIO: hung-up tty, EPIPE: reader gone, closed: ValueError of a closed file object),
    always or from the moment the tear-down starts."""

    def __init__(self, box, err, when):
        self.box, self.err, self.when = box, err, when
        self.failed = 0

    def _check(self):
        if self.when == 'always' or self.box.teardown_started:
            self.failed += 1
            if self.err == 'closed':
                raise ValueError('I/O operation on closed file')
            import errno as _errno
            if self.err == 'EPIPE':
                raise BrokenPipeError(_errno.EPIPE, 'Broken pipe')
            raise OSError(_errno.EIO, 'Input/output error')

    def write(self, data):
        self._check()
        return len(data)

    def flush(self):
        self._check()


class OsShim:
    """`os` as methods/pf.py sees it: opening /dev/pf takes a descriptor from the budget."""

    def __init__(self, box):
        self._box = box

    def __getattr__(self, name):
        return getattr(os, name)

    def open(self, path, flags, *a):
        if path == '/dev/pf':
            return self._box.take_fd()
        return os.open(path, flags, *a)


class ScriptedStdin:
    """What the helper reads: the dialogue chunks, then EOF.  `hooks[i]` runs before read i returns."""

    def __init__(self, chunks, hooks=None):
        self.chunks = list(chunks)
        self.i = 0
        self.hooks = hooks or {}

    def readline(self, n=-1):
        h = self.hooks.get(self.i)
        if h:
            h()
        i = self.i
        self.i += 1
        if i >= len(self.chunks):
            return b''
        c = self.chunks[i]
        assert len(c) <= n
        return c


class ScriptedStdout:
    def __init__(self, started_fails=False):
        self.data = b''
        self.started_fails = started_fails

    def write(self, b):
        if self.started_fails and b == b'STARTED\n':
            raise IOError(32, 'Broken pipe')
        self.data += b

    def flush(self):
        pass


METHOD_MODULE = {'nat': 'nat', 'tproxy': 'tproxy', 'nft': 'nft',
                 'pf-freebsd': 'pf', 'pf-openbsd': 'pf', 'pf-darwin': 'pf'}


class Sandbox:
    """Patches at the OS boundary; everything is restored in close()."""

    def __init__(self):
        import sshuttle.helpers as helpers
        import sshuttle.firewall as firewall
        import sshuttle.linux as linux
        import sshuttle.methods.nat as nat
        import sshuttle.methods.nft as nft
        import sshuttle.methods.tproxy as tproxy
        import sshuttle.methods.pf as pf
        self.m = dict(helpers=helpers, firewall=firewall, linux=linux, nat=nat, nft=nft, tproxy=tproxy, pf=pf)
        self.saved = []
        self.dir = tempfile.mkdtemp(prefix='c04-hosts-')
        self.hosts = os.path.join(self.dir, 'hosts')
        self.stderr = sys.stderr
        self.router = None
        self.resolvectl = False
        self.teardown_started = False
        self.fd_budget = None        # None = unlimited; else descriptors the helper process may still open
        self.fd_used = 0
        self.stdout = sys.stdout
        helpers.verbose = 0
        sub = FakeSub(self)
        for mod in (linux, firewall, pf):
            self.patch(mod, 'ssubprocess', sub)
        self.patch(firewall, 'HOSTSFILE', self.hosts)
        self.patch(firewall, 'debug1', self.debug1)
        self.patch(helpers, 'which', self.which)
        for mod in (nat, nft, tproxy, pf):
            self.patch(mod, 'which', self.which)
        self.patch(pf, 'os', OsShim(self))
        self.patch(pf, 'ioctl', lambda fd, req, buf, *a: 0)
        self.pf_objects = {'pf-freebsd': pf.FreeBsd(), 'pf-openbsd': pf.OpenBsd(), 'pf-darwin': pf.Darwin()}
        self.patch(pf, 'pf', pf.pf)
        import copy as _copy
        self.saved_ctx = _copy.deepcopy(pf._pf_context)     # dict in 1.3.0; whatever the tree under test has
        self.orig_ctx = pf._pf_context

    # FakeSub calls self.run / self.spawn_pending
    def run(self, argv, stdin=b''):
        return self.router.run(argv, stdin)

    def spawn_pending(self):
        return self.router.spawn_pending()

    def take_fd(self):
        if self.fd_budget is None:
            return 1000
        if self.fd_used >= self.fd_budget:
            import errno as _errno
            raise OSError(_errno.EMFILE, 'Too many open files')
        self.fd_used += 1
        return 1000 + self.fd_used

    def need_fds(self, n):
        if self.fd_budget is not None and self.fd_budget - self.fd_used < n:
            import errno as _errno
            raise OSError(_errno.EMFILE, 'Too many open files')

    def patch(self, mod, name, val):
        self.saved.append((mod, name, getattr(mod, name)))
        setattr(mod, name, val)

    def which(self, name, *a):
        if name in ('resolvectl',):
            return '/bin/resolvectl' if self.resolvectl else None
        if name == 'systemd-resolve':
            return None
        return '/sbin/' + name

    def debug1(self, msg):
        if msg == 'undoing changes.' and self.router is not None and self.router.undo_at is None:
            self.router.undo_at = self.router.py.count
            self.teardown_started = True
        self.m['helpers'].debug1(msg)      # the real one (writes when the helper is verbose)

    def use_pf(self, method):
        pf = self.m['pf']
        import copy as _copy
        pf._pf_context = _copy.deepcopy(self.saved_ctx)     # a fresh helper process: module state as at import
        if hasattr(pf, '_pf_fd'):
            pf._pf_fd = None
        if method in self.pf_objects:
            obj = self.pf_objects[method]
            box = self

            def add_anchor_rule(kind, name, pr=None):
                rc, _, _ = box.router.run(['ioctl-anchor', 'rdr' if kind == obj.PF_RDR else 'pass',
                                           name.decode('ASCII')])
                if rc:
                    raise IOError(22, 'DIOCCHANGERULE')
            obj._add_anchor_rule = add_anchor_rule
            obj.status = b''
            pf.pf = obj

    def write_hosts(self, text):
        for fn in os.listdir(self.dir):
            os.unlink(os.path.join(self.dir, fn))
        with open(self.hosts, 'w') as f:
            f.write(text)

    def read_hosts(self):
        with open(self.hosts) as f:
            return f.read()

    def close(self):
        for mod, name, val in reversed(self.saved):
            setattr(mod, name, val)
        self.m['pf']._pf_context = self.orig_ctx
        sys.stderr = self.stderr
        sys.stdout = self.stdout
        self.m['helpers'].verbose = 0
        shutil.rmtree(self.dir, ignore_errors=True)


HOSTS0 = '127.0.0.1 localhost\n10.9.8.7 printer  # not ours\n'


def run_main(box, method, chunks, started_fails=False, hooks=None, io_mode=None, verbose=0):
    """The real firewall.main on a scripted dialogue.  Returns (exit, stdout bytes).
    io_mode: None, or dict(verbose=0|1|2, err='EIO'|'EPIPE'|'closed', when='always'|'teardown', stdout=bool):
    the helper's log streams fail (real helpers.log / debug1 are used throughout)."""
    firewall = box.m['firewall']
    helpers = box.m['helpers']
    stdin = ScriptedStdin(chunks, hooks)
    stdout = ScriptedStdout(started_fails)
    box.use_pf(method)
    box.teardown_started = False
    old = firewall.setup_daemon
    firewall.setup_daemon = lambda: (stdin, stdout)
    if io_mode:
        helpers.verbose = int(io_mode.get('verbose', 0))
        sys.stderr = FailingStream(box, io_mode['err'], io_mode.get('when', 'teardown'))
        sys.stdout = FailingStream(box, io_mode['err'], io_mode.get('when', 'teardown')) \
            if io_mode.get('stdout') else io.StringIO()
    else:
        helpers.verbose = int(verbose or 0)
        sys.stderr = io.StringIO()
        sys.stdout = io.StringIO()
    try:
        try:
            firewall.main(METHOD_MODULE[method], False)
            ex = 'returned'
        except helpers.Fatal:
            ex = 'fatal'
        except Mismatch:
            raise
        except common.DriverError:
            raise
        except Exception as e:  # noqa
            msg = str(e)
            if 'UDP not supported' in msg:
                ex = 'internal:udp-unsupported'
            elif isinstance(e, UnboundLocalError):
                ex = 'internal:includes-unbound'
            elif box.router.undo_at is None:
                ex = 'internal:parse'
            elif isinstance(e, ValueError) and 'unpack' in msg:
                ex = 'internal:host-unpack'
            else:
                ex = 'internal:%s:%s' % (type(e).__name__, msg[:60])
    finally:
        firewall.setup_daemon = old
        sys.stderr = box.stderr
        sys.stdout = box.stdout
        helpers.verbose = 0
        firewall.sshuttle_pid = None
    return ex, stdout.data


# ------------------------------------------------------------------ plans, dialogues, lexer

AF = {4: 2, 6: 10}


class Plan:
    def __init__(self, method, routes, ns, p6, p4, udp=0, user=None, group=None, hosts=(), tail='eof',
                 resolvectl=False):
        self.method = method
        self.routes = routes      # (famint, width, excl, ip, fport, lport)
        self.ns = ns              # (famint, ip)
        self.p6, self.p4 = p6, p4
        self.udp, self.user, self.group = udp, user, group
        self.hosts = list(hosts)
        self.tail = tail          # eof | junk | hostbad | blank
        self.resolvectl = resolvectl

    def lines(self):
        out = ['ROUTES']
        out += ['%d,%d,%d,%s,%d,%d' % r for r in self.routes]
        out += ['NSLIST']
        out += ['%d,%s' % n for n in self.ns]
        out += ['PORTS %d,%d,%d,%d' % (self.p6, self.p4, self.p6 + 2 if self.p6 else 0, self.p4 + 2 if self.p4 else 0)]
        out += ['GO %d %s %s 0x01 12345' % (self.udp, self.user or '-', self.group or '-')]
        out += ['HOST %s,%s' % h for h in self.hosts]
        if self.tail == 'junk':
            out += ['FROBNICATE']
        elif self.tail == 'hostbad':
            out += ['HOST nocomma']
        elif self.tail == 'blank':
            out += ['']
        return [l + '\n' for l in out]


def lex(raw):
    """Classify one chunk the way firewall.main's tests do (model token)."""
    s = raw.decode('ASCII').strip()
    if s == '':
        return 'B'
    if s == 'ROUTES':
        return 'R'
    if s == 'NSLIST':
        return 'N'
    if s.startswith('PORTS '):
        f = s.partition(' ')[2].split(',')
        if len(f) != 4:
            return 'X'
        try:
            v = [int(x) for x in f]
        except ValueError:
            return 'M'
        if any(not (0 <= x <= 65535) for x in v):
            return 'M'
        return 'P:%d:%d' % (v[0], v[1])
    if s.startswith('GO '):
        a = s.partition(' ')[2].split(' ', 4)
        if len(a) != 5:
            return 'M'
        try:
            udp = bool(int(a[0]))
            int(a[4])
        except ValueError:
            return 'M'
        return 'G:%d:%s:%s' % (udp, '-' if a[1] == '-' else hexs(a[1]), '-' if a[2] == '-' else hexs(a[2]))
    if s.startswith('HOST '):
        if ',' in s[5:]:
            n, i = s[5:].split(',', 1)
            return 'H:%s:%s' % (hexs(n), hexs(i))
        return 'Hbad'
    if ',' in s:
        parts = s.split(',', 5)
        try:
            fam = int(parts[0])
        except ValueError:
            return 'X'
        famtok = {2: '4', 10: '6'}.get(fam, '0')
        if len(parts) == 6:
            try:
                int(parts[1]), int(parts[2]), int(parts[4]), int(parts[5])
            except ValueError:
                return 'M'
            return 'r:' + famtok
        return 'n:' + famtok
    return 'X'


def body_tokens(method, log):
    """The chain-body commands of the fault-free run, per family, as the model's parameters."""
    b = {'v4': [], 'v6': []}
    nb = {'v4': [], 'v6': []}
    pfr = {'v4': None, 'v6': None}
    for argv, _ok in log:
        if argv[0] in ('iptables', 'ip6tables') and len(argv) > 5 and argv[4] == '-A':
            f = 'v4' if argv[0] == 'iptables' else 'v6'
            m = re.match(r'^sshuttle-(?:([mtd])-)?\d+$', argv[5])
            b[f].append('%s.%s' % (m.group(1) or 'c', hexs('\x1f'.join(argv[6:]))))
        elif argv[0] == 'nft' and argv[1] == 'add rule':
            m = re.match(r'^sshuttle-ipv([46])-\d+$', argv[3])
            w = [x for x in ' '.join(argv[4:]).split(' ') if x]
            if w[0] == argv[3]:
                nb['v' + m.group(1)].append(hexs(' '.join(w[1:])))
    return b, nb, pfr


def enc_list(l):
    return ','.join(l) if l else '-'


# ------------------------------------------------------------------ one case

# The helper's verbosity (what firewall.main gets from the client's -v flags) is a dimension of every
# scenario: behaviour must not depend on it.  Every case executed takes the next level of this rotation,
# shifted by the check's seed, so over seeds 0..7 every directed case has run at every level.
VERBOSITY_ROTATION = [0, 0, 3, 0, 2, 0, 3, 1]
_VSTATE = {'i': 0, 'seed': 0}


def next_verbosity():
    v = VERBOSITY_ROTATION[(_VSTATE['i'] + _VSTATE['seed']) % len(VERBOSITY_ROTATION)]
    _VSTATE['i'] += 1
    return v


class Case:
    """(method, dialogue chunks, faults, prelude, flags) — JSON-able, replayable."""

    def __init__(self, method, chunks, faults=(), prelude=(), resolvectl=False, started_fails=False,
                 pfinit=None, second=None, ports=(), pfrules=None, spawn=None, io=None, fd_budget=None,
                 status=None, env_fail=None, verbose=None, sessions=1):
        self.method = method
        self.sessions = int(sessions or 1)   # consecutive complete sessions (a new helper each) on the same machine
        self.verbose = verbose   # helpers.verbose while the real code runs; None = take the next of the rotation
        self.chunks = [c if isinstance(c, bytes) else c.encode('ASCII') for c in chunks]
        self.faults = sorted(faults)
        self.prelude = [list(p) for p in prelude]
        self.resolvectl = resolvectl
        self.started_fails = started_fails
        self.pfinit = pfinit
        self.second = second      # None | dict(port=q, when='before'|'during'|'during-gone')
        self.ports = list(ports)  # our ports (v6, v4)
        self.pfrules = pfrules
        # {command index: 'EAGAIN' | 'ENOENT'}: the command raises OSError from the subprocess boundary
        self.spawn = dict((int(k), v) for k, v in (spawn or {}).items())
        self.io = dict(io) if io else None       # failing log streams, see run_main
        # {command index: exit status} of the injected failures in `faults` (default 1): iptables/ip6tables use
        # 1 (no such rule/chain), 2 (usage, missing extension), 3 (version), 4 (kernel / resource / lock)
        self.status = dict((int(k), int(v)) for k, v in (status or {}).items())
        # [(argv token, status)]: a property of the machine, not a fault at an index: every command that
        # carries the token fails with that status for the whole session and for later sessions (e.g. a
        # kernel without the owner match: `-m owner` makes iptables exit 2)
        self.env_fail = [(str(t), int(st)) for t, st in (env_fail or [])]
        self.fd_budget = fd_budget               # descriptors the helper may still open (pf cases)

    def fault_indices(self):
        return sorted(set(self.faults) | set(self.spawn))

    def to_json(self):
        return dict(method=self.method, dialogue=[c.decode('ASCII') for c in self.chunks], faults=self.faults,
                    prelude=self.prelude, resolvectl=self.resolvectl, started_fails=self.started_fails,
                    pfinit=self.pfinit, second=self.second, ports=self.ports,
                    spawn=dict((str(k), v) for k, v in sorted(self.spawn.items())), io=self.io,
                    fd_budget=self.fd_budget, status=dict((str(k), v) for k, v in sorted(self.status.items())),
                    env_fail=[list(x) for x in self.env_fail], verbose=self.verbose,
                    sessions=self.sessions)

    @staticmethod
    def from_json(d):
        return Case(d['method'], d['dialogue'], d.get('faults', ()), d.get('prelude', ()), d.get('resolvectl', False),
                    d.get('started_fails', False), d.get('pfinit'), d.get('second'), d.get('ports', ()),
                    spawn=d.get('spawn'), io=d.get('io'), fd_budget=d.get('fd_budget'), status=d.get('status'),
                    env_fail=d.get('env_fail'), verbose=d.get('verbose', 0),
                    sessions=d.get('sessions', 1))


def second_instance(box, method, q, action):
    """Another sshuttle instance on port q, driven through the real method object (foreign commands)."""
    import socket
    from sshuttle.methods import get_method
    m = get_method(METHOD_MODULE[method])
    box.router.foreign = True
    old = sys.stderr
    sys.stderr = io.StringIO()
    try:
        sub = [(socket.AF_INET, 16, False, '172.16.0.0', 0, 0)]
        if action == 'setup':
            m.setup_firewall(q, q + 2, [(socket.AF_INET, '172.16.0.53')], socket.AF_INET, sub, False, None, None, '0x01')
        else:
            m.restore_firewall(q, socket.AF_INET, False, None, None)
    except Exception as e:  # noqa -- the other instance runs the code under test too; its failure is its own
        if isinstance(e, (Mismatch, common.DriverError)):
            raise
    finally:
        box.router.foreign = False
        sys.stderr = old


class Outcome:
    pass


def execute(box, case, lean=None, faults=None):
    """Run the real main for `case`.  Returns an Outcome with the states as PyEnv text."""
    if case.verbose is None:
        case.verbose = next_verbosity()
    if case.env_fail:
        lean = None          # a machine whose commands fail persistently exists in PyEnv only
    py = PyEnv(case.pfinit)
    router = Router(py, lean)
    box.router = router
    box.resolvectl = case.resolvectl
    box.fd_budget = case.fd_budget
    box.fd_used = 0
    if lean is not None:
        pi = case.pfinit or {}
        lean.ask('pfinit %d %d %d' % (bool(pi.get('en')), bool(pi.get('skip')), bool(pi.get('ld', True))))
    router.foreign = True
    for argv in case.prelude:
        rc, _, _ = router.run(argv)
        assert rc == 0, ('prelude command failed', argv)
    router.foreign = False
    sec = case.second
    if sec and sec['when'] == 'before':
        second_instance(box, case.method, sec['port'], 'setup')
    o = Outcome()
    o.before_argvs = list(router.foreign_log)
    o.s0 = py.show()
    o.s0_pretty = py.pretty()
    o.foreign0 = py.foreign_view(case.ports)
    py.faults = set(case.faults if faults is None else faults)
    py.spawn_faults = dict(case.spawn)
    py.fault_status = dict(case.status)
    py.env_fail = list(case.env_fail)
    py.count = 0
    py.log = []
    if lean is not None:
        if lean.ask('state')[0] != o.s0:
            raise Mismatch('initial configuration differs between PyEnv and Lean Env')
        lean.ask('fault ' + ' '.join(str(k) for k in sorted(py.faults | set(py.spawn_faults))))
    box.write_hosts(HOSTS0)
    hooks = {}
    expected_extra = None
    if sec and sec['when'].startswith('during'):
        # the other instance starts while we wait for the next control line, i.e. after our set-up
        nread = 1 + max(i for i, c in enumerate(case.chunks) if c.startswith(b'GO '))   # first read of the wait loop

        fired = []

        def during_actions():
            if sec['when'] == 'during-rules':
                # another tool adds rules of its own (e.g. with a UTF-8 comment) to the tables we use
                r = box.router
                was = r.foreign
                r.foreign = True
                try:
                    for argv in sec['cmds']:
                        rc, _, _ = r.run(argv)
                        assert rc == 0, ('foreign command failed', argv)
                finally:
                    r.foreign = was
                return
            second_instance(box, case.method, sec['port'], 'setup')
            if sec['when'] == 'during-gone':
                second_instance(box, case.method, sec['port'], 'restore')

        def hook():
            fired.append(1)
            during_actions()
        hooks[nread] = hook
    import copy as _copy
    o.pf0 = _copy.deepcopy(py.pf)
    o.exit, o.stdout = run_main(box, case.method, case.chunks, case.started_fails, hooks, case.io, case.verbose)
    box.fd_budget = None
    o.final = py.show()
    o.final_pretty = py.pretty()
    o.foreign1 = py.foreign_view(case.ports)
    o.fresh = all(not any(PyEnv.owns_name(p, ch[0]) or any(PyEnv.owns_rule(p, r) for r in ch[1])
                          for tab in py.ipt.values() for ch in tab) for p in case.ports)
    o.hosts = box.read_hosts()
    o.ncmd = py.count
    o.undo_at = router.undo_at
    o.log = list(py.log)
    o.py = py
    o.lean_trace = None
    if lean is not None:
        if lean.ask('state')[0] != o.final:
            raise Mismatch('final configuration differs between PyEnv and Lean Env')
        o.lean_trace = lean.ask('trace')[0]
    if sec and sec['when'].startswith('during') and fired:
        # what the foreign commands alone do to the initial configuration
        py2 = PyEnv(case.pfinit)
        r2 = Router(py2, None)
        box.router = r2
        r2.foreign = True
        for argv in case.prelude:
            r2.run(argv)
        during_actions()
        expected_extra = py2.show()
        if case.fault_indices():
            # tear-down faults are judged against the configuration the foreign commands alone produce
            o.s0 = expected_extra
            o.s0_pretty = py2.pretty()
            o.foreign0 = py2.foreign_view(case.ports)
        box.router = router
    o.expected_final = expected_extra if expected_extra is not None else o.s0
    return o


def model_line(case, body):
    b, nb, pfr = body
    toks = [lex(c) for c in case.chunks]

    def pf_tok(f):
        r = (case.pfrules or {}).get(f)
        if r is None:
            return 'N'
        return enc_list([hexs(x) for x in r])
    # the bytes on the control channel go along: the reader model in Lean decides how many of the chunks are
    # lines (an unfinished last chunk is given up or taken for a line, as the source under test has it)
    return 'session %s %d %d %s %s %s %s %s %s %s %s' % (
        case.method, case.resolvectl, case.started_fails,
        enc_list(b['v6']), enc_list(nb['v6']), pf_tok('v6'),
        enc_list(b['v4']), enc_list(nb['v4']), pf_tok('v4'), hexs(b''.join(case.chunks)), ' '.join(toks))


def run_model(lean, case, body, before):
    pi = case.pfinit or {}
    lean.ask('pfinit %d %d %d' % (bool(pi.get('en')), bool(pi.get('skip')), bool(pi.get('ld', True))))
    for argv in before:
        lean.ask('xf ' + ' '.join(hexs(a) for a in argv))
    lean.ask('fault ' + ' '.join(str(k) for k in case.faults))
    return lean.ask(model_line(case, body))[0]


def marked_hosts(text):
    out = []
    for line in text.split('\n'):
        m = re.match(r'^(\S+) (\S+)\s+# sshuttle-firewall-\d+ AUTOCREATED$', line)
        if m:
            out.append((m.group(2), m.group(1)))
    return sorted(out)


# ------------------------------------------------------------------ oracle

def later_session(box, case, py_after):
    """A later fault-free complete session on the same ports, started from what was left."""
    py = py_after
    router = Router(py, None)
    box.router = router
    py.faults = set()
    py.spawn_faults = {}
    py.fault_status = {}
    py.count = 0
    py.log = []
    box.write_hosts(HOSTS0)
    before = py.show()
    ex, out = run_main(box, case.method, case.full_chunks, False, None, None, case.verbose)
    return ex, (b'STARTED\n' in out), before, py.show()


def check_oracle(ctx, box, case, o, full_ncmd=None):
    """The property on what the real code did.  Returns list of (key, expected, observed, note)."""
    bad = []
    fi = case.fault_indices()
    setup_fault = bool(fi) and (o.undo_at is None or min(fi) < o.undo_at)
    teardown_fault = bool(fi) and not setup_fault and min(fi) < o.ncmd
    m = case.method
    # fault = non-zero exit status; spawn-error = OSError raised at the subprocess boundary
    tag = 'spawn-error' if case.spawn else 'fault'
    if o.hosts != HOSTS0:
        bad.append(('C04:hosts-file-not-restored', HOSTS0, o.hosts, 'hosts file differs after the session'))
    if not teardown_fault:
        if o.final != o.expected_final:
            if m.startswith('pf'):
                key = 'C04:pf:main-ruleset-or-module-not-restored'
            elif case.env_fail:
                key = 'C04:%s:persistent-command-failure:not-undone' % m
            elif case.io:
                key = 'C04:%s:log-stream-fails:not-undone' % m
            elif m == 'tproxy' and setup_fault and not case.spawn:
                key = 'C04:tproxy:setup-fault:teardown-aborts'
            elif setup_fault:
                key = 'C04:%s:setup-%s:not-undone' % (m, tag)
            elif case.second and case.second.get('when') == 'during-rules':
                key = 'C04:%s:foreign-rule-added-during-session:not-undone' % m
            elif case.second:
                key = 'C04:%s:foreign-instance-disturbed' % m
            else:
                key = 'C04:%s:session-not-identity' % m
            bad.append((key, o.expected_final, o.final, 'configuration after the session differs from before'))
        if case.env_fail and not fi and hasattr(case, 'full_chunks'):
            # the same machine later: a session on the same port must still be able to start and end clean
            ex, started, before, after = later_session(box, case, o.py)
            if not started or after != o.expected_final:
                bad.append(('C04:%s:persistent-command-failure:port-unusable' % m,
                            'later session reaches STARTED and ends in the initial configuration',
                            'exit=%s started=%s%s' % (ex, started, '' if after == o.expected_final else
                                                      ', configuration differs afterwards'),
                            'commands carrying %s fail persistently' % (case.env_fail,)))
    else:
        if o.foreign1 != o.foreign0:
            bad.append(('C04:%s:teardown-%s:foreign-touched' % (m, tag), o.foreign0, o.foreign1,
                        'a tear-down fault changed configuration that is not ours'))
        # the other family's tear-down still ran: nothing of ours is left in the family the
        # failing command does not belong to
        kk = min(fi)
        argv = o.log[kk][0] if kk < len(o.log) else []
        fam = None
        if argv and argv[0] in ('iptables', 'ip6tables'):
            fam = 'v4' if argv[0] == 'iptables' else 'v6'
        elif argv and argv[0] == 'nft' and len(argv) > 3:
            fam = 'v4' if '-ipv4-' in argv[3] else 'v6' if '-ipv6-' in argv[3] else None
        if fam is not None:
            other = 'v6' if fam == 'v4' else 'v4'
            dirty = [ch[0] for (f, t), tab in o.py.ipt.items() if f == other for ch in tab
                     if any(PyEnv.owns_name(p, ch[0]) or any(PyEnv.owns_rule(p, r) for r in ch[1]) for p in case.ports)]
            dirty += [t[0] for t in o.py.nft if re.match(r'^sshuttle-ip%s-\d+$' % other, t[0])
                      and any(t[0].endswith('-%d' % p) for p in case.ports)]
            if dirty:
                bad.append(('C04:%s:teardown-%s:other-family-not-restored' % (m, tag), 'nothing of ours left in ' + other,
                            'left in %s: %s' % (other, ', '.join(dirty)),
                            'a failing %s tear-down command prevented the %s tear-down' % (fam, other)))
        # a later session on the same port must be able to start, and must not leave more
        left = o.final
        ex, started, before, after = later_session(box, case, o.py)
        if not started:
            key = 'C04:%s:teardown-%s:port-unusable' % (m, tag)
            bad.append((key, 'later session reaches STARTED', 'exit=%s started=%s' % (ex, started),
                        'after a tear-down fault a later session on the same port cannot start'))
        elif after not in (o.s0, left):
            if m.startswith('pf'):
                key = 'C04:pf:main-ruleset-or-module-not-restored'
            else:
                key = 'C04:%s:teardown-%s:later-session-leaves-more' % (m, tag)
            bad.append((key, 'configuration == initial or == what the failed tear-down left', after,
                        'later session after a tear-down fault'))
    return bad, ('setup' if setup_fault else 'teardown' if teardown_fault else 'none')


# ------------------------------------------------------------------ generation

UTF8 = 'caf\xc3\xa9 \xe2\x9c\x93'      # UTF-8 bytes of "café ✓", one char per byte (argv is bytes to the kernel)
FOREIGN_DURING = [
    ['iptables', '-w', '-t', 'nat', '-A', 'OUTPUT', '-j', 'ACCEPT', '-d', '203.0.113.9', '-m', 'comment', '--comment', UTF8],
    ['iptables', '-w', '-t', 'mangle', '-I', 'OUTPUT', '1', '-j', 'ACCEPT', '-d', '203.0.113.9', '-m', 'comment', '--comment', UTF8],
    ['ip6tables', '-w', '-t', 'nat', '-I', 'PREROUTING', '1', '-j', 'ACCEPT', '-m', 'comment', '--comment', UTF8],
    ['ip6tables', '-w', '-t', 'mangle', '-A', 'PREROUTING', '-j', 'ACCEPT', '-m', 'comment', '--comment', UTF8],
]
FOREIGN_PRELUDE = [
    ['iptables', '-w', '-t', 'nat', '-N', 'DOCKER'],
    ['iptables', '-w', '-t', 'nat', '-A', 'DOCKER', '-j', 'RETURN', '-i', 'docker0'],
    ['iptables', '-w', '-t', 'nat', '-I', 'OUTPUT', '1', '-j', 'DOCKER', '-m', 'addrtype', '--dst-type', 'LOCAL'],
    ['iptables', '-w', '-t', 'nat', '-A', 'PREROUTING', '-j', 'DOCKER'],
    ['iptables', '-w', '-t', 'mangle', '-A', 'OUTPUT', '-j', 'MARK', '--set-mark', '7'],
    ['iptables', '-w', '-t', 'mangle', '-N', 'qos'],
    ['iptables', '-w', '-t', 'mangle', '-A', 'PREROUTING', '-j', 'qos'],
    ['ip6tables', '-w', '-t', 'nat', '-N', 'sshuttle-x'],
    ['ip6tables', '-w', '-t', 'nat', '-A', 'OUTPUT', '-j', 'sshuttle-x'],
    ['ip6tables', '-w', '-t', 'mangle', '-A', 'OUTPUT', '-j', 'ACCEPT'],
    ['iptables', '-w', '-t', 'nat', '-A', 'POSTROUTING', '-j', 'MASQUERADE', '-m', 'comment', '--comment', 'r\xc3\xa9seau'],
    ['iptables', '-w', '-t', 'mangle', '-A', 'FORWARD', '-j', 'ACCEPT', '-m', 'comment', '--comment', 'r\xc3\xa9seau'],
    ['nft', 'add table', 'inet', 'filter', ''],
    ['nft', 'add chain', 'inet', 'filter', 'input', '{ type filter hook input priority 0; }'],
    ['nft', 'add rule', 'inet', 'filter', 'input', 'ct state established accept'],
]


def gen_plans(ctx, method):
    rng = ctx.rng
    plans = []
    r4 = [(2, 24, 0, '1.2.3.0', 8000, 9000), (2, 32, 1, '1.2.3.66', 8080, 8080), (2, 0, 0, '0.0.0.0', 0, 0),
          (2, 8, 1, '10.0.0.0', 0, 0), (2, 16, 0, '192.168.0.0', 443, 443)]
    r6 = [(10, 64, 0, '2404:6800:4004:80c::', 0, 0), (10, 128, 1, '2404:6800:4004:80c::101f', 80, 80),
          (10, 0, 0, '::', 0, 0)]
    n4 = [(2, '1.2.3.33'), (2, '127.0.0.53')]
    n6 = [(10, '2404:6800:4004:80c::33')]
    udp_ok = method == 'tproxy'
    owner_ok = method == 'nat'
    # fixed boundary plans first
    plans.append(Plan(method, r4[:2] + r6[:2], n4[:1] + n6, 1024, 1025, hosts=[('existing', '1.2.3.3')]))
    plans.append(Plan(method, r4[:1], [], 0, 12300))
    plans.append(Plan(method, [], n6, 12301, 0))
    plans.append(Plan(method, r6[:1], n4[:1], 12300, 12300, tail='junk'))
    if owner_ok:
        plans.append(Plan(method, r4[:2], n4[:1], 0, 12302, user='alice', hosts=[('a', '1.1.1.1'), ('b', '2.2.2.2')]))
        plans.append(Plan(method, r4[:1] + r6[:1], [], 12310, 12311, user='1000', group='staff', tail='hostbad'))
        plans.append(Plan(method, r4[:1], [], 0, 12303, group='wheel', resolvectl=True))
    if udp_ok:
        plans.append(Plan(method, r4[:3] + r6[:1], n4[:1], 12320, 12321, udp=1))
    else:
        plans.append(Plan(method, r4[:1], [], 0, 12322, udp=1))      # unsupported: raises
    plans.append(Plan(method, r4[:1], [], 0, 12304, resolvectl=True, hosts=[('x', '9.9.9.9')], tail='blank'))
    for _ in range(ctx.scale(2, 40)):
        k4 = rng.randrange(0, 4)
        k6 = rng.randrange(0, 3)
        routes = rng.sample(r4, k4) + rng.sample(r6, k6)
        rng.shuffle(routes)
        ns = rng.sample(n4, rng.randrange(0, 3)) + rng.sample(n6, rng.randrange(0, 2))
        p6 = rng.choice([0, 1024, 12300, 40000, 65533])
        p4 = rng.choice([1025, 12300, 12299, 40001, 65533])
        user = rng.choice([None, None, 'bob', '0']) if owner_ok else None
        group = rng.choice([None, None, 'adm']) if owner_ok else None
        plans.append(Plan(method, routes, ns, p6, p4, udp=(rng.random() < 0.3) if udp_ok else 0, user=user, group=group,
                          hosts=[('h%d' % i, '10.0.0.%d' % i) for i in range(rng.randrange(0, 3))],
                          tail=rng.choice(['eof', 'eof', 'junk', 'hostbad', 'blank']),
                          resolvectl=rng.random() < 0.3))
    return plans


def cuts_of(lines):
    """Dialogue prefixes: after every line, and inside every line (a partial last chunk)."""
    out = []
    for i in range(len(lines) + 1):
        out.append(lines[:i])
    for i, l in enumerate(lines):
        n = len(l) - 1          # without the newline
        for j in sorted(set([1, n // 2, n - 1, n])):
            if 0 < j <= n:
                out.append(lines[:i] + [l[:j]])
    return out


def mk_case(plan, chunks, faults=(), prelude=(), started_fails=False, second=None, pfinit=None, spawn=None,
            io=None, status=None, env_fail=None):
    c = Case(plan.method, chunks, faults, prelude, plan.resolvectl, started_fails, pfinit, second,
             ports=sorted(set([plan.p6, plan.p4])), spawn=spawn, io=io, status=status, env_fail=env_fail)
    c.full_chunks = [l.encode('ASCII') for l in plan.lines() if l.strip() not in ('FROBNICATE', 'HOST nocomma', '')]
    fam_has_subnets = {'v6': any(r[0] == 10 for r in plan.routes), 'v4': any(r[0] == 2 for r in plan.routes)}
    c.fam_has_subnets = fam_has_subnets
    return c


def compare_model(ctx, lean, case, body, o):
    if lean is None:
        return
    ans = run_model(lean, case, body, o.before_argvs)
    hosts_tok = '-'
    mh = marked_hosts(o.hosts)
    if mh:
        hosts_tok = ','.join('%s=%s' % (hexs(n), hexs(i)) for n, i in mh)
    impl = 'exit=%s\thosts=%s\ttrace=%s\tstate=%s' % (o.exit, hosts_tok, o.lean_trace, o.final)
    if ans != impl:
        fa = dict(x.split('=', 1) for x in ans.split('\t')) if ans.startswith('exit=') else {'raw': ans}
        fi = dict(x.split('=', 1) for x in impl.split('\t'))
        diff = [k for k in fi if fa.get(k) != fi[k]]

        def short(a, b):
            # common prefix dropped so the first difference is visible
            n = 0
            while n < min(len(a), len(b)) and a[n] == b[n]:
                n += 1
            n = max(0, n - 80)
            return a[n:n + 500]
        ctx.corr_break('C04:%s' % case.method, case=dict(case.to_json(), model_input=model_line(case, body)[:2000]),
                       impl={k: short(fi[k], fa.get(k, '')) for k in diff},
                       model={k: short(fa.get(k, ''), fi[k]) for k in diff})


def report(ctx, case, key, expected, observed, note, o):
    ctx.violation(key, case=case.to_json(),
                  expected=expected if len(expected) < 400 else 'configuration before the session: ' + ' || '.join(o.s0_pretty),
                  observed=observed if len(observed) < 400 else 'configuration after: ' + ' || '.join(o.final_pretty),
                  note=note + ('; exit=%s, commands=%d, finally began at command %s' % (o.exit, o.ncmd, o.undo_at)),
                  kind='faults' if case.fault_indices() else 'ops')


IO_MODES_QUICK = [(1, 'EIO'), (2, 'EPIPE'), (3, 'closed'), (0, 'EIO'), (3, 'EIO')]
IO_MODES_ALL = [(v, e) for v in (0, 1, 2, 3) for e in ('EIO', 'EPIPE', 'closed')]


def run_plan(ctx, box, lean, plan, budget, with_io=False):
    lines = plan.lines()
    full = mk_case(plan, lines)
    o0 = execute(box, full, lean)
    body = body_tokens(plan.method, o0.log)
    if plan.method == 'tproxy':
        # hypothesis TpBodiesOk of the tproxy theorems, evaluated on what the real code appended
        for argv, _ok in o0.log:
            if argv[0] in ('iptables', 'ip6tables') and len(argv) > 5 and argv[4] == '-A':
                chain = argv[5]
                tgt = PyEnv.parse_rule(argv[6:])[0]
                m = re.match(r'^C\.sshuttle-([mtd])-\d+$', tgt)
                if m and not (m.group(1) == 'd' and re.match(r'^sshuttle-t-\d+$', chain)):
                    ctx.corr_break('C04:tproxy-body', case=full.to_json(), impl=' '.join(argv),
                                   model='TpBodiesOk: bodies refer to nothing of ours except -j sshuttle-d-<port> '
                                         'from the tproxy chain',
                                   note='a hypothesis of the tproxy theorems does not hold of the emitted rules')
    cases = [(full, o0)]

    def do(case):
        case.pfrules = full.pfrules
        o = execute(box, case, lean)
        cases.append((case, o))

    # truncation points
    for chunks in cuts_of(lines)[:-0 or None]:
        if chunks == lines:
            continue
        do(mk_case(plan, chunks))
    # STARTED cannot be written
    do(mk_case(plan, lines, started_fails=True))
    # every k-th command fails
    ks = list(range(o0.ncmd))
    if budget is not None and len(ks) > budget:
        ks = sorted(ctx.rng.sample(ks, budget))
    for k in ks:
        do(mk_case(plan, lines, faults=[k]))
    # the exit statuses the real tools produce: iptables/ip6tables fail with 1, 2, 3 or 4 (nft and pfctl with 1
    # only, covered above); every iptables command index fails with a status other than 1 as well
    ipt_ks = [k for k in ks if o0.log[k][0][0] in ('iptables', 'ip6tables')]
    for k in ipt_ks:
        for st in ((2, 3, 4) if ctx.thorough else ((2, 3, 4)[k % 3],)):
            do(mk_case(plan, lines, faults=[k], status={k: st}))
    # a kernel without the owner match: every command that uses `-m owner` (the mangle MARK rule of a
    # --user/--group session, at set-up and at tear-down) exits with status 2
    if any('owner' in argv for argv, _ok in o0.log):
        for st in ((2, 4, 1, 3) if ctx.thorough else (2, 4)):
            do(mk_case(plan, lines, env_fail=[('owner', st)]))
    # every k-th command cannot be spawned at all: OSError (EAGAIN from fork / ENOENT from exec) raised at
    # the subprocess boundary instead of an exit status -- set-up and tear-down, both families
    for k in ks:
        for en in (('EAGAIN', 'ENOENT') if ctx.thorough else (('EAGAIN', 'ENOENT')[k % 2],)):
            do(mk_case(plan, lines, spawn={k: en}))
    # foreign configuration present before; second instance before / during
    do(mk_case(plan, lines, prelude=FOREIGN_PRELUDE))
    if not plan.method.startswith('pf'):
        q = 23456
        for when in ('before', 'during', 'during-gone'):
            do(mk_case(plan, lines, prelude=FOREIGN_PRELUDE[:4], second=dict(port=q, when=when)))
        # another tool adds rules with non-ASCII bytes (UTF-8 comments) to our tables while the session is up:
        # every later `-nL` listing read by ipt_chain_exists contains them
        dr = dict(port=q, when='during-rules', cmds=FOREIGN_DURING)
        do(mk_case(plan, lines, prelude=FOREIGN_PRELUDE[:4], second=dr))
        td = list(range(o0.undo_at if o0.undo_at is not None else o0.ncmd, o0.ncmd))
        for k in (td if ctx.thorough else td[::3]):
            do(mk_case(plan, lines, faults=[k], second=dr))
        # faults with foreign configuration and a second instance present
        for k in (ks if ctx.thorough else ks[::5]):
            do(mk_case(plan, lines, faults=[k], prelude=FOREIGN_PRELUDE, second=dict(port=q, when='before')))
        for k in (ks if ctx.thorough else ks[2::7]):
            do(mk_case(plan, lines, spawn={k: 'EAGAIN'}, prelude=FOREIGN_PRELUDE, second=dict(port=q, when='before')))

    if with_io:
        # the helper's log streams fail (terminal hung up: EIO; reader gone: EPIPE; closed file object) while
        # it is verbose or not -- during the tear-down, or all along with a set-up fault to undo
        td = list(range(o0.undo_at if o0.undo_at is not None else o0.ncmd, o0.ncmd))
        for v, en in (IO_MODES_ALL if ctx.thorough else IO_MODES_QUICK):
            do(mk_case(plan, lines, io=dict(verbose=v, err=en, when='teardown', stdout=False)))
            do(mk_case(plan, lines, io=dict(verbose=v, err=en, when='always', stdout=True)))
        for k in (ks if ctx.thorough else ks[1::4]):
            do(mk_case(plan, lines, faults=[k], io=dict(verbose=1, err='EIO', when='always', stdout=False)))
        for k in (td if ctx.thorough else td[::3]):
            do(mk_case(plan, lines, faults=[k], io=dict(verbose=2, err='EIO', when='teardown', stdout=True)))

    for case, o in cases:
        ctx.count()
        if case.io:
            ctx.hist('%s:log-stream-%s-v%d' % (plan.method, case.io['err'], case.io['verbose']))
        ctx.hist('verbosity:%d' % (case.io['verbose'] if case.io else (case.verbose or 0)))
        if case.status:
            ctx.hist('%s:fault-status-%s' % (plan.method, '+'.join(str(v) for v in sorted(set(case.status.values())))))
        ctx.mark((case.method, case.chunks, case.faults, sorted(case.status.items()), sorted(case.spawn.items()),
                  sorted((case.io or {}).items()), bool(case.prelude), case.second,
                  case.started_fails), o.ncmd > 0)
        bad, phase = check_oracle(ctx, box, case, o)
        ctx.hist('%s:%s-%s' % (plan.method, 'spawn-error' if case.spawn else 'fault', phase))
        ctx.hist('exit:' + o.exit.split(':')[0])
        if o.ncmd == 0:
            ctx.hist('no-command-issued')
        for key, exp, obs, note in bad:
            report(ctx, case, key, exp, obs, note, o)
        if not (case.second and case.second['when'].startswith('during')) and not case.spawn and not case.env_fail:
            # (a command that cannot be spawned is outside the code model: those cases are decided by the
            # oracle on the real code, with PyEnv and the Lean Env still cross-checked command by command)
            compare_model(ctx, lean, case, body, o)
    # what is undone after a failing command must not depend on WHICH non-zero status the command returned
    plain = {}
    for case, o in cases:
        if len(case.faults) == 1 and not (case.status or case.spawn or case.io or case.prelude or case.second
                                          or case.env_fail or case.started_fails) and case.chunks == full.chunks:
            plain[case.faults[0]] = o
    for case, o in cases:
        if len(case.faults) == 1 and case.status and not (case.spawn or case.io or case.prelude or case.second
                                                          or case.env_fail) and case.faults[0] in plain:
            o1 = plain[case.faults[0]]
            if o.final != o1.final:
                ctx.violation('C04:%s:cleanup-depends-on-exit-status' % plan.method,
                              case=dict(case.to_json(), compare_with_status=1),
                              expected='the same configuration as when the command fails with status 1: '
                                       + (' || '.join(o1.final_pretty) or '(builtin chains only)'),
                              observed='status %d leaves: %s' % (list(case.status.values())[0],
                                                                ' || '.join(o.final_pretty) or '(builtin chains only)'),
                              note='command %d (%s) fails; exit=%s vs %s' % (
                                  case.faults[0], ' '.join(o1.log[case.faults[0]][0]) if case.faults[0] < len(o1.log) else 'not reached', o.exit, o1.exit),
                              kind='faults')
    return cases



# ------------------------------------------------------------------ exit path: signals to the helper

# The helper must survive SIGHUP/SIGPIPE and must answer SIGINT/SIGTERM by relaying an interrupt to
# the client, *every time*, staying alive until the control channel closes - only it can undo the
# firewall changes.  This is a fact about real signal dispositions, so it is decided on a real
# process: the real firewall.main with the real setup_daemon() (only is_admin_user says yes) runs in
# a child python; its external commands go to a PyEnv whose canonical text is written to a file
# after every command, so the state survives the child being killed.  The "client" whose pid is in
# the GO line is a stand-in process that reports every SIGINT it gets, so the harness process
# itself never receives a signal and installs no handler.

SIGNAL_HELPER = r"""
import os, sys
sys.dont_write_bytecode = True
harness, repo, method, statefile, hostsfile, resolvectl = sys.argv[1:7]
verbosity = int(sys.argv[8]) if len(sys.argv) > 8 else 0
pause_teardown = len(sys.argv) > 9 and sys.argv[9] == '1'
os.environ['VERIF_REPO'] = repo
sys.path.insert(0, harness)
import common
sys.path.insert(0, common.REPO)
from props import c04
import json, shutil
prelude = json.loads(sys.argv[7])
box = c04.Sandbox()
shutil.rmtree(box.dir, ignore_errors=True)
firewall = box.m['firewall']
firewall.HOSTSFILE = hostsfile
firewall.is_admin_user = lambda: True
py = c04.PyEnv()
for argv in prelude:
    py.run(argv, b'', foreign=True)


def dump():
    with open(statefile + '.tmp', 'w') as f:
        f.write(py.show() + '\n' + ' || '.join(py.pretty()) + '\n')
    os.rename(statefile + '.tmp', statefile)


paused = []


class R(c04.Router):
    def run(self, argv, stdin=b''):
        if pause_teardown and box.teardown_started and not paused:
            # the tear-down has begun: tell the harness and wait until it has delivered its signals
            import time
            paused.append(1)
            open(statefile + '.td', 'w').close()
            end = time.time() + 20
            while not os.path.exists(statefile + '.go') and time.time() < end:
                time.sleep(0.01)
        r = c04.Router.run(self, argv, stdin)
        dump()
        return r


box.router = R(py, None)
box.resolvectl = resolvectl == '1'
box.use_pf(method)
dump()
sys.stderr = open(os.devnull, 'w')
box.m['helpers'].verbose = verbosity
firewall.main(c04.METHOD_MODULE[method], False)
"""

SIGNAL_STANDIN = r"""
import signal, sys, time
def h(signum, frame):
    sys.stdout.write('INT\n'); sys.stdout.flush()
signal.signal(signal.SIGINT, h)
sys.stdout.write('up\n'); sys.stdout.flush()
while True:
    time.sleep(3600)
"""


def _read_line(f, timeout):
    """One line from an unbuffered pipe, or None on timeout / b'' on EOF."""
    import select
    buf = b''
    end = __import__('time').time() + timeout
    while not buf.endswith(b'\n'):
        left = end - __import__('time').time()
        if left <= 0:
            return None
        r, _, _ = select.select([f], [], [], left)
        if not r:
            return None
        c = os.read(f.fileno(), 1)
        if not c:
            return buf
        buf += c
    return buf


IGNORED_SIGNALS = ('SIGHUP', 'SIGPIPE')       # the helper is meant to survive these untouched
RELAYED_SIGNALS = ('SIGTERM', 'SIGINT')      # ... and to answer these by interrupting the client, staying alive


def _reset_dispositions():
    """Run in the child before exec: the helper starts with default dispositions, as under sudo, whatever the
    harness process inherited (nohup / a CI runner may have SIGHUP or SIGINT ignored, which exec would keep)."""
    import signal
    for n in ('SIGHUP', 'SIGINT', 'SIGTERM', 'SIGQUIT', 'SIGPIPE'):
        signal.signal(getattr(signal, n), signal.SIG_DFL)


def run_signal_case(case):
    """case: dict(kind='signal', method, signals=[names], moment, setsid, dialogue, prelude, resolvectl, verbose).
    moment: 'before-started' (after READY, before the client has sent anything), 'after-started' (session up),
    'teardown' (channel closed, the first tear-down command about to run).  setsid: 'ok' (os.setsid() in
    setup_daemon succeeds) or 'eperm' (the helper is a process-group leader, as under sudo use_pty: setsid fails).
    Returns dict(problems=[(key, expected, observed, note)], info=str)."""
    import json
    import signal
    import subprocess
    import time
    method = case['method']
    moment = case.get('moment', 'after-started')
    setsid = case.get('setsid', 'ok')
    sigs = [getattr(signal, n) for n in case['signals']]
    py0 = PyEnv()
    for argv in case.get('prelude', []):
        py0.run(argv, b'', foreign=True)
    s0 = py0.show()
    tmp = tempfile.mkdtemp(prefix='c04-signal-')
    statefile = os.path.join(tmp, 'state')
    hostsfile = os.path.join(tmp, 'hosts')
    with open(hostsfile, 'w') as f:
        f.write(HOSTS0)
    standin = helper = None
    problems = []
    relayed = 0
    notes = []
    died_of = None
    try:
        standin = subprocess.Popen([sys.executable, '-S', '-c', SIGNAL_STANDIN], stdin=subprocess.DEVNULL,
                                   stdout=subprocess.PIPE, stderr=subprocess.DEVNULL, bufsize=0)
        if _read_line(standin.stdout, 10) != b'up\n':
            raise RuntimeError('client stand-in did not start')
        env = dict(os.environ, VERIF_REPO=common.REPO)
        kw = {}
        if setsid == 'eperm':
            kw['process_group'] = 0        # a process-group leader cannot setsid(): EPERM, as under sudo use_pty
        helper = subprocess.Popen(
            [sys.executable, '-c', SIGNAL_HELPER, common.HERE, common.REPO, method, statefile, hostsfile,
             '1' if case.get('resolvectl') else '0', json.dumps(case.get('prelude', [])),
             str(int(case.get('verbose') or 0)), '1' if moment == 'teardown' else '0'],
            stdin=subprocess.PIPE, stdout=subprocess.PIPE, stderr=subprocess.DEVNULL, bufsize=0, env=env,
            preexec_fn=_reset_dispositions, **kw)
        line = _read_line(helper.stdout, 20)
        if not line or not line.startswith(b'READY '):
            raise RuntimeError('helper did not say READY: %r' % (line,))
        dialogue = ''.join(case['dialogue']).replace('{pid}', str(standin.pid)).encode('ASCII')

        def start_session():
            helper.stdin.write(dialogue)
            ln = _read_line(helper.stdout, 20)
            return ln == b'STARTED\n', ln

        def deliver():
            nonlocal relayed, died_of
            for n, sg in zip(case['signals'], sigs):
                if helper.poll() is not None:
                    break
                os.kill(helper.pid, sg)
                if n in RELAYED_SIGNALS and moment != 'before-started':
                    # the helper relays an interrupt to the client; wait until it did (or died)
                    end = time.time() + 5
                    got = None
                    while time.time() < end and helper.poll() is None and got is None:
                        got = _read_line(standin.stdout, 0.05)
                    if got == b'INT\n':
                        relayed += 1
                    else:
                        notes.append('%s not relayed' % n)
                time.sleep(0.1)       # let the handler return before the next signal
                if helper.poll() is not None and died_of is None:
                    died_of = n

        started = False
        during = None
        if moment == 'before-started':
            deliver()
            if helper.poll() is None:
                # still alive: it must still serve a session
                started, ln = start_session()
                if not started:
                    notes.append('no STARTED after the signals: %r' % (ln,))
        else:
            started, ln = start_session()
            if not started:
                raise RuntimeError('helper did not say STARTED: %r' % (ln,))
            with open(statefile) as f:
                during = f.read().split('\n')[0]
            if during == s0:
                raise RuntimeError('set-up changed nothing; the case would be vacuous')
            if moment == 'after-started':
                deliver()
        # the client goes away / reacts to the interrupt: it closes the control channel
        try:
            helper.stdin.close()
        except (IOError, OSError):
            pass
        if moment == 'teardown':
            end = time.time() + 10
            while not os.path.exists(statefile + '.td') and helper.poll() is None and time.time() < end:
                time.sleep(0.01)
            if os.path.exists(statefile + '.td'):
                deliver()
            else:
                notes.append('tear-down never began')
            open(statefile + '.go', 'w').close()
        try:
            helper.wait(timeout=15)
        except subprocess.TimeoutExpired:
            helper.kill()
            helper.wait()
            notes.append('helper did not finish after the channel closed')
        with open(statefile) as f:
            txt = f.read().split('\n')
        final, pretty = txt[0], (txt[1] if len(txt) > 1 else '')
        with open(hostsfile) as f:
            hosts = f.read()
        rc = helper.returncode
        want_relays = 0 if moment == 'before-started' else sum(1 for n in case['signals'] if n in RELAYED_SIGNALS)
        where = 'signals %s delivered to the helper %s (os.setsid() %s), then the control channel closed; ' \
                '%d of %d interrupts relayed to the client' % (
                    case['signals'], moment, 'succeeds' if setsid == 'ok' else 'fails with EPERM', relayed,
                    want_relays)
        if final != s0:
            if rc is not None and rc < 0:
                if died_of in RELAYED_SIGNALS or died_of is None:
                    key = 'C04:signal:second-signal-kills-helper-before-restore' if len(sigs) > 1 else \
                        'C04:signal:signal-kills-helper-before-restore'
                else:
                    key = 'C04:signal:%s-kills-helper-before-restore' % died_of.lower()
            else:
                key = 'C04:signal:rules-not-restored'
            problems.append((key, 'configuration after the helper is gone == configuration before the session',
                             'helper exit status %r (negative = killed by that signal, after %s); configuration '
                             'after: %s' % (rc, died_of, pretty or '(see state)'), where))
        elif rc != 0 or relayed != want_relays or hosts != HOSTS0 or \
                (moment == 'before-started' and not started):
            key = 'C04:signal:helper-did-not-relay-and-finish'
            if rc is not None and rc < 0 and died_of in IGNORED_SIGNALS:
                key = 'C04:signal:%s-kills-helper' % died_of.lower()
            problems.append((key,
                             'helper alive and serving, exit status 0 at the end, %d interrupts relayed, hosts file as '
                             'before' % want_relays,
                             'exit status %r, %d relayed, session started=%s, hosts file %s; %s'
                             % (rc, relayed, started, 'as before' if hosts == HOSTS0 else 'changed', '; '.join(notes)),
                             where))
        info = 'signals=%s moment=%s setsid=%s relayed=%d/%d helper-exit=%r restored=%s' % (
            case['signals'], moment, setsid, relayed, want_relays, rc, final == s0)
        return dict(problems=problems, info=info, commands=during is not None)
    finally:
        for pr in (helper, standin):
            if pr is not None and pr.poll() is None:
                pr.kill()
                pr.wait()
        for pr in (helper, standin):
            if pr is not None:
                for fh in (pr.stdin, pr.stdout):
                    try:
                        if fh is not None:
                            fh.close()
                    except (IOError, OSError):
                        pass
        shutil.rmtree(tmp, ignore_errors=True)


def signal_cases(ctx):
    dialogue = ['ROUTES\n', '2,24,0,1.2.3.0,0,0\n', '10,64,0,2404:6800:4004:80c::,0,0\n', 'NSLIST\n',
                '2,1.2.3.33\n', 'PORTS 12300,12301,12302,12303\n', 'GO 0 - - 0x01 {pid}\n']
    # every signal a helper can legitimately receive while it serves, in both environments (os.setsid()
    # succeeding / failing with EPERM as under sudo use_pty), at three moments of the session
    everything = ['SIGHUP', 'SIGPIPE', 'SIGTERM', 'SIGINT', 'SIGHUP', 'SIGTERM']
    methods = ['nat', 'tproxy', 'nft']
    seqs = []
    n = 0
    for setsid in ('ok', 'eperm'):
        for moment in ('after-started', 'before-started', 'teardown'):
            seqs.append((methods[n % 3], everything, moment, setsid))
            n += 1
    seqs.append(('tproxy', ['SIGINT', 'SIGINT'], 'after-started', 'ok'))
    if ctx.thorough:
        for setsid in ('ok', 'eperm'):
            for moment in ('after-started', 'before-started', 'teardown'):
                for sg in ('SIGHUP', 'SIGPIPE', 'SIGTERM', 'SIGINT'):
                    seqs.append((methods[n % 3], [sg], moment, setsid))
                    n += 1
        seqs += [('nft', ['SIGTERM', 'SIGINT', 'SIGTERM'], 'after-started', 'ok'),
                 ('nat', ['SIGHUP', 'SIGHUP', 'SIGPIPE'], 'teardown', 'ok'),
                 ('nft', ['SIGINT', 'SIGINT', 'SIGINT'], 'teardown', 'eperm')]
    for method, names, moment, setsid in seqs:
        yield dict(kind='signal', method=method, signals=names, moment=moment, setsid=setsid, dialogue=dialogue,
                   prelude=FOREIGN_PRELUDE[:4], resolvectl=False, verbose=next_verbosity())


def run_signals(ctx):
    from concurrent.futures import ThreadPoolExecutor
    cases = list(signal_cases(ctx))

    def one(case):
        try:
            return run_signal_case(case)
        except RuntimeError as e:
            return e
    with ThreadPoolExecutor(max_workers=8) as ex:
        results = list(ex.map(one, cases))
    for case, r in zip(cases, results):
        if isinstance(r, RuntimeError):
            ctx.notes.append('signal case %s/%s/%s/%s could not be set up: %s' % (
                case['method'], case['signals'], case['moment'], case['setsid'], r))
            ctx.hist('signal:not-run')
            continue
        ctx.count()
        ctx.mark(('signal', case['method'], tuple(case['signals']), case['moment'], case['setsid']), True)
        ctx.hist('signal:%s:setsid-%s' % (case['moment'], case['setsid']))
        ctx.hist('verbosity:%d' % case['verbose'])
        if len(ctx.samples) < 8:
            ctx.samples.append(dict(kind='signal', method=case['method'], signals=case['signals'],
                                    moment=case['moment'], setsid=case['setsid'], real_code=r['info']))
        for key, exp, obs, note in r['problems']:
            ctx.violation(key, case=case, expected=exp, observed=obs, note=note, kind='ops')


# ------------------------------------------------------------------ the client side of the tear-down, with time

# A normal client exit lets the helper finish its restore: FirewallClient.done() closes the control channel
# and waits for the helper for as long as the restore takes.  The real FirewallClient (constructor, setup,
# start, done) is driven in this thread against a helper that is the REAL firewall.main running in another
# thread on the other end of the client's own socketpair, with PyEnv behind it.  The helper's first tear-down
# command takes `duration` seconds of *virtual* time (an `iptables -w` waiting for the xtables lock, a slow
# pfctl).  The process object the client holds records every wait / poll / kill / terminate / send_signal;
# a timed wait shorter than the duration raises TimeoutExpired, a kill stops the helper where it is (no
# further command has any effect, as after SIGKILL).  client.time is a virtual clock as well.

CLIENT_DURATIONS = [0, 1, 6, 60, 900]


class HelperProc:
    """What subprocess.Popen returns to FirewallClient: the helper thread plus a virtual clock."""

    def __init__(self, owner, argv, sock):
        import threading
        self.owner = owner
        self.argv = argv
        self.pid = 424242
        self.returncode = None
        self.calls = []
        self.killed_by = None
        self.sock = sock.dup()           # the child's copy of its end of the socketpair
        self.reached_teardown = threading.Event()
        self.release = threading.Event()
        self.finished = threading.Event()
        self.eof_at = None
        self.thread = threading.Thread(target=self._main, daemon=True)
        self.thread.start()

    # ---- the helper
    def _main(self):
        box = self.owner.box
        firewall = box.m['firewall']
        helpers = box.m['helpers']
        rf = self.sock.makefile('rb')
        wf = self.sock.makefile('wb')
        old = firewall.setup_daemon
        firewall.setup_daemon = lambda: (rf, wf)
        rc = 0
        try:
            firewall.main(METHOD_MODULE[self.owner.method], False)
        except helpers.Fatal:
            rc = 99
        except BaseException:  # noqa
            rc = 1
        finally:
            firewall.setup_daemon = old
            for fh in (rf, wf):
                try:
                    fh.close()
                except (IOError, OSError, ValueError):
                    pass
            try:
                self.sock.close()
            except OSError:
                pass
            if self.killed_by is None:
                self.returncode_real = rc
            self.finished.set()
            self.reached_teardown.set()

    # ---- the process object
    def _remaining(self):
        """virtual seconds the helper still needs, once its tear-down has begun"""
        if self.eof_at is None:
            self.eof_at = self.owner.now
        return max(0.0, self.eof_at + self.owner.duration - self.owner.now)

    def _let_finish(self):
        self.release.set()
        self.finished.wait(20)
        if self.returncode is None:
            self.returncode = -9 if self.killed_by else getattr(self, 'returncode_real', 0)
        return self.returncode

    def _sync(self):
        """wait (really) until the helper thread has either ended or is held at its first tear-down command"""
        self.reached_teardown.wait(10)

    def poll(self):
        self.calls.append(('poll',))
        if self.finished.is_set():
            return self._let_finish()
        if self.owner.channel_closed:
            self._sync()
            if self.finished.is_set() or self._remaining() <= 0:
                return self._let_finish()
        return None

    def wait(self, timeout=None):
        import subprocess
        self.calls.append(('wait', timeout))
        if not self.owner.channel_closed and not self.finished.is_set():
            raise AssertionError('wait() before the control channel was closed would block for ever')
        self._sync()
        if self.finished.is_set():
            return self._let_finish()
        need = self._remaining()
        if timeout is None or timeout >= need:
            self.owner.now += need
            return self._let_finish()
        self.owner.now += timeout
        raise subprocess.TimeoutExpired(self.argv, timeout)

    def _signal(self, what):
        self.calls.append((what,))
        if not self.finished.is_set() and self.killed_by is None:
            self.killed_by = what
            self.owner.killed_while_restoring = self.owner.box.teardown_started and not self.finished.is_set()
            self.release.set()
            self.finished.wait(20)
            self.returncode = -9

    def kill(self):
        self._signal('kill')

    def terminate(self):
        self._signal('terminate')

    def send_signal(self, sig):
        self._signal('send_signal(%s)' % (sig,))


class ClientDoneScenario:
    def __init__(self, box, case):
        self.box = box
        self.method = case['method']
        self.duration = float(case['duration'])
        self.now = 1000.0
        self.channel_closed = False
        self.killed_while_restoring = False
        self.proc = None

    # virtual `time` for sshuttle.client
    def time_shim(self):
        scen = self
        import time as _time

        class T:
            def __getattr__(self, name):
                return getattr(_time, name)

            def time(self):
                return scen.now

            def monotonic(self):
                return scen.now

            def sleep(self, dt):
                scen.now += max(0.0, float(dt))
        return T()


def run_client_done_case(case):
    """case: dict(kind='client-done', method, duration, verbose).  Returns dict(problems, info)."""
    import socket
    import subprocess
    import sshuttle.client as client
    box = Sandbox()
    scen = ClientDoneScenario(box, case)
    py = PyEnv()
    for argv in FOREIGN_PRELUDE[:4]:
        py.run(argv, b'', foreign=True)
    s0 = py.show()

    class HeldRouter(Router):
        def run(self, argv, stdin=b''):
            pr = scen.proc
            if pr is not None and box.teardown_started and not pr.release.is_set():
                pr.reached_teardown.set()      # the first tear-down command: this is where the time goes
                pr.release.wait(20)
            if pr is not None and pr.killed_by is not None:
                return 0, b'', b''             # a killed process does nothing any more
            return Router.run(self, argv, stdin)

    box.router = HeldRouter(py, None)
    box.write_hosts(HOSTS0)
    helpers = box.m['helpers']

    class SubShim:
        def __getattr__(self, name):
            return getattr(subprocess, name)

        def Popen(self, argv, stdout=None, stdin=None, env=None, preexec_fn=None, **kw):
            scen.proc = HelperProc(scen, argv, stdout)
            return scen.proc

    saved = dict(sub=client.ssubprocess, time=client.time, admin=client.is_admin_user, argv0=sys.argv[0])
    problems = []
    done_exc = None
    fc = None
    try:
        client.ssubprocess = SubShim()
        client.time = scen.time_shim()
        client.is_admin_user = lambda: True
        helpers.verbose = int(case.get('verbose') or 0)
        sys.stderr = io.StringIO()
        box.use_pf(scen.method)
        box.teardown_started = False
        fc = client.FirewallClient(METHOD_MODULE[scen.method], False)
        fc.setup([(socket.AF_INET, '1.2.3.0', 24, 0, 0), (socket.AF_INET6, '2404:6800:4004:80c::', 64, 0, 0)],
                 [(socket.AF_INET, '1.2.3.66', 32, 8080, 8080)], [(socket.AF_INET, '1.2.3.33')],
                 12300, 12301, 12302, 12303, False, None, None, '0x01')
        fc.start()
        during = py.show()
        if during == s0:
            raise RuntimeError('set-up changed nothing; the case would be vacuous')
        # a normal exit of the client
        real_close = fc.pfile.close

        def closing():
            real_close()
            scen.channel_closed = True
        fc.pfile.close = closing
        try:
            fc.done()
        except helpers.Fatal as e:
            done_exc = 'Fatal: %s' % (str(e)[:80],)
        except Exception as e:  # noqa
            done_exc = '%s: %s' % (type(e).__name__, str(e)[:80])
        pr = scen.proc
        still_running = not pr.finished.is_set()
        final_at_return = py.show()
        pretty_at_return = py.pretty()
        calls = list(pr.calls)
        signalled = [c[0] for c in calls if c[0] not in ('wait', 'poll')]
        where = 'tear-down takes %gs; the client called %s; done() %s' % (
            scen.duration, ', '.join('%s(%s)' % (c[0], ', '.join(repr(x) for x in c[1:])) for c in calls) or 'nothing',
            'raised ' + done_exc if done_exc else 'returned')
        if signalled:
            problems.append(('C04:client:done-kills-helper-during-restore',
                             'a normal client exit lets the helper finish: wait() without a deadline, no kill / '
                             'terminate / signal',
                             '%s; configuration afterwards: %s' % (', '.join(signalled),
                                                                 ' || '.join(pretty_at_return) or '(builtin chains only)'),
                             where))
        elif final_at_return != s0 or still_running:
            problems.append(('C04:client:done-returns-before-rules-are-restored',
                             'configuration after done() == configuration before setup',
                             'helper %s; configuration: %s' % ('still restoring' if still_running else 'ended',
                                                               ' || '.join(pretty_at_return) or '(builtin chains only)'),
                             where))
        elif done_exc:
            problems.append(('C04:client:done-fails', 'done() returns', done_exc, where))
        info = 'method=%s duration=%gs calls=%s restored=%s%s' % (
            scen.method, scen.duration, [c[0] + (repr(c[1:]) if c[1:] else '') for c in calls],
            final_at_return == s0, (' done: ' + done_exc) if done_exc else '')
        return dict(problems=problems, info=info)
    finally:
        pr = scen.proc
        if pr is not None and not pr.finished.is_set():
            if pr.killed_by is None:
                pr.killed_by = 'cleanup'
            pr.release.set()
            try:
                if fc is not None:
                    fc.pfile.close()
            except Exception:  # noqa
                pass
            pr.finished.wait(10)
        client.ssubprocess = saved['sub']
        client.time = saved['time']
        client.is_admin_user = saved['admin']
        sys.stderr = box.stderr
        helpers.verbose = 0
        box.close()


def client_done_cases(ctx):
    """Every tear-down duration on every run; method and verbosity rotate with the seed."""
    methods = ['nat', 'tproxy', 'nft']
    seed = _VSTATE['seed']
    durs = list(CLIENT_DURATIONS)
    if ctx.thorough:
        durs = durs + [4.9, 5, 5.1, 30, 3600]
    for i, d in enumerate(durs):
        reps = methods if ctx.thorough else [methods[(i + seed) % 3]]
        for m in reps:
            yield dict(kind='client-done', method=m, duration=d, verbose=next_verbosity())


def run_client_done(ctx):
    for case in client_done_cases(ctx):
        try:
            r = run_client_done_case(case)
        except RuntimeError as e:
            ctx.notes.append('client-done case %r could not be set up: %s' % (case, e))
            ctx.hist('client-done:not-run')
            continue
        ctx.count()
        ctx.mark(('client-done', case['method'], case['duration']), True)
        ctx.hist('client-done:%gs' % case['duration'])
        ctx.hist('verbosity:%d' % case['verbose'])
        if len(ctx.samples) < 10:
            ctx.samples.append(dict(kind='client-done', real_code=r['info']))
        for key, exp, obs, note in r['problems']:
            ctx.violation(key, case=case, expected=exp, observed=obs, note=note, kind='ops')


# ------------------------------------------------------------------ pf (model unvalidated; kept modest)

PF_DIALOGUE = ['ROUTES\n', '2,24,0,1.2.3.0,0,0\n', '2,32,1,1.2.3.66,8080,8080\n', '10,64,0,2404:6800:4004:80c::,0,0\n',
               'NSLIST\n', '2,1.2.3.33\n', 'PORTS 12300,12301,12302,12303\n', 'GO 0 - - 0x01 12345\n']


def pf_oracle(case, o):
    """pf must be back in its pre-session state.  Returns [(key, expected, observed, note)].

    Fault-free runs and faults before the finally block: enabled flag, tokens, module, skip and anchor
    contents exactly as before.  A single fault in a tear-down command of a session with both families:
    the failing command's own anchor may keep its content, nothing else may differ -- the other family's
    anchor is flushed and pf is enabled/disabled (and holds the tokens) as it was before the session."""
    bad = []
    p0, p1 = o.pf0, o.py.pf
    if o.final.split(' pf{')[0] != o.s0.split(' pf{')[0]:
        bad.append(('C04:pf:netfilter-touched', o.s0.split(' pf{')[0][:300], o.final.split(' pf{')[0][:300],
                    'a pf session changed iptables/nft state'))
    core0 = dict((k, p0[k]) for k in ('en', 'tok', 'ld', 'skip', 'anch'))
    core1 = dict((k, p1[k]) for k in ('en', 'tok', 'ld', 'skip', 'anch'))
    fi = case.fault_indices()
    teardown_fault = bool(fi) and o.undo_at is not None and o.undo_at <= min(fi) < o.ncmd
    tag = 'spawn-error' if case.spawn else 'fault'
    where = 'exit=%s, commands=%d, finally began at command %s, descriptors taken from the budget: %s' % (
        o.exit, o.ncmd, o.undo_at, getattr(o, 'fd_used', 0))
    if not teardown_fault:
        if core1 != core0:
            if case.fd_budget is not None:
                key = 'C04:pf:fd-exhaustion:not-undone'
            elif fi:
                key = 'C04:pf:setup-%s:not-undone' % tag
            else:
                key = 'C04:pf:session-not-identity'
            bad.append((key, 'pf as before the session: %r' % (core0,), 'pf after the helper ended: %r' % (core1,),
                        'anchor contents / enabled state / tokens / module state differ after the session; ' + where))
    else:
        failed = o.log[min(fi)][0]
        own = None
        if failed[:2] == ['pfctl', '-a'] and failed[3:] == ['-F', 'all']:
            own = failed[2]
        flat0 = dict((k, core0[k]) for k in ('en', 'tok', 'ld', 'skip'))
        flat1 = dict((k, core1[k]) for k in ('en', 'tok', 'ld', 'skip'))
        if flat1 != flat0:
            bad.append(('C04:pf:teardown-%s:enabled-state-not-restored' % tag,
                        'pf enabled flag / tokens / module as before the session: %r' % (flat0,),
                        'after the helper ended: %r (failed command: %s)' % (flat1, ' '.join(failed)),
                        'a failing tear-down command of one family kept the helper from putting pf back; ' + where))
        left = [a[0] for a in core1['anch'] if a not in core0['anch'] and a[0] != own]
        gone = [a[0] for a in core0['anch'] if a not in core1['anch']]
        if left or gone:
            bad.append(('C04:pf:teardown-%s:other-family-not-restored' % tag,
                        'only the anchor of the failing command (%s) may keep its content' % own,
                        'anchors with content left: %r, foreign anchors lost: %r (failed command: %s)'
                        % (left, gone, ' '.join(failed)),
                        'a failing tear-down command of one family prevented the other family\'s tear-down; ' + where))
    if p1['main'] != p0['main']:
        extra = p1['main'][len(p0['main']):]
        refs_only = p1['main'][:len(p0['main'])] == p0['main'] and all(
            re.match(r'^(rdr-)?anchor "sshuttle6?-\d+" all$', l) for l in extra)
        key = 'C04:pf:anchor-references-stay' if refs_only else 'C04:pf:main-ruleset-changed'
        bad.append((key, 'main ruleset as before: %r' % (p0['main'],), 'main ruleset after: %r' % (p1['main'],),
                    'add_anchors() appends anchor references to the main ruleset and nothing removes them '
                    '(pf model unvalidated)'))
    return bad


PF_FOREIGN = [['pfctl', '-a', 'com.example/vpn', '-f', '/dev/stdin']]     # another tool's anchor (content on stdin)


def pf_cases(ctx):
    """(case, enumerate_faults)"""
    # Darwin: `pfctl -E` hands out one reference token per call (one per family), `pfctl -X <token>` releases
    # exactly that one; another tool holds a reference of its own throughout; 1, 2, 3 consecutive sessions
    for n in (1, 2, 3):
        yield Case('pf-darwin', PF_DIALOGUE, prelude=[['pfctl', '-E']], ports=[12300, 12301], sessions=n), False
    flavours = ['pf-openbsd'] + (['pf-darwin'] if ctx.thorough else [])
    for m in flavours:
        # an ordinary session with both families; pf enabled before the session; IPv4 only; then a long one:
        # many redirected connections, each answered through /dev/pf, with a budget of descriptors the helper
        # process may still open (RLIMIT_NOFILE at the OS boundary)
        yield Case(m, PF_DIALOGUE, prelude=PF_FOREIGN, ports=[12300, 12301]), m == 'pf-openbsd'
        if m != 'pf-darwin':
            # (Darwin: a pf that is enabled before the session is modelled as held by another tool's `pfctl -E`
            # reference - the cases above.  What `pfctl -X` of the last reference does to a pf that was switched on with
            # a plain `-e` is not said by the manual pages the pf fake was written from, and is not judged.)
            yield Case(m, PF_DIALOGUE, ports=[12300, 12301], pfinit=dict(en=True)), False
        yield Case(m, [l for l in PF_DIALOGUE if not l.startswith('10,')], ports=[12300, 12301]), False
        n, budget = (1100, 1000) if ctx.thorough else (60, 40)
        q = ['QUERY_PF_NAT 2,6,10.0.0.%d,%d,127.0.0.1,12301\n' % (i % 250 + 1, 40000 + i) for i in range(n)]
        yield Case(m, PF_DIALOGUE + q, ports=[12300, 12301], fd_budget=budget), False


def run_pf_case(box, case, lean):
    """One pf case: the session, then `sessions - 1` more complete sessions (each a fresh helper) on the same
    machine; the oracle looks at pf after the last one."""
    o = execute(box, case, lean)
    o.fd_used = box.fd_used
    if case.sessions > 1:
        case.full_chunks = list(case.chunks)
        for _ in range(case.sessions - 1):
            later_session(box, case, o.py)
        o.final = o.py.show()
        o.final_pretty = o.py.pretty()
    return o


def run_pf(ctx, box, lean):
    def one(case):
        o = run_pf_case(box, case, lean if case.sessions == 1 else None)
        ctx.count()
        ctx.mark((case.method, len(case.chunks), case.fd_budget, tuple(case.faults), tuple(sorted(case.spawn.items())),
                  bool(case.pfinit), case.sessions, bool(case.prelude)), o.ncmd > 0)
        fi = case.fault_indices()
        phase = 'none' if not fi else ('teardown' if o.undo_at is not None and min(fi) >= o.undo_at else 'setup')
        ctx.hist('%s:%s' % (case.method, 'fd-budget' if case.fd_budget is not None else
                            ('spawn-error-' if case.spawn else 'fault-') + phase))
        for key, exp, obs, note in pf_oracle(case, o):
            cj = case.to_json()
            if len(cj['dialogue']) > 20:
                # keep the replay file small: the query lines are regenerated from their number
                nq = len(cj['dialogue']) - len(PF_DIALOGUE)
                cj['dialogue'] = cj['dialogue'][:len(PF_DIALOGUE)]
                cj['pf_queries'] = nq
            ctx.violation(key, case=cj, expected=exp, observed=obs, note=note,
                          kind='faults' if fi else 'ops')
        return o

    for case, faults in pf_cases(ctx):
        o0 = one(case)
        if not faults:
            continue
        # both families in one session (they share _pf_context): every command of set-up and of tear-down
        # fails once -- with an exit status, and because it cannot be spawned
        for k in range(o0.ncmd):
            one(Case(case.method, case.chunks, faults=[k], prelude=case.prelude, ports=case.ports,
                     pfinit=case.pfinit))
            one(Case(case.method, case.chunks, spawn={k: ('EAGAIN', 'ENOENT')[k % 2]}, prelude=case.prelude,
                     ports=case.ports, pfinit=case.pfinit))


METHODS_QUICK = ['nat', 'tproxy', 'nft']


FLAG_NAMES = ['NAT_RESTORE_NONFATAL_MARK', 'NAT_RESTORE_NONFATAL_D_OUTPUT', 'NAT_RESTORE_NONFATAL_D_PREROUTING',
              'NAT_RESTORE_NONFATAL_F', 'NAT_RESTORE_NONFATAL_X', 'NAT_SETUP_NONFATAL_MARK',
              'TPROXY_RESTORE_NONFATAL_D', 'TPROXY_RESTORE_NONFATAL_F', 'TPROXY_RESTORE_NONFATAL_X',
              'NFT_RESTORE_NONFATAL', 'PF_LOADED_INIT', 'FW_READER_DROPS_UNFINISHED']


def tree_flags():
    """The source-derived flags of the tree under test, computed here (not read from Gen/C04.lean,
    which other check runs may rewrite at any moment)."""
    import extract_params
    import params.c04 as pc
    old = extract_params.REPO
    extract_params.REPO = common.REPO
    try:
        g = extract_params.Gen()
        pc.generate(g, extract_params)
    finally:
        extract_params.REPO = old
    vals = {}
    for l in g.lines:
        m = re.match(r'^def (\w+) : Bool := (true|false)$', l)
        if m:
            vals[m.group(1)] = m.group(2) == 'true'
    return ' '.join('%s=%d' % (n, vals.get(n, -1)) for n in FLAG_NAMES), g


def start_driver():
    """Start the driver and make sure it was built from the parameters of the tree under test; if the
    build is stale (Gen/C04.lean rewritten by a concurrent run between generation and build), rebuild."""
    want, g = tree_flags()
    for attempt in range(3):
        lean = common.LeanProc('C04')
        if lean.ask('reset')[0] != 'ok':
            raise common.DriverError('driver did not answer reset')
        got = lean.ask('flags')[0]
        if got == want:
            return lean
        lean.close()
        gen = os.path.join(common.LEAN_DIR, 'SshuttleModel', 'Gen', 'C04.lean')
        text = '\n'.join(['/- GENERATED by harness/params/c04.py from the working tree of the repository. Do not edit. -/',
                          'namespace Sshuttle.Gen.C04'] + g.lines + ['end Sshuttle.Gen.C04']) + '\n'
        with open(gen, 'w') as f:
            f.write(text)
        for ext in ('trace', 'olean.hash'):
            try:
                os.unlink(os.path.join(common.LEAN_DIR, '.lake', 'build', 'lib', 'lean', 'SshuttleModel', 'Gen', 'C04.' + ext))
            except OSError:
                pass
        common.lake_build(DRIVER_TARGETS)
    raise common.DriverError('driver parameters do not match the tree under test: built with %s, tree has %s' % (got, want))


def run(ctx):
    _VSTATE['i'] = 0
    _VSTATE['seed'] = int(getattr(ctx, 'seed', 0) or 0)
    run_signals(ctx)
    run_client_done(ctx)
    box = Sandbox()
    lean = None
    try:
        if ctx.model_available:
            try:
                lean = start_driver()
            except common.DriverError as e:
                # the model cannot be brought in line with this tree (e.g. a command the model has is
                # gone from the source): the tie is broken; keep going with the oracle alone
                ctx.model_available = False
                ctx.corr_break('C04:driver', case=None, impl='tree under test', model='driver', note=str(e)[-600:])
        if lean is None:
            ctx.notes.append('model driver unavailable: correspondence skipped, oracle on PyEnv only')
        netns_samples = []
        for method in METHODS_QUICK:
            plans = gen_plans(ctx, method)
            for i, plan in enumerate(plans):
                cases = run_plan(ctx, box, lean, plan, None if (ctx.thorough or i < 3) else 10, with_io=(i < 2))
                if ctx.thorough and i < 4 and not plan.user and not plan.group:
                    good = [(c, o) for c, o in cases if o.log and not c.prelude and not c.second]
                    netns_samples += good[:1] + ctx.rng.sample(good, min(6, len(good)))
                if i < 2 and method == 'nat':
                    c, o = cases[0]
                    ctx.sample(dict(method=method, dialogue=[x.decode() for x in c.chunks], commands=o.ncmd,
                                    finally_at=o.undo_at, exit=o.exit,
                                    real_code_commands=[' '.join(a) + (' :ok' if ok else ' :fail') for a, ok in o.log][:40]))
        run_pf(ctx, box, lean)
        if ctx.thorough and not os.environ.get('VERIF_NO_NETNS'):
            validate_env_in_netns(ctx, netns_samples)
    except Mismatch as e:
        ctx.corr_break('C04:env', case=None, impl='PyEnv', model='Lean Env', note=str(e))
    finally:
        if lean is not None:
            lean.close()
        box.close()


def search(ctx):
    run(ctx)


def validate_env_in_netns(ctx, samples):
    """Thorough tier: replay command sequences the real code issued (with the injected fault
    skipped) against the real iptables/ip6tables/nft inside `unshare -n` and compare every exit
    status with what the environment model answered.  Validates the model's natural-failure rules
    on exactly the partial states that matter; not part of any proof."""
    import shlex
    import subprocess
    if os.geteuid() != 0 or not shutil.which('unshare') or not shutil.which('iptables'):
        ctx.notes.append('netns validation skipped (needs root, unshare, iptables)')
        return
    checked = 0
    for case, o in samples:
        lines = []
        for i, (argv, ok) in enumerate(o.log):
            if i in case.fault_indices() or argv[0] == 'resolvectl':
                lines.append('echo rc=skip')
            else:
                lines.append('%s >/dev/null 2>&1; echo rc=$?' % ' '.join(shlex.quote(a) for a in argv))
        try:
            p = subprocess.run(['unshare', '-n', 'sh', '-c', '\n'.join(lines)], stdout=subprocess.PIPE,
                               stderr=subprocess.DEVNULL, timeout=120, text=True)
        except Exception as e:  # noqa
            ctx.notes.append('netns validation aborted: %r' % (e,))
            return
        rcs = [l[3:] for l in p.stdout.split('\n') if l.startswith('rc=')]
        if len(rcs) != len(o.log):
            ctx.notes.append('netns validation: unshare unusable here (%d of %d answers)' % (len(rcs), len(o.log)))
            return
        for i, ((argv, ok), rc) in enumerate(zip(o.log, rcs)):
            if rc == 'skip':
                continue
            checked += 1
            if (rc == '0') != ok:
                ctx.corr_break('C04:netns', case=dict(case.to_json(), index=i, argv=argv),
                               impl='real %s exit status %s' % (argv[0], rc), model='PyEnv/Lean Env: %s' % ('ok' if ok else 'fail'),
                               note='environment model disagrees with the real tool in a network namespace')
                return
    ctx.hist('netns-validated-commands', checked)


def replay(ctx, rep):
    if rep['case'].get('kind') == 'client-done':
        r = run_client_done_case(rep['case'])
        return bool(r['problems']), r['info'] + ''.join('; %s: %s' % (p[0], p[2]) for p in r['problems'])
    if rep['case'].get('kind') == 'signal':
        r = run_signal_case(rep['case'])
        return bool(r['problems']), r['info'] + ''.join('; %s: %s' % (p[0], p[2]) for p in r['problems'])
    if rep['case'].get('pf_queries'):
        nq = rep['case']['pf_queries']
        rep['case']['dialogue'] = list(rep['case']['dialogue']) + [
            'QUERY_PF_NAT 2,6,10.0.0.%d,%d,127.0.0.1,12301\n' % (i % 250 + 1, 40000 + i) for i in range(nq)]
    case = Case.from_json(rep['case'])
    box = Sandbox()
    try:
        if case.method.startswith('pf'):
            o = run_pf_case(box, case, None)
            bad = pf_oracle(case, o)
            known = set(k['key'] for k in common.load_known() if k.get('status') == 'known')
            bad = [b for b in bad if b[0] not in known] if rep.get('key') not in known else bad
            return bool(bad), 'exit=%s commands=%d fds=%d pf after: %r%s' % (
                o.exit, o.ncmd, o.fd_used, o.py.pf, ''.join('; %s' % b[0] for b in bad))
        plan_lines = [c for c in case.chunks]
        case.full_chunks = [c for c in plan_lines if c.endswith(b'\n') and
                            c.strip() not in (b'FROBNICATE', b'HOST nocomma', b'')]
        o = execute(box, case, None)
        if rep['case'].get('compare_with_status') is not None:
            twin = Case.from_json(dict(rep['case'], status={}))
            o1 = execute(box, twin, None)
            return o.final != o1.final, 'status %s leaves: %s; status 1 leaves: %s' % (
                sorted(case.status.values()), ' || '.join(o.final_pretty) or '(builtin chains only)',
                ' || '.join(o1.final_pretty) or '(builtin chains only)')
        bad, phase = check_oracle(ctx, box, case, o)
        info = 'exit=%s commands=%d fault-phase=%s; before: %s; after: %s' % (
            o.exit, o.ncmd, phase, ' || '.join(o.s0_pretty) or '(builtin chains only)',
            ' || '.join(o.final_pretty) or '(builtin chains only)')
        if bad:
            info += '; ' + '; '.join('%s: %s' % (b[0], b[3]) for b in bad)
        return bool(bad), info
    finally:
        box.close()
