"""C06 — flow identifiers keep concurrent flows apart.

Correspondence: the real `Mux.next_channel` on arbitrary cursor/occupancy, and histories of
opens/closes/late frames through the real `client.onaccept_tcp`, `ondns`, `onaccept_udp`,
`dns_done`, `expire_connections`, `MuxWrapper.maybe_close` and `Mux.got_packet`, against
`Code/Alloc.lean`.  Oracle: ids of live flows pairwise distinct and non-zero; a frame reaches
only the flow registered under its id; a frame for a free id reaches nobody.
"""
import io
import sys

import common

RULE = ("allocator cases = (MAX_CHANNEL, probes, cursor, occupancy set) with cursors at MAX-2..MAX, dense/sparse "
        "occupancy, exactly probes / probes-1 occupied ids after the cursor, None-valued and missing keys; history "
        "cases = random op sequences (open tcp/dns/udp, close id, frame id, clock advance of 1/29/30/31/61 s, another "
        "datagram from a source that already has a UDP association) on small MAX (wrap-around within a few "
        "ops, exhaustion) and on 65535 with the cursor preset near the top; exhaustive enumeration of all histories "
        "up to a length for MAX <= 3 (thorough); non-trivial = a wrap-around, a skip of an occupied id, an exhaustion "
        "or a late frame occurred; distinct = distinct canonical op sequence")
DRIVER_TARGETS = ['SshuttleModel.Code.Alloc', 'SshuttleModel.Code.Tunnel']
DRIVERS = ['C06', 'Tunnel']
ASSUMPTIONS = [
    "the server only sends data-type frames that are well-formed for the flow kind (UDP replies carry 'ip,port,' header)",
    "id reuse after a full cursor cycle is outside the property by its own wording (DESIGN F19)",
]
MANIFEST = dict(
    level_text=("Lean 4 theorems over a model of Mux.next_channel and of the client's channel table: the allocator returns "
                "the first free id of the cyclic probe sequence cursor+1.. (wrap MAX->1, never 0), None iff all probed ids "
                "are occupied (C06_alloc_first_free/_sound/_none/_probe_cyclic); for every history of opens of the three "
                "kinds, closes and frames the live ids are pairwise distinct and non-zero for every MAX>=1 "
                "(C06_distinct, by induction over histories); a frame for a free id is dropped and a delivered frame goes "
                "to the unique flow registered under that id (C06_late_frame_dropped, C06_frame_reaches_owner, "
                "C06_owner_unique); ids are not re-used before the cursor wraps (C06_fresh_before_wrap); with the clock and the lazy "
                "expiry sweep at the end of every accept handler in the model (Timed: dnsreqs/udp_by_src deadlines, "
                "expire_connections, refresh of an existing UDP association before the sweep), for every history the ids stay "
                "distinct, the client holds one association per id and every association it holds owns a registered id, so "
                "the allocator skips it (C06_distinct_timed), and a refreshed association survives the sweep of the same "
                "handler however long it was idle (C06_refresh_survives_sweep); with the code's own MAX_CHANNEL every allocated id is "
                "non-zero, fits the 16-bit header field and is decoded by the peer as exactly that id "
                "(C06_allocated_id_fits_the_wire, over C07's round trip). Tied to the code by "
                "a differential run through the real next_channel / onaccept_tcp / ondns / onaccept_udp / dns_done / "
                "expire_connections / got_packet with MAX_CHANNEL small and large, plus an oracle on the real tables and on what a "
                "real peer Mux decodes for every flow opened (histories at the code's own MAX_CHANNEL included)."),
    level_note=("Trusted: Lean kernel (axioms propext/Classical.choice/Quot.sound at most), the harness and its fake "
                "listener/method/socket objects. Server-side table (new_channel/udp_open asserts) is exercised by the "
                "tunnel simulator of C01/C02, not proved here; re-use across a full cursor cycle (F19) is outside."),
    technique="Lean 4 proof (induction over operation histories, characterisation of the allocator) + differential correspondence",
)


class DummyFile:
    def fileno(self):
        return 999

    def read(self, n):
        return b''

    def write(self, b):
        return len(b)


class FakeSock:
    family = 2

    def __init__(self, n):
        self.n = n
        self.closed = False

    def getsockname(self):
        return ('127.0.0.1', 12300)

    def getpeername(self):
        return ('10.9.%d.%d' % (self.n // 256 % 256, self.n % 256), 40000)

    def close(self):
        self.closed = True

    def setblocking(self, b):
        pass

    def shutdown(self, how):
        pass

    def fileno(self):
        return 2000 + self.n


class FakeListener:
    family = 2

    def __init__(self):
        self.next_sock = None

    def accept(self):
        s = self.next_sock
        return s, s.getpeername()


class FakeMethod:
    def __init__(self):
        self.next_udp = None
        self.sent = []

    def get_tcp_dstip(self, sock):
        return ('192.0.2.1', 80)

    def recv_udp(self, listener, bufsize):
        return self.next_udp

    def send_udp(self, sock, srcip, dstip, data):
        if getattr(self, 'fail_next', None) is not None:
            e, self.fail_next = self.fail_next, None
            raise e
        self.sent.append((srcip, dstip, data))


# Verbosity is a dimension of every history: which identifier a flow gets must not depend on it.  Each history takes
# the next level of this rotation (shifted by the check's seed); violations record it, replays restore it.
VERBS = [0, 0, 3, 0, 2, 0, 3, 1]
CUR = [0]
_rot = [0]


def next_verbose():
    v = VERBS[_rot[0] % len(VERBS)]
    _rot[0] += 1
    CUR[0] = v
    return v


class RealWorld:
    def __init__(self, maxch, chani, verbose=0):
        import sshuttle.ssnet as ssnet
        import sshuttle.client as client
        import sshuttle.helpers as helpers
        self.helpers = helpers
        self.saved_verbose = helpers.verbose
        helpers.verbose = verbose
        self.ssnet, self.client = ssnet, client
        ssnet.set_non_blocking_io = lambda fd: None
        self.saved_max = ssnet.MAX_CHANNEL
        ssnet.MAX_CHANNEL = maxch
        self.saved_time = client.time.time
        self.saved_mono = client.time.monotonic
        self.now = 1000
        client.time.time = lambda: self.now
        # the monotonic clock runs at the same rate from another origin (uptime, not the epoch): code that mixes the
        # two clocks compares numbers that have nothing to do with each other
        client.time.monotonic = lambda: self.now - 1000 + 77.25
        self.premature = {}    # id -> (flow, deadline, kind): dropped by the client before its deadline, unanswered
        self.reassigned = []
        client.dnsreqs.clear()
        client.udp_by_src.clear()
        self.mux = ssnet.Mux(DummyFile(), DummyFile())
        self.mux.chani = chani
        # the peer's decoder: what identifier does the other end see for what this end sends?
        self.peer = ssnet.Mux(DummyFile(), DummyFile())
        self.peer.fill = lambda: None
        self.peer_seen = []
        self.peer.got_packet = lambda ch, cmd, data: self.peer_seen.append((ch, cmd))
        self.wire_pos = len(self.mux.outbuf)
        self.handlers = []
        self.listener = FakeListener()
        self.method = FakeMethod()
        self.flows = {}       # flow number -> dict(kind, chan, open, obj/src)
        self.nflow = 0
        self.nsock = 0

    def restore(self):
        self.ssnet.MAX_CHANNEL = self.saved_max
        self.helpers.verbose = self.saved_verbose
        self.client.time.time = self.saved_time
        self.client.time.monotonic = self.saved_mono
        self.client.dnsreqs.clear()
        self.client.udp_by_src.clear()

    def table(self):
        ids = sorted(k for k, v in self.mux.channels.items() if v)
        return 'chani=%d ids=%s held=%s' % (self.mux.chani, ','.join(str(i) for i in ids),
                                            ','.join(str(i) for i in self.held()))

    def wire(self):
        """Feed what this end queued since the last call to the peer's real decoder; returns [(id, cmd)] as seen there."""
        new = self.mux.outbuf[self.wire_pos:]
        self.wire_pos = len(self.mux.outbuf)
        self.peer_seen = []
        self.peer.inbuf += b''.join(new)
        self.peer.handle()
        return list(self.peer_seen)

    def held(self):
        """ids of the DNS requests and UDP associations the client still holds (and will send on)"""
        c = self.client
        return sorted(list(c.dnsreqs) + [chan for (chan, _t) in c.udp_by_src.values()])

    def sync(self):
        """flows the client no longer holds (lazy expiry swept them) are closed: read off the real tables"""
        c = self.client
        for n, f in self.flows.items():
            if not f['open']:
                continue
            gone = False
            if f['kind'] == 'dns' and f['chan'] not in c.dnsreqs:
                gone = True
            elif f['kind'] == 'udp' and c.udp_by_src.get(f['src'], (None, 0))[0] != f['chan']:
                gone = True
            if gone:
                f['open'] = False
                if self.now <= f['deadline']:
                    # not answered, not closed, its 30 s not over: the server still has this flow open on the id
                    self.premature[f['chan']] = (n, f['deadline'], f['kind'])

    def again(self, chan):
        """a datagram from the source whose UDP association has this id"""
        c = self.client
        own = [f for f in self.flows.values() if f['open'] and f['kind'] == 'udp' and f['chan'] == chan]
        if not own or own[0]['src'] not in c.udp_by_src:
            return 'nosuch'
        n0 = len(self.mux.outbuf)
        self.method.next_udp = (own[0]['src'], ('192.0.2.9', 9), b'more')
        c.onaccept_udp(self.listener, self.method, self.mux, self.handlers)
        own[0]['deadline'] = self.now + 30
        import struct
        sent = [struct.unpack('!ccHHH', p[:8])[2:4] for p in self.mux.outbuf[n0:]]
        data = [ch for (ch, cmd) in sent if cmd == self.ssnet.CMD_UDP_DATA]
        self.sync()
        return 'sent %s' % ','.join(str(x) for x in data)

    def live(self):
        return [f for f in self.flows.values() if f['open']]

    def src_of(self, flow):
        """The source address of a flow, in the shapes the operating system returns: IPv4 (host, port) pairs, and
        IPv6 (host, port, flowinfo, scope_id) 4-tuples — among them link-local senders that share host AND port and
        differ only in the interface (scope id): different sources, whatever a shortened key makes of them."""
        k = flow % 4
        if k == 2:
            return ('fe80::1', 5353, 0, 2 + flow)
        if k == 3:
            return ('2001:db8::%x' % (flow + 1), 5000 + flow % 1000, 0, 0)
        return ('10.1.%d.%d' % (flow // 256 % 256, flow % 256), 5000 + flow % 1000)

    def open(self, kind):
        c = self.client
        flow = self.nflow
        if kind == 'tcp':
            self.nsock += 1
            s = FakeSock(self.nsock)
            self.listener.next_sock = s
            n0 = len(self.handlers)
            c.onaccept_tcp(self.listener, self.method, self.mux, self.handlers)
            if len(self.handlers) == n0:
                return 'discarded' if s.closed else 'discarded-not-closed'
            p = self.handlers[-1]
            chan = p.wrap2.channel
            self.flows[flow] = dict(kind='tcp', chan=chan, open=True, wrap=p.wrap2, proxy=p, deadline=None)
        elif kind == 'dns':
            before = set(c.dnsreqs)
            self.method.next_udp = (self.src_of(flow), ('192.0.2.53', 53), b'q%d' % flow)
            c.ondns(self.listener, self.method, self.mux, self.handlers)
            new = set(c.dnsreqs) - before
            if not new:
                return 'discarded'
            chan = new.pop()
            self.flows[flow] = dict(kind='dns', chan=chan, open=True, src=self.src_of(flow), deadline=self.now + 30)
        else:
            before = set(c.udp_by_src)
            self.method.next_udp = (self.src_of(flow), ('192.0.2.9', 9), b'u%d' % flow)
            c.onaccept_udp(self.listener, self.method, self.mux, self.handlers)
            new = set(c.udp_by_src) - before
            if not new:
                return 'discarded'
            chan = c.udp_by_src[new.pop()][0]
            self.flows[flow] = dict(kind='udp', chan=chan, open=True, src=self.src_of(flow), deadline=self.now + 30)
        self.nflow += 1
        # the accept handlers end with expire_connections(now): overdue DNS/UDP flows are swept (the model predicts
        # which; the harness only reads the outcome off the real tables)
        self.sync()
        pm = self.premature.get(chan)
        if pm and pm[0] != flow and self.now <= pm[1]:
            self.reassigned.append('id %d handed to the new %s flow at t=%d while the %s flow %d (unanswered, not closed, '
                                   'deadline t=%d) still owns it at the server'
                                   % (chan, kind, self.now, pm[2], pm[0], pm[1]))
        return 'opened %s %d' % (chan, flow)

    def find_open(self, chan):
        return [(n, f) for n, f in self.flows.items() if f['open'] and f['chan'] == chan]

    def close(self, chan):
        c = self.client
        for n, f in self.find_open(chan):
            if f['kind'] == 'tcp':
                f['wrap'].setnoread()
                f['wrap'].setnowrite()
            elif f['kind'] == 'dns':
                c.dnsreqs[chan] = 0
                c.expire_connections(1.0, self.mux)
            else:
                c.udp_by_src[f['src']] = (chan, 0)
                c.expire_connections(1.0, self.mux)
            f['open'] = False
        return 'closed'

    def frame(self, chan, fail=False):
        """fail: the local delivery of this reply fails (the transparent sender cannot bind: EADDRINUSE)"""
        ss = self.ssnet
        import errno as _errno
        self.method.fail_next = OSError(_errno.EADDRINUSE, 'scripted: Address already in use') if fail else None
        owners = self.find_open(chan)
        kind = owners[0][1]['kind'] if owners else ['tcp', 'dns', 'udp'][chan % 3]
        sent0 = len(self.method.sent)
        bufs0 = {n: len(f['wrap'].buf) for n, f in self.flows.items() if f['kind'] == 'tcp'}
        if kind == 'tcp':
            self.mux.got_packet(chan, ss.CMD_TCP_DATA, b'data')
        elif kind == 'dns':
            self.mux.got_packet(chan, ss.CMD_DNS_RESPONSE, b'answer')
        else:
            self.mux.got_packet(chan, ss.CMD_UDP_DATA, b'198.51.100.7,77,reply')
        got = []
        for n, f in self.flows.items():
            if f['kind'] == 'tcp' and len(f['wrap'].buf) != bufs0[n]:
                got.append(('tcp', n))
        for (srcip, dstip, data) in self.method.sent[sent0:]:
            for n, f in self.flows.items():
                if f['kind'] != 'tcp' and f['src'] == dstip:
                    got.append((f['kind'], n))
        self.method.fail_next = None
        if fail:
            for n, f in owners:
                if f['kind'] == 'dns':
                    f['open'] = False        # the query's state is released before the send
        for k, n in got:
            if k == 'dns':
                self.flows[n]['open'] = False
        if not got:
            return 'dropped', got, owners
        return ' '.join('delivered %s %d' % g for g in got), got, owners


def alloc_case(ssnet, maxch, probes_unused, chani, occ, nonevals, rng):
    saved = ssnet.MAX_CHANNEL
    ssnet.MAX_CHANNEL = maxch
    try:
        mux = ssnet.Mux(DummyFile(), DummyFile())
        mux.chani = chani
        for c in occ:
            mux.channels[c] = lambda cmd, data: None
        for c in nonevals:
            mux.channels[c] = None
        r = mux.next_channel()
        out = ('some %d %d' % (r, mux.chani)) if r is not None else ('none %d' % mux.chani)
        return out, r, mux.chani
    finally:
        ssnet.MAX_CHANNEL = saved


def run(ctx):
    import tunnel_gen as tg
    # identifier reuse vs the lifetime of the finished flow's handler objects (real Mux/Proxy classes)
    t_in, t_out = [], []
    for maxchan in (1, 2):
        a, b = tg.reap_after_reuse(ctx, ctx.rng, 'C06', maxchan)
        t_in.append(a)
        t_out.append(b)
        ctx.count()
        ctx.mark(('reap-after-reuse', maxchan), True)
        ctx.hist('directed:reap-after-reuse')
    a, b = tg.closed_app_streaming_dst(ctx, ctx.rng, 'C06')
    t_in.append(a)
    t_out.append(b)
    ctx.count()
    ctx.mark(('closed-app-streaming-dst',), True)
    ctx.hist('directed:closed-app-streaming-dst')
    for which in ('dst', 'app'):
        a, b = tg.reader_closed_keeps_sending(ctx, ctx.rng, 'C06', which)
        t_in.append(a)
        t_out.append(b)
        ctx.count()
        ctx.mark(('reader-closed-keeps-sending', which), True)
        ctx.hist('directed:reader-closed-keeps-sending')
    # a flow aborted by its application while the server's frames for it are in flight, then a new connection: the
    # released id is not the next one handed out (the cursor only moves forward), nothing of the old flow reaches the new
    for chunks in (2, 4):
        a, b = tg.abort_then_new_flow(ctx, ctx.rng, 'C06', chunks)
        t_in.append(a)
        t_out.append(b)
        ctx.count()
        ctx.mark(('abort-then-new-flow', chunks), True)
        ctx.hist('directed:abort-then-new-flow')
    tg.compare(ctx, t_in, t_out, 'C06')
    import sshuttle.ssnet as ssnet
    import sshuttle.helpers as helpers
    helpers.verbose = 0
    _rot[0] = int(ctx.seed) % len(VERBS)
    rng = ctx.rng
    ins, outs, meta = [], [], []
    probes = None
    old_stderr = sys.stderr
    sys.stderr = io.StringIO()
    try:
        # ---- pure allocator
        import inspect
        import re
        m = re.search(r'range\((\d+)\)', inspect.getsource(ssnet.Mux.next_channel))
        probes = int(m.group(1)) if m else 1024
        cases = []
        for maxch in [1, 2, 3, 5, 1024, 1025, 65535]:
            for chani in sorted({0, 1, max(0, maxch - 2), maxch - 1, maxch}):
                seq = [((chani + i) % maxch) + 1 for i in range(probes + 3)]
                cases.append((maxch, chani, [], []))
                cases.append((maxch, chani, seq[:1], []))
                cases.append((maxch, chani, seq[:3], [seq[3]] if len(seq) > 3 else []))
                cases.append((maxch, chani, seq[:probes - 1], []))
                cases.append((maxch, chani, seq[:probes], []))
                cases.append((maxch, chani, seq[:probes + 1], []))
        for _ in range(ctx.scale(300, 5000)):
            maxch = rng.choice([1, 2, 3, 4, 7, 50, 2000, 65535])
            chani = rng.choice([0, rng.randrange(0, maxch + 1), maxch, maxch - 1])
            dens = rng.random()
            span = min(maxch, probes + 50)
            occ = [((chani + i) % maxch) + 1 for i in range(span) if rng.random() < dens]
            nonev = [((chani + i) % maxch) + 1 for i in range(5) if rng.random() < 0.2]
            occ = [c for c in occ if c not in nonev]
            cases.append((maxch, max(chani, 0), occ, nonev))
        for (maxch, chani, occ, nonev) in cases:
            nonev = [c for c in nonev if c not in occ]
            out, r, ch2 = alloc_case(ssnet, maxch, probes, chani, occ, nonev, rng)
            ins.append('new %d %d' % (maxch, probes))
            outs.append('ok')
            meta.append(None)
            ins.append('next %d %s' % (chani, ' '.join(str(c) for c in sorted(set(occ)))))
            outs.append(out)
            meta.append(('alloc', (maxch, chani, sorted(set(occ)))))
            ctx.count()
            nontriv = (r is None) or (occ and r != chani + 1)
            ctx.mark(('alloc', maxch, chani, tuple(sorted(set(occ)))), nontriv)
            ctx.hist('alloc:none' if r is None else ('alloc:wrap' if r <= chani else 'alloc:plain'))
            # oracle: result is free, in range, non-zero
            if r is not None and (r == 0 or r > maxch or r in occ):
                ctx.violation('C06:alloc:returned-bad-id', case=dict(kind='alloc', max=maxch, chani=chani, occ=sorted(set(occ))),
                              expected='a free id in 1..MAX', observed=r)
        ctx.sample(dict(kind='alloc', input=ins[-1], real_code_output=outs[-1]))

        # ---- histories
        default_max = ssnet.MAX_CHANNEL

        def history(maxch, chani, ops, tag):
            w = RealWorld(maxch, chani, next_verbose())
            lines_in = ['new %d %d %d %d' % (maxch, probes, chani, 1000)]
            lines_out = ['ok']
            nontriv = False
            rops = []
            try:
                for op in ops:
                    kind, arg = op
                    if kind == 'tick':
                        w.now += int(arg)
                        rops.append('tick %d' % int(arg))
                        lines_in.append('tick %d' % int(arg))
                        lines_out.append('ticked')
                        continue
                    try:
                        if kind == 'again':
                            udp = [f['chan'] for f in w.live() if f['kind'] == 'udp']
                            if not udp:
                                continue
                            ch = udp[arg % len(udp)]
                            o = w.again(ch)
                            li = 'again %d' % ch
                            nontriv = True
                            ctx.hist('op:again')
                        elif kind == 'open':
                            w.wire()
                            o = w.open(arg)
                            li = 'open %s' % arg
                            if w.reassigned:
                                ctx.violation('C06:timed:id-reassigned-before-the-owning-flow-ended',
                                              case=dict(kind='history', verbose=CUR[0], max=maxch, chani=chani, ops=rops + [li]),
                                              expected='a DNS query / UDP association keeps its id until it is answered, '
                                                       'closed or 30 s idle', observed=w.reassigned[0], kind='history')
                                w.reassigned = []
                            if o.startswith('opened'):
                                want_id = int(o.split()[1])
                                seen = w.wire()
                                opens = [ch for (ch, cmd) in seen if cmd in (w.ssnet.CMD_TCP_CONNECT, w.ssnet.CMD_DNS_REQ,
                                                                            w.ssnet.CMD_UDP_OPEN)]
                                if opens != [want_id] or any(ch == 0 for (ch, _c) in seen):
                                    ctx.violation('C06:wire:peer-sees-another-id-than-the-flow-owns',
                                                  case=dict(kind='history', verbose=CUR[0], max=maxch, chani=chani, ops=rops + [li]),
                                                  expected='the open message arrives with id %d; no stream frame carries the control id 0' % want_id,
                                                  observed='peer decoded %r' % (seen,), kind='history')
                            if o.startswith('discarded'):
                                nontriv = True
                                # the whole id space was probed (MAX <= probes): refusing is right only if it is full
                                if maxch <= probes and len(w.live()) < maxch:
                                    ctx.violation('C06:open:refused-although-an-id-is-free',
                                                  case=dict(kind='history', verbose=CUR[0], max=maxch, chani=chani, ops=rops + [li]),
                                                  expected='a free id (only %d of %d in use)' % (len(w.live()), maxch),
                                                  observed='arrival discarded', kind='history')
                        elif kind == 'close':
                            o = w.close(arg)
                            li = 'close %d' % arg
                        elif kind == 'fframe':
                            # a reply whose local delivery fails.  The code lets the error end the client process
                            # (C08's business); whatever a tree does instead, an id is not taken from a flow that
                            # is still held — the oracles below judge the tables as they are afterwards
                            own = w.find_open(arg)
                            if not own or own[0][1]['kind'] == 'tcp':
                                continue
                            try:
                                w.frame(arg, fail=True)
                            except OSError:
                                ctx.hist('op:failed-delivery-ends-the-process')
                                break
                            ctx.hist('op:failed-delivery-handled')
                            # handled: for the tables this is the frame reaching its owner (a DNS query is answered and
                            # released, a UDP association stays) - which is what the model's `frame` does
                            li = 'frame %d' % arg
                            rli = 'fframe %d' % arg
                            o = ' '.join('delivered %s %d' % (f['kind'], n) for n, f in own)
                            nontriv = True
                        else:
                            o, got, owners = w.frame(arg)
                            li = 'frame %d' % arg
                            if not got:
                                nontriv = True
                            # oracle: delivered only to the flow registered under this id
                            want = [(f['kind'], n) for n, f in owners]
                            if sorted(got) != sorted(want):
                                ctx.violation('C06:frame:reached-wrong-flow',
                                              case=dict(kind='history', verbose=CUR[0], max=maxch, chani=chani, ops=rops + [li]),
                                              expected='delivered to %r only' % (want,), observed=got, kind='history')
                    except Exception as e:  # noqa
                        ctx.violation('C06:%s:exception-%s' % (kind if kind != 'open' else 'open-' + arg, type(e).__name__),
                                      case=dict(kind='history', verbose=CUR[0], max=maxch, chani=chani, ops=rops + ['%s %s' % (kind, arg)]),
                                      expected='arrival handled (flow opened or discarded)', observed=repr(e), kind='history')
                        lines_in.append('%s %s' % (kind, arg))
                        lines_out.append('exception %s' % type(e).__name__)
                        break
                    rops.append(rli if kind == 'fframe' else li)
                    lines_in.append(li)
                    lines_out.append(o)
                    lines_in.append('table')
                    lines_out.append(w.table())
                    # oracle: every association the client holds (and will send on) owns a registered id
                    lost = [i for i in w.held() if not w.mux.channels.get(i)]
                    if lost:
                        ctx.violation('C06:history:held-association-has-no-registered-id',
                                      case=dict(kind='history', verbose=CUR[0], max=maxch, chani=chani, ops=list(rops)),
                                      expected='every id in dnsreqs / udp_by_src registered in mux.channels (so that '
                                               'next_channel skips it)', observed='unregistered: %r' % lost, kind='history')
                        break
                    # oracle: distinct non-zero ids
                    ids = [f['chan'] for f in w.live()]
                    if len(set(ids)) != len(ids) or any((not i) for i in ids):
                        ctx.violation('C06:history:ids-not-distinct',
                                      case=dict(kind='history', verbose=CUR[0], max=maxch, chani=chani, ops=list(rops)),
                                      expected='pairwise distinct non-zero ids', observed=ids, kind='history')
                        break
                    if w.mux.chani == 1 and len(lines_in) > 2:
                        nontriv = True
            finally:
                w.restore()
            ins.extend(lines_in)
            outs.extend(lines_out)
            meta.extend([('hist', lines_in)] * len(lines_in))
            ctx.count()
            ctx.mark(tuple(lines_in), nontriv)
            ctx.hist('history:' + tag)
            return lines_in, lines_out

        def ops_upto(lines_in, last):
            return lines_in[1:] + [last]

        def rand_ops(maxch, n):
            ops = []
            for _ in range(n):
                r = rng.random()
                if r < 0.10:
                    ops.append(('tick', rng.choice([1, 29, 30, 31, 61])))
                elif r < 0.18:
                    ops.append(('again', rng.randrange(0, 4)))
                elif r < 0.23:
                    ops.append(('fframe', rng.randrange(0, min(maxch, 12) + 2)))
                elif r < 0.5:
                    ops.append(('open', rng.choice(['tcp', 'dns', 'udp'])))
                elif r < 0.75:
                    ops.append(('close', rng.randrange(0, min(maxch, 12) + 2)))
                else:
                    ops.append(('frame', rng.randrange(0, min(maxch, 12) + 2)))
            return ops

        for _ in range(ctx.scale(120, 2500)):
            maxch = rng.choice([1, 2, 3, 4, 6, 9])
            li, lo = history(maxch, rng.randrange(0, maxch + 1), rand_ops(maxch, rng.randrange(3, 30)), 'small')
        ctx.sample(dict(kind='history', input=li[:10], real_code_output=lo[:10]))
        for _ in range(ctx.scale(20, 200)):
            ops = []
            base = rng.choice([65533, 65534, 65535, 65530])
            for _i in range(rng.randrange(3, 14)):
                r = rng.random()
                if r < 0.6:
                    ops.append(('open', rng.choice(['tcp', 'dns', 'udp'])))
                elif r < 0.8:
                    ops.append(('close', rng.choice([65534, 65535, 1, 2, 3])))
                else:
                    ops.append(('frame', rng.choice([65534, 65535, 0, 1, 2, 3])))
            history(65535, base, ops, 'top-of-range')
        # exhaustion on the default MAX: occupy `probes` ids after the cursor, then one arrival of each kind
        for kind in ['tcp', 'dns', 'udp']:
            w_ops = [('open', 'tcp')] * 3 + [('open', kind)]
            history(3, 0, w_ops, 'exhaust-' + kind)
        # the code's own MAX_CHANNEL, cursor just below it: the last ids of the space and the wrap, through the wire
        for kinds in (['tcp', 'dns', 'udp', 'tcp', 'tcp'], ['udp', 'udp', 'tcp', 'dns', 'tcp']):
            history(default_max, max(default_max - 3, 0), [('open', k) for k in kinds] + [('frame', default_max), ('frame', 1)],
                    'default-max-wrap')
        # a source silent for longer than the expiry time sends again, then the cursor wraps onto its id
        for gap in (29, 30, 31, 61):
            history(2, 0, [('open', 'udp'), ('open', 'dns'), ('tick', gap), ('again', 0), ('open', 'tcp'), ('open', 'tcp'),
                           ('frame', 1), ('frame', 2)], 'refresh-after-idle')
        # a reply that cannot be delivered locally, the association still in use, then the cursor comes round
        for first in ('udp', 'dns'):
            history(2, 0, [('open', first), ('fframe', 1), ('again', 0), ('open', 'tcp'), ('open', 'dns'), ('frame', 1), ('frame', 2)],
                    'failed-delivery-then-wrap')
        # an accept of another kind between a question and its answer, then the cursor comes round
        for first in ('dns', 'udp'):
            for gap in (0, 4, 29):
                history(2, 0, [('open', first), ('tick', gap), ('open', 'tcp'), ('close', 2), ('open', 'udp'), ('open', 'dns'),
                               ('frame', 1), ('frame', 2)], 'accept-between-question-and-answer')
        if ctx.thorough:
            # all histories up to length 5 over MAX=2 (small-scope cross-check, not the proof)
            alphabet = [('open', 'tcp'), ('open', 'dns'), ('open', 'udp'), ('close', 1), ('close', 2),
                        ('frame', 1), ('frame', 2), ('frame', 0)]
            import itertools
            for n in range(1, 5):
                for ops in itertools.product(alphabet, repeat=n):
                    history(2, 0, list(ops), 'exhaustive')
    finally:
        sys.stderr = old_stderr

    if not ctx.model_available:
        ctx.notes.append('model driver unavailable: oracle only')
        return
    mo = common.LeanBatch('C06').run(ins)
    if len(mo) != len(ins):
        ctx.corr_break('C06', case=None, impl='%d lines' % len(ins), model='%d lines' % len(mo))
        return
    for i, (a, b) in enumerate(zip(outs, mo)):
        if a != b:
            ctx.corr_break('C06', case=meta[i] if meta[i] else ins[max(0, i - 3):i + 1], impl=a, model=b,
                           note='input line: ' + ins[i])
            if len(ctx.corr_breaks) > 10:
                break


def replay(ctx, rep):
    if isinstance(rep.get('case'), dict) and 'script' in rep['case']:
        import tunnel_gen as tg
        c2 = type(ctx)(ctx.prop_id, 'quick', 0)
        with tg.pinned(rep['case'].get('cfg')):
            for maxchan in (1, 2):
                tg.reap_after_reuse(c2, c2.rng, 'C06', maxchan)
            tg.closed_app_streaming_dst(c2, c2.rng, 'C06')
            for which in ('dst', 'app'):
                tg.reader_closed_keeps_sending(c2, c2.rng, 'C06', which)
            for chunks in (2, 4):
                tg.abort_then_new_flow(c2, c2.rng, 'C06', chunks)
        hit = [v for v in c2.violations if v['key'] == rep.get('key')]
        return bool(hit), (str(hit[0]['observed']) if hit else 'the new flow keeps its identifier and its bytes')
    import sshuttle.ssnet as ssnet
    case = rep['case']
    old_stderr = sys.stderr
    sys.stderr = io.StringIO()
    try:
        if case['kind'] == 'alloc':
            out, r, ch = alloc_case(ssnet, case['max'], None, case['chani'], case['occ'], [], None)
            bad = r is not None and (r == 0 or r > case['max'] or r in case['occ'])
            return bad, out
        w = RealWorld(case['max'], case['chani'], case.get('verbose', 0))
        try:
            for line in case['ops']:
                if line == 'table':
                    continue
                k, a = line.split()
                if k == 'tick':
                    w.now += int(float(a))
                    continue
                try:
                    if k == 'again':
                        w.again(int(a))
                    elif k == 'open':
                        w.wire()
                        o = w.open(a)
                        if w.reassigned:
                            return True, w.reassigned[0]
                        if o.startswith('opened'):
                            want_id = int(o.split()[1])
                            seen = w.wire()
                            opens = [ch for (ch, cmd) in seen if cmd in (w.ssnet.CMD_TCP_CONNECT, w.ssnet.CMD_DNS_REQ,
                                                                        w.ssnet.CMD_UDP_OPEN)]
                            if opens != [want_id] or any(ch == 0 for (ch, _c) in seen):
                                return True, 'flow opened on id %d, the peer decoded %r' % (want_id, seen)
                        if o.startswith('discarded') and case['max'] <= 1024 and len(w.live()) < case['max']:
                            return True, 'arrival %r discarded with only %d of %d ids in use' % (line, len(w.live()), case['max'])
                    elif k == 'close':
                        w.close(int(a))
                    elif k == 'fframe':
                        try:
                            w.frame(int(a), fail=True)
                        except OSError:
                            return False, 'the failed delivery ends the client process (not an identifier matter)'
                    else:
                        o, got, owners = w.frame(int(a))
                        want = [(f['kind'], n) for n, f in owners]
                        if sorted(got) != sorted(want):
                            return True, 'frame %s reached %r, registered owner %r' % (a, got, want)
                except Exception as e:  # noqa
                    return True, 'real code raised %r at %r' % (e, line)
                ids = [f['chan'] for f in w.live()]
                if len(set(ids)) != len(ids) or any((not i) for i in ids):
                    return True, 'ids %r' % ids
                lost = [i for i in w.held() if not w.mux.channels.get(i)]
                if lost:
                    return True, 'after %r the client holds associations on unregistered ids %r' % (line, lost)

            return False, 'history ran; ids %r' % [f['chan'] for f in w.live()]
        finally:
            w.restore()
    finally:
        sys.stderr = old_stderr
