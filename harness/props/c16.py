"""C16 — subnet, listen and remote arguments mean what the manual says.

Correspondence: the real `options.parse_subnetport` / `parse_ipport` / `parser.parse_args` /
`ssh.parse_hostport` / `cmdline.main` (client.main stubbed, name resolution replaced by a fake
table — numeric hosts still go through the real idna codec and the real glibc getaddrinfo)
against `Code/Args.lean`; the real `re`, `socket.getaddrinfo(AI_NUMERICHOST)`, `inet_aton`,
`inet_pton/ntop`, `ipaddress`, `int()` against the hand-written parsers / `Code/InetAton.lean`.
Oracle (independent of the model): every generated documented spelling must come back as the
address it was generated from (compared through Python's `ipaddress`), with the given or
maximal width and the given ports; no subnet string may end in anything but ok / usage error;
user/password/host/port and listen forms decompose into what they were built from; a store
option on the command line beats the same option in SSHUTTLE_ARGS.
"""
import io
import ipaddress
import os
import re
import shlex
import socket
import sys
import time as real_time

import common

RULE = ("cases = (a) documented spellings of boundary and random IPv4 addresses (1-4 parts, each part decimal / "
        "0-octal / 0x-hex / fullwidth digits) and IPv6 addresses (full, every legal '::' position, upper/lower "
        "case, leading zeros, embedded IPv4 tail; bare, /w, [..]:port, [../w]:port), crossed with widths "
        "0..max/none and port / range / none; (b) near-miss mutations of those (dropped / doubled / inserted "
        "character, swapped or unbalanced brackets, extra colons, trailing newline, digits of other scripts, "
        "5-part quads, 256, widths -1/33/129/huge, 4300/4301-digit numbers); (c) printable garbage over an "
        "alphabet biased to the syntax characters; (d) host names answered by a fake resolver table; "
        "(e) --listen / --to-ns forms, (f) [user[:password]@]host[:port] built from parts: every one of "
        "/ ? # [ ] % @ : space ; & = + \\ ~ ! $ , at the start, middle and end of the user name and of the password "
        "(exhaustive) and random mixtures of them, crossed with name / dotted quad / bare and bracketed IPv6 hosts "
        "and ports; (g) every store-type option given in SSHUTTLE_ARGS, on the command line (once or twice), or both, through "
        "the real cmdline.main with client.main replaced by a recorder; (h) -l/--listen occurrences naming one or both "
        "address families in the environment and/or repeatedly on the command line, expected listeners = those of the "
        "last occurrence alone; (i) subnet files for -s and -X: lines sharing address and width but differing in port / "
        "range, comments, blank and indented lines, exact duplicates, expected includes/excludes at "
        "client.main = every listed line with its own ports; and the rejection classes of the command line (width out of "
        "range for IPv4 / IPv6 / bracketed, unparsable text, unresolvable host) as 1-3 lines of a file in first / middle / "
        "last position with and without comments and blank lines around, through parse_subnetport_file, the parser "
        "(-s / -X) and cmdline.main: the file must be rejected with the documented error; plus library "
        "streams (regex engine, glibc numeric getaddrinfo, inet_aton/pton/ntop, ipaddress, int()). Verbosity is a "
        "dimension of every case: the level comes from the rotation [0,0,3,0,2,0,3,1] shifted by the seed, is put on "
        "the real command line as -v/-vv/-vvv/--verbose (argv front or end, SSHUTTLE_ARGS, or split between both) for "
        "cases through cmdline.main and set in helpers.verbose around direct calls; the oracle does not change. So is the "
        "resolver environment: a rotation (period 7) of how the fake resolver fails for an unknown name (EAI_NONAME, "
        "EAI_AGAIN, EAI_FAIL, EAI_NODATA) and how many virtual seconds that takes (0 .. 30 s on a fake clock that "
        "replaces time.time/monotonic/sleep in the modules under test); texts with unknown host names run under "
        "every environment and must end in the documented rejection. A case is "
        "non-trivial when it reached getaddrinfo, or was rejected by a specific check, or decomposed a "
        "multi-part specification; distinct = distinct input string per stream")
MANIFEST = dict(
    level_text=("Machine-checked Lean 4 theorems over a statement-by-statement model of parse_subnetport (both regular "
                "expressions as deterministic parsers including the one back-tracking case, Unicode \\d/\\w tables "
                "generated from CPython, int() with its digit limit, width and family rules), parse_subnetport_file, "
                "parse_ipport, parse_hostport (rsplit/split, the ipaddress module, urlparse) and the SSHUTTLE_ARGS+argv "
                "concatenation with argparse's last-store-wins, on top of a library model of glibc's numeric getaddrinfo "
                "(inet_aton 1-4 part forms, inet_pton, inet_ntop). Full theorems (no _partial left): every IPv4 spelling "
                "(1-4 parts, decimal/octal/hex) of every address with every width<=32 and port/range parses to that address "
                "(C16_v4_spellings); every textual IPv6 form - '::' at any position, leading zeros, either case, embedded "
                "IPv4 tail, bare or bracketed, /width, :port, :port-port - is read by inet_pton as the address it denotes, "
                "by induction over the group list (C16_v6_pton), and parse_subnetport / parse_ipport return exactly that "
                "address, width and ports (C16_v6_spellings, C16_ipport_v6, C16_ipport); widths above the family maximum "
                "are usage errors; for every string the argparse layer ends in ok or a usage error (C16_reject_class_total); "
                "parse_hostport round trip for every (user, password, host, port) with host a name, dotted quad or any "
                "IPv6 spelling bare or bracketed, passwords containing ':' and '@', absent parts (C16_hostport_roundtrip, "
                "C16_hostport_userinfo), with the ambiguous texts named (C16_hostport_outside); every line of a subnet file "
                "keeps its own ports; command line overrides environment, --listen replaced not merged. The model is tied "
                "to the code on every run by a differential run of the real functions and an oracle built on Python's "
                "ipaddress module and on the manual's meaning."),
    level_note=("Trusted: Lean kernel; axioms propext/Classical.choice/Quot.sound only; the correspondence harness; "
                "the glibc/CPython library models (inet_aton/pton/ntop, ipaddress, urlsplit, idna fast path: validated by "
                "their own streams, not verified); name resolution and the non-ASCII idna branch are oracle parameters; "
                "the regex engine is validated against, not derived from. shlex.split of SSHUTTLE_ARGS and argparse's "
                "option recognition are outside. The model follows the repaired IPv6 expression (class [\\w:.]); the "
                "pre-fix code rejects embedded-IPv4 literals (finding F15, C16_v6_embedded_orig_false). Not covered by a "
                "general theorem (instances and correspondence only): the undocumented unbracketed 'addr:port-port' form "
                "that needs regex back-tracking; IPv4 spellings in full-width digits (they depend on the idna oracle); "
                "'%zone' suffixes (zone handling is not modelled); non-ASCII host parts in parse_hostport's urlparse "
                "branch. Outside the hostport round trip because the text is ambiguous: unbracketed IPv6 followed by "
                "':port', ':' in the user name, a name written with a port that reads as a dotted quad or is not lower "
                "case (it comes back canonicalised / lower-cased). parse_subnetport_file is modelled for ASCII white "
                "space and \\n line ends; what cmdline.main finally hands to client.main (includes, excludes, "
                "listeners) is decided by the oracle on the real code, built from the manual's meaning."),
    technique="Lean 4 proof (parser round trips by induction over digit/group lists for all addresses, widths, ports, users, passwords; case analysis over all strings) + differential correspondence with the real parsers + ipaddress oracle",
)
DRIVER_TARGETS = ['SshuttleModel.Code.Args', 'SshuttleModel.Code.InetAton']
ASSUMPTIONS = [
    "glibc's getaddrinfo on a numeric host behaves as modelled in Code/InetAton.lean (validated on every run "
    "against the real socket.getaddrinfo(AI_NUMERICHOST), inet_aton, inet_pton, inet_ntop)",
    "name resolution (DNS, /etc/hosts) and the idna codec on non-ASCII hosts are oracle parameters of the model; "
    "the harness answers names from a fixed fake table",
    "strings are sequences of Unicode scalar values (no lone surrogates); parse_hostport's urlparse branch is "
    "modelled for ASCII host parts only",
    "shlex.split of SSHUTTLE_ARGS and argparse's recognition of option strings are library behaviour outside the model; "
    "the model starts from the list of (option, value) occurrences; the argparse layer is exercised as --exclude=<text> / "
    "--to-ns=<text> (the bare token `--`, which argparse consumes itself, is not generated)",
]
TRUSTED_EXTRA = [
    "Code/InetAton.lean: model of glibc 2.36 inet_aton_exact / inet_pton / inet_ntop / numeric service (modelled, validated by the lib: streams)",
    "Unicode \\d, \\w, str.isdigit tables and the int() digit limit are taken from the running CPython by harness/params/c16.py",
]

AF4, AF6 = 2, 10
RESOLVER = {
    'example.com': [(6, '2606:2800:220:1:248:1893:25c8:1946'), (4, '93.184.216.34')],
    'v4only.test': [(4, '10.1.2.3'), (4, '10.1.2.4')],
    'v6only.test': [(6, 'fd00::1')],
    'one.test': [(4, '192.0.2.7')],
    'empty.test': [],
    '*.blogspot.com': [(6, '2404:6800:4004:821::2001'), (4, '142.251.42.129')],
    'localhost': [(4, '127.0.0.1')],
}


def hx(s):
    b = s.encode('utf-8')
    return b.hex() if b else '-'


# ------------------------------------------------------------------ real code under fakes

class GaiLog:
    def __init__(self):
        self.idna = {}
        self.calls = 0


class SocketShim:
    """`socket` as seen by sshuttle.options: everything real except name lookups."""

    def __init__(self, log, owner=None):
        self._log = log
        self._owner = owner

    def __getattr__(self, name):
        return getattr(socket, name)

    def getaddrinfo(self, host, port, family=0, type=0, proto=0, flags=0):
        log = self._log
        log.calls += 1
        if isinstance(host, str) and not host.isascii():
            try:
                log.idna[host] = host.encode('idna').decode('ascii')
            except UnicodeError:
                log.idna[host] = None
        try:
            return socket.getaddrinfo(host, port, family, type, proto, flags | socket.AI_NUMERICHOST)
        except socket.gaierror as e:
            if e.errno != socket.EAI_NONAME:
                raise
        name = host.encode('idna').decode('ascii') if isinstance(host, str) else host.decode('ascii')
        ans = RESOLVER.get(name)
        if ans is None:
            # the resolver environment of this case: how an unknown name fails and how long that takes
            owner = self._owner
            kind, delay = (socket.EAI_NONAME, 0.0) if owner is None else RENVS[owner.renv]
            if owner is not None:
                owner.clock.now += delay
            raise socket.gaierror(kind, 'lookup of %r failed (fake resolver, kind %d, %.1f s)' % (name, kind, delay))
        p = socket.getaddrinfo('0.0.0.0', port, 0, socket.SOCK_STREAM, 0, socket.AI_NUMERICHOST)[0][4][1]
        out = []
        for fam, a in ans:
            if fam == 6:
                out.append((socket.AF_INET6, socket.SOCK_STREAM, 6, '', (a, p, 0, 0)))
            else:
                out.append((socket.AF_INET, socket.SOCK_STREAM, 6, '', (a, p)))
        return out


# resolver environments: (gaierror kind for an unknown name, virtual seconds one failing lookup takes)
RENVS = [(socket.EAI_NONAME, 0.0), (socket.EAI_AGAIN, 6.0), (socket.EAI_FAIL, 0.5), (socket.EAI_AGAIN, 0.0),
         (socket.EAI_AGAIN, 2.5), (getattr(socket, 'EAI_NODATA', socket.EAI_NONAME), 0.0), (socket.EAI_AGAIN, 30.0)]


class FakeClock:
    def __init__(self):
        self.now = 1000.0


class TimeShim:
    """`time` as seen by the code under test: a virtual clock that only the fake resolver and
    `sleep` advance; everything else is the real module."""

    def __init__(self, clock):
        self._clock = clock

    def __getattr__(self, name):
        return getattr(real_time, name)

    def time(self):
        return self._clock.now

    def monotonic(self):
        return self._clock.now

    def perf_counter(self):
        return self._clock.now

    def sleep(self, secs):
        if secs < 0:
            raise ValueError('sleep length must be non-negative')
        self._clock.now += secs


def install_clock(mods, shim):
    """Replace `time` (and names imported from it) in whatever module of the code under test has
    them -- looked up at run time, nothing is assumed to exist.  Returns the undo list."""
    undo = []
    for mod in mods:
        if getattr(mod, 'time', None) is real_time:
            undo.append((mod, 'time', real_time))
            mod.time = shim
        for name in ('time', 'monotonic', 'sleep', 'perf_counter'):
            cur = getattr(mod, name, None)
            if cur is not None and cur is getattr(real_time, name):
                undo.append((mod, name, cur))
                setattr(mod, name, getattr(shim, name))
    return undo


class Real:
    """The real modules with the fakes installed; `close()` restores."""

    def __init__(self):
        import sshuttle.options as options
        import sshuttle.ssh as ssh
        import sshuttle.cmdline as cmdline
        import sshuttle.client as client
        import sshuttle.helpers as helpers
        self.options, self.ssh, self.cmdline, self.client, self.helpers = options, ssh, cmdline, client, helpers
        self.log = GaiLog()
        import sshuttle.ssnet as ssnet
        self.ssnet = ssnet
        self.saved = (options.socket, client.main, sys.argv, os.environ.get('SSHUTTLE_ARGS'), helpers.verbose)
        self.saved_ssnet = (ssnet.MAX_CHANNEL, ssnet.LATENCY_BUFFER_SIZE)
        self.clock = FakeClock()
        self.renv = 0
        options.socket = SocketShim(self.log, self)
        self.clock_undo = install_clock([options, cmdline, ssh, helpers], TimeShim(self.clock))
        helpers.verbose = 0
        self.captured = None
        # verbosity is a dimension of every case (see `begin_case`)
        self.seed = 0
        self.n = 0
        self.level = 0
        self.slot = 0
        self.last = (None, None)
        self.ctx = None

        def fake_client_main(*a):
            self.captured = a
            return 0
        client.main = fake_client_main

    def close(self):
        self.options.socket, self.client.main, sys.argv, env, self.helpers.verbose = self.saved
        self.ssnet.MAX_CHANNEL, self.ssnet.LATENCY_BUFFER_SIZE = self.saved_ssnet
        self.options.parser.__dict__.pop('parse_args', None)
        for mod, name, val in self.clock_undo:
            setattr(mod, name, val)
        if env is None:
            os.environ.pop('SSHUTTLE_ARGS', None)
        else:
            os.environ['SSHUTTLE_ARGS'] = env

    def begin_case(self):
        """Every case runs at a verbosity level taken from LEVELS, shifted by the check's seed, so
        that over seeds 0..7 every directed case has run at every level; `slot` chooses how the
        -v flags are spelled and where they go.  What an argument means must not depend on it."""
        self.n += 1
        self.level = LEVELS[(self.n + self.seed) % len(LEVELS)]
        self.slot = (self.n // len(LEVELS) + self.seed) % 4
        # ... and in a resolver environment (period 7, so that it does not stay paired with the level)
        self.renv = (self.n + self.seed) % len(RENVS)
        if self.ctx is not None:
            self.ctx.hist('verbosity:%d' % self.level)
            self.ctx.hist('resolver-env:%d/%.1fs' % RENVS[self.renv])

    def with_verbosity(self, env_tokens, argv):
        """the same command line at the current verbosity level: -v / -vv / -vvv / --verbose in
        front of or behind the other arguments, on the command line, in SSHUTTLE_ARGS, or split"""
        lv = self.level
        argv = list(argv)
        if lv <= 0:
            return env_tokens, argv
        comb = '-' + 'v' * lv
        if self.slot == 0:
            return env_tokens, [comb] + argv
        if self.slot == 1:
            return env_tokens, argv + ['-v'] * lv
        if self.slot == 2:
            return [comb] + list(env_tokens or []), argv
        return ['--verbose'] + list(env_tokens or []), (['-' + 'v' * (lv - 1)] if lv > 1 else []) + argv

    def main_with_env(self, env_tokens, argv, stop_after_parse):
        """the real cmdline.main with SSHUTTLE_ARGS / sys.argv set; returns (namespace produced by the
        real parse_args call inside main, arguments handed to client.main or None)"""
        parser = self.options.parser
        seen = {}

        def spy(args=None, namespace=None):
            ns = type(parser).parse_args(parser, args, namespace)
            seen['ns'] = ns
            seen['args'] = list(args)
            if stop_after_parse:
                raise _Stop()
            return ns
        env_tokens, argv = self.with_verbosity(env_tokens, argv)
        if env_tokens is None:
            os.environ.pop('SSHUTTLE_ARGS', None)
        else:
            os.environ['SSHUTTLE_ARGS'] = shlex.join(env_tokens)
        sys.argv = ['sshuttle'] + list(argv)
        self.captured = None
        self.last = (None, None)
        parser.parse_args = spy
        try:
            kind, val = self.quiet(self.cmdline.main)
            self.last = (kind, val)
        finally:
            parser.__dict__.pop('parse_args', None)
            os.environ.pop('SSHUTTLE_ARGS', None)
            self.ssnet.MAX_CHANNEL, self.ssnet.LATENCY_BUFFER_SIZE = self.saved_ssnet
        return seen.get('ns'), self.captured, seen.get('args')

    def quiet(self, fn, *a):
        """run fn with stdout/stderr swallowed; returns ('ok', value) | ('exc', exception)"""
        so, se = sys.stdout, sys.stderr
        sys.stdout, sys.stderr = io.StringIO(), io.StringIO()
        self.helpers.verbose = self.level      # direct calls run at the case's level; main sets its own from -v
        try:
            return 'ok', fn(*a)
        except BaseException as e:  # noqa
            if isinstance(e, KeyboardInterrupt):
                raise
            return 'exc', e
        finally:
            self.helpers.verbose = 0
            sys.stdout, sys.stderr = so, se


LEVELS = [0, 0, 3, 0, 2, 0, 3, 1]


class _Stop(Exception):
    pass


def fatal_kind(msg):
    if 'is not a valid address/mask:port format' in msg or 'is not a valid IP:port format' in msg:
        return 'fatal badFormat'
    if msg.startswith('Unable to resolve address'):
        return 'fatal unresolved'
    if 'has IPv4 and IPv6 addresses' in msg:
        return 'fatal mixedFamilies'
    if msg.startswith('Slash in CIDR notation'):
        return 'fatal cidrRange'
    return 'fatal other:' + msg[:40]


def exc_class(e):
    import argparse
    if isinstance(e, argparse.ArgumentTypeError):
        return fatal_kind(str(e))
    if isinstance(e, UnicodeError):
        return 'unicodeError'
    if isinstance(e, ValueError):
        return 'valueError'
    if isinstance(e, socket.gaierror):
        return 'gaierror'
    return 'other ' + type(e).__name__


def layer_class(kind, val):
    if kind == 'ok':
        return 'ok'
    if isinstance(val, SystemExit):
        return 'usage' if val.code == 2 else 'exit%r' % (val.code,)
    return 'internal'


def fam_no(f):
    return 6 if int(f) == int(socket.AF_INET6) else 4


def idna_tokens(log):
    return ''.join(' i:%s:%s' % (hx(h), '!' if r is None else hx(r)) for h, r in sorted(log.idna.items()))


def has_surrogate(s):
    return any(0xD800 <= ord(c) <= 0xDFFF for c in s)


class Case:
    __slots__ = ('stream', 'line', 'out', 'nontrivial', 's')

    def __init__(self, stream, line, out, nontrivial, s):
        self.stream, self.line, self.out, self.nontrivial, self.s = stream, line, out, nontrivial, s


def run_subnet(R, s):
    """real parse_subnetport directly and through the argparse layer"""
    R.log.idna = {}
    kind, val = R.quiet(R.options.parse_subnetport, s)
    if kind == 'ok':
        direct = 'ok ' + (';'.join('%d,%s,%d,%d,%d' % (fam_no(f), a, w, fp, lp) for (f, a, w, fp, lp) in val) or '-')
    else:
        direct = exc_class(val)
    k2, v2 = R.quiet(R.options.parser.parse_args, ['--exclude=' + s])
    layer = layer_class(k2, v2)
    if k2 == 'ok' and kind == 'ok' and v2.exclude != [val]:
        layer = 'ok-but-different'
    return direct, layer, (val if kind == 'ok' else None)


def subnet_case(ctx, R, s, expect=None, what='garbage'):
    """expect = (family, address int, width, fport, lport) for a documented spelling"""
    R.begin_case()
    direct, layer, val = run_subnet(R, s)
    line = 'sub %s%s' % (hx(s), idna_tokens(R.log))
    ctx.hist('subnet:' + what)
    ctx.hist('subnet-outcome:' + direct.split(' ')[0] + (' ' + direct.split(' ')[1] if direct.startswith('fatal') else ''))
    # --- oracle on the real code
    if layer not in ('ok', 'usage'):
        ctx.violation('C16:subnet:internal-error', case=dict(stream='subnet', s=s),
                      expected='ok or usage error (SystemExit 2)', observed='%s / %s' % (direct, layer),
                      note='a subnet argument ended in something other than acceptance or a usage error')
    if expect is not None:
        fam, a, w, fp, lp = expect
        good = False
        if val is not None and len(val) == 1:
            f, txt, w2, fp2, lp2 = val[0]
            try:
                ip = ipaddress.ip_address(txt)
                good = (fam_no(f) == fam and ip.version == fam and int(ip) == a and (w2, fp2, lp2) == (w, fp, lp))
            except ValueError:
                good = False
        if not good:
            emb = what.startswith('v6') and '.' in s
            key = 'C16:subnet:embedded-ipv4-rejected' if (emb and val is None) else \
                ('C16:subnet:documented-spelling-rejected' if val is None else 'C16:subnet:wrong-result')
            ctx.violation(key, case=dict(stream='subnet', s=s, expect=list(expect)),
                          expected='[(AF %d, %s, /%d, %d, %d)]' % (fam, ipaddress.ip_address(a) if fam == 4 else ipaddress.IPv6Address(a), w, fp, lp),
                          observed=direct, note='documented spelling (%s)' % what)
    elif val is not None:
        # whatever was accepted must be a canonical address of its family with a legal width
        for (f, txt, w2, fp2, lp2) in val:
            try:
                ip = ipaddress.ip_address(txt)
                okay = ip.version == fam_no(f) and 0 <= w2 <= (32 if fam_no(f) == 4 else 128)
            except ValueError:
                okay = False
            if not okay:
                ctx.violation('C16:subnet:wrong-result', case=dict(stream='subnet', s=s),
                              expected='canonical address of its family, width in range', observed=direct)
    return Case('subnet', line, '%s layer=%s' % (direct, layer), R.log.calls > 0 or direct != 'fatal badFormat', s), direct


def run_ipport(R, s):
    R.log.idna = {}
    kind, val = R.quiet(R.options.parse_ipport, s)
    if kind == 'ok':
        direct = 'ok %d,%s,%d' % (fam_no(val[0]), val[1], val[2])
    else:
        direct = exc_class(val)
    k2, v2 = R.quiet(R.options.parser.parse_args, ['--to-ns=' + s])
    return direct, layer_class(k2, v2), (val if kind == 'ok' else None)


def ipport_case(ctx, R, s, expect=None):
    R.begin_case()
    direct, layer, val = run_ipport(R, s)
    ctx.hist('ipport-outcome:' + direct.split(' ')[0])
    if expect is not None:
        fam, a, port = expect
        good = False
        if val is not None:
            try:
                ip = ipaddress.ip_address(val[1])
                good = fam_no(val[0]) == fam and ip.version == fam and int(ip) == a and val[2] == port
            except ValueError:
                pass
        if not good:
            ctx.violation('C16:ipport:wrong-decomposition', case=dict(stream='ipport', s=s, expect=list(expect)),
                          expected='(AF %d, %s, %d)' % (fam, a, port), observed=direct)
    return Case('ipport', 'ipp %s%s' % (hx(s), idna_tokens(R.log)), '%s layer=%s' % (direct, layer), True, s)


def run_listen(R, s):
    """cmdline.main with --listen s (at the current verbosity level)"""
    R.log.idna = {}
    _ns, captured, _args = R.main_with_env(None, ['--listen=' + s, '0/0'], stop_after_parse=False)
    kind, val = R.last
    if kind == 'ok' and captured is not None:
        v6, v4 = captured[0], captured[1]

        def sh(x):
            return '-' if x is None else 'auto' if x == 'auto' else '%s,%d' % (x[0], x[1])
        return 'ok v6=%s v4=%s' % (sh(v6), sh(v4))
    if kind == 'exc' and isinstance(val, SystemExit) and val.code == 2:
        return 'usage'
    if kind == 'ok':
        return 'returned %r' % (val,)
    return 'internal'


def listen_case(ctx, R, s, expect=None):
    R.begin_case()
    out = run_listen(R, s)
    ctx.hist('listen-outcome:' + out.split(' ')[0])
    if expect is not None and out != expect:
        ctx.violation('C16:listen:wrong-decomposition', case=dict(stream='listen', s=s, expect=expect),
                      expected=expect, observed=out)
    return Case('listen', 'listen %s%s' % (hx(s), idna_tokens(R.log)), out, True, s)


def run_hostport(R, s):
    kind, val = R.quiet(R.ssh.parse_hostport, s)
    if kind == 'ok':
        u, pw, port, host = val

        def o(x):
            return 'N' if x is None else hx(x)
        return 'ok user=%s pw=%s port=%s host=%s' % (o(u), o(pw), 'N' if port is None else str(port), o(host)), val
    return exc_class(val), None


def hostport_case(ctx, R, s, expect=None):
    R.begin_case()
    out, val = run_hostport(R, s)
    ctx.hist('hostport-outcome:' + out.split(' ')[0])
    if expect is not None and val != expect:
        ctx.violation('C16:hostport:wrong-decomposition', case=dict(stream='hostport', s=s, expect=list(expect)),
                      expected=repr(expect), observed=out if val is None else repr(val))
    return Case('hostport', 'hp ' + ('N' if s is None else hx(s)), out, s is not None and ('@' in s or ':' in s), s)


# ------------------------------------------------------------------ spellings

FULLWIDTH = {str(d): chr(0xFF10 + d) for d in range(10)}


def spell_part(v, radix):
    if radix == 'dec':
        return str(v)
    if radix == 'oct':
        return '0%o' % v
    if radix == 'hex':
        return '0x%x' % v
    if radix == 'HEX':
        return '0X%X' % v
    if radix == 'fw':
        return ''.join(FULLWIDTH[c] for c in str(v))
    raise ValueError(radix)


def spell_v4(a, nparts, radices):
    bs = [(a >> 24) & 255, (a >> 16) & 255, (a >> 8) & 255, a & 255]
    vals = bs[:nparts - 1] + [a & ((1 << (8 * (5 - nparts))) - 1)]
    return '.'.join(spell_part(v, r) for v, r in zip(vals, radices))


V4_BOUNDARY = [0, 1, 255, 256, 65535, 65536, 0xffffff, 0x1000000, 0x7f000001, 0x80000000, 0xffffffff,
               0x0a000000, 0xb8ac0a4a, 0xc0a80101, 0x01020304, 0x00ffffff, 0x0100007f]
V6_BOUNDARY = [0, 1, 2, 0xffff01020304, 0x01020304, (1 << 128) - 1, 0xfc00 << 112, 0xfe80 << 112 | 1,
               0x2a017e00e00001880000000000000001, 0x20010db8000000000000000000000000,
               0x00010000000000000000000000000000, 0x00010002000000000000000300000000,
               0x10000, 0x0001000200030004000500060007000, 0xffff0000, 0x64ff9b << 96 | 0xc0000221]


def rand_v6(rng):
    ws = [rng.choice([0, 0, 0, 1, 0xffff, rng.getrandbits(16), rng.getrandbits(4)]) for _ in range(8)]
    a = 0
    for w in ws:
        a = a << 16 | w
    return a


def spell_v6(rng, a, embedded=False, compress=None, upper=False, pad=False):
    """one spelling of `a`; compress = (start, len) of the zero run replaced by '::' or None"""
    ws = [(a >> (16 * (7 - i))) & 0xffff for i in range(8)]
    n = 6 if embedded else 8

    def h(w):
        t = ('%X' if upper else '%x') % w
        if pad:
            t = t.rjust(rng.randrange(len(t), 5), '0')
        return t
    groups = [h(w) for w in ws[:n]]
    tail = []
    if embedded:
        v = a & 0xffffffff
        tail = ['%d.%d.%d.%d' % (v >> 24 & 255, v >> 16 & 255, v >> 8 & 255, v & 255)]
    if compress is None:
        return ':'.join(groups + tail)
    st, ln = compress
    left = groups[:st]
    right = groups[st + ln:] + tail
    return ':'.join(left) + '::' + ':'.join(right)


def zero_runs(a, limit):
    """all (start, len >= 1) runs of zero words within the first `limit` words"""
    ws = [(a >> (16 * (7 - i))) & 0xffff for i in range(8)]
    out = []
    for st in range(limit):
        ln = 0
        while st + ln < limit and ws[st + ln] == 0:
            ln += 1
            out.append((st, ln))
    return out


WIDTHS4 = [None, 0, 1, 8, 16, 24, 31, 32]
WIDTHS6 = [None, 0, 1, 32, 33, 64, 127, 128]
PORTS = [None, (0,), (1,), (80,), (65535,), (80, 90), (0, 65535), (8000, 8000), (443, 80)]


def port_suffix(p):
    if p is None:
        return '', 0, 0
    if len(p) == 1:
        return ':%d' % p[0], p[0], p[0]
    return ':%d-%d' % p, p[0], p[1]


def gen_v4_spelling(rng, a):
    nparts = rng.choice([4, 4, 4, 3, 2, 1])
    rad = [rng.choice(['dec', 'dec', 'oct', 'hex', 'HEX']) for _ in range(nparts)]
    if rng.random() < 0.08:
        rad = ['fw'] * nparts
    s = spell_v4(a, nparts, rad)
    kind = 'v4:%dpart:%s' % (nparts, 'fullwidth' if rad[0] == 'fw' else ('mixed' if len(set(rad)) > 1 else rad[0]))
    return s, kind


def documented_subnets(ctx, rng):
    """yield (string, expect, what)"""
    n4 = ctx.scale(2500, 40000)
    addrs = V4_BOUNDARY + [rng.getrandbits(32) for _ in range(40)]
    for i in range(n4):
        a = addrs[i % len(addrs)] if i < 4 * len(addrs) else rng.getrandbits(32)
        s, kind = gen_v4_spelling(rng, a)
        w = rng.choice(WIDTHS4) if rng.random() < 0.7 else rng.randrange(0, 33)
        p = rng.choice(PORTS) if rng.random() < 0.7 else (rng.randrange(65536),)
        ps, fp, lp = port_suffix(p)
        yield s + ('' if w is None else '/%d' % w) + ps, (4, a, 32 if w is None else w, fp, lp), kind
    n6 = ctx.scale(2500, 40000)
    for i in range(n6):
        a = V6_BOUNDARY[i % len(V6_BOUNDARY)] if i < 12 * len(V6_BOUNDARY) else rand_v6(rng)
        embedded = rng.random() < 0.15
        runs = zero_runs(a, 6 if embedded else 8)
        compress = rng.choice(runs) if runs and rng.random() < 0.8 else None
        s = spell_v6(rng, a, embedded, compress, upper=rng.random() < 0.3, pad=rng.random() < 0.3)
        assert int(ipaddress.IPv6Address(s)) == a, (s, a)
        w = rng.choice(WIDTHS6) if rng.random() < 0.7 else rng.randrange(0, 129)
        ws = '' if w is None else '/%d' % w
        form = rng.choice(['bare', 'bare', 'br', 'brport', 'brport'])
        if form == 'bare':
            full, fp, lp = s + ws, 0, 0
        elif form == 'br':
            full, fp, lp = '[' + s + ws + ']', 0, 0
        else:
            ps, fp, lp = port_suffix(rng.choice(PORTS[1:]))
            full = '[' + s + ws + ']' + ps
        kind = 'v6:%s:%s%s' % (form, 'embedded' if embedded else 'hex', ':compressed' if compress else '')
        yield full, (6, a, 128 if w is None else w, fp, lp), kind


UNI_DIGITS = ['١', '۳', '４', '²', '१', '\U0001d7d8', '①']
SYNTAX = '0123456789abcdefxX.:/-[]*@_ \n%'


def mutate(rng, s):
    k = rng.randrange(14)
    i = rng.randrange(len(s)) if s else 0
    if k == 0 and s:
        return s[:i] + s[i + 1:]
    if k == 1 and s:
        return s[:i] + s[i] + s[i:]
    if k == 2:
        return s.replace('[', ']', 1) if rng.random() < 0.5 else s.replace(']', '[', 1)
    if k == 3:
        return s[:i] + ':' + s[i:]
    if k == 4:
        return s + '\n'
    if k == 5:
        ds = [j for j, c in enumerate(s) if c.isdigit()]
        if ds:
            j = rng.choice(ds)
            return s[:j] + rng.choice(UNI_DIGITS) + s[j + 1:]
    if k == 6:
        return s + rng.choice(['.5', '.', ':', ']', '/', '-', '-1', ':80', '/8', ' ', '\n\n', '%eth0'])
    if k == 7:
        return re.sub(r'\d+', '256', s, count=1)
    if k == 8:
        base = s.split('/')[0].split(']')[0]
        return base + '/' + rng.choice(['-1', '33', '129', '032', '0x10', '9' * 50, '1' * 4300, '1' * 4301, '', '٣', '３２'])
    if k == 9:
        return s[:i] + rng.choice(SYNTAX) + s[i:]
    if k == 10:
        return rng.choice(['[', '*.', ' ', '[[', '-', '@']) + s
    if k == 11:
        return s.split(':')[0] + ':' + rng.choice(['70000', '1' * 4301, '1' * 4300, '0-0', '5-', '-5', '1-2-3', '８０', '99999999999999999999'])
    if k == 12:
        return s.upper() if rng.random() < 0.5 else s.replace('.', '..', 1)
    return s[:i] + s[i:][::-1]


def garbage(rng):
    n = rng.choice([0, 1, 2, 3, 5, 8, 12, 20])
    alpha = SYNTAX if rng.random() < 0.8 else SYNTAX + 'ghzGZ\té٣１²K。'
    s = ''.join(rng.choice(alpha) for _ in range(n))
    # the bare token `--` is consumed by argparse itself and never reaches a type= function
    return '-' if s == '--' else s


def name_cases(rng):
    out = []
    for n in list(RESOLVER) + ['nosuch.test', 'EXAMPLE.com', 'bücher.test', 'a..b', 'x' * 64 + '.com', 'x' * 63 + '.com',
                               'a.' + 'y' * 64, 'Ａ.test', 'a。b']:
        for suf in ['', '/24', '/64', '/33', ':80', '/24:80-90', '/129']:
            out.append(n + suf)
    return out


# ------------------------------------------------------------------ library streams

def lib_cases(ctx, rng, rx_texts):
    cases = []

    def add(stream, line, out, s=None):
        cases.append(Case(stream, line, out, True, s))
        ctx.hist('lib:' + stream.split(':')[1])

    def groups_out(m, n):
        if not m:
            return 'nomatch'
        return 'm ' + ' '.join(('N' if g is None else hx(g)) if i else hx(g or '') for i, g in enumerate(m.groups()))

    # regex engine vs. the hand-written parsers
    rx6, rx4, rxd, rxb, rxp = [re.compile(t) for t in rx_texts]
    pool = []
    for _ in range(ctx.scale(6000, 60000)):
        r = rng.random()
        if r < 0.5:
            s = garbage(rng)
        else:
            a = rand_v6(rng)
            runs = zero_runs(a, 8)
            s = spell_v6(rng, a, False, rng.choice(runs) if runs else None)
            s = rng.choice(['', '[', '*.', '[*.']) + s + rng.choice(['', '/64', '/', '/x']) + rng.choice(['', ']', ']]']) + \
                rng.choice(['', ':80', ':80-90', '-90', ':80-', ':', '-', ':80-90\n', '\n', ':8٣-9'])
            if rng.random() < 0.4:
                s = mutate(rng, s)
        pool.append(s)
    for s in pool:
        m6 = rx6.match(s)
        add('lib:rx6', 'rx6 ' + hx(s), groups_out(m6, 4), s)
        m4 = rx4.match(s)
        add('lib:rx4', 'rx4 ' + hx(s), groups_out(m4, 4), s)
        if s.isdigit():
            m = rxd.match(s)
        elif ']' in s:
            m = rxb.match(s)
        else:
            m = rxp.match(s)
        add('lib:rxip', 'rxip ' + hx(s), ('m %s %s' % (hx(m.group(1)), 'N' if m.group(2) is None else hx(m.group(2)))) if m else 'nomatch', s)

    # numeric getaddrinfo
    def gai_real(b):
        try:
            r = socket.getaddrinfo(b, 0, 0, socket.SOCK_STREAM, 0, socket.AI_NUMERICHOST)
        except socket.gaierror:
            return 'name'
        if len(r) == 2:
            return 'star'
        f, _t, _p, _c, sa = r[0]
        if fam_no(f) == 6 and (sa[3] != 0 or '%' in sa[0]):
            return 'scoped'
        return 'v%d %s' % (fam_no(f), sa[0])
    num_alpha = '0123456789abcdefABCDEFxX.:'
    hosts = ['*', '', '0', '00', '0x', '0x0', '08', '0b1', '1.2.3.4 ', ' 1.2.3.4', '1.2.3.4\t', '1.2.3.4\x00zz', '+1', '-1', '1.2.3.4.',
             '4294967295', '4294967296', '18446744073709551616', '0xffffffff', '0x100000000', '037777777777', '040000000000',
             '1.16777215', '1.16777216', '1.2.65535', '1.2.65536', '256.1', '1.256.1', '1.2.3.256', '1.2.3.4.5', '0x1.0x2.0x3.0x4',
             '::', ':::', '::1', '1::', '1:2:3:4:5:6:7::', '::1:2:3:4:5:6:7', '1:2:3:4:5:6:7:8', '1:2:3:4:5:6:7:8:9', '::ffff:1.2.3.4',
             '::1.2.3.4', '1.2.3.4::', '::01.2.3.4', '::1.2.3', '1:2:3:4:5:6:1.2.3.4', '1:2:3:4:5:6:7:1.2.3.4', '::12345', '::g', ':1',
             '1:', '1::2::3', 'fe80::1%lo', 'fe80::1%1', '::%', '::ffff:0:0', '0:0:0:0:0:ffff:1.2.3.4', '::ffff:1.2.3.4.5', '1:2::3:4:5.6.7.8']
    for a in V4_BOUNDARY:
        for _ in range(6):
            hosts.append(gen_v4_spelling(rng, a)[0])
    for _ in range(ctx.scale(3000, 40000)):
        r = rng.random()
        if r < 0.3:
            hosts.append(''.join(rng.choice(num_alpha) for _ in range(rng.choice([1, 2, 3, 5, 9, 15]))))
        elif r < 0.6:
            s = gen_v4_spelling(rng, rng.getrandbits(32))[0]
            hosts.append(mutate(rng, s) if rng.random() < 0.5 else s)
        else:
            a = rand_v6(rng)
            emb = rng.random() < 0.3
            runs = zero_runs(a, 6 if emb else 8)
            s = spell_v6(rng, a, emb, rng.choice(runs) if runs and rng.random() < 0.8 else None, rng.random() < 0.3, rng.random() < 0.3)
            hosts.append(mutate(rng, s) if rng.random() < 0.5 else s)
    for s in hosts:
        if not s.isascii():
            continue
        add('lib:gai', 'gai ' + hx(s), gai_real(s.encode('ascii')), s)
        if '\0' not in s:
            try:
                v = 'v %d' % int.from_bytes(socket.inet_aton(s), 'big')
            except OSError:
                v = 'none'
            add('lib:aton', 'aton ' + hx(s), v, s)
            try:
                v = 'v %d' % int.from_bytes(socket.inet_pton(socket.AF_INET6, s), 'big')
            except OSError:
                v = 'none'
            add('lib:pton6', 'pton6 ' + hx(s), v, s)
        try:
            ip = ipaddress.ip_address(s)
            v = 'v%d %s' % (ip.version, hx(str(ip)))
        except ValueError:
            v = 'none'
        add('lib:ipaddr', 'ipaddr ' + hx(s), v, s)
    for a in V6_BOUNDARY + [rand_v6(rng) for _ in range(ctx.scale(1500, 20000))]:
        add('lib:ntop6', 'ntop6 %d' % a, socket.inet_ntop(socket.AF_INET6, a.to_bytes(16, 'big')))
    for a in V4_BOUNDARY + [rng.getrandbits(32) for _ in range(200)]:
        add('lib:ntoa', 'ntoa %d' % a, socket.inet_ntoa(a.to_bytes(4, 'big')))
    for p in [0, 1, 80, 65535, 65536, 70000, 2 ** 31 - 1, 2 ** 31, 2 ** 32 - 1, 2 ** 32, 2 ** 32 + 80, 2 ** 63, 2 ** 64 - 1, 2 ** 64,
              10 ** 30] + [rng.getrandbits(rng.choice([8, 16, 17, 31, 32, 33, 64, 70])) for _ in range(100)]:
        try:
            r = 'p %d' % socket.getaddrinfo('0.0.0.0', p, 0, socket.SOCK_STREAM, 0, socket.AI_NUMERICHOST)[0][4][1]
        except socket.gaierror:
            r = 'gaierror'
        add('lib:gaiport', 'gaiport %d' % p, r)
    for s in ['0', '00', '007', '٣', '１２', '1' * 4300, '1' * 4301, '0' * 4301, '²', 'x', '1x', '', '٣3'] + \
            [''.join(rng.choice('0123456789' + ''.join(UNI_DIGITS)) for _ in range(rng.randrange(1, 8))) for _ in range(200)]:
        try:
            r = 'ok %d' % int(s) if s.strip() == s and '_' not in s else None
        except ValueError:
            r = 'valueError'
        if r:
            add('lib:int', 'int ' + hx(s), r, s)
    return cases


# ------------------------------------------------------------------ hostport / listen / env

def hostport_cases(ctx, R, rng):
    cases = []
    users = ['user', 'u', '', 'a@b', 'Us.er-1', 'ü', 'x@y@z']
    pws = [None, 'pw', 'p:w', 'p@w', ':', '@', 'a:b@c:d', 'pä', ':@:']
    hosts = [('host', 'host', 'host'), ('HOST.Example', 'HOST.Example', 'host.example'), ('1.2.3.4', '1.2.3.4', '1.2.3.4'),
             ('::1', '::1', None), ('[::1]', '::1', '::1'), ('[2001:DB8::1]', '2001:db8::1', '2001:db8::1'),
             ('2001:db8:0:0:0:0:0:1', '2001:db8::1', None), ('[::ffff:1.2.3.4]', '::ffff:102:304', '::ffff:102:304'),
             ('my-alias', 'my-alias', 'my-alias'), ('h_1', 'h_1', 'h_1')]
    ports = [None, 0, 1, 22, 2222, 65535]

    def built(u, pw, htxt, canon_noport, canon_port, port, what):
        """one specification built from its parts; the expectation is the parts themselves
        (the last '@' ends the user info, the first ':' inside it ends the user name)"""
        if canon_port is None:
            port = None          # a bare IPv6 literal cannot carry a port
        s = ('' if u is None else u + ('' if pw is None else ':' + pw) + '@') + htxt + ('' if port is None else ':%d' % port)
        if not s:
            return
        host_exp = canon_noport if (port is None) else canon_port
        ctx.hist('hostport:' + what)
        cases.append(hostport_case(ctx, R, s, (u, pw if pw else None, port, host_exp)))

    # every delimiter-like printable character in every position of the user name and of the
    # password (exhaustive, simplest host first so that a failure is reported on a short text)
    special = ['/', '?', '#', '[', ']', '%', '@', ':', ' ', ';', '&', '=', '+', '\\', '~', '!', '$', ',']

    def placed(base, c):
        return [c + base, base[:len(base) // 2] + c + base[len(base) // 2:], base + c, c, c + c]
    for (htxt, cn, cp), port in [(hosts[0], None), (hosts[0], 22), (hosts[2], 2222), (hosts[4], 22), (hosts[3], None),
                                 (hosts[5], None), (hosts[1], 22)]:
        for c in special:
            if c != ':':         # a user name cannot contain ':' (the first ':' ends it)
                for u in placed('user', c):
                    built(u, None, htxt, cn, cp, port, 'special-user')
                    built(u, 'pw', htxt, cn, cp, port, 'special-user')
            for pw in placed('secret', c):
                built('user', pw, htxt, cn, cp, port, 'special-password')
                built('', pw, htxt, cn, cp, port, 'special-password')
    # random mixtures of them
    mix = ''.join(special) + 'abz09'
    for _ in range(ctx.scale(600, 8000)):
        u = ''.join(rng.choice(mix) for _ in range(rng.randrange(0, 7))).replace(':', '')
        pw = rng.choice([None, ''.join(rng.choice(mix) for _ in range(rng.randrange(0, 9)))])
        htxt, cn, cp = rng.choice(hosts)
        built(u, pw, htxt, cn, cp, rng.choice(ports), 'special-mix')
    for _ in range(ctx.scale(1500, 15000)):
        u = rng.choice(users + [None, None])
        pw = rng.choice(pws)
        htxt, canon_noport, canon_port = rng.choice(hosts)
        port = rng.choice(ports)
        if canon_port is None:
            port = None          # a bare IPv6 literal cannot carry a port
        if u is None:
            pw = None
        if u is not None and ('@' in u) and pw is None:
            pass                 # 'a@b@host': split at the last '@' keeps 'a@b' as the user
        if u is not None and ':' in u:
            continue
        s = ('' if u is None else u + ('' if pw is None else ':' + pw) + '@') + htxt + ('' if port is None else ':%d' % port)
        if htxt.startswith('[') and port is None:
            host_exp = canon_noport
        else:
            host_exp = canon_noport if port is None else canon_port
        expect = (u, pw if pw else None, port, host_exp)
        if not s:
            continue
        cases.append(hostport_case(ctx, R, s, expect))
    fixed = [None, '', 'h:', 'h:x', 'h:70000', 'h:65536', 'h:-1', '[::1]:', '[::1]x:2', 'h:22:33', '[::1', '::1]', 'h: 22', 'h:22/', 'h?x:22',
             'h#f:22', 'h/p:22', '[::1]:22:33', 'u@', '@', ':', 'a:b', 'u:p@h:0x16', '[V1.x]:22', '[v1.x]:22', '[v1f.x]:2', '[vg.x]:2', '[v1.]:2',
             '[1.2.3.4]:22', 'h:2\n2', 'h\t:22', 'H%Zone:22', '[fe80::1%ETH0]:22', 'fe80::1%ETH0', '[::1%]:22', '1::2%a%b', '1::2/64',
             'Host:022', 'h:' + '1' * 4301, 'h:' + '0' * 4301, '[::ffff:1.2.3.4]', '::FFFF:1.2.3.4', '1:2:3:4:5:6:7:8', '1:2:3:4:5:6:7::',
             '::1:2:3:4:5:6:7', '1:2:3:4:5:6:7:8:9', '01::2', '00001::2', '1::2::3', ':1::2', '1::2:', '::', ':::', '[::]:0', '1.2.3.4:22',
             '01.2.3.4:22', '1.2.3:22', 'h:٣', 'ｈ:22', 'h:22　', 'u@h@', 'a[b]:22', 'a]b[:22', '[::1][::2]:3', '[]:22', ']:22[']
    for s in fixed:
        cases.append(hostport_case(ctx, R, s))
    alpha = 'uh@:[]%./?#12v \n'
    for _ in range(ctx.scale(2500, 30000)):
        s = ''.join(rng.choice(alpha) for _ in range(rng.randrange(1, 10)))
        if rng.random() < 0.3:
            s = rng.choice(['[::1]', 'h', '1::2', 'u@h', 'u:p@[1::2]']) + s
        cases.append(hostport_case(ctx, R, s))
    return cases


def listen_cases(ctx, R, rng):
    cases = []
    for _ in range(ctx.scale(150, 4000)):
        a = rng.choice(V4_BOUNDARY + [rng.getrandbits(32)])
        port = rng.choice([0, 1, 80, 12300, 65535, rng.randrange(65536)])
        form = rng.randrange(5)
        ip4 = str(ipaddress.IPv4Address(a))
        a6 = rng.choice(V6_BOUNDARY + [rand_v6(rng)])
        ip6 = str(ipaddress.IPv6Address(a6))
        want6 = socket.inet_ntop(socket.AF_INET6, a6.to_bytes(16, 'big'))
        if form == 0:
            s, exp = '%d' % port, 'ok v6=- v4=0.0.0.0,%d' % port
        elif form == 1:
            s, exp = '%s:%d' % (ip4, port), 'ok v6=- v4=%s,%d' % (ip4, port)
        elif form == 2:
            s, exp = ip4, 'ok v6=- v4=%s,0' % ip4
        elif form == 3:
            s, exp = '[%s]:%d' % (ip6, port), 'ok v6=%s,%d v4=-' % (want6, port)
        else:
            s, exp = '%s:%d,[%s]:%d' % (ip4, port, ip6, port), 'ok v6=%s,%d v4=%s,%d' % (want6, port, ip4, port)
        cases.append(listen_case(ctx, R, s, exp))
    for s in ['a b', '', ',', '1.2.3.4:', '::1', '[::1', 'localhost', 'localhost:5', 'nosuch.test', '1.2.3.4:70000', '1.2.3.4:' + '1' * 4301,
              '[*]:5', '80\n', '٣', '²', '[1.2.3.4]:7', '1:2', '1.2.3.4:5,', '[::1]:1,[::2]:2,3.3.3.3:3,4.4.4.4:4', 'example.com:1',
              '1.2.3.4:99999999999999999999', '[fe80::1%lo]:5', 'empty.test']:
        cases.append(listen_case(ctx, R, s))
    for _ in range(ctx.scale(200, 5000)):
        cases.append(listen_case(ctx, R, garbage(rng)))
    # an empty --listen is falsy: `if opt.listen:` takes the automatic branch, parse_ipport is not called
    # (the bare token `--` is consumed by argparse itself)
    cases = [c for c in cases if c.s not in ('', '--')]
    return cases


def ipport_cases(ctx, R, rng):
    cases = []
    for _ in range(ctx.scale(400, 8000)):
        a = rng.choice(V4_BOUNDARY + [rng.getrandbits(32)])
        port = rng.choice([0, 1, 53, 65535, rng.randrange(65536)])
        form = rng.randrange(5)
        if form == 0:
            s, exp = str(port), (4, 0, port)
        elif form == 1:
            s, exp = '%s:%d' % (ipaddress.IPv4Address(a), port), (4, a, port)
        elif form == 2:
            s, exp = str(ipaddress.IPv4Address(a)), (4, a, 0)
        else:
            a6 = rng.choice(V6_BOUNDARY + [rand_v6(rng)])
            if form == 3:
                s, exp = '[%s]:%d' % (ipaddress.IPv6Address(a6), port), (6, a6, port)
            else:
                s, exp = '[%s]' % ipaddress.IPv6Address(a6), (6, a6, 0)
        cases.append(ipport_case(ctx, R, s, exp))
    for _ in range(ctx.scale(1500, 20000)):
        r = rng.random()
        if r < 0.4:
            s = garbage(rng)
        else:
            s = mutate(rng, rng.choice(['1.2.3.4:80', '[::1]:80', '80', '[1::2]', 'example.com:53', '0x7f.1:5']))
        if has_surrogate(s) or s == '--':
            continue
        cases.append(ipport_case(ctx, R, s))
    return cases


def show_listen(captured):
    def sh(x):
        return '-' if x is None else 'auto' if x == 'auto' else '%s,%d' % (x[0], x[1])
    return 'ok v6=%s v4=%s' % (sh(captured[0]), sh(captured[1]))


def run_listen_env(R, env_tokens, argv_tokens):
    """the real cmdline.main with -l/--listen occurrences in SSHUTTLE_ARGS and on the command line"""
    R.log.idna = {}
    ns, captured, _args = R.main_with_env(env_tokens or None, list(argv_tokens) + ['0/0'], stop_after_parse=False)
    if captured is None:
        return 'no-client-main', ns
    return show_listen(captured), ns


def listen_env_cases(ctx, R, rng):
    """`-l` in the environment and/or (repeatedly) on the command line, each naming one family or
    both.  Manual: environment arguments come first and a later occurrence replaces an earlier
    one entirely, so the listeners are those of the LAST occurrence alone."""
    cases = []

    def one_listen():
        a4 = rng.choice(V4_BOUNDARY[2:] + [rng.getrandbits(32)])
        a6 = rng.choice([1, 0, V6_BOUNDARY[7], V6_BOUNDARY[9], rand_v6(rng)])
        p4, p6 = rng.choice([0, 12300, 12345, rng.randrange(65536)]), rng.choice([0, 12300, rng.randrange(65536)])
        ip4, ip6 = str(ipaddress.IPv4Address(a4)), str(ipaddress.IPv6Address(a6))
        want6 = socket.inet_ntop(socket.AF_INET6, a6.to_bytes(16, 'big'))
        k = rng.randrange(5)
        if k == 0:
            return '%s:%d' % (ip4, p4), '-', '%s,%d' % (ip4, p4)
        if k == 1:
            return '[%s]:%d' % (ip6, p6), '%s,%d' % (want6, p6), '-'
        if k == 2:
            return '%s:%d,[%s]:%d' % (ip4, p4, ip6, p6), '%s,%d' % (want6, p6), '%s,%d' % (ip4, p4)
        if k == 3:
            return '[%s]:%d,%s:%d' % (ip6, p6, ip4, p4), '%s,%d' % (want6, p6), '%s,%d' % (ip4, p4)
        return '%d' % p4, '-', '0.0.0.0,%d' % p4

    def toks(occ):
        out = []
        for (txt, _6, _4) in occ:
            out.extend(rng.choice([['-l', txt], ['--listen', txt], ['--listen=' + txt]]))
        return out
    fixed = [([('[::1]:12300', '::1,12300', '-')], [('127.0.0.1:12345', '-', '127.0.0.1,12345')]),
             ([('127.0.0.1:12345', '-', '127.0.0.1,12345')], [('[::1]:12300', '::1,12300', '-')]),
             ([], [('[::1]:12300', '::1,12300', '-'), ('127.0.0.1:12345', '-', '127.0.0.1,12345')])]
    for i in range(ctx.scale(150, 3000)):
        if i < len(fixed):
            env_occ, cmd_occ = fixed[i]
        else:
            env_occ = [one_listen() for _ in range(rng.choice([0, 1, 1, 1, 2]))]
            cmd_occ = [one_listen() for _ in range(rng.choice([0, 1, 1, 1, 2]))]
        if not env_occ and not cmd_occ:
            continue
        env_t, cmd_t = toks(env_occ), toks(cmd_occ)
        R.begin_case()
        last = (cmd_occ or env_occ)[-1]
        expect = 'ok v6=%s v4=%s' % (last[1], last[2])
        out, ns = run_listen_env(R, env_t, cmd_t)
        ctx.hist('listen-env:%s' % ('both' if env_occ and cmd_occ else 'env-only' if env_occ else 'cmd-only'))
        if out != expect:
            ctx.violation('C16:env:listen-not-replaced',
                          case=dict(stream='listen-env', env=env_t, argv=cmd_t, expect=expect),
                          expected=expect + ' (the last -l, command line after environment, replaces the earlier ones)',
                          observed=out)
        # model: store action over the concatenated occurrences, then the listen parser on the stored text
        stored = getattr(ns, 'listen', None) if ns is not None else None
        occ = env_occ + cmd_occ
        line = 'store --listen %d %s' % (len(env_occ), ' '.join('--listen=%s' % hx(o[0]) for o in occ))
        cases.append(Case('listen-env', line, 'val=' + ('N' if stored is None else hx(stored if isinstance(stored, str) else repr(stored))),
                          True, ' '.join(env_t) + ' | ' + ' '.join(cmd_t)))
        cases.append(Case('listen-env', 'listen %s' % hx(last[0]), out, True, last[0]))
    return cases


CMDLINE_SUBNET = (4, 0xc0000200, 24, 0, 0)     # the 192.0.2.0/24 given on the command line next to the file


def canon_subnets(lst):
    """what client.main got, as a set of (family, address int, width, fport, lport)"""
    out = set()
    for (f, txt, w, fp, lp) in lst:
        out.add((fam_no(f), int(ipaddress.ip_address(txt)), w, fp, lp))
    return out


def run_subnet_file(R, path, option, extra_argv):
    """the real cmdline.main with `-s file` / `-X file`; returns (includes, excludes) or a class name"""
    R.log.idna = {}
    # one subnet on the command line as well, so that a file without subnet lines is not refused
    argv = [option, path] + list(extra_argv) + ['192.0.2.0/24']
    ns, captured, _args = R.main_with_env(None, argv, stop_after_parse=False)
    if captured is None:
        return None
    return captured[13], captured[14]


def build_subnet_file(rng):
    """lines of a subnet file and the tuples its subnet lines denote (ASCII, `\n` line ends)"""
    lines, expect = [], []
    nets = []
    for _ in range(rng.randrange(1, 4)):
        if rng.random() < 0.7:
            a = rng.choice([0x0a010000, 0xc0a80100, 0x0a000000, rng.getrandbits(32)])
            w = rng.choice([None, 8, 16, 24, 32])
            nets.append((4, a, w))
        else:
            a = rng.choice([0xfd00 << 112, 0x20010db8 << 96, 1, rand_v6(rng)])
            nets.append((6, a, rng.choice([None, 48, 64, 128])))
    n = rng.randrange(2, 9)
    for _ in range(n):
        r = rng.random()
        if r < 0.12:
            lines.append(rng.choice(['', '   ', '\t', '# comment', '  # 10.9.9.9/32:1', '#10.1.0.0/16:80']))
            continue
        fam, a, w = rng.choice(nets)
        p = rng.choice(PORTS + [(80,), (443,), (8000, 8080)])
        ps, fp, lp = port_suffix(p)
        if fam == 4:
            txt = str(ipaddress.IPv4Address(a)) if rng.random() < 0.8 else gen_v4_spelling(rng, a)[0]
            if not txt.isascii():
                txt = str(ipaddress.IPv4Address(a))
            s = txt + ('' if w is None else '/%d' % w) + ps
            expect.append((4, a, 32 if w is None else w, fp, lp))
        else:
            txt = str(ipaddress.IPv6Address(a))
            ws = '' if w is None else '/%d' % w
            s = ('[' + txt + ws + ']' + ps) if p is not None else txt + ws
            expect.append((6, a, 128 if w is None else w, fp, lp))
        lines.append(rng.choice(['', '', ' ', '\t', '  ']) + s + rng.choice(['', '', ' ', '  \t']))
        if rng.random() < 0.1:          # an exact duplicate line
            lines.append(s)
    content = '\n'.join(lines) + rng.choice(['\n', '\n', ''])
    return content, expect


FILE_FIXED = [
    ('10.1.0.0/16:80\n10.1.0.0/16:443\n', [(4, 0x0a010000, 16, 80, 80), (4, 0x0a010000, 16, 443, 443)]),
    ('10.1.0.0/16\n10.1.0.0/16:8000-8080\n# c\n\n', [(4, 0x0a010000, 16, 0, 0), (4, 0x0a010000, 16, 8000, 8080)]),
    ('[fd00::/64]:22\nfd00::/64\n', [(6, 0xfd00 << 112, 64, 22, 22), (6, 0xfd00 << 112, 64, 0, 0)]),
]


def file_case(ctx, R, tmpdir, content, expect, option, n):
    R.begin_case()
    path = os.path.join(tmpdir, 'subnets-%d.txt' % n)
    with open(path, 'w', encoding='ascii', newline='') as f:
        f.write(content)
    cases = []
    try:
        # direct call: correspondence with the model
        R.log.idna = {}
        kind, val = R.quiet(R.options.parse_subnetport_file, path)
        if kind == 'ok':
            out = 'ok ' + ('|'.join((';'.join('%d,%s,%d,%d,%d' % (fam_no(f), a, w, fp, lp) for (f, a, w, fp, lp) in grp) or '-')
                                    for grp in val) or '-')
        else:
            out = exc_class(val)
        cases.append(Case('file', 'file %s%s' % (hx(content), idna_tokens(R.log)), out, True, content))
        # through the real main: what client.main is handed
        if expect is not None:
            got = run_subnet_file(R, path, option, [])
            want = set(expect)
            if option == '-X':
                obs = None if got is None else canon_subnets(got[1])
            else:
                obs = None if got is None else canon_subnets(got[0])
                want = want | {CMDLINE_SUBNET}
            ctx.hist('file:%s' % option)
            if obs != want:
                ctx.violation('C16:file:line-lost-or-changed',
                              case=dict(stream='file', option=option, content=content, expect=[list(e) for e in expect]),
                              expected='client.main gets every listed subnet with its own ports: %s' % sorted(want),
                              observed='no call of client.main' if obs is None else
                              'missing %s, unexpected %s' % (sorted(want - obs), sorted(obs - want)))
    finally:
        os.unlink(path)
    return cases


# texts the property says are rejected on the command line, with the class of the rejection
REJECTED_LINES = [
    ('10.1.0.0/33', 'fatal cidrRange'), ('fd00::/129', 'fatal cidrRange'), ('[fd00::/200]:80', 'fatal cidrRange'),
    ('1.2.3.4/4294967296', 'fatal cidrRange'), ('0x7f.1/40:80-90', 'fatal cidrRange'),
    ('1.2.3.4:80:90', 'fatal badFormat'), ('[[::1]]', 'fatal badFormat'), ('1.2.3.4/-1', 'fatal badFormat'),
    ('1.2.3.4 5.6.7.8', 'fatal badFormat'), ('fe80::1%eth0', 'fatal badFormat'), ('10.0.0.0/8/8', 'fatal badFormat'),
    ('nosuch.test', 'fatal unresolved'), ('256.1.1.1', 'fatal unresolved'), ('1.2.3.4.5/24', 'fatal unresolved'),
    ('1:2:3:4:5:6:7:8:9', 'fatal unresolved'),
]


def run_reject_file(R, path, option):
    """a file with a rejected line, three ways: the type function itself, the parser, cmdline.main.
    Returns (description, all three rejected as documented)."""
    import argparse
    R.log.idna = {}
    k1, v1 = R.quiet(R.options.parse_subnetport_file, path)
    d1 = exc_class(v1) if k1 == 'exc' else 'ok %d line(s)' % len(v1)
    ok1 = k1 == 'exc' and isinstance(v1, argparse.ArgumentTypeError)
    k2, v2 = R.quiet(R.options.parser.parse_args, [option, path, '192.0.2.0/24'])
    d2 = layer_class(k2, v2)
    ok2 = d2 == 'usage'
    _ns, captured, _args = R.main_with_env(None, [option, path, '192.0.2.0/24'], stop_after_parse=False)
    k3, v3 = R.last
    ok3 = captured is None and k3 == 'exc' and isinstance(v3, SystemExit) and v3.code == 2
    d3 = 'client.main called' if captured is not None else layer_class(k3, v3)
    return 'parse_subnetport_file: %s; parser %s: %s; cmdline.main: %s' % (d1, option, d2, d3), ok1 and ok2 and ok3


def reject_file_case(ctx, R, rng, tmpdir, i, n):
    """valid lines with 1-3 rejected lines hidden among them: first / middle / last position,
    with or without comments and blank lines around"""
    R.begin_case()
    content, _e = build_subnet_file(rng)
    valid = [l for l in content.split('\n') if l.strip() and not l.strip().startswith('#')] or ['10.9.0.0/16']
    if i < 3:                      # three minimal files first, so that a failure is reported on a short one
        valid = ['10.1.0.0/16', '10.2.0.0/16:80']
    nbad = 1 + (i // 6) % 3
    bad = [REJECTED_LINES[(i * 7 + j * 5) % len(REJECTED_LINES)] for j in range(nbad)]
    pos = i % 3
    lines = list(valid)
    for j, (txt, _cls) in enumerate(bad):
        where = 0 if pos == 0 else len(lines) if pos == 2 else max(1, len(lines) // 2)
        deco = rng.choice(['', ' ', '\t']) + txt + rng.choice(['', '  '])
        if (i // 3) % 2:
            lines[where:where] = ['# next entry', '', deco, '   ', '#' + txt]
        else:
            lines.insert(where, deco)
        pos = (pos + 1) % 3 if j else pos
    if (i // 3) % 2:
        lines = ['# generated', ''] + lines + ['', '# end']
    content = '\n'.join(lines) + ('\n' if i % 2 else '')
    option = ['-s', '-X'][(i // 2) % 2]
    path = os.path.join(tmpdir, 'reject-%d.txt' % n)
    with open(path, 'w', encoding='ascii', newline='') as f:
        f.write(content)
    try:
        out, good = run_reject_file(R, path, option)
        ctx.hist('file-reject:%s:%d-bad:%s' % (option, nbad, ['first', 'middle', 'last'][i % 3]))
        if not good:
            ctx.violation('C16:file:rejected-line-accepted',
                          case=dict(stream='file-reject', option=option, content=content, bad=[b[0] for b in bad]),
                          expected='the file is rejected with the documented error (ArgumentTypeError from the type '
                                   'function, usage error from the parser and from cmdline.main): it contains %s'
                                   % ', '.join(repr(b[0]) for b in bad),
                          observed=out)
        # correspondence with the model of parse_subnetport_file (the first rejected line decides)
        R.log.idna = {}
        kind, val = R.quiet(R.options.parse_subnetport_file, path)
        if kind == 'ok':
            direct = 'ok ' + ('|'.join((';'.join('%d,%s,%d,%d,%d' % (fam_no(f), a, w, fp, lp) for (f, a, w, fp, lp) in grp) or '-')
                                       for grp in val) or '-')
        else:
            direct = exc_class(val)
        return [Case('file', 'file %s%s' % (hx(content), idna_tokens(R.log)), direct, True, content)]
    finally:
        os.unlink(path)


def file_cases(ctx, R, rng):
    import tempfile
    cases = []
    tmpdir = tempfile.mkdtemp(prefix='c16-subnetfiles-')
    try:
        n = 0
        for content, expect in FILE_FIXED:
            for option in ('-s', '-X'):
                cases += file_case(ctx, R, tmpdir, content, expect, option, n)
                n += 1
        for _ in range(ctx.scale(250, 5000)):
            content, expect = build_subnet_file(rng)
            cases += file_case(ctx, R, tmpdir, content, expect, rng.choice(['-s', '-X', '--subnets', '--exclude-from']).replace('--subnets', '-s').replace('--exclude-from', '-X'), n)
            n += 1
        # files with a bad line: the first bad line decides (usage error); model correspondence only
        for _ in range(ctx.scale(60, 1500)):
            content, _e = build_subnet_file(rng)
            ls = content.split('\n')
            ls.insert(rng.randrange(len(ls) + 1), rng.choice(['1.2.3.4/33', '::/129', 'a..b', '1.2.3.4:80:90', 'nosuch.test', '1.2.3.4/' + '1' * 4301, '[[::1]]']))
            cases += file_case(ctx, R, tmpdir, '\n'.join(ls), None, '-s', n)
            n += 1
        # the rejection classes of the command line, as lines of files
        for i in range(ctx.scale(108, 2160)):
            cases += reject_file_case(ctx, R, rng, tmpdir, i, n)
            n += 1
    finally:
        os.rmdir(tmpdir)
    return cases


UNKNOWN_NAMES = ['nosuch.test', 'gateway', 'no-such-host.invalid', 'x.y.z.test']


def run_unresolvable(R, kind, s):
    """(what happened, is it the documented rejection) for a text whose host does not resolve"""
    import argparse
    if kind == 'subnet':
        direct, layer, _val = run_subnet(R, s)
        return '%s layer=%s' % (direct, layer), direct == 'fatal unresolved' and layer == 'usage'
    if kind == 'ipport':
        direct, layer, _val = run_ipport(R, s)
        return '%s layer=%s' % (direct, layer), direct == 'fatal unresolved' and layer == 'usage'
    out = run_listen(R, s)
    k, v = R.last
    good = (k == 'exc' and (isinstance(v, (argparse.ArgumentTypeError, R.helpers.Fatal)) or
                            (isinstance(v, SystemExit) and v.code == 2))) or (k == 'ok' and v == 99)
    return '%s (%s)' % (out, type(v).__name__ if k == 'exc' else 'returned %r' % (v,)), good


def unresolvable_cases(ctx, R):
    """Texts whose host is a name no resolver knows, each under every resolver environment
    (every gaierror kind, instant and slow in virtual time): the only acceptable end is the
    documented rejection -- ArgumentTypeError 'Unable to resolve address' / Fatal / usage error."""
    cases = []
    texts = [('subnet', n + suf) for n in UNKNOWN_NAMES for suf in ['', '/24', ':80', '/24:80-90']] + \
            [('ipport', n + suf) for n in UNKNOWN_NAMES[:3] for suf in ['', ':12300']] + \
            [('listen', 'gateway:12300'), ('listen', 'nosuch.test'), ('listen', '127.0.0.1:2,nosuch.test:1')]
    for kind, s in texts:
        for _ in range(len(RENVS)):          # consecutive cases walk through the whole rotation
            R.begin_case()
            out, good = run_unresolvable(R, kind, s)
            ctx.hist('unresolvable:%s' % kind)
            if not good:
                ctx.violation('C16:resolver:unresolvable-not-rejected',
                              case=dict(stream='unresolvable', kind=kind, s=s),
                              expected="the documented rejection (ArgumentTypeError 'Unable to resolve address' / "
                                       "usage error), whatever the resolver's failure kind and however long it took",
                              observed=out)
            if kind == 'subnet':
                cases.append(Case('subnet', 'sub %s' % hx(s), out, True, s))
            elif kind == 'ipport':
                cases.append(Case('ipport', 'ipp %s' % hx(s), out, True, s))
            else:
                cases.append(Case('listen', 'listen %s' % hx(s), out.split(' (')[0], True, s))
    return cases


STORE_VALUES = {
    '--listen': ['127.0.0.1:0', '0.0.0.0:12300', '[::1]:0', '1234'],
    '--ns-hosts': ['1.1.1.1', '8.8.8.8,8.8.4.4', '::1'],
    '--to-ns': ['1.2.3.4:53', '9.9.9.9:5353', '[::1]:53'],
    '--method': ['auto', 'nat', 'tproxy', 'pf'],
    '--python': ['/usr/bin/python3', 'python', 'py thon'],
    '--remote': ['envhost', 'user@cmdhost:2222', 'u:p@h', '[::1]:22'],
    '--ssh-cmd': ['ssh', 'ssh -v', "ssh -o 'X=y z'"],
    '--remote-shell': ['cmd', 'powershell'],
    '--seed-hosts': ['a,b', 'c'],
    '--latency-buffer-size': ['32768', '1', '65536'],
    '--wrap': ['2', '300'],
    '--pidfile': ['./a.pid', '/tmp/b.pid'],
    '--user': ['alice', 'bob'],
    '--group': ['staff', 'wheel'],
    '--sudoers-user': ['alice', '%admins'],
    '--tmark': ['0x01', '0x7f', 'ff'],
    '--namespace': ['ns_one', 'ns.two'],
    '--namespace-pid': ['1', '4242'],
}


def store_options():
    import extract_params as h
    import params.c16 as p
    g = h.Gen()
    p.generate(g, h)
    for l in g.lines:
        if l.startswith('def STORE_OPTIONS'):
            return re.findall(r'"([^"]+)"', l.split(':=', 1)[1])
    return []


def observed_store(ns, opt):
    dest = {'--ssh-cmd': 'ssh_cmd', '--ns-hosts': 'ns_hosts', '--to-ns': 'to_ns', '--remote-shell': 'remote_shell',
            '--seed-hosts': 'seed_hosts', '--latency-buffer-size': 'latency_buffer_size', '--sudoers-user': 'sudoers_user',
            '--namespace-pid': 'namespace_pid'}.get(opt, opt[2:])
    v = getattr(ns, dest)
    if v is None or v == [] and opt == '--ns-hosts':
        return None
    if opt == '--ns-hosts':
        return ','.join(v)
    if opt == '--to-ns':
        f, ip, port = v
        return ('[%s]:%d' if fam_no(f) == 6 else '%s:%d') % (ip, port)
    return str(v)


CLIENT_ARG_INDEX = {'--ssh-cmd': 2, '--remote': 3, '--python': 4, '--latency-buffer-size': 6, '--method': 9, '--pidfile': 17,
                    '--user': 18, '--group': 19, '--remote-shell': 22}


def env_cases(ctx, R, rng):
    cases = []
    opts = store_options()
    unknown = [o for o in opts if o not in STORE_VALUES]
    if unknown:
        ctx.notes.append('store options without a value generator (not exercised): %s' % unknown)
    opts = [o for o in opts if o in STORE_VALUES]
    defaults = R.options.parser.parse_args([])
    for _ in range(ctx.scale(400, 8000)):
        o = rng.choice(opts)
        vals = STORE_VALUES[o]
        n_env = rng.choice([0, 1, 1, 1, 2])
        n_cmd = rng.choice([0, 1, 1, 1, 2])
        other = rng.choice([x for x in opts if x != o and not (x.startswith('--namespace') and o.startswith('--namespace'))])
        env_occ = [(o, rng.choice(vals)) for _ in range(n_env)]
        cmd_occ = [(o, rng.choice(vals)) for _ in range(n_cmd)]
        if rng.random() < 0.5:
            env_occ.insert(rng.randrange(len(env_occ) + 1), (other, rng.choice(STORE_VALUES[other])))
        if rng.random() < 0.5:
            cmd_occ.insert(rng.randrange(len(cmd_occ) + 1), (other, rng.choice(STORE_VALUES[other])))

        def toks(occ):
            out = []
            for (k, v) in occ:
                if rng.random() < 0.5:
                    out.append('%s=%s' % (k, v))
                else:
                    out.extend([k, v])
            return out
        env_t, cmd_t = toks(env_occ), toks(cmd_occ)
        R.log.idna = {}
        R.begin_case()
        ns, captured, _args = R.main_with_env(env_t, cmd_t + ['10.0.0.0/8'], stop_after_parse=o not in CLIENT_ARG_INDEX)
        if ns is None:
            ctx.hist('env:parse-error')
            continue
        obs = observed_store(ns, o)
        if not any(k == o for k, _ in env_occ + cmd_occ):
            obs_model = None if obs == observed_store(defaults, o) else obs
        else:
            obs_model = obs
        via_main = captured[CLIENT_ARG_INDEX[o]] if (captured is not None and o in CLIENT_ARG_INDEX) else None
        want = None
        for (k, v) in cmd_occ:
            if k == o:
                want = v
        if want is None:
            for (k, v) in env_occ:
                if k == o:
                    want = v
        ctx.hist('env:%s' % ('both' if any(k == o for k, _ in env_occ) and any(k == o for k, _ in cmd_occ)
                             else 'env-only' if any(k == o for k, _ in env_occ) else 'cmd-only' if any(k == o for k, _ in cmd_occ) else 'neither'))
        bad = False
        if want is not None:
            if obs != want:
                bad = True
            if via_main is not None and str(via_main) != want:
                bad = True
        if bad:
            ctx.violation('C16:env:not-overridden', case=dict(stream='env', env=env_t, argv=cmd_t, option=o),
                          expected='%s = %r (command line first, else environment)' % (o, want),
                          observed='parse_args: %r, client.main: %r' % (obs, via_main))
        line = 'store %s %d %s' % (o, len(env_occ), ' '.join('%s=%s' % (k, hx(v)) for k, v in env_occ + cmd_occ))
        cases.append(Case('env', line.rstrip(), 'val=' + ('N' if obs_model is None else hx(obs_model)), True, line))
    return cases


# ------------------------------------------------------------------ run

def rx_texts_from_source():
    import extract_params as h
    import params.c16 as p
    options = h.parse('sshuttle/options.py')
    sub = p._rx_assignments(h.func(options, 'parse_subnetport'))
    ipp = p._rx_assignments(h.func(options, 'parse_ipport'))
    return sub + ipp


def gen_cases(ctx):
    rng = ctx.rng
    R = Real()
    R.seed = ctx.seed
    R.ctx = ctx
    record = ctx.violation

    def violation_at_level(key, case, *a, **k):
        # the level and the spelling of the -v flags are part of the case, so that --replay restores them
        return record(key, dict(case, level=R.level, vslot=R.slot, renv=R.renv), *a, **k)
    ctx.violation = violation_at_level
    cases = []
    try:
        # documented spellings
        valid = []
        # minimised past failures and the manual's own examples first
        for s, expect, what in [
                ('::ffff:1.2.3.4', (6, 0xffff01020304, 128, 0, 0), 'v6:bare:embedded:manual'),
                ('[::ffff:1.2.3.4]:80', (6, 0xffff01020304, 128, 80, 80), 'v6:brport:embedded:manual'),
                ('0/0', (4, 0, 0, 0, 0), 'v4:manual'), ('::/0', (6, 0, 0, 0, 0), 'v6:manual'),
                ('1.2.3.4', (4, 0x01020304, 32, 0, 0), 'v4:manual'), ('1.2.3.4/32', (4, 0x01020304, 32, 0, 0), 'v4:manual'),
                ('1.2.3.0/24', (4, 0x01020300, 24, 0, 0), 'v4:manual'), ('1.2.3.4:8000', (4, 0x01020304, 32, 8000, 8000), 'v4:manual'),
                ('1.2.3.0/24:8000-9000', (4, 0x01020300, 24, 8000, 9000), 'v4:manual')]:
            c, _d = subnet_case(ctx, R, s, expect, what)
            cases.append(c)
        for s, expect, what in documented_subnets(ctx, rng):
            c, _d = subnet_case(ctx, R, s, expect, what)
            cases.append(c)
            valid.append(s)
        # hand-written boundary corpus
        corpus = ['0/0', '::/0', '1.2.3.4', '1.2.3.4/32', '1.2.3.0/24', '1.2.3.4:8000', '1.2.3.0/24:8000-9000', '::ffff:1.2.3.4',
                  '[::ffff:1.2.3.4]:80', '::1.2.3.4/96', '1:2::3:456-500', '1:2::3:456', '1:2::3]:456', '[1:2::3:456', '1:2::3/64]',
                  '::80-90', ':80-90', '*.1:2::3', '[*.::1]', '[[::1]]', '[::1]]', '::1/64]:80', '[::1/64:80', '1.2.3.4:80:90', '::1:80-90',
                  '1.2.3.4\n', '1.2.3.4/24\n', '1.2.3.4\n\n', '1.2.3.4/33', '::/129', '1::2/33', '1.2.3.4/032', '1.2.3.4/' + '1' * 4300,
                  '1.2.3.4/' + '1' * 4301, '1.2.3.4:' + '1' * 4301, '1.2.3.4:5-' + '1' * 4301, '1.2.3.4:99999', '1.2.3.4:90-80',
                  '１.２.３.４', '1.2.3.4/３２', '1.2.3.4:８０', '١.٢.٣.٤', '1.2.3.4/٣', '²', '1.2.3.4/²', 'a..b', '.1', '1.', '1..2', '-1', '1-2',
                  '', '*', '*.', '*.*', ':', '::', ':::', '[', ']', '[]', '/', '/8', ':80', '-', '1.2.3.4.5', '256.1.1.1', '1.2.3.256', '08', '0x',
                  '0b1', '4294967296', '0x7f.1', '0xFF.0Xff.1', '00.00.0.0', '1:2:3:4:5:6:7:8', '1:2:3:4:5:6:7:8:9', '1:2:3:4:5:6:7::',
                  '::1:2:3:4:5:6:7', 'ab_c::1', 'é::1', '１::2', 'fe80::1%lo', '1.2.3.4\x00', 'x' * 63, 'x' * 64, '1.2.3.4 ', ' 1.2.3.4']
        for s in corpus:
            c, _d = subnet_case(ctx, R, s, None, 'corpus')
            cases.append(c)
        for s in name_cases(rng):
            c, _d = subnet_case(ctx, R, s, None, 'name')
            cases.append(c)
        # near misses
        for _ in range(ctx.scale(5000, 120000)):
            s = mutate(rng, rng.choice(valid))
            if rng.random() < 0.2:
                s = mutate(rng, s)
            if has_surrogate(s) or s == '--':
                continue
            c, d = subnet_case(ctx, R, s, None, 'near-miss')
            cases.append(c)
            # widths just outside the family's range must be usage errors
            m = re.fullmatch(r'([0-9a-fA-FxX.:\[]+)/(\d+)(\]?(:\d+(-\d+)?)?)', s)
            if m and d.startswith('ok ') and s.isascii():
                w = int(m.group(2))
                if (d.startswith('ok 4,') and w > 32) or (d.startswith('ok 6,') and w > 128):
                    ctx.violation('C16:subnet:width-out-of-range-accepted', case=dict(stream='subnet', s=s),
                                  expected='usage error', observed=d)
        for _ in range(ctx.scale(3000, 40000)):
            s = garbage(rng)
            c, _d = subnet_case(ctx, R, s, None, 'garbage')
            cases.append(c)
        cases += ipport_cases(ctx, R, rng)
        cases += listen_cases(ctx, R, rng)
        cases += hostport_cases(ctx, R, rng)
        cases += env_cases(ctx, R, rng)
        cases += listen_env_cases(ctx, R, rng)
        cases += file_cases(ctx, R, rng)
        cases += unresolvable_cases(ctx, R)
    finally:
        ctx.violation = record
        R.close()
    cases += lib_cases(ctx, rng, rx_texts_from_source())
    return cases


def resolver_line():
    toks = []
    for n, ans in RESOLVER.items():
        toks.append('%s=%s' % (hx(n), ','.join('%d.%s' % (f, hx(a)) for f, a in ans) or '-'))
    return 'resolver ' + ' '.join(toks)


def compare(ctx, cases):
    if not ctx.model_available:
        ctx.notes.append('model driver unavailable: correspondence skipped, oracle only')
        return
    ins = [resolver_line()] + [c.line for c in cases]
    outs = common.LeanBatch('C16').run(ins)
    if len(outs) != len(ins):
        ctx.corr_break('C16', case=None, impl='%d lines' % len(ins), model='%d lines' % len(outs),
                       note='driver output length differs')
        return
    skipped = 0
    per_stream = {}
    for c, mo in zip(cases, outs[1:]):
        if mo.startswith('unmodelled'):
            skipped += 1
            ctx.hist('model:unmodelled')
            continue
        if mo != c.out:
            n = per_stream.get(c.stream, 0)
            per_stream[c.stream] = n + 1
            if n < 4:
                ctx.corr_break(c.stream, case=dict(line=c.line[:300], s=c.s if c.s is None else c.s[:200]),
                               impl=c.out[:300], model=mo[:300])
    if skipped:
        ctx.notes.append('%d cases outside the modelled domain (scope id / non-ASCII urlparse): oracle only' % skipped)


def run(ctx):
    cases = gen_cases(ctx)
    seen = set()
    for c in cases:
        ctx.count()
        ctx.mark((c.stream, c.line), c.nontrivial)
    for stream in ('subnet', 'ipport', 'listen', 'hostport', 'env', 'listen-env', 'file', 'lib:rx6', 'lib:gai'):
        for c in cases:
            if c.stream == stream and c.stream not in seen:
                seen.add(stream)
                ctx.sample(dict(stream=stream, input=(c.s or '')[:80], real_code_output=c.out[:160]), limit=8)
                break
    compare(ctx, cases)


def replay(ctx, rep):
    fails, info = _replay(ctx, rep)
    kind, delay = RENVS[int(rep['case'].get('renv', 0)) % len(RENVS)]
    return fails, '%s [verbosity level %d, -v placement %d; unknown names fail with gaierror %d after %.1f virtual s]' % (
        info, int(rep['case'].get('level', 0)), int(rep['case'].get('vslot', 0)), kind, delay)


def _replay(ctx, rep):
    case = rep['case']
    R = Real()
    R.level, R.slot = int(case.get('level', 0)), int(case.get('vslot', 0))
    R.renv = int(case.get('renv', 0)) % len(RENVS)
    try:
        st = case.get('stream')
        if st == 'subnet':
            direct, layer, val = run_subnet(R, case['s'])
            exp = case.get('expect')
            if exp:
                fam, a, w, fp, lp = exp
                good = False
                if val is not None and len(val) == 1:
                    f, txt, w2, fp2, lp2 = val[0]
                    try:
                        ip = ipaddress.ip_address(txt)
                        good = fam_no(f) == fam and ip.version == fam and int(ip) == a and (w2, fp2, lp2) == (w, fp, lp)
                    except ValueError:
                        pass
                return (not good), 'parse_subnetport(%r) -> %s; expected family %d address %s /%d ports %d-%d' % (
                    case['s'], direct, fam, ipaddress.ip_address(a) if fam == 4 else ipaddress.IPv6Address(a), w, fp, lp)
            bad = layer not in ('ok', 'usage')
            if rep.get('key', '').endswith('width-out-of-range-accepted'):
                bad = direct.startswith('ok ')
            return bad, 'parse_subnetport(%r) -> %s, through argparse: %s' % (case['s'], direct, layer)
        if st == 'ipport':
            direct, layer, val = run_ipport(R, case['s'])
            fam, a, port = case['expect']
            good = False
            if val is not None:
                try:
                    ip = ipaddress.ip_address(val[1])
                    good = fam_no(val[0]) == fam and int(ip) == a and val[2] == port
                except ValueError:
                    pass
            return (not good), 'parse_ipport(%r) -> %s' % (case['s'], direct)
        if st == 'listen':
            out = run_listen(R, case['s'])
            return out != case['expect'], '--listen %r -> %s; expected %s' % (case['s'], out, case['expect'])
        if st == 'hostport':
            out, val = run_hostport(R, case['s'])
            return val != tuple(case['expect']), 'parse_hostport(%r) -> %s' % (case['s'], out if val is None else repr(val))
        if st == 'env':
            o = case['option']
            ns, captured, args = R.main_with_env(case['env'], case['argv'] + ['10.0.0.0/8'], stop_after_parse=o not in CLIENT_ARG_INDEX)
            want = None
            for (k, v) in _occ(case['env']) + _occ(case['argv']):
                if k == o:
                    want = v
            got = observed_store(ns, o) if ns is not None else None
            via = captured[CLIENT_ARG_INDEX[o]] if (captured is not None and o in CLIENT_ARG_INDEX) else None
            bad = got != want or (via is not None and str(via) != want)
            return bad, 'SSHUTTLE_ARGS=%r argv=%r: parsed %s=%r (client.main got %r); command line, else environment, say %r; list parsed: %r' % (
                case['env'], case['argv'], o, got, via, want, args)
        if st == 'listen-env':
            out, _ns = run_listen_env(R, case['env'], case['argv'])
            return out != case['expect'], 'SSHUTTLE_ARGS=%r argv=%r: client.main got listeners %s; the last -l alone says %s' % (
                shlex.join(case['env']), case['argv'], out, case['expect'])
        if st == 'file':
            import tempfile
            d = tempfile.mkdtemp(prefix='c16-replay-')
            path = os.path.join(d, 'subnets.txt')
            try:
                with open(path, 'w', encoding='ascii', newline='') as f:
                    f.write(case['content'])
                got = run_subnet_file(R, path, case['option'], [])
            finally:
                os.unlink(path)
                os.rmdir(d)
            want = set(tuple(e) for e in case['expect'])
            if case['option'] != '-X':
                want = want | {CMDLINE_SUBNET}
            obs = None if got is None else canon_subnets(got[1] if case['option'] == '-X' else got[0])
            return obs != want, '%s <file %r>: client.main got %s; the file lists %s' % (
                case['option'], case['content'], 'nothing' if obs is None else sorted(obs), sorted(want))
        if st == 'file-reject':
            import tempfile
            d = tempfile.mkdtemp(prefix='c16-replay-')
            path = os.path.join(d, 'subnets.txt')
            try:
                with open(path, 'w', encoding='ascii', newline='') as f:
                    f.write(case['content'])
                out, good = run_reject_file(R, path, case['option'])
            finally:
                os.unlink(path)
                os.rmdir(d)
            return (not good), 'file %r (rejected text: %s): %s' % (case['content'], case.get('bad'), out)
        if st == 'unresolvable':
            out, good = run_unresolvable(R, case['kind'], case['s'])
            return (not good), '%s %r -> %s' % (case['kind'], case['s'], out)
        return False, 'unknown replay stream %r' % st
    finally:
        R.close()


def _occ(tokens):
    out = []
    i = 0
    while i < len(tokens):
        t = tokens[i]
        if '=' in t and t.startswith('--'):
            k, v = t.split('=', 1)
            out.append((k, v))
            i += 1
        else:
            out.append((t, tokens[i + 1]))
            i += 2
    return out
