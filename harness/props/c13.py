"""C13 — the helper receives exactly the plan and host updates the client sent.

Correspondence: the real `FirewallClient.start` / `sethostip` (object made with `__new__`, fields
set through `setup`) writing into a recording file, and the real `firewall.main` fed byte streams
(`setup_daemon`, `get_method`, `rewrite_etc_hosts` replaced by recorders, as the repository's own
test does), against `Code/FwDialogue.lean`.
Oracle (independent of the model): the recorded `setup_firewall` arguments and host map equal
what the client side was given; a truncated dialogue never reaches `setup_firewall` with
anything but the complete plan.
"""
import io
import os
import sys

import common
from common import hexb

RULE = ("cases = (a) plans given to the real FirewallClient (0-40 subnets per family incl. the longest IPv6 "
        "texts, all widths, port ranges, 0-5 name servers, ports {0,1,65535,...}, user/group {None, 0, "
        "4294967294, ...}, tmark, occasionally a non-ASCII text) whose written bytes go through the real helper; "
        "(b) HOST updates over the allowed alphabet with lengths {1,63,100,106,107,120,121,122,253}, and update "
        "histories per name on one client object (A,B,A; A,A; A,B,B,A; names interleaved); (b2) a failed or ended "
        "stdin read at every read index, also between the 128-byte pieces of long HOST lines (names 100-130, 250+); (c) every "
        "truncation point of rendered dialogues (after each line and inside lines); (d) malformed dialogues "
        "(field deleted/duplicated, signs, underscores, white space of every kind, non-ASCII bytes, over-long "
        "lines, wrong keywords, unknown commands). Every case runs at a verbosity level from the rotation "
        "[0,0,3,0,2,0,13,1] shifted by the seed (13 = level 3 with a failing stderr); the level is part of the replay. "
        "Non-trivial = the helper got past the first line; distinct = "
        "distinct byte stream / plan")
MANIFEST = dict(
    level_text=("Machine-checked Lean 4 theorems over a statement-by-statement model of FirewallClient.start/"
                "sethostip (the bytes % formats) and of firewall.main's reader (readline(128) pieces re-joined, "
                "decode/strip, split(',',5), int(), bool(int()), partition, split(' ',4), every Fatal, every bare "
                "unpack/int ValueError, the port asserts, the HOST loop): parse(render plan) returns exactly the plan "
                "for every plan in the writer's domain with any number of entries (C13_plan_roundtrip), every HOST "
                "update over the allowed alphabet of any length is reconstructed (C13_host_roundtrip), every "
                "truncation either stops before set-up or sets up exactly the complete plan (C13_truncation). The whole "
                "dialogue is one theorem (C13_dialogue_roundtrip): for every plan in the writer's domain, every sequence of "
                "host updates and every piece size of readline the helper holds exactly the plan, receives exactly the "
                "updates and its host map is the last-writer map (C13_hostmap_last_writer); and for EVERY byte prefix of "
                "that stream (C13_dialogue_prefix / C13_helper_prefix) it has either not started set-up or holds the "
                "complete plan and exactly a prefix of the update history, never partial data. The model "
                "is tied to the code on every run by a differential run of the real writer and the real helper plus an "
                "oracle on the recorded setup_firewall arguments."),
    level_note=("Trusted: Lean kernel; axioms propext/Classical.choice/Quot.sound only; the correspondence harness; "
                "the socketpair between client and helper (reliable ordered bytes, readline(n) semantics of a buffered "
                "binary stream); CPython int()/strip()/split() as modelled for ASCII text. Host names longer than the "
                "helper's 128-byte read hold for the repaired helper (fix commit 80ba208). "
                "Read faults are not part of the Lean stream model: the harness maps a failed stdin read at read index k to "
                "the stream cut at the preceding line boundary (the reader's try/except encloses the re-joining loop and "
                "returns None: pinned as READ_ERROR_DROPS_LINE) and an end of input to the stream cut at that byte; what the "
                "reader does with an unfinished last line is the regenerated flag HELPER_DROPS_UNFINISHED_LINE "
                "(C13_unfinished_line holds for both values; the current code keeps it: known finding)."),
    technique="Lean 4 proof (render/parse round trip by induction over the entry lists) + differential correspondence",
)
DRIVER_TARGETS = ['SshuttleModel.Code.FwDialogue']
ASSUMPTIONS = [
    "the socketpair between client and helper is a reliable ordered byte stream; stdin.readline(n) returns up to "
    "and including the next newline, at most n bytes, or what is left at end of input",
    "user/group reach FirewallClient as None or an int (client.main converts names with getpwnam/getgrnam)",
    "method.firewall_command(line) is BaseMethod's (returns False) for every method modelled",
]

AF_INET, AF_INET6 = 2, 10


# ------------------------------------------------------------------ real writer

ROTATION = [0, 0, 3, 0, 2, 0, 13, 1]     # verbosity per case; 13 = level 3 with a stderr whose write() fails
LEVEL = [0]
CASE_NO = [0]


def next_level(ctx, fixed=None):
    """Verbosity is a dimension of every case: the level comes from ROTATION, shifted by the seed (so over
    eight seeds every directed case has run at every level); it is stored in the replay case.  The oracle
    does not know the level: what arrives must not depend on it."""
    if fixed is None:
        fixed = ROTATION[(CASE_NO[0] + ctx.seed) % len(ROTATION)]
        CASE_NO[0] += 1
    LEVEL[0] = fixed
    ctx.hist('verbosity:%d' % fixed)
    return fixed


class EioStderr:
    def write(self, s):
        raise OSError(5, 'Input/output error')

    def flush(self):
        pass


def v_stderr():
    return EioStderr() if LEVEL[0] == 13 else io.StringIO()


class at_level:
    """`with at_level():` — sshuttle.helpers.verbose and sys.stderr set for the current case around a call
    into the real code, restored afterwards."""

    def __enter__(self):
        import sshuttle.helpers as helpers
        self.saved = (helpers, helpers.verbose, sys.stderr)
        helpers.verbose = LEVEL[0] % 10
        sys.stderr = v_stderr()

    def __exit__(self, *a):
        helpers, helpers.verbose, sys.stderr = self.saved[0], self.saved[1], self.saved[2]
        return False


class RecFile(io.BufferedIOBase):
    """pfile of the FirewallClient (what `s2.makefile('rwb')` returns): a real buffered-file object
    (so writelines() etc. exist) that records writes, answers READY to __init__ and STARTED to start()."""

    def __init__(self):
        self.written = b''
        self.answers = [b'READY nat\n']

    def writable(self):
        return True

    def readable(self):
        return True

    def write(self, b):
        self.written += bytes(b)
        return len(b)

    def flush(self):
        pass

    def readline(self, size=-1):
        return self.answers.pop(0) if self.answers else b'STARTED\n'

    def close(self):
        pass


class FakeProc:
    pid = 4244

    def poll(self):
        return None

    def wait(self):
        return 0


class _Proxy:
    """A module with a few names replaced (the OS boundary of FirewallClient.__init__)."""

    def __init__(self, real, **over):
        self.__dict__['_real'] = real
        self.__dict__.update(over)

    def __getattr__(self, n):
        return getattr(self._real, n)


def make_fw():
    """A FirewallClient built by its real __init__; only Popen, socketpair and the privilege test are
    replaced, so every attribute the class sets up for itself exists."""
    import sshuttle.client as client
    pfile = RecFile()

    class S:
        def close(self):
            pass

        def makefile(self, mode):
            return pfile

    saved = (client.ssubprocess, client.socket, client.is_admin_user, sys.stderr)
    client.ssubprocess = _Proxy(saved[0], Popen=lambda *a, **k: FakeProc())
    client.socket = _Proxy(saved[1], socketpair=lambda: (S(), S()))
    client.is_admin_user = lambda: True
    try:
        with at_level():
            fw = client.FirewallClient('nat', False)
    finally:
        (client.ssubprocess, client.socket, client.is_admin_user, sys.stderr) = saved
    assert fw.pfile is pfile
    return fw


class Session:
    """One real FirewallClient used the way client.main/_main use it: setup() while `auto_nets` is still
    empty, the server's route message appending to the list the object holds, start(), then any number
    of sethostip() calls on the same object."""

    def __init__(self):
        self.fw = make_fw()

    def start(self, plan):
        fw = self.fw
        fw.setup(list(plan['inc']), list(plan['exc']), list(plan['ns']), plan['p6'], plan['p4'], plan['d6'],
                 plan['d4'], plan['udp'], plan['user'], plan['group'], plan['tmark'])
        for net in plan['auto']:
            fw.auto_nets.append(tuple(net))      # what onroutes does for every accepted route
        w0 = len(fw.pfile.written)
        try:
            with at_level():
                fw.start()
        except UnicodeEncodeError:
            return 'unicodeEncodeError', b''
        return 'ok', fw.pfile.written[w0:]

    def sethostip(self, name, ip):
        fw = self.fw
        w0 = len(fw.pfile.written)
        try:
            with at_level():
                fw.sethostip(name, ip)
        except AssertionError:
            return 'assert', b''
        return 'ok', fw.pfile.written[w0:]


def run_start(plan):
    return Session().start(plan)


def run_sethostip(name, ip):
    return Session().sethostip(name, ip)


# ------------------------------------------------------------------ real reader

FATALS = [('expected ROUTES but', 'ROUTES'), ('expected route but', 'route'),
          ('expected route or NSLIST', 'routeOrNslist'), ('expected NSLIST but', 'NSLIST'),
          ('expected nslist but', 'nslist'), ('expected nslist or PORTS', 'nslistOrPorts'),
          ('expected PORTS but', 'PORTS'), ('expected 4 ports', '4ports'), ('expected GO', 'GO'),
          ('expected command', 'command')]


def err_tag(e, helpers):
    if isinstance(e, helpers.Fatal):
        msg = str(e)
        for pre, tag in FATALS:
            if msg.startswith(pre):
                return 'fatal:' + tag
        return 'fatal:?' + msg[:30]
    if isinstance(e, UnicodeDecodeError):
        return 'unicodeError'
    if isinstance(e, ValueError):
        return 'valueError'
    if isinstance(e, AssertionError):
        return 'assertion'
    return 'other:' + type(e).__name__


class Run:
    """One run of the real firewall.main over a byte stream."""

    def __init__(self, stream, stdin=None):
        import sshuttle.firewall as firewall
        import sshuttle.helpers as helpers
        from sshuttle.methods import BaseMethod
        run = self
        self.calls = []
        self.restores = []
        self.maps = []
        self.started = False
        self.error = None

        class Out:
            def write(self, b):
                if b == b'STARTED\n':
                    run.started = True

            def flush(self):
                pass

        class Method(BaseMethod):
            def is_supported(self):
                return True

            def setup_firewall(self, *args):
                run.calls.append(args)

            def restore_firewall(self, *args):
                run.restores.append(args)

        saved = (firewall.setup_daemon, firewall.get_method, firewall.rewrite_etc_hosts,
                 firewall.flush_systemd_dns_cache, firewall.sshuttle_pid, helpers.logprefix, sys.stderr,
                 helpers.verbose)
        firewall.setup_daemon = lambda: (stdin if stdin is not None else io.BytesIO(stream), Out())
        firewall.get_method = lambda name: Method('rec')
        firewall.rewrite_etc_hosts = lambda hostmap, port: run.maps.append((list(hostmap.items()), port))
        firewall.flush_systemd_dns_cache = lambda: None
        firewall.sshuttle_pid = None
        helpers.verbose = LEVEL[0] % 10
        sys.stderr = v_stderr()
        try:
            try:
                firewall.main('rec', False)
            except Exception as e:  # noqa
                self.error = err_tag(e, helpers)
            self.pid = firewall.sshuttle_pid
        finally:
            (firewall.setup_daemon, firewall.get_method, firewall.rewrite_etc_hosts,
             firewall.flush_systemd_dns_cache, firewall.sshuttle_pid, helpers.logprefix, sys.stderr,
             helpers.verbose) = saved
        # the clean-up call `rewrite_etc_hosts({}, port)` is not a host update
        if self.maps and self.maps[-1][0] == []:
            self.maps.pop()

    def canon(self):
        if not self.started:
            if self.error is None:
                return 'noInput'
            return 'before ' + self.error
        calls = '|'.join(show_call(c) for c in self.calls) or '-'
        maps = ''.join(show_map(m) + '|' for m, _p in self.maps) + '.'
        return 'ran calls=%s pid=%s maps=%s end=%s' % (calls, self.pid, maps, self.error or 'eof')


def tok(s):
    if isinstance(s, str):
        s = s.encode('latin-1')
    return hexb(s)


def show_opt(s):
    return 'N' if s is None else 'S' + tok(s)


def show_list(l, f):
    return ';'.join(f(x) for x in l) if l else '-'


def show_call(c):
    port, dnsport, nslist, family, subnets, udp, user, group, tmark = c
    return '%d:%d:%d:%s:%s:%d:%s:%s:%s' % (
        port, dnsport, family, show_list(nslist, lambda e: '%d/%s' % (e[0], tok(e[1]))),
        show_list(subnets, lambda s: '%d/%d/%d/%s/%d/%d' % (s[0], s[1], 1 if s[2] else 0, tok(s[3]), s[4], s[5])),
        1 if udp else 0, show_opt(user), show_opt(group), tok(tmark))


def show_map(m):
    return show_list(m, lambda e: tok(e[0]) + ',' + tok(e[1]))


# ------------------------------------------------------------------ the property, on plans (no model)

def ident_str(x):
    return None if x is None else (x if isinstance(x, str) else '%d' % x)


def expected_calls(plan):
    subs = [(f, w, False, ip, fp, lp) for (f, ip, w, fp, lp) in list(plan['inc']) + list(plan['auto'])] + \
           [(f, w, True, ip, fp, lp) for (f, ip, w, fp, lp) in plan['exc']]
    out = []
    for fam, port, dns in ((AF_INET6, plan['p6'], plan['d6']), (AF_INET, plan['p4'], plan['d4'])):
        s = [x for x in subs if x[0] == fam]
        n = [x for x in plan['ns'] if x[0] == fam]
        if s or n:
            out.append((port, dns, n, fam, s, bool(plan['udp']), ident_str(plan['user']),
                        ident_str(plan['group']), plan['tmark']))
    return out


def norm_calls(calls):
    return [(c[0], c[1], [tuple(x) for x in c[2]], c[3], [tuple(x) for x in c[4]], c[5], c[6], c[7], c[8])
            for c in calls]


# ------------------------------------------------------------------ model input lines

def cps(s):
    return '_'.join(str(ord(ch)) for ch in s) if s else 'e'


def ident_tok(x):
    if x is None:
        return 'N'
    if isinstance(x, str):
        return 's' + cps(x)
    return 'n%d' % x


def plan_line(plan, pid):
    inc = list(plan['inc']) + list(plan['auto'])
    sub = lambda s: '%d/%d/%s/%d/%d' % (s[0], s[2], cps(s[1]), s[3], s[4])  # noqa
    return 'start %s %s %s %d %d %d %d %d %s %s %s %d' % (
        show_list(inc, sub), show_list(plan['exc'], sub),
        show_list(plan['ns'], lambda e: '%d/%s' % (e[0], cps(e[1]))),
        plan['p6'], plan['p4'], plan['d6'], plan['d4'], 1 if plan['udp'] else 0,
        ident_tok(plan['user']), ident_tok(plan['group']), cps(plan['tmark']), pid)


# ------------------------------------------------------------------ generators

V4 = ['0.0.0.0', '1.2.3.0', '10.0.0.0', '192.168.100.128', '255.255.255.255', '127.0.0.1']
V6 = ['::', '::1', '2404:6800:4004:80c::', 'fe80::1', 'ffff:ffff:ffff:ffff:ffff:ffff:ffff:ffff',
      'ffff:ffff:ffff:ffff:ffff:ffff:255.255.255.255', '2001:db8::ff00:42:8329']
PORTS = [0, 1, 53, 1024, 12300, 65535]
IDS = [None, None, 0, 1000, 4294967294]
NAMECH = 'abcdefghijklmnopqrstuvwxyzABCDEFGHIJKLMNOPQRSTUVWXYZ0123456789-_.'


def rand_subnet(rng, fam):
    if fam == AF_INET:
        ip = rng.choice(V4 + ['%d.%d.%d.%d' % tuple(rng.randrange(256) for _ in range(4))])
        w = rng.choice([0, 1, 8, 24, 31, 32, rng.randrange(33)])
    else:
        ip = rng.choice(V6)
        w = rng.choice([0, 1, 64, 127, 128, rng.randrange(129)])
    fp = rng.choice(PORTS + [rng.randrange(65536)])
    lp = rng.choice([fp, 65535, rng.randrange(fp, 65536)]) if fp else rng.choice([0, 0, 65535])
    return (fam, ip, w, fp, lp)


def rand_plan(rng, big=False, odd=False):
    n = rng.choice([0, 1, 2, 3, 5]) if not big else rng.choice([20, 40])
    fams = rng.choice([[AF_INET], [AF_INET6], [AF_INET, AF_INET6], [AF_INET, AF_INET6]])
    inc = [rand_subnet(rng, rng.choice(fams)) for _ in range(n)]
    exc = [rand_subnet(rng, rng.choice(fams)) for _ in range(rng.choice([0, 1, 2]) if not big else rng.choice([0, 40]))]
    auto = [rand_subnet(rng, rng.choice(fams))[:3] + (0, 0) for _ in range(rng.choice([0, 0, 1, 2, 3]))]
    if auto and rng.random() < 0.3:
        inc = []                             # --auto-nets with no explicit subnets
    ns = [(f, rng.choice(V4 if f == AF_INET else V6)) for f in [rng.choice(fams) for _ in range(rng.choice([0, 1, 2, 5]))]]
    plan = dict(inc=inc, exc=exc, auto=auto, ns=ns,
                p6=rng.choice(PORTS), p4=rng.choice(PORTS), d6=rng.choice(PORTS), d4=rng.choice(PORTS),
                udp=rng.choice([False, True, 0, 1]), user=rng.choice(IDS), group=rng.choice(IDS),
                tmark=rng.choice(['0x01', '0x1', '0xffffffff', '0xdeadbeef', '1']))
    if odd:
        k = rng.randrange(6)
        if k == 0 and plan['inc']:
            s = plan['inc'][0]
            plan['inc'][0] = (s[0], rng.choice(['1.2.3.٤', 'café::', '1.2,3.4', ' 1.2.3.4', '1.2.3.4 ']), s[2], s[3], s[4])
        elif k == 1:
            plan['tmark'] = rng.choice(['0xé', '', '0x01 ', 'a b'])
        elif k == 2:
            plan['user'] = rng.choice(['alice', '-', '', 'a b', 'bücher', '1_0'])
        elif k == 3:
            plan['p4'] = rng.choice([65536, 100000])
        elif k == 4:
            plan['ns'] = plan['ns'] + [(AF_INET, rng.choice(['1.2.3.4,5', 'é', 'PORTS 1']))]
        else:
            plan['group'] = rng.choice(['wheel', '-', 'gäste'])
    return plan


def plan_in_domain(plan):
    """The writer's domain named by the property (what C13_plan_roundtrip assumes)."""
    def text_ok(t):
        return all(33 <= ord(c) < 127 and c != ',' for c in t) and t != ''
    for (f, ip, w, fp, lp) in list(plan['inc']) + list(plan['exc']) + list(plan['auto']):
        if f not in (AF_INET, AF_INET6) or not text_ok(ip):
            return False
    for (f, ip) in plan['ns']:
        if f not in (AF_INET, AF_INET6) or not text_ok(ip) or ip.startswith('PORTS'):
            return False
    for p in (plan['p6'], plan['p4'], plan['d6'], plan['d4']):
        if not 0 <= p <= 65535:
            return False
    for x in (plan['user'], plan['group']):
        if isinstance(x, str):
            return False
    t = plan['tmark']
    return all(33 <= ord(c) < 127 for c in t)


def rand_name(rng, n):
    return ''.join(rng.choice(NAMECH) for _ in range(n)).encode()


def rand_hostip(rng):
    return rng.choice(['1.2.3.4', '10.0.0.1', '255.255.255.255', '0.0.0.0', '1', '...', '',
                       '%d.%d.%d.%d' % tuple(rng.randrange(256) for _ in range(4))]).encode()


class Case:
    def __init__(self, kind, ins, outs, nontrivial=True):
        self.kind, self.ins, self.outs, self.nontrivial = kind, ins, outs, nontrivial


def helper_case(kind, stream):
    r = Run(stream)
    return Case(kind, ['helper ' + hexb(stream)], [r.canon()], r.started or (r.error not in (None, 'fatal:ROUTES'))), r


def check_plan(ctx, plan, hosts, logs, cuts, level=None):
    """Writer on the plan, the same client object on a HISTORY of host updates, helper on the written
    bytes, oracle, truncations.  An exception out of the real client code is a violation, not a crash."""
    case = dict(stream='plan', plan=plan, hosts=[(hexb(n), hexb(i)) for n, i in hosts], level=next_level(ctx, level))
    pid = os.getpid()
    try:
        ses = Session()
        kind, data = ses.start(plan)
    except Exception as e:  # noqa
        ctx.violation('C13:client:exception:' + type(e).__name__, case=case,
                      expected='FirewallClient() / setup() / start() complete', observed=repr(e)[:300])
        return
    logs.append(Case('start', [plan_line(plan, pid)], ['ok ' + hexb(data) if kind == 'ok' else kind]))
    ctx.hist('start:' + kind)
    if kind != 'ok':
        return
    stream = data
    sent = {}          # the property: last value announced per name
    for name, ip in hosts:
        try:
            k, line = ses.sethostip(name, ip)
        except Exception as e:  # noqa
            ctx.violation('C13:client:exception:' + type(e).__name__, case=case,
                          expected='sethostip() writes the update', observed=repr(e)[:300])
            return
        logs.append(Case('sethostip', ['host %s %s' % (hexb(name), hexb(ip))],
                         ['ok ' + hexb(line) if k == 'ok' else 'assert']))
        ctx.hist('sethostip:' + k)
        if k == 'ok':
            stream += line
            sent[name.decode()] = ip.decode()
    if len(hosts) > len(set(n for n, _i in hosts)):
        ctx.hist('history:repeated-name')
    c, r = helper_case('dialogue', stream)
    logs.append(c)
    indom = plan_in_domain(plan)
    ctx.hist('plan-in-domain' if indom else 'plan-outside-domain')
    if indom:
        exp = expected_calls(plan)
        if not r.started or norm_calls(r.calls) != norm_calls(exp) or r.pid != pid:
            ctx.violation('C13:plan:helper-reconstructs-different-plan', case=case,
                          expected=dict(calls=[show_call(x) for x in exp], pid=pid),
                          observed=dict(started=r.started, error=r.error, calls=[show_call(x) for x in r.calls], pid=r.pid))
        elif hosts:
            final = dict(r.maps[-1][0]) if r.maps else {}
            if final != sent or r.error is not None:
                longest = max(len(n) + len(i) for n, i in hosts)
                key = 'C13:host:long-line-split-by-readline' if longest > 121 else 'C13:host:update-lost-or-altered'
                ctx.violation(key, case=case,
                              expected=dict(hostmap=sent, end='eof'),
                              observed=dict(hostmap=final, end=r.error, updates=len(r.maps)),
                              note="after a history of updates the helper's host map must hold the last value "
                                   "announced for every name")
        # truncation
        exp_n = norm_calls(exp)
        for k in cuts(data):
            c2, r2 = helper_case('truncated', data[:k])
            logs.append(c2)
            if r2.calls and norm_calls(r2.calls) != exp_n:
                ctx.violation('C13:truncation:setup-with-partial-plan',
                              case=dict(stream='plan', plan=plan, hosts=[], cut=k, level=LEVEL[0]),
                              expected='no setup_firewall, or setup_firewall with the complete plan',
                              observed=dict(calls=[show_call(x) for x in r2.calls]))
            ctx.hist('trunc:' + ('setup' if r2.calls else (r2.error or 'noInput')))


class FaultyStdin:
    """The helper's stdin with one fault: read number `at` (0-based, counting every readline call,
    also the 128-byte pieces of a long line) fails with ConnectionResetError / EIO, or reports end of
    input; every later read reports end of input."""

    def __init__(self, data, at, kind):
        self.b = io.BytesIO(data)
        self.data, self.at, self.kind = data, at, kind
        self.reads = 0
        self.fault_pos = None

    def readline(self, n=-1):
        i = self.reads
        self.reads += 1
        if self.fault_pos is not None:
            return b''
        if i == self.at:
            self.fault_pos = self.b.tell()
            if self.kind == 'reset':
                raise ConnectionResetError(104, 'Connection reset by peer')
            if self.kind == 'eio':
                raise OSError(5, 'Input/output error')
            return b''
        return self.b.readline(n)

    def equivalent_stream(self):
        """What the helper may act on: end of input leaves the bytes read so far; a failed read also
        discards the pieces of the line it was reading (the property: a half-received line is not a line)."""
        if self.fault_pos is None:
            return self.data
        if self.kind == 'eof':
            return self.data[:self.fault_pos]
        return self.data[:self.data.rfind(b'\n', 0, self.fault_pos) + 1]


def check_faults(ctx, plan, hosts, logs, only=None, level=None):
    """Read faults at EVERY read index of the helper's stdin (also between the 128-byte pieces of long
    lines).  Oracle: every entry of every host map the helper acted on is one the client announced,
    verbatim; set-up happens only with the complete plan."""
    case0 = dict(stream='fault', plan=plan, hosts=[(hexb(n), hexb(i)) for n, i in hosts], level=next_level(ctx, level))
    try:
        ses = Session()
        kind, data = ses.start(plan)
        stream = data
        announced = set()
        for name, ip in hosts:
            k, line = ses.sethostip(name, ip)
            if k == 'ok':
                stream += line
                announced.add((name.decode(), ip.decode()))
    except Exception as e:  # noqa
        ctx.violation('C13:client:exception:' + type(e).__name__, case=case0, expected='client writes the dialogue',
                      observed=repr(e)[:300])
        return
    if kind != 'ok':
        return
    exp_n = norm_calls(expected_calls(plan))
    probe = FaultyStdin(stream, -1, 'eof')
    Run(stream, stdin=probe)
    total = probe.reads
    todo = [(at, kd) for at in range(total) for kd in ('eof', 'reset', 'eio')] if only is None else [only]
    for at, kd in todo:
        fs = FaultyStdin(stream, at, kd)
        r = Run(stream, stdin=fs)
        logs.append(Case('fault', ['helper ' + hexb(fs.equivalent_stream())], [r.canon()]))
        ctx.hist('fault:%s:%s' % (kd, 'ran' if r.started else 'before'))
        case = dict(case0, at=at, kind=kd)
        if r.error and r.error.startswith('other:'):
            ctx.violation('C13:fault:helper-exception:' + r.error, case=case,
                          expected='a failed read ends the helper through its clean-up path', observed=r.error)
            continue
        if r.calls and norm_calls(r.calls) != exp_n:
            ctx.violation('C13:truncation:setup-with-partial-plan', case=case,
                          expected='no setup_firewall, or setup_firewall with the complete plan',
                          observed=dict(calls=[show_call(x) for x in r.calls]))
            continue
        bad = [(n, i) for m, _p in r.maps for n, i in m if (n, i) not in announced]
        if bad:
            ctx.violation('C13:fault:half-line-acted-on:' + ('eof' if kd == 'eof' else 'ioerror'), case=case,
                          expected='every host-map entry is a pair the client announced, verbatim',
                          observed=dict(entry=[bad[0][0][:40] + ('...' if len(bad[0][0]) > 40 else ''), bad[0][1]],
                                        read_index=at, fault=kd),
                          note='the helper put a half-received HOST line into its host map (and the hosts file)')


def line_cuts(data):
    out = [0]
    for i, b in enumerate(data):
        if b == 10:
            out.append(i + 1)
    return [k for k in out if k < len(data)]


def mutate(rng, data):
    lines = data.split(b'\n')
    k = rng.randrange(14)
    i = rng.randrange(len(lines))
    ln = lines[i]
    if k == 0:
        lines[i] = ln.replace(b',', b'', 1)
    elif k == 1:
        lines[i] = ln + b',7'
    elif k == 2:
        lines[i] = rng.choice([b' ', b'\t', b'\x1c', b'\x0b', b'']) + ln + rng.choice([b' ', b'\r', b'\x1f ', b'\x0c'])
    elif k == 3:
        lines[i] = ln.replace(b',', rng.choice([b', ', b' ,', b',+', b',-', b',_', b',0_', b',1__0,', b',\x00']), 1)
    elif k == 4:
        j = rng.randrange(len(ln) + 1)
        lines[i] = ln[:j] + bytes([rng.choice([0x80, 0xc3, 0xff, 0xa0])]) + ln[j:]
    elif k == 5:
        lines[i] = ln + bytes(rng.choice(b'abcdef0123456789:., ') for _ in range(rng.choice([100, 127, 128, 129, 300])))
    elif k == 6:
        lines[i] = b''
    elif k == 7:
        lines[i] = rng.choice([b'NSLISTx', b'NSLIST', b'PORTS 1,2,3', b'PORTS 1,2,3,4,5', b'PORTS', b'PORTS  1,2,3,4',
                               b'PORTS 1,2,3,-4', b'PORTS 1,2,3,65536', b'PORTS 1_0,2,+3, 4 ', b'PORTS a,b,c,d',
                               b'GO 1 - -', b'GO  1 - - 0x1 5', b'GO 2 - - 0x1 5', b'GO x - - 0x1 5', b'GO 1 - - 0x1 5 6',
                               b'GO 1 - - 0x1', b'GO 1 -  0x1 5', b'GO 0 0 0 0 0', b'GO\t1 - - 0x1 5', b'ROUTES', b'routes',
                               b'HOST a,1.2.3.4', b'HOST a', b'HOST ', b'HOST', b'HOSTa,1', b'HOST a,b,c', b'FOO', b'3,24,0,1.2.3.0,0,0',
                               b'2,24,2,1.2.3.0,0,0', b'2,24,-1,1.2.3.0,0,0', b'2,x,0,1.2.3.0,0,0', b'-2,24,0,1.2.3.0,0,0',
                               b'2,24,0,1.2.3.0,0', b'2,24,0,1.2.3.0,0,0,0', b'7,1.2.3.4', b'x,1.2.3.4', b'2'])
    elif k == 8:
        lines.insert(i, ln)
    elif k == 9:
        del lines[i]
    elif k == 10 and len(lines) > 2:
        j = rng.randrange(len(lines))
        lines[i], lines[j] = lines[j], lines[i]
    elif k == 11:
        lines.append(rng.choice([b'HOST x,1.1.1.1', b'HOST x,2.2.2.2', b'HOST y,1', b'HOST \xc3\xbc,1', b'HOST ,', b'BAR',
                                 b'HOST ' + b'n' * 130 + b',1.2.3.4', b' ', b'HOST  a , 1 ']))
        lines.append(rng.choice([b'HOST x,3.3.3.3', b'', b'HOST z,4.4.4.4']))
        lines.append(b'')
    elif k == 12:
        lines[i] = ln.upper() if rng.random() < 0.5 else ln.lower()
    else:
        j = rng.randrange(len(ln) + 1)
        lines[i] = ln[:j] + rng.choice([b'\n', b'\r', b' ', b',', b'\x00']) + ln[j:]
    return b'\n'.join(lines)


def gen_cases(ctx):
    import sshuttle.helpers as helpers  # noqa
    rng = ctx.rng
    logs = []
    # fixed corpus: the repository's own test dialogue and boundary HOST updates
    corpus = (b"ROUTES\n2,24,0,1.2.3.0,8000,9000\n2,32,1,1.2.3.66,8080,8080\n10,64,0,2404:6800:4004:80c::,0,0\n"
              b"10,128,1,2404:6800:4004:80c::101f,80,80\nNSLIST\n2,1.2.3.33\n10,2404:6800:4004:80c::33\n"
              b"PORTS 1024,1025,1026,1027\nGO 1 - - 0x01 12345\nHOST 1.2.3.3,existing\n")
    logs.append(helper_case('corpus', corpus)[0])
    base = dict(inc=[(AF_INET, '1.2.3.0', 24, 8000, 9000), (AF_INET6, 'ffff:ffff:ffff:ffff:ffff:ffff:255.255.255.255', 128, 65535, 65535)],
                exc=[(AF_INET, '1.2.3.66', 32, 8080, 8080)], auto=[(AF_INET, '10.0.0.0', 8, 0, 0)],
                ns=[(AF_INET, '1.2.3.33'), (AF_INET6, '2404:6800:4004:80c::33')],
                p6=1024, p4=1025, d6=1026, d4=1027, udp=True, user=None, group=4294967294, tmark='0xffffffff')
    every = lambda d: range(len(d))  # noqa
    check_plan(ctx, base, [(b'existing', b'1.2.3.3')], logs, every if ctx.thorough else
               (lambda d: sorted(set(line_cuts(d) + rng.sample(range(len(d)), 60)))))
    for n in [1, 63, 100, 106, 107, 115, 120, 121, 122, 253]:
        for ip in [b'1.2.3.4', b'255.255.255.255']:
            check_plan(ctx, base, [(b'a.example', b'10.0.0.1'), (rand_name(rng, n), ip), (b'a.example', b'10.0.0.2')],
                       logs, lambda d: [])
    # stdin read faults at every read index, long HOST lines with the comma before and after byte 128
    for n in ([100, 107, 115, 122, 123, 130, 250, 253] if not ctx.thorough else list(range(100, 131)) + [250, 253, 300]):
        check_faults(ctx, base, [(b'a.example', b'10.0.0.1'), (rand_name(rng, n), b'192.168.100.200'),
                                 (b'b.example', b'10.0.0.2')], logs)
    # update histories per name on one client object (last announced value must win)
    A, B, C = b'10.0.0.1', b'10.0.0.2', b'10.0.0.3'
    for hist in [[(b'h', A), (b'h', B), (b'h', A)], [(b'h', A), (b'h', A)], [(b'h', A), (b'h', B), (b'h', B), (b'h', A)],
                 [(b'h', A), (b'g', A), (b'h', B), (b'g', C), (b'h', A), (b'g', A)],
                 [(b'h', A), (b'h', B), (b'h', C), (b'h', B), (b'h', A), (b'h', A), (b'h', C)]]:
        check_plan(ctx, base, hist, logs, lambda d: [])
    for _ in range(ctx.scale(40, 600)):
        names = [rand_name(rng, rng.choice([1, 5, 20])) for _ in range(rng.choice([1, 2, 3]))]
        ips = [A, B, C, rand_hostip(rng)]
        hist = [(rng.choice(names), rng.choice(ips)) for _ in range(rng.choice([2, 3, 4, 6, 9]))]
        check_plan(ctx, base, hist, logs, lambda d: [])
    # random plans
    for i in range(ctx.scale(120, 1500)):
        plan = rand_plan(rng, big=(i % 30 == 7), odd=(i % 5 == 3))
        hosts = [(rand_name(rng, rng.choice([1, 5, 20, 63, 100, 114, 115, 120, 253])), rand_hostip(rng))
                 for _ in range(rng.choice([0, 0, 1, 3]))]
        if rng.random() < 0.15:
            hosts.append((rng.choice([b'web/srv', b'a,b', b'b\xc3\xbccher', b'a b', b'x\n']), b'1.2.3.4'))
        if rng.random() < 0.1:
            hosts.append((b'ok', rng.choice([b'1.2.3.4 ', b'::1', b'1.2.3.\xd9\xa4'])))
        if i % 10 == 0:
            cuts = (lambda d: range(len(d))) if (ctx.thorough or i % 40 == 0) else \
                (lambda d: sorted(set(line_cuts(d) + rng.sample(range(len(d)), min(len(d), 25)))))
        else:
            cuts = line_cuts if len(plan['inc']) < 10 else (lambda d: [])
        check_plan(ctx, plan, hosts, logs, cuts)
    # malformed dialogues
    for _ in range(ctx.scale(700, 12000)):
        plan = rand_plan(rng)
        next_level(ctx)
        try:
            k, data = run_start(plan)
        except Exception:  # noqa  (reported with a replay by check_plan on the same kind of plan)
            continue
        data += rng.choice([b'', b'HOST a,1.2.3.4\n', b'HOST a,1.2.3.4\nHOST b,5.6.7.8\nHOST a,9.9.9.9\n'])
        for _ in range(rng.choice([1, 1, 2])):
            data = mutate(rng, data)
        c, r = helper_case('malformed', data)
        logs.append(c)
        ctx.hist('malformed:' + ('ran/' + (r.error or 'eof') if r.started else (r.error or 'noInput')))
    for data in [b'', b'\n', b' \n', b'ROUTES', b'ROUTES\n', b'ROUTES\nNSLIST\nPORTS 0,0,0,0\nGO 0 - - 0 0\n',
                 b'ROUTES\nNSLIST\nPORTS 0,0,0,0\nGO 0 - - 0 0', b'\xff\n', b'ROUTES\n\xff\n', b'x' * 300]:
        logs.append(helper_case('edge', data)[0])
    return logs


def compare(ctx, logs):
    if not ctx.model_available:
        ctx.notes.append('model driver unavailable: correspondence skipped, oracle only')
        return
    ins = [l for lg in logs for l in lg.ins]
    outs = common.LeanBatch('C13').run(ins)
    if len(outs) != len(ins):
        ctx.corr_break('C13', case=None, impl='%d lines' % len(ins), model='%d lines' % len(outs),
                       note='driver output length differs')
        return
    pos = 0
    for lg in logs:
        n = len(lg.ins)
        mo = outs[pos:pos + n]
        pos += n
        if mo != lg.outs:
            i = next(k for k in range(n) if mo[k] != lg.outs[k])
            ctx.corr_break(lg.kind, case=lg.ins[:i + 1], impl=lg.outs[i], model=mo[i])
            if len(ctx.corr_breaks) > 20:
                return


def run(ctx):
    import sshuttle.helpers as helpers
    old = helpers.verbose
    CASE_NO[0] = 0
    try:
        logs = gen_cases(ctx)
    finally:
        helpers.verbose = old
        LEVEL[0] = 0
    seen = set()
    for lg in logs:
        ctx.count()
        ctx.hist('kind:' + lg.kind)
        ctx.mark(lg.ins, lg.nontrivial)
        if lg.kind not in seen:
            seen.add(lg.kind)
            ctx.sample(dict(kind=lg.kind, input=[l[:160] for l in lg.ins[:2]],
                            real_code_output=[l[:200] for l in lg.outs[:2]]), limit=8)
    compare(ctx, logs)


def search(ctx):
    run(ctx)


def replay(ctx, rep):
    case = rep['case']
    plan = case['plan']
    plan = dict(plan, inc=[tuple(x) for x in plan['inc']], exc=[tuple(x) for x in plan['exc']],
                auto=[tuple(x) for x in plan['auto']], ns=[tuple(x) for x in plan['ns']])
    hosts = [(common.unhex(n), common.unhex(i)) for n, i in case.get('hosts', [])]
    c2 = common.Ctx('C13', 'quick', 0)
    lv = case.get('level', 0)
    try:
        if case.get('stream') == 'fault':
            check_faults(c2, plan, hosts, [], only=(case['at'], case['kind']), level=lv)
        elif 'cut' in case:
            check_plan(c2, plan, [], [], lambda d: [case['cut']], level=lv)
        else:
            check_plan(c2, plan, hosts, [], lambda d: [], level=lv)
    finally:
        LEVEL[0] = 0
    if c2.violations:
        v = c2.violations[0]
        return True, '%s: observed %r' % (v['key'], v['observed'])
    return False, 'helper reconstructed the plan and host map given to the client'
