"""C01 — tunnelled TCP payload is delivered intact, in order, to the right peer.

The real Mux/MuxWrapper/SockWrapper/Proxy/runonce + client.onaccept_tcp + the real closures of
server.main run random schedules (tunnel_sim / tunnel_gen); every step is replayed on
`Code/Tunnel.lean` and the canonical states are compared.  Oracle on the real run: at every
step each endpoint has received a prefix of what the other wrote (per flow); after a fair
drain with both sides closed, everything.
"""
import common
import tunnel_gen as tg

RULE = ("scenario = 1..4 concurrent flows, random schedule of accepts, endpoint writes (sizes around the 2048 cut, "
        "the 64 KiB recv size, big), closes, Proxy callbacks with scripted recv/send grants (1, 7, 2048, 2049, all, "
        "would-block), pre_select, frame deliveries (connect immediate / in progress / EINVAL->SO_ERROR), idle "
        "runonce rounds, check_fullness, then a fair drain driven by what pre_select asks for; non-trivial = a "
        "payload crossed the frame cut, a short write or would-block occurred, or >1 flow carried data; distinct = "
        "distinct step script")
DRIVER_TARGETS = ['SshuttleModel.Code.Tunnel']
DRIVERS = ['Tunnel']
ASSUMPTIONS = [
    "sockets and the ssh pipe are reliable ordered byte streams; recv/send move an arbitrary prefix or would-block",
    "a socket that was shut down for writing refuses further data (EPIPE)",
    "the frame FIFO between the two Mux objects is C07's theorem (delivered frames = prefix of sent frames)",
    "flow ids are not re-used within the run (true for the first MAX_CHANNEL flows of a session: C06_fresh_before_wrap)",
]
MANIFEST = dict(
    level_text=("Lean 4 theorems over a statement-by-statement model of SockWrapper/MuxWrapper/Proxy.callback/"
                "pre_select, client accept, server new_channel and got_packet dispatch joined by frame FIFOs: for every "
                "schedule of steps (any number of flows, any recv/send grants, would-blocks, closes, errors, latency "
                "control on or off) the bytes delivered to each endpoint are a prefix of the bytes the peer endpoint "
                "wrote on the same flow (C01_prefix, invariant by induction over schedules). The model is replayed "
                "against the real classes and the real server.main closures on every run; the oracle checks the prefix "
                "relation on the real run after every step and completeness after a fair drain."),
    level_note=("Trusted: Lean kernel; the socket/pipe environment model; the harness fakes; that the operating system's "
                "select answers truthfully. Completeness ('eventually delivered') is a theorem as well (C01_complete in "
                "Props/C01_Complete.lean, built and audited by this check; it rests on the C02 machinery): after ANY history of "
                "the two select loops in their own alphabet (accepts, endpoint writes and closes, check_fullness, foreign "
                "traffic, runonce passes with any select answer and any socket behaviour, the model itself choosing the "
                "callbacks as ssnet.runonce does), once a pass at each end no longer lowers the termination measure - which "
                "happens after at most worldMu effective passes - every endpoint whose socket is still open has received "
                "exactly what the tunnel read from its peer, nothing is left unread while the tunnel end still reads, and "
                "every close has been passed on. The model's pass is compared with the real ssnet.runonce on every pass of "
                "every run (state and number of callbacks). Real kernel TCP and select are outside."),
    technique="Lean 4 proof (stream-decomposition invariant over all schedules) + differential replay on the real tunnel classes",
)


def scenario(ctx, rng, o):
    sc = tg.Scenario(rng, o)
    try:
        for _ in range(o.steps):
            sc.random_step()
            if sc.stop:
                break
            if not tg.oracle_prefix(ctx, sc, 'C01', 'random phase'):
                break
        if not sc.stop:
            q = sc.drain(on_round=lambda s: tg.oracle_prefix(ctx, s, 'C01', 'drain'))
            # close everything and let it finish
            for i in range(len(sc.t.flows)):
                sc.do(('ae', i))
                sc.do(('de', i))
            q = sc.drain(on_round=lambda s: tg.oracle_prefix(ctx, s, 'C01', 'final drain'))
            tg.oracle_prefix(ctx, sc, 'C01', 'end')
            if not sc.stop:
                tg.oracle_complete(ctx, sc, 'C01', q)
                if q:
                    tg.oracle_quiet(ctx, sc, 'C01')
        tg.oracle_alive(ctx, sc, 'C01', 'run')
        nontrivial = len(sc.t.flows) > 1 or any(len(b) > 2048 for b in sc.wrote.values())
        return sc.s.ins, sc.s.outs, nontrivial
    finally:
        sc.close()


def abort_then_new_flow(ctx, rng, chunks):
    return tg.abort_then_new_flow(ctx, rng, 'C01', chunks)


def wire_level(ctx, rng, grant, nframes):
    """The same guarantee one layer down: the real sender Mux writes its frames to the ssh pipe with short
    writes, a PING from the peer is handled while a DATA frame is only partly written, and the real receiver Mux
    decodes the byte stream.  What the receiver hands to channel 7 must be a prefix of the payload the sender
    framed for channel 7, and the receiver must not die on the stream."""
    from props import c07
    ssnet, _client, _helpers = c07._mods()
    r, w = c07.ScriptedR(), c07.ScriptedW()
    a = ssnet.Mux(r, w)
    b, br, _bw = c07.make_mux(ssnet)
    payload = tg.payload(rng, 2048 * nframes - 5, 7)
    for k in range(0, len(payload), 2048):
        a.send(7, ssnet.CMD_TCP_DATA, payload[k:k + 2048])
    w.grant = 15
    a.flush()
    w.grant = grant
    a.flush()
    r.next = ('d', c07.encode((0, ssnet.CMD_PING, b'rttest')))
    a.handle()
    guard = 0
    while a.outbuf and guard < 5000:
        guard += 1
        w.grant = rng.choice([1, 7, 64, 2000, 1 << 20])
        a.flush()
    got, died = b'', None
    try:
        pos, wire = 0, w.written
        while pos < len(wire):
            k = min(rng.choice([1, 8, 9, 100, 4096, len(wire)]), 32768)      # one read of the tunnel is at most 32 KiB
            br.next = ('d', wire[pos:pos + k])
            b.handle()
            pos += k
    except Exception as e:  # noqa
        died = repr(e)
    got = b''.join(d for (c, m, d) in b.frames if c == 7 and m == ssnet.CMD_TCP_DATA)
    if got != payload[:len(got)] or died or len(got) != len(payload):
        ctx.violation('C01:wire:delivered-bytes-differ-from-sent-after-short-write',
                      case=dict(kind='wire-level', grant=grant, nframes=nframes),
                      expected='channel 7 receives exactly the %d bytes framed for it' % len(payload),
                      observed='%d bytes, first difference at %s, receiver %s' % (
                          len(got), next((i for i in range(min(len(got), len(payload))) if got[i] != payload[i]), None),
                          died or 'alive'))


def run(ctx):
    rng = ctx.rng
    tg.set_verbosity_seed(ctx.seed)
    all_in, all_out = [], []
    for chunks in (2, 3, 5):
        ins, outs = abort_then_new_flow(ctx, rng, chunks)
        all_in.append(ins)
        all_out.append(outs)
        ctx.count()
        ctx.mark(('abort-new-flow', chunks), True)
        ctx.hist('directed:abort-then-new-flow')
    for grant in (1, 8, 9, 700, 2055, 2056, 2057):
        wire_level(ctx, rng, grant, rng.choice([1, 2, 3]))
        ctx.count()
        ctx.mark(('wire', grant), True)
        ctx.hist('directed:wire-level-short-write')
    # a backlog: dozens of full frames queued before the pipe takes anything (many bulk flows in one pass, or a slow
    # pipe) — beyond any batch size or byte cap a flush might work with
    for grant, nfr in ((1 << 20, 33), (1 << 20, 70), (65536, 40), (4096, 130)):
        wire_level(ctx, rng, grant, nfr)
        ctx.count()
        ctx.mark(('wire-backlog', grant, nfr), True)
        ctx.hist('directed:wire-level-backlog')
    for tag, fn in (('stop-with-buffered-reply', lambda: tg.stop_with_buffered_reply(ctx, rng, 'C01')),
                    ('odd-destinations', lambda: tg.odd_destinations(ctx, rng, 'C01'))):
        ins, outs = fn()
        all_in.append(ins)
        all_out.append(outs)
        ctx.count()
        ctx.mark(('directed', tag), True)
        ctx.hist('directed:' + tag)
    n = ctx.scale(60, 1500)
    for k in range(n):
        o = tg.Opts(nflows=rng.choice([1, 1, 2, 3, 4]), steps=rng.randrange(20, 90),
                    latency=rng.random() < 0.4, bufsize=rng.choice([1, 100, 2048, 32768, 1000000]),
                    big=(k % 10 == 0), foreign=rng.random() < 0.3,
                    maxchan=rng.choice([65535, 65535, 5]), chani=rng.choice([0, 0, 65533]), epipe=(k % 4 == 1))
        if o.maxchan == 5:
            o.chani = rng.randrange(0, 6)
        ins, outs, nontrivial = scenario(ctx, rng, o)
        all_in.append(ins)
        all_out.append(outs)
        ctx.count()
        ctx.mark(tuple(ins), nontrivial)
        ctx.hist('flows=%d' % o.nflows)
        ctx.hist('latency' if o.latency else 'no-latency')
        if k < 2:
            ctx.sample(dict(script=ins[:12], real_code_state=outs[:3]))
        if len(ctx.violations) > 3:
            break
    ctx.hist('steps_total', sum(len(i) for i in all_in))
    tg.compare(ctx, all_in, all_out, 'C01')


def replay(ctx, rep):
    if rep.get('case', {}).get('kind') == 'wire-level':
        c2 = type(ctx)(ctx.prop_id, 'quick', 0)
        wire_level(c2, c2.rng, rep['case']['grant'], rep['case']['nframes'])
        return bool(c2.violations), (c2.violations[0]['observed'] if c2.violations else 'bytes arrive intact')
    if ':work:' in rep.get('key', ''):
        return tg.replay_work(rep['case'])
    s, wrote = tg.replay_script(rep['case'])
    try:
        common_verdict = tg.replay_common(s)
        if common_verdict:
            return common_verdict
        t = s.t
        for i, f in enumerate(t.flows):
            up, down = wrote.get((i, 'app'), b''), wrote.get((i, 'dst'), b'')
            if f.dst.delivered != up[:len(f.dst.delivered)] or f.app.delivered != down[:len(f.app.delivered)]:
                return True, 'flow %d: delivered bytes are not a prefix of the written ones' % i
        if t.died:
            return True, 'process died: %s' % t.died
        if 'liveness' in rep.get('key', ''):
            tg.continue_fairly(s, rep['case'].get('script', []))
            if t.died:
                return True, 'process died: %s' % t.died
            which = rep['case'].get('flow')
            for i, f in enumerate(t.flows):
                if which is not None and i != which:
                    continue
                up, down = wrote.get((i, 'app'), b''), wrote.get((i, 'dst'), b'')
                if f.app.eof_in and f.dst.eof_in and (f.dst.delivered != up or f.app.delivered != down):
                    return True, ('flow %d: bytes missing after the recorded schedule and a fair continuation '
                                  '(dst got %d of %d, app got %d of %d)' % (i, len(f.dst.delivered), len(up),
                                                                           len(f.app.delivered), len(down)))
        if 'destination-form' in rep.get('key', ''):
            for i, f in enumerate(t.flows):
                if not f.s_ever:
                    return True, 'flow %d: the server never opened the destination the client asked for' % i
        return False, 'prefix relation holds on the recorded schedule'
    finally:
        s.close()
