"""C10 — DNS queries are relayed verbatim, matched to their asker, at most once.

Correspondence: the real client (`MultiListener.add_handler` -> `ondns`, `dns_done`,
`expire_connections`, a real `Mux`) and the real `server.main` loop with `DnsProxy` on fake
datagram sockets and a scripted clock (harness/dgram_engine.py), against
`Code/Dgram.lean`, `Code/Dns.lean`, `Code/Udp.lean`, `Code/DgramSys.lean`.
Oracle (independent of the model): the engine's own record of every query, resolver reply and
clock value versus the datagrams the fake sockets were handed.
"""
import dgram_engine as E

RULE = ("cases = scenarios (cfg line + steps) over the real client and server ends joined by two frame queues: "
        "DNS/UDP datagram captured (IPv4/IPv6 askers, payloads empty/1/512/4096/4097/commas/random), any other accept, "
        "clock advance (0, 1 tick, 29.999 s, 30 s, 30.001 s, 60 s, random), server round reading n frames with a scripted "
        "outcome for each connect/send, resolver reply or recv error on a chosen socket (live or retired), frame "
        "delivered to the client, injected duplicate/foreign frames, ids occupied/released by other flows; hand-written "
        "corpus for the 30 s boundary, three-attempt retries, connect errors, server-side expiry, no free id; every "
        "tenth random scenario uses MAX_CHANNEL in {2,3,4,6}; a scenario is non-trivial when at least two distinct "
        "oracle events occurred; distinct = distinct (cfg, step list); every case runs the real code at a verbosity taken from the rotation "
        "[0,0,3,0,2,0,13,1] shifted by the seed (13 = -vvv with a stderr whose write fails with EIO), stored in the "
        "replay's cfg as v=N; the oracle does not depend on it; directed 0- and 1-byte datagrams in both directions; the listener's .family is rotated too (today's "
        "socket constant / the pre-3.11 enum whose str() is 'AddressFamily.AF_INET' / a plain int, fam= in the cfg); "
        "histories at scale: 1, 5, 64, 65, 128, 129, 300 (thorough: 1000) concurrently outstanding queries / "
        "associations, all idle past the deadline or with a busy prefix kept alive, then accepts and late replies "
        "(tables shown as count/sum digests on both sides above 48 entries)")
MANIFEST = dict(
    level_text=("Machine-checked Lean 4 theorems (core only) over a statement-by-statement model of ondns/dns_done/"
                "expire_connections, Mux.next_channel, resolvconf_nameservers' line rule, DnsProxy.__init__/try_send/callback, "
                "dns_req and the server loop's round + sweeps, for ALL scripts: (C10_reply_goes_to_its_asker) in every honest "
                "run of both ends joined by the tunnel in which no id is given to two queries, every datagram sent for a query "
                "goes to the address that asked, from its original destination, and is unchanged a datagram read from a "
                "resolver socket of the handler created for that query's own bytes — an invariant over arbitrary step lists; "
                "(C10_attempts_per_query) over the whole life of a query, for every interleaving of send errors, receive "
                "errors of any errno, replies, duplicates and sweeps: at most DNS_MAX_TRIES (=3, regenerated) sockets/datagrams "
                "per QUERY (not per try_send call), each the query verbatim, at most one DNS_RESPONSE, and the relayed reply "
                "arrived on one of those sockets; (C10_at_most_once / C10_right_asker) on the client for arbitrary incoming "
                "frames; hop-wise verbatim, retry only on NET_ERRS, release on answer/expiry, one clock domain "
                "(C10_one_clock + pin of every clock read), resolv.conf trailing text ignored. Tied to the code on every run "
                "by a differential run of the real client and the real server.main loop on fake sockets plus an "
                "implementation-level oracle (incl. socket-release and descriptor-budget oracles)."),
    level_note=("Trusted: Lean kernel; propext/Classical.choice/Quot.sound only; the harness and its fake sockets/clock; the "
                "tunnel as a FIFO of frames (C07). The end-to-end theorem needs 'no id is reassigned' (hypothesis on the run; "
                "C10_full_false proves it cannot be dropped: witness with MAX_CHANNEL=2, recorded as known finding F19) and is "
                "stated for DNS-only honest runs (no UDP capture, no forged frame; one ready descriptor per server round). "
                "The model keeps all per-query server state (socks, peers, tries) in the handler record, which a round drops "
                "once ok=false (C10_one_live_socket bounds it); that the runtime then closes the descriptors is NOT modelled "
                "in Lean: it is checked on the real code by the harness's resource oracle (sockets of retired queries must be "
                "released; EMFILE under a 16-descriptor budget in a 40-query sequential history). Which clock a read uses is a "
                "pin on the source (Gen.C10.CLOCK_READS), the model has one clock parameter per event. Real resolvers and "
                "random.shuffle's distribution are outside."),
    technique="Lean 4 proof (invariants by induction over arbitrary step lists, whole-life induction per query) + differential correspondence with the real code",
)
DRIVER_TARGETS = ['SshuttleModel.Code.DgramSys', 'SshuttleModel.Gen.C10', 'SshuttleModel.Gen.C11']
EXTRA_TARGETS = DRIVER_TARGETS
ASSUMPTIONS = [
    "the listener's recvmsg() fake cuts control messages to the offered buffer (MSG_CTRUNC) and the payload to the "
    "receive size (MSG_TRUNC) as Linux does; it is compared with real loopback sockets on every run",
    "the tunnel delivers frames reliably and in order (C07); one ready descriptor per server round",
    "the clock is quantised to 1/1024 s so that time.time()+30 is exact in floating point",
    "getaddrinfo succeeds on the numeric resolver addresses; socket() itself does not fail",
    "no id is reassigned while the server still has a handler for it (needed only for end-to-end matching)",
]


def run(ctx):
    E.run_property(ctx, 'C10', 'dns')


def replay(ctx, rep):
    return E.replay_case('C10', rep)
