"""C10 — DNS queries are relayed verbatim, matched to their asker, at most once.

Correspondence: the real client (`MultiListener.add_handler` -> `ondns`, `dns_done`,
`expire_connections`, a real `Mux`) and the real `server.main` loop with `DnsProxy` on fake
datagram sockets and a scripted clock (harness/dgram_engine.py), against
`Code/Dgram.lean`, `Code/Dns.lean`, `Code/Udp.lean`, `Code/DgramSys.lean`.
Oracle (independent of the model): the engine's own record of every query, resolver reply and
clock value versus the datagrams the fake sockets were handed.
"""
import dgram_engine as E

RULE = ("cases = scenarios (cfg line + steps) over the real client and server ends joined by two frame queues: "
        "DNS/UDP datagram captured (IPv4/IPv6 askers, payloads empty/1/512/4096/4097/commas/random), any other accept, "
        "clock advance (0, 1 tick, 29.999 s, 30 s, 30.001 s, 60 s, random), server round reading n frames with a scripted "
        "outcome for each connect/send, resolver reply or recv error on a chosen socket (live or retired), frame "
        "delivered to the client, injected duplicate/foreign frames, ids occupied/released by other flows; hand-written "
        "corpus for the 30 s boundary, three-attempt retries, connect errors, server-side expiry, no free id; every "
        "tenth random scenario uses MAX_CHANNEL in {2,3,4,6}; a scenario is non-trivial when at least two distinct "
        "oracle events occurred; distinct = distinct (cfg, step list)")
MANIFEST = dict(
    level_text=("Machine-checked Lean 4 theorems over a statement-by-statement model of ondns/dns_done/"
                "expire_connections, Mux.next_channel, DnsProxy.__init__/try_send/callback, dns_req and the "
                "dnshandlers sweep: payloads are never altered on any hop (C10_verbatim), every datagram sent to an "
                "asker goes to the asker recorded for that query from its original destination (C10_right_asker), "
                "at most one datagram per query for every sequence of events and arbitrary incoming frames "
                "(C10_at_most_once), at most three resolver sockets per query and a retry only after a NET_ERRS "
                "errno (C10_tries), release on answer / lazy expiry without disturbing newer queries (C10_release). "
                "Tied to the code on every run by a differential run of the real client and the real server.main "
                "loop on fake sockets, plus an implementation-level oracle."),
    level_note=("Trusted: Lean kernel; propext/Classical.choice/Quot.sound only; the harness and its fake sockets/"
                "clock; the tunnel as a FIFO of frames (C07). Matching a reply to *its* query end to end needs "
                "'no id is reassigned while an old server handler lives' (C10_full_false: false for small "
                "MAX_CHANNEL, recorded as known finding). The model keeps all per-query server state (socks, peers, tries) in the handler record, which a round drops once ok=false (C10_one_live_socket bounds it); that the runtime then closes the descriptors is NOT modelled in Lean: it is checked on the real code by the harness's resource oracle (sockets of retired queries must be released; EMFILE under a 16-descriptor budget in a 40-query sequential history). Real resolvers and random.shuffle's distribution are outside."),
    technique="Lean 4 proof (invariants by induction over arbitrary step lists) + differential correspondence with the real code",
)
DRIVER_TARGETS = ['SshuttleModel.Code.DgramSys', 'SshuttleModel.Gen.C10', 'SshuttleModel.Gen.C11']
EXTRA_TARGETS = DRIVER_TARGETS
ASSUMPTIONS = [
    "the tunnel delivers frames reliably and in order (C07); one ready descriptor per server round",
    "the clock is quantised to 1/1024 s so that time.time()+30 is exact in floating point",
    "getaddrinfo succeeds on the numeric resolver addresses; socket() itself does not fail",
    "no id is reassigned while the server still has a handler for it (needed only for end-to-end matching)",
]


def run(ctx):
    E.run_property(ctx, 'C10', 'dns')


def replay(ctx, rep):
    return E.replay_case('C10', rep)
