"""Regenerate lean/SshuttleModel/Generated.lean from /repo's *current* source.

Only values, tables and format strings are extracted (stdlib `ast`, no import of
the code).  The Lean models are parametric in / checked against these values
(`Instances.lean`), so a changed constant either flows into the theorems or
breaks a proof obligation.  Anything that cannot be found is emitted as a
comment and simply missing from the Lean file, which makes the build fail
(= proof obligation broken) instead of silently keeping an old value.
"""
import ast
import errno
import os
import socket
import sys

REPO = os.environ.get('VERIF_REPO', '/repo')
HERE = os.path.dirname(os.path.abspath(__file__))
OUT = os.path.join(os.path.dirname(HERE), 'lean', 'SshuttleModel', 'Generated.lean')


def parse(rel):
    with open(os.path.join(REPO, rel), 'rb') as f:
        return ast.parse(f.read(), rel)


def func(tree, qual):
    """Find a (possibly nested) function/class by dotted name."""
    node = tree
    for part in qual.split('.'):
        found = None
        for ch in ast.walk(node):
            if ch is node:
                continue
            if isinstance(ch, (ast.FunctionDef, ast.ClassDef)) and ch.name == part:
                found = ch
                break
        if found is None:
            raise KeyError(qual)
        node = found
    return node


def const_assign(tree, name):
    for n in tree.body:
        if isinstance(n, ast.Assign) and len(n.targets) == 1 and \
                isinstance(n.targets[0], ast.Name) and n.targets[0].id == name:
            return n.value
    raise KeyError(name)


def int_of(node, env=None):
    v = ast.literal_eval(node)
    if not isinstance(v, int):
        raise ValueError(v)
    return v


def calls(node, pred):
    out = []
    for n in ast.walk(node):
        if isinstance(n, ast.Call) and pred(n):
            out.append(n)
    return out


def callname(c):
    f = c.func
    if isinstance(f, ast.Name):
        return f.id
    if isinstance(f, ast.Attribute):
        return f.attr
    return None


def ints_in(node):
    return [n.value for n in ast.walk(node)
            if isinstance(n, ast.Constant) and type(n.value) is int]


def strs_in(node):
    return [n.value for n in ast.walk(node)
            if isinstance(n, ast.Constant) and isinstance(n.value, (str, bytes))]


class Gen:
    def __init__(self):
        self.lines = []
        self.problems = []

    def nat(self, name, fn):
        try:
            v = fn()
            assert isinstance(v, int) and v >= 0, v
            self.lines.append('def %s : Nat := %d' % (name, v))
        except Exception as e:  # noqa
            self.problems.append((name, repr(e)))
            self.lines.append('-- MISSING %s: %r' % (name, e))

    def natlist(self, name, fn):
        try:
            v = fn()
            self.lines.append('def %s : List Nat := [%s]' % (name, ', '.join(str(int(x)) for x in v)))
        except Exception as e:  # noqa
            self.problems.append((name, repr(e)))
            self.lines.append('-- MISSING %s: %r' % (name, e))

    def string(self, name, fn):
        try:
            v = fn()
            if isinstance(v, bytes):
                v = v.decode('latin-1')
            self.lines.append('def %s : String := %s' % (name, lean_str(v)))
        except Exception as e:  # noqa
            self.problems.append((name, repr(e)))
            self.lines.append('-- MISSING %s: %r' % (name, e))

    def strlist(self, name, fn):
        try:
            v = fn()
            self.lines.append('def %s : List String := [%s]' % (name, ', '.join(lean_str(x) for x in v)))
        except Exception as e:  # noqa
            self.problems.append((name, repr(e)))
            self.lines.append('-- MISSING %s: %r' % (name, e))

    def boolean(self, name, fn):
        try:
            v = fn()
            assert isinstance(v, bool)
            self.lines.append('def %s : Bool := %s' % (name, 'true' if v else 'false'))
        except Exception as e:  # noqa
            self.problems.append((name, repr(e)))
            self.lines.append('-- MISSING %s: %r' % (name, e))

    def raw(self, text):
        self.lines.append(text)


def lean_str(s):
    out = ['"']
    for ch in s:
        o = ord(ch)
        if ch == '"':
            out.append('\\"')
        elif ch == '\\':
            out.append('\\\\')
        elif ch == '\n':
            out.append('\\n')
        elif ch == '\t':
            out.append('\\t')
        elif ch == '\r':
            out.append('\\r')
        elif o < 32 or o == 127:
            out.append('\\x%02x' % o)
        else:
            out.append(ch)
    out.append('"')
    return ''.join(out)


def errno_list(node):
    out = []
    for e in node.elts:
        assert isinstance(e, ast.Attribute) and isinstance(e.value, ast.Name) and e.value.id == 'errno'
        out.append(getattr(errno, e.attr))
    return out



def errno_test(test, val):
    """Evaluate `e.args[0] <op> <errno expression>` for a concrete errno value (the only shapes the handlers use)."""
    if isinstance(test, ast.BoolOp):
        vs = [errno_test(v, val) for v in test.values]
        return all(vs) if isinstance(test.op, ast.And) else any(vs)
    if isinstance(test, ast.UnaryOp) and isinstance(test.op, ast.Not):
        return not errno_test(test.operand, val)
    assert isinstance(test, ast.Compare) and len(test.ops) == 1, ast.dump(test)
    lhs = test.left
    assert isinstance(lhs, ast.Subscript) and isinstance(lhs.value, ast.Attribute) and lhs.value.attr == 'args', ast.dump(lhs)
    rhs = test.comparators[0]
    op = test.ops[0]
    if isinstance(rhs, (ast.Tuple, ast.List)):
        vals = errno_list(rhs)
    else:
        vals = errno_list(ast.Tuple(elts=[rhs]))
    if isinstance(op, ast.Eq):
        return val == vals[0]
    if isinstance(op, ast.NotEq):
        return val != vals[0]
    if isinstance(op, ast.In):
        return val in vals
    if isinstance(op, ast.NotIn):
        return val not in vals
    raise ValueError(ast.dump(op))


def handler_raises(stmts, val):
    """Does this except-handler body re-raise for errno `val`?  (if/elif chains of errno tests, pass, raise,
    plain assignments and logging calls only; anything else is an error = MISSING = broken obligation)"""
    for st in stmts:
        if isinstance(st, ast.Raise):
            return True
        if isinstance(st, ast.Pass):
            continue
        if isinstance(st, ast.If):
            branch = st.body if errno_test(st.test, val) else st.orelse
            if handler_raises(branch, val):
                return True
            continue
        if isinstance(st, ast.Assign) or (isinstance(st, ast.Expr) and isinstance(st.value, ast.Call)
                                          and callname(st.value) in ('debug1', 'debug2', 'debug3', 'log')):
            continue
        if isinstance(st, ast.Return):
            return False
        raise ValueError('unexpected statement in handler: ' + ast.dump(st)[:80])
    return False


def handler_for(fn, exc_names):
    for n in ast.walk(fn):
        if isinstance(n, ast.ExceptHandler) and n.type is not None:
            t = n.type
            name = t.attr if isinstance(t, ast.Attribute) else getattr(t, 'id', None)
            if name in exc_names:
                return n
    raise KeyError(exc_names)


def linearise(stmts, classify):
    """The calls a statement list makes on its success path, in execution order (try body, then finally)."""
    out = []
    for st in stmts:
        if isinstance(st, ast.Return):
            out.append('return')
            return out
        if isinstance(st, ast.Try):
            assert not st.handlers and not st.orelse, 'only try/finally'
            body = linearise(st.body, classify)
            fin = linearise(st.finalbody, classify)
            if body and body[-1] == 'return':
                return body[:-1] + fin + ['return']
            out += body + fin
            continue
        if isinstance(st, (ast.Expr, ast.Assign)):
            v = st.value
            if isinstance(v, ast.Call):
                k = classify(v)
                if k:
                    out.append(k)
                continue
            if isinstance(v, ast.Constant):
                continue
        raise ValueError('unexpected statement: ' + ast.dump(st)[:80])
    return out


def features_of(tree, clsname='Method'):
    """Feature assignments in Method.get_supported_features (result.x = True/False)."""
    f = func(tree, clsname + '.get_supported_features')
    out = {}
    for n in ast.walk(f):
        if isinstance(n, ast.Assign) and len(n.targets) == 1 and isinstance(n.targets[0], ast.Attribute) \
                and isinstance(n.targets[0].value, ast.Name) and n.targets[0].value.id == 'result' \
                and isinstance(n.value, ast.Constant) and isinstance(n.value.value, bool):
            out[n.targets[0].attr] = n.value.value
    return out


def generate():
    g = Gen()
    ssnet = parse('sshuttle/ssnet.py')
    client = parse('sshuttle/client.py')
    server = parse('sshuttle/server.py')
    firewall = parse('sshuttle/firewall.py')
    options = parse('sshuttle/options.py')
    methods_init = parse('sshuttle/methods/__init__.py')

    g.raw('/- GENERATED by harness/extract_params.py from the working tree of the repository.')
    g.raw('   Do not edit: it is rewritten on every check run. -/')
    g.raw('namespace Sshuttle.Generated')
    g.raw('')
    g.raw('-- sshuttle/ssnet.py')
    for name in ['MAX_CHANNEL', 'LATENCY_BUFFER_SIZE', 'HDR_LEN', 'SHUT_RD', 'SHUT_WR', 'SHUT_RDWR']:
        g.nat(name, lambda name=name: int_of(const_assign(ssnet, name)))
    cmds = [n.targets[0].id for n in ssnet.body
            if isinstance(n, ast.Assign) and isinstance(n.targets[0], ast.Name)
            and n.targets[0].id.startswith('CMD_')]
    for name in cmds:
        g.nat(name, lambda name=name: int_of(const_assign(ssnet, name)))
    g.natlist('NET_ERRS', lambda: errno_list(const_assign(ssnet, 'NET_ERRS')))
    g.nat('EPIPE', lambda: errno.EPIPE)
    g.nat('EAGAIN', lambda: errno.EAGAIN)
    g.nat('EINPROGRESS', lambda: errno.EINPROGRESS)
    g.nat('EALREADY', lambda: errno.EALREADY)
    g.nat('EISCONN', lambda: errno.EISCONN)
    g.nat('EINVAL', lambda: errno.EINVAL)
    g.nat('EACCES', lambda: errno.EACCES)
    g.nat('EPERM', lambda: errno.EPERM)
    g.nat('EMFILE', lambda: errno.EMFILE)
    g.nat('ENFILE', lambda: errno.ENFILE)
    g.nat('AF_INET', lambda: int(socket.AF_INET))
    g.nat('AF_INET6', lambda: int(socket.AF_INET6))

    def try_connect_errs():
        f = func(ssnet, 'SockWrapper.try_connect')
        # `elif e.args[0] in NET_ERRS + [errno.EACCES, errno.EPERM]`
        for n in ast.walk(f):
            if isinstance(n, ast.BinOp) and isinstance(n.op, ast.Add) and \
                    isinstance(n.left, ast.Name) and n.left.id == 'NET_ERRS':
                return errno_list(n.right)
        raise KeyError('NET_ERRS + [...]')
    g.natlist('CONNECT_EXTRA_ERRS', try_connect_errs)
    g.nat('ENOTCONN', lambda: errno.ENOTCONN)
    g.nat('ENOTSOCK', lambda: errno.ENOTSOCK)
    # the errnos of getpeername() that _try_peername swallows (every other one is re-raised out of SockWrapper())
    g.natlist('PEERNAME_TOLERATED', lambda: [v for v in sorted(errno.errorcode)
                                             if not handler_raises(handler_for(func(ssnet, '_try_peername'),
                                                                               ('error', 'OSError')).body, v)])

    def one(xs, what):
        xs = sorted(set(xs))
        if len(xs) != 1:
            raise ValueError('%s: expected one value, got %r' % (what, xs))
        return xs[0]

    g.nat('ALLOC_PROBES', lambda: one(
        [int_of(c.args[0]) for c in calls(func(ssnet, 'Mux.next_channel'), lambda c: callname(c) == 'range')],
        'range() in next_channel'))
    g.nat('MUX_CUT', lambda: one(ints_in(func(ssnet, 'MuxWrapper.uwrite')) and
                                 [i for i in ints_in(func(ssnet, 'MuxWrapper.uwrite')) if i > 1], 'cut'))
    g.nat('MUX_READ_MAX', lambda: one([i for i in ints_in(func(ssnet, 'Mux.fill')) if i > 2], 'fill max'))
    g.nat('SEND_MAX_LEN', lambda: one([i for i in ints_in(func(ssnet, 'Mux.send')) if i > 2], 'send assert'))
    g.nat('SOCK_RECV_MAX', lambda: one([i for i in ints_in(func(ssnet, 'SockWrapper.uread')) if i > 2], 'uread'))
    g.string('HDR_FORMAT_PACK', lambda: one(
        [s for s in strs_in(func(ssnet, 'Mux.send')) if isinstance(s, str) and s.startswith(('!', '<', '>', '=', '@')) and 'H' in s],
        'pack fmt'))
    g.string('HDR_FORMAT_UNPACK', lambda: one(
        [s for s in strs_in(func(ssnet, 'Mux.handle')) if isinstance(s, str) and 'H' in s], 'unpack fmt'))
    g.string('PING_INIT_PAYLOAD', lambda: one(
        [s for s in strs_in(func(ssnet, 'Mux.__init__')) if s], 'init ping'))
    g.string('PING_RTT_PAYLOAD', lambda: one(
        [s for s in strs_in(func(ssnet, 'Mux.check_fullness')) if s], 'rttest'))

    g.raw('')
    g.raw('-- sshuttle/client.py')
    g.string('SYNC_EXPECTED', lambda: one(
        [s for s in strs_in(func(client, '_main')) if isinstance(s, bytes) and s.startswith(b'SSHUTTLE')], 'expected'))
    def emfile_branch():
        h = handler_for(func(client, 'onaccept_tcp'), ('error', 'OSError'))
        assert len(h.body) == 1 and isinstance(h.body[0], ast.If), 'if errno in [...]: ... else: raise'
        return h.body[0]

    # the errnos of listener.accept() that onaccept_tcp handles itself, and what it then does, in execution order
    g.natlist('ACCEPT_HANDLED', lambda: [v for v in sorted(errno.errorcode) if errno_test(emfile_branch().test, v)])

    def emfile_path():
        def classify(c):
            src = ast.unparse(c)
            if src.startswith('os.close(_extra_fd'):
                return 'close_extra'
            if src.startswith('listener.accept('):
                return 'accept'
            if src.startswith('sock.close('):
                return 'close_sock'
            if src.startswith('os.open('):
                return 'open_extra'
            if callname(c) in ('debug1', 'debug2', 'debug3', 'log'):
                return None
            raise ValueError('unexpected call ' + src)
        return linearise(emfile_branch().body, classify)
    g.strlist('EMFILE_PATH', emfile_path)
    g.nat('CLIENT_DNS_TIMEOUT', lambda: one([i for i in ints_in(func(client, 'ondns')) if i > 2 and i != 4096], 'ondns timeout'))
    g.nat('CLIENT_UDP_TIMEOUT', lambda: one([i for i in ints_in(func(client, 'onaccept_udp')) if i > 2 and i != 4096], 'udp timeout'))
    g.nat('CLIENT_DNS_RECV', lambda: one(
        [int_of(c.args[1]) for c in calls(func(client, 'ondns'), lambda c: callname(c) == 'recv_udp')], 'ondns recv'))
    g.nat('CLIENT_UDP_RECV', lambda: one(
        [int_of(c.args[1]) for c in calls(func(client, 'onaccept_udp'), lambda c: callname(c) == 'recv_udp')], 'udp recv'))

    def port_range():
        f = func(client, 'main')
        rs = []
        for c in calls(f, lambda c: callname(c) == 'range' and len(c.args) == 3):
            rs.append(tuple(int_of(a) if not isinstance(a, ast.UnaryOp) else ast.literal_eval(a) for a in c.args))
        rs = sorted(set(rs))
        if len(rs) != 1:
            raise ValueError(rs)
        return rs[0]
    g.nat('PORT_SEARCH_START', lambda: port_range()[0])
    g.nat('PORT_SEARCH_STOP', lambda: port_range()[1])
    g.nat('PORT_SEARCH_STEP_NEG', lambda: -port_range()[2])

    g.raw('')
    g.raw('-- sshuttle/server.py')
    g.string('SYNC_SENT', lambda: one(
        [s for s in strs_in(func(server, 'main')) if (s if isinstance(s, str) else s.decode('latin-1')).find('SSHUTTLE') >= 0], 'sync sent'))
    g.nat('SERVER_DNS_TIMEOUT', lambda: one([i for i in ints_in(func(server, 'DnsProxy.__init__')) if i > 3], 'dns timeout'))
    g.nat('SERVER_UDP_TIMEOUT', lambda: one([i for i in ints_in(func(server, 'UdpProxy.__init__')) if i > 3], 'udp timeout'))

    def dns_tries():
        f = func(server, 'DnsProxy.try_send')
        for n in ast.walk(f):
            if isinstance(n, ast.Compare) and isinstance(n.left, ast.Attribute) and n.left.attr == 'tries':
                op = type(n.ops[0]).__name__
                v = int_of(n.comparators[0])
                if op == 'GtE':
                    return v
                if op == 'Gt':
                    return v + 1
                raise ValueError(op)
        raise KeyError('tries compare')
    g.nat('DNS_MAX_TRIES', dns_tries)
    g.nat('SERVER_DNS_RECV', lambda: one(
        [int_of(c.args[0]) for c in calls(func(server, 'DnsProxy.callback'), lambda c: callname(c) == 'recv')], 'dns recv'))
    g.nat('SERVER_UDP_RECV', lambda: one(
        [int_of(c.args[0]) for c in calls(func(server, 'UdpProxy.callback'), lambda c: callname(c) == 'recvfrom')], 'udp recv'))
    g.nat('HOSTWATCH_RECV', lambda: one(
        [int_of(c.args[0]) for c in calls(func(server, 'main'), lambda c: callname(c) == 'recv')], 'hw recv'))

    g.raw('')
    g.raw('-- sshuttle/firewall.py')
    g.nat('FW_READLINE_MAX', lambda: one(
        [int_of(c.args[0]) for c in calls(func(firewall, 'main'), lambda c: callname(c) == 'readline' and c.args)],
        'readline(n)'))

    g.raw('')
    g.raw('-- method feature tables (methods/*.py get_supported_features) and option choices')

    def base_features():
        cls = func(methods_init, 'BaseMethod')
        f = func(methods_init, 'BaseMethod.get_supported_features')
        out = {}
        for n in ast.walk(f):
            if isinstance(n, ast.Assign) and isinstance(n.targets[0], ast.Attribute) and \
                    isinstance(n.value, ast.Constant) and isinstance(n.value.value, bool):
                out[n.targets[0].attr] = n.value.value
        return out

    feat_keys = ['ipv4', 'ipv6', 'udp', 'dns', 'user', 'group', 'loopback_proxy_port']
    for m in ['nat', 'nft', 'tproxy', 'pf', 'ipfw']:
        def feats(m=m):
            base = dict(base_features())
            tree = parse('sshuttle/methods/%s.py' % m)
            try:
                base.update(features_of(tree))
            except KeyError:
                pass
            return base
        for k in feat_keys:
            g.boolean('FEAT_%s_%s' % (m, k), lambda m=m, k=k, feats=feats: feats()[k])

    def assert_features_keys():
        f = func(methods_init, 'BaseMethod.assert_features')
        for n in ast.walk(f):
            if isinstance(n, ast.For) and isinstance(n.iter, (ast.List, ast.Tuple)):
                return [ast.literal_eval(e) for e in n.iter.elts]
        raise KeyError('for key in [...]')
    g.strlist('ASSERT_FEATURES_KEYS', assert_features_keys)

    def method_choices():
        for c in calls(options, lambda c: callname(c) == 'add_argument'):
            if c.args and isinstance(c.args[0], ast.Constant) and c.args[0].value == '--method':
                for kw in c.keywords:
                    if kw.arg == 'choices':
                        if isinstance(kw.value, ast.Name):
                            vals = [n.value for n in ast.walk(options)
                                    if isinstance(n, ast.Assign) and isinstance(n.targets[0], ast.Name)
                                    and n.targets[0].id == kw.value.id]
                            # the non-Windows branch is the last assignment
                            return [ast.literal_eval(e) for e in vals[-1].elts]
                        return [ast.literal_eval(e) for e in kw.value.elts]
        raise KeyError('--method choices')
    g.strlist('METHOD_CHOICES', method_choices)

    g.raw('')
    g.raw('end Sshuttle.Generated')
    return '\n'.join(g.lines) + '\n', g.problems


def write_if_changed(path, text):
    old = None
    if os.path.exists(path):
        with open(path) as f:
            old = f.read()
    if old != text:
        os.makedirs(os.path.dirname(path), exist_ok=True)
        with open(path, 'w') as f:
            f.write(text)


def per_property():
    """harness/params/<name>.py may define `generate(g, helpers)`; its output goes to
    lean/SshuttleModel/Gen/<Name>.lean inside `namespace Sshuttle.Gen.<Name>`."""
    import importlib
    problems = []
    pdir = os.path.join(HERE, 'params')
    if not os.path.isdir(pdir):
        return problems
    sys.path.insert(0, HERE)
    for fn in sorted(os.listdir(pdir)):
        if not fn.endswith('.py') or fn.startswith('_'):
            continue
        name = fn[:-3]
        cap = name[0].upper() + name[1:]
        g = Gen()
        g.raw('/- GENERATED by harness/params/%s from the working tree of the repository. Do not edit. -/' % fn)
        g.raw('namespace Sshuttle.Gen.%s' % cap)
        try:
            mod = importlib.import_module('params.' + name)
            importlib.reload(mod)
            mod.generate(g, sys.modules[__name__])
        except Exception as e:  # noqa
            g.problems.append((name, repr(e)))
            g.raw('-- MISSING (generator failed): %r' % (e,))
        g.raw('end Sshuttle.Gen.%s' % cap)
        write_if_changed(os.path.join(os.path.dirname(OUT), 'Gen', cap + '.lean'), '\n'.join(g.lines) + '\n')
        problems.extend(g.problems)
    return problems


def main():
    text, problems = generate()
    write_if_changed(OUT, text)
    problems = problems + per_property()
    for p in problems:
        print('extract_params: MISSING %s: %s' % p, file=sys.stderr)
    return problems


if __name__ == '__main__':
    main()
    sys.stdout.write(open(OUT).read())
