#!/bin/sh
# Run every registered quick check on the unchanged /repo for several seeds, from a scratch copy of /verif.
# Usage: [PROPS="C01 C02"] tools/seed_sweep.sh "1 2 3" [tier]      Prints one line per (check, seed); anything but exit=0 is a defect of the check.
SEEDS=${1:-"1 2 3"}
TIER=${2:-quick}
S=$(mktemp -d /tmp/verif_sweep_XXXXXX)
rsync -a --exclude .git --exclude replays /verif/ $S/verif/
mkdir -p $S/verif/replays
cd $S/verif
for sd in $SEEDS; do
  for p in ${PROPS:-$(cat harness/registered.txt)}; do
    OUT=$(VERIF_SEED=$sd ./check $p --tier $TIER 2>&1 | grep -E "^VIOLATION|tier=" | cut -c1-200)
    echo "$OUT" | grep -q "exit=0" || { echo "ALARM seed=$sd $p: $OUT"; cp replays/$p-$sd-0.json /tmp/sweep_$p-$sd.json 2>/dev/null; }
    echo "$OUT" | tail -1 | cut -c1-140
  done
done
cd /; rm -rf $S
