#!/bin/sh
# Evaluate externally written mutants (/tmp/mut_CXX/out/{A,B}/patch.diff) against the registered check of
# their property, in the mutant's own worktree (VERIF_REPO), never in /repo.  Usage: tools/eval_mutants.sh C01 C02 ...
HEAD=$(git -C /repo rev-parse HEAD)
for P in "$@"; do
  W=/tmp/mut_$P
  [ -d "$W" ] || continue
  git -C $W checkout -q -- . 2>/dev/null
  git -C $W checkout -q --detach $HEAD 2>/dev/null
  for V in A B; do
    D=$W/out/$V
    [ -f $D/patch.diff ] || { echo "$P $V: no patch"; continue; }
    if ! git -C $W apply --check $D/patch.diff 2>/dev/null; then echo "$P $V: patch does not apply to HEAD"; continue; fi
    git -C $W apply $D/patch.diff
    OUT=$(cd /verif && VERIF_REPO=$W timeout 900 ./check $P 2>&1 | grep -E "^VIOLATION|^KNOWN|tier=" | cut -c1-220)
    RC=$(echo "$OUT" | grep -o "exit=[0-9]*" | tail -1)
    NV=$(echo "$OUT" | grep -c "^VIOLATION")
    NF=$(echo "$OUT" | grep -c "no-failing-input-found")
    echo "$P $V: $RC violations=$NV unproved_only=$NF :: $(python3 -c "import json;print(json.load(open('$D/meta.json'))['what'][:110])" 2>/dev/null)"
    for f in $(echo "$OUT" | grep -o "replay=[^ ]*" | cut -d= -f2 | head -2); do [ -f "$f" ] && cp "$f" $D/verif_replay_$(basename $f); done
    git -C $W checkout -q -- .
  done
done
