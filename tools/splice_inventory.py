#!/venv/bin/python
"""Regenerate Appendix B of DESIGN.md (tools/inventory.py) and the counts quoted in 'What there is'."""
import glob
import json
import os
import re
import subprocess
import sys

VERIF = os.path.dirname(os.path.dirname(os.path.abspath(__file__)))
sys.path.insert(0, os.path.join(VERIF, 'harness'))
import common  # noqa


def main():
    inv = subprocess.run([os.path.join(VERIF, 'tools', 'inventory.py')], stdout=subprocess.PIPE, text=True, check=True).stdout
    p = os.path.join(VERIF, 'DESIGN.md')
    s = open(p).read()
    i = s.index('## Appendix B. As-built inventory')
    s = s[:i] + inv.rstrip('\n') + '\n'
    nthm = nex = 0
    for l in open(os.path.join(VERIF, 'properties.jsonl')):
        pid = json.loads(l)['id']
        names, ne = common.theorems_in(pid)
        nthm += len(names)
        nex += ne
    s = re.sub(r'\d+ property theorems, \d+ `example`s', '%d property theorems, %d `example`s' % (nthm, nex), s)
    seeded = [d for d in os.listdir(os.path.join(VERIF, 'seeded')) if os.path.isfile(os.path.join(VERIF, 'seeded', d, 'patch.diff'))]
    nf = len([d for d in seeded if d.startswith('F')])
    s = re.sub(r'`seeded/` \(\d+ confirmed', '`seeded/` (%d confirmed' % len(seeded), s)
    s = re.sub(r'changes that break a property while the 73 tests still pass: \d+ reverse patches',
               'changes that break a property while the 73 tests still pass: %d reverse patches' % nf, s)
    open(p, 'w').write(s)
    print('theorems', nthm, 'examples', nex, 'seeded', len(seeded), 'reverse', nf)


if __name__ == '__main__':
    main()
