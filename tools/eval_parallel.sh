#!/bin/sh
# Evaluate every seeded change with the registered checks, seven shards (by property) in parallel, and merge the
# shards' results into seeded/RESULTS.json.  Usage: tools/eval_parallel.sh   (about 1 h for ~450 changes)
cd "$(dirname "$0")/.."
OUT=$(mktemp -d /tmp/verif_evalp_XXXXXX)
i=0
for shard in "C01 C09 C17" "C05 C13 C02" "C06 C10 C14" "C18 C03 C07" "C11 C15 C19" "C04 C08" "C12 C16"; do
  i=$((i+1))
  EVAL_RESULTS=$OUT/r$i.json python3 tools/eval_seeded.py $shard > $OUT/log$i.txt 2>&1 &
done
wait
python3 - "$OUT" <<'PY'
import json, sys, glob, os
out = sys.argv[1]
res = {}
for f in sorted(glob.glob(os.path.join(out, 'r*.json'))):
    res.update(json.load(open(f)))
json.dump(res, open('seeded/RESULTS.json', 'w'), indent=1, sort_keys=True)
from collections import Counter
print(len(res), 'changes:', dict(Counter(v['outcome'].split(' ')[0] for v in res.values())))
PY
cat $OUT/log*.txt | grep -v conda | grep -v "concrete-replay" | head -40
rm -rf $OUT
