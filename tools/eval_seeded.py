#!/venv/bin/python
"""Run the registered checks against every seeded change under /verif/seeded.

For each seeded/<id>/patch.diff: a scratch worktree of /repo at HEAD is created outside /repo and
/verif, the patch is applied there, the property's quick check is run against it
(VERIF_REPO=<worktree>) from a scratch copy of /verif (so generated Lean files of the working
tree are not disturbed), the outcome is recorded, and the worktree is removed.  Nothing is ever
applied to /repo itself.

Usage: tools/eval_seeded.py [ids or property ids ...]    (default: all)
Writes seeded/RESULTS.json (or $EVAL_RESULTS) and prints one line per seeded change.  tools/eval_parallel.sh runs
four shards (by property) at once and merges their results.
"""
import json
import os
import re
import shutil
import subprocess
import sys
import tempfile

VERIF = os.path.dirname(os.path.dirname(os.path.abspath(__file__)))
REPO = os.environ.get('VERIF_REPO_BASE', '/repo')


def sh(cmd, **kw):
    return subprocess.run(cmd, stdout=subprocess.PIPE, stderr=subprocess.STDOUT, text=True, **kw)


def prop_of(sid, meta):
    if meta.get('property'):
        return meta['property']
    m = re.search(r'C\d\d', sid)
    return m.group(0) if m else None


def main():
    want = set(sys.argv[1:])
    seeds = sorted(d for d in os.listdir(os.path.join(VERIF, 'seeded'))
                   if os.path.isfile(os.path.join(VERIF, 'seeded', d, 'patch.diff')))
    scratch = tempfile.mkdtemp(prefix='verif_eval_')
    vcopy = os.path.join(scratch, 'verif')
    shutil.copytree(VERIF, vcopy, ignore=shutil.ignore_patterns('.git', 'replays', '__pycache__'), symlinks=True)
    os.makedirs(os.path.join(vcopy, 'replays'), exist_ok=True)
    res_path = os.environ.get('EVAL_RESULTS') or os.path.join(VERIF, 'seeded', 'RESULTS.json')
    results = json.load(open(res_path)) if os.path.exists(res_path) else {}
    try:
        for sid in seeds:
            sdir = os.path.join(VERIF, 'seeded', sid)
            meta = json.load(open(os.path.join(sdir, 'meta.json'))) if os.path.exists(os.path.join(sdir, 'meta.json')) else {}
            prop = prop_of(sid, meta)
            if want and sid not in want and prop not in want:
                continue
            wt = os.path.join(scratch, 'wt')
            sh(['git', '-C', REPO, 'worktree', 'remove', '--force', wt])
            r = sh(['git', '-C', REPO, 'worktree', 'add', '--detach', wt, 'HEAD'])
            if r.returncode != 0:
                print(sid, 'worktree failed', r.stdout[-300:])
                continue
            try:
                a = sh(['git', '-C', wt, 'apply', os.path.join(sdir, 'patch.diff')])
                if a.returncode != 0:
                    results[sid] = dict(property=prop, outcome='patch-does-not-apply', detail=a.stdout[-300:])
                    print('%-44s %s patch does not apply to HEAD' % (sid, prop))
                    continue
                env = dict(os.environ, VERIF_REPO=wt)
                try:
                    c = sh(['./check', prop], cwd=vcopy, env=env, timeout=int(os.environ.get('EVAL_TIMEOUT', '900')))
                except subprocess.TimeoutExpired:
                    sh(['pkill', '-f', 'harness/check.py ' + prop])
                    results[sid] = dict(property=prop, outcome='TIMEOUT (the check did not finish: counts as not reported)',
                                        what=(meta.get('what') or '')[:200])
                    print('%-44s %s TIMEOUT' % (sid, prop))
                    sys.stdout.flush()
                    continue
                lines = c.stdout.splitlines()
                viol = [l for l in lines if l.startswith('VIOLATION')]
                concrete = [l for l in viol if 'no-failing-input-found' not in l]
                keys = []
                for l in concrete[:3]:
                    m = re.search(r'replay=(\S+)', l)
                    if m and os.path.exists(m.group(1)):
                        try:
                            keys.append(json.load(open(m.group(1))).get('key'))
                        except Exception:  # noqa
                            pass
                outcome = ('concrete-replay' if concrete else 'unproved-only' if viol else
                           'MISSED' if c.returncode == 0 else 'error-exit-%d' % c.returncode)
                results[sid] = dict(property=prop, exit=c.returncode, violations=len(viol), concrete=len(concrete),
                                    outcome=outcome, keys=keys,
                                    what=(meta.get('what') or meta.get('title') or '')[:200])
                print('%-44s %s exit=%d violations=%d concrete=%d -> %s %s' %
                      (sid, prop, c.returncode, len(viol), len(concrete), outcome, keys[:1]))
                sys.stdout.flush()
                shutil.rmtree(os.path.join(vcopy, 'replays'), ignore_errors=True)
                os.makedirs(os.path.join(vcopy, 'replays'), exist_ok=True)
            finally:
                sh(['git', '-C', REPO, 'worktree', 'remove', '--force', wt])
            json.dump(results, open(res_path, 'w'), indent=1, sort_keys=True)
    finally:
        sh(['git', '-C', REPO, 'worktree', 'prune'])
        shutil.rmtree(scratch, ignore_errors=True)


if __name__ == '__main__':
    main()
