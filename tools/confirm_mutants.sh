#!/bin/sh
# Confirm each externally written mutant independently (tests still pass with the change; its demo passes
# without and fails with the change) and, if confirmed, keep it under /verif/seeded/M-<prop>-<v>/.
# MUT_PREFIX (default /tmp/mut_) and MUT_VARIANTS (default "A B") select the round.
HEAD=$(git -C /repo rev-parse HEAD)
PREFIX=${MUT_PREFIX:-/tmp/mut_}
VARIANTS=${MUT_VARIANTS:-A B}
for P in "$@"; do
  W=$PREFIX$P
  [ -d "$W" ] || continue
  git -C $W checkout -q -- . ; git -C $W checkout -q --detach $HEAD
  for V in $VARIANTS; do
    D=$W/out/$V
    [ -f $D/patch.diff ] || continue
    DEMO=$(ls $D/demo.py $D/test_demo.py 2>/dev/null | head -1)
    if ! git -C $W apply --check $D/patch.diff 2>/dev/null; then echo "$P $V: patch does not apply"; continue; fi
    (cd $W && timeout 600 /venv/bin/python $DEMO >/dev/null 2>&1); R0=$?
    git -C $W apply $D/patch.diff
    T=$(cd $W && timeout 900 /venv/bin/python -m pytest -q -p no:cacheprovider 2>&1 | tail -1)
    (cd $W && timeout 600 /venv/bin/python $DEMO >/dev/null 2>&1); R1=$?
    git -C $W checkout -q -- .
    OK=no; case "$T" in *"73 passed"*) [ $R0 = 0 ] && [ $R1 != 0 ] && OK=yes;; esac
    echo "$P $V: demo_without=$R0 demo_with=$R1 tests='$T' confirmed=$OK"
    if [ $OK = yes ]; then
      S=/verif/seeded/M-$P-$V; mkdir -p $S
      cp $D/patch.diff $S/patch.diff; cp $DEMO $S/; for X in $D/*; do case "$X" in */patch.diff|*/meta.json|*/__pycache__) ;; *) [ -f "$X" ] && cp "$X" $S/ ;; esac; done  # companion files of the demo too

      python3 - "$D/meta.json" "$S/meta.json" "$P" "$V" "$T" <<'PY'
import json,sys
src,dst,p,v,t=sys.argv[1:6]
m=json.load(open(src))
m.update(origin='written by an independent sub-agent that saw only the property text and a scratch worktree',
         confirmed=dict(tests_with_change=t.strip(), demo_without_change='pass (exit 0)', demo_with_change='fail (exit != 0)',
                        how='tools/confirm_mutants.sh in a scratch worktree at /repo HEAD'),
         demo_cmd='cd <worktree with patch applied> && /venv/bin/python demo.py  (edit the sys.path line to the worktree)')
json.dump(m,open(dst,'w'),indent=1)
PY
    fi
  done
done
