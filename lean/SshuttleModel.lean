-- This module serves as the root of the `SshuttleModel` library.
-- Import modules here that should be built as part of the library.
import SshuttleModel.Basic
