/-
C17 — Automatically discovered routes are canonical and always reach the client.

Property theorems only; helper lemmas are in `Lemmas/RoutesBits.lean` (mask arithmetic),
`Lemmas/RoutesText.lean` (tool grammars → tuples), `Lemmas/RoutesJunk.lean` (no line raises),
`Lemmas/RoutesDelivery.lean` (message ↔ plan), `Lemmas/RoutesTable.lean` (whole tables, line classes, end to end), `Lemmas/RoutesPins.lean` (source pins).

The model is of the *repaired* `_list_routes` (proposed_fixes/C17-skip-junk.diff: the extractor call is
inside `try/except (ValueError, OSError, IndexError): continue`, negative prefix lengths are skipped).
-/
import SshuttleModel.Lemmas.RoutesText
import SshuttleModel.Lemmas.RoutesDelivery
import SshuttleModel.Lemmas.RoutesTable
import SshuttleModel.Lemmas.RoutesPins

namespace Sshuttle.Routes
open Sshuttle.Routes.Spec

/-! ## 1. Mask arithmetic -/

/-- For every address and every width 0‥32 the expression `ip & _shl(_shl(1, w) - 1, 32 - w)` of
`_list_routes` is the canonical network address of `ip/w`: `ip` with its low `32 - w` bits cleared. -/
theorem C17_mask (ip w : Nat) (hip : ip < 2 ^ 32) (hw : w ≤ 32) :
    ip &&& ((2 ^ w - 1) * 2 ^ (32 - w)) = canonNet ip w ∧ Canonical (canonNet ip w) w := by
  refine ⟨land_mask ip w hip hw, ?_⟩
  unfold Canonical canonNet
  have := Nat.div_add_mod ip (2 ^ (32 - w))
  have h : ip - ip % 2 ^ (32 - w) = 2 ^ (32 - w) * (ip / 2 ^ (32 - w)) := by omega
  rw [h, Nat.mul_mod_right]

example : 0xc0a801ff &&& ((2 ^ 23 - 1) * 2 ^ (32 - 23)) = canonNet 0xc0a801ff 23 ∧ canonNet 0xc0a801ff 23 = 0xc0a80000 := by
  decide

/-- `_maskbits` returns `n` for the netmask with `n` leading ones, for all 33 of them
(`0.0.0.0 ↦ 0`, `255.255.255.255 ↦ 32`). -/
theorem C17_maskbits (n : Nat) (hn : n ≤ 32) : maskbits (some (netmask n, 32)) = n := by
  have h : netmask n = (2 ^ n - 1) * 2 ^ (32 - n) := by
    unfold netmask
    rw [Nat.sub_mul, Nat.one_mul, ← Nat.pow_add]
    congr 2; omega
  rw [h]; exact maskbits_contig n hn

example : maskbits (some (netmask 0, 32)) = 0 ∧ maskbits (some (netmask 19, 32)) = 19 ∧ netmask 19 = 0xffffe000 := by decide

/-! ## 2. Every destination of the tools' grammars is advertised as (canonical network, prefix length) -/

/-- `ip route`: a line that starts with `a.b.c.d/n` (every octet, every `n` in 0‥32, host bits set or
not), followed by anything the tool prints, is advertised by `list_routes` as
`(AF_INET, canonical network of a.b.c.d/n, n)` — or omitted when that network is 0.x or 127.x. -/
theorem C17_iproute_line (d : Dest) (hd : IpPrefix d) (rest : Str) (hr : Rest rest) :
    advertise .iproute (d.text ++ rest) = .ok ((advertised d).map toRoute) :=
  advertise_iproute_prefix d hd rest hr

/-- "192.168.1.77/23 dev eth0\n" satisfies the hypotheses and is advertised as 192.168.0.0/23. -/
example : IpPrefix (.net [192, 168, 1, 77] (some 23)) ∧ Rest [32, 100, 101, 118, 32, 101, 116, 104, 48, 10] ∧
    advertised (.net [192, 168, 1, 77] (some 23)) = some (0xc0a80000, 23) := by
  refine ⟨by simp [IpPrefix], ⟨by decide, Or.inr ⟨32, _, rfl, by decide⟩⟩, by decide⟩

/-- `netstat -rn`, Linux layout: destination, gateway column, Genmask column holding the contiguous
netmask of length `n` (all 33), then anything: advertised as the canonical network of `a.b.c.d/n`. -/
theorem C17_netstat_line (a b c d n : Nat) (ha : a < 256) (hb : b < 256) (hc : c < 256) (hd : d < 256)
    (hn : n ≤ 32) (s1 s2 gw rest : Str) (hs1 : Blanks s1) (hs2 : Blanks s2) (hgw : Column gw) (hr : Rest rest) :
    advertise .netstat (octText [a, b, c, d] ++ s1 ++ gw ++ s2 ++ quadText (netmask n) ++ rest) =
      .ok ((advertised (.net [a, b, c, d] (some n))).map toRoute) :=
  advertise_netstat_linux a b c d n ha hb hc hd hn s1 s2 gw rest hs1 hs2 hgw hr

example : Blanks [32, 32, 9] ∧ Column [48, 46, 48, 46, 48, 46, 48] ∧ Rest [] := by
  refine ⟨⟨by decide, by decide⟩, ⟨by decide, by decide⟩, ⟨by decide, Or.inl rfl⟩⟩

/-- `netstat -rn`, BSD layout: `default`, or an abbreviated network `a`, `a.b`, `a.b.c`, `a.b.c.d`
with or without `/n` (`n ≤ 8·k`), a gateway column and a flags column of letters (anything but the
word "default", which `_ipmatch` would read as a netmask of 0.0.0.0), then anything:
advertised as the canonical network with the implied or given prefix length; `default` is omitted. -/
theorem C17_netstat_bsd_line (d : Dest) (hd : BsdNet d) (s1 s2 gw fl rest : Str) (hs1 : Blanks s1) (hs2 : Blanks s2)
    (hgw : Column gw) (hfl : Flags fl) (hfl' : fl ≠ defaultText) (hr : Rest rest) :
    advertise .netstat (d.text ++ s1 ++ gw ++ s2 ++ fl ++ rest) = .ok ((advertised d).map toRoute) :=
  advertise_netstat_bsd d hd s1 s2 gw fl rest hs1 hs2 hgw hfl hfl' hr

/-- "10.1/16 … UCS …" : a BSD abbreviation satisfying the hypotheses, advertised as 10.1.0.0/16;
"127 …" and `default` are omitted. -/
example : BsdNet (.net [10, 1] (some 16)) ∧ Flags [85, 67, 83] ∧ [85, 67, 83] ≠ defaultText ∧
    advertised (.net [10, 1] (some 16)) = some (0x0a010000, 16) ∧ advertised (.net [127] none) = none ∧
    advertised .default = none := by
  refine ⟨⟨by decide, by decide, by decide, ?_⟩, ⟨by decide, by decide⟩, by decide, by decide, by decide, rfl⟩
  intro n hn; cases hn; decide

/-- The reading "every route printed" is **not** met for `ip route` host routes, which the tool prints
without `/32`: `_route_iproute` returns `(None, None)` when the first token has no `/`
(known finding `C17:iproute:bare-host-route-omitted`). Witness: `10.8.0.1 dev tun0 scope link`. -/
theorem C17_iproute_host_false :
    ¬ (∀ d, IpHost d → ∀ rest, Rest rest → advertise .iproute (d.text ++ rest) = .ok ((advertised d).map toRoute)) := by
  intro h
  have hr : Rest [32, 100, 101, 118, 32, 116, 117, 110, 48, 32, 115, 99, 111, 112, 101, 32, 108, 105, 110, 107, 10] :=
    ⟨by decide, Or.inr ⟨32, _, rfl, by decide⟩⟩
  have := h (.net [10, 8, 0, 1] none) (by simp [IpHost]) _ hr
  revert this
  decide +kernel

/-! ## 3. Lines that cannot be interpreted are skipped, never raised -/

/-- **Full statement.** For every tool and every line of bytes whatsoever, one iteration of the
repaired `_list_routes` loop ends normally — with a route or with `continue` — and so does the whole
call on every table; every route it returns is `(AF_INET, dotted quad, width 0‥32)`. In particular the
`OverflowError` of `_shl` and the `struct.error` of `struct.pack` are unreachable. -/
theorem C17_skip_junk_full (tool : Tool) (line : Bytes) : ∃ r, lineStep tool line = .ok r :=
  lineStep_ok tool line

theorem C17_list_routes_total (tool : Tool) (lines : List Bytes) :
    ∃ rs, listRoutes tool lines = .ok rs ∧ ∀ r ∈ rs, r.Wf :=
  listRoutes_total tool lines

/-- Why the `try/except` is needed (candidate finding F17, the code before the repair called the
extractor unguarded): the extractor itself raises on `10.0.0.0/8x dev eth0`, `a/b/c`,
`300.1.1.0/24 dev eth0`, on a non-ASCII byte and on a line of `\x1c` only. -/
theorem C17_extract_raises :
    (decodeAscii [49, 48, 46, 48, 46, 48, 46, 48, 47, 56, 120, 32, 100, 101, 118, 32, 101, 116, 104, 48, 10]
      >>= extractRoute .iproute) = .error .valueError ∧
    (decodeAscii [97, 47, 98, 47, 99, 10] >>= extractRoute .iproute) = .error .valueError ∧
    (decodeAscii [51, 48, 48, 46, 49, 46, 49, 46, 48, 47, 50, 52, 32, 100, 101, 118, 32, 101, 116, 104, 48, 10]
      >>= extractRoute .iproute) = .error .osError ∧
    (decodeAscii [49, 48, 46, 48, 46, 48, 46, 48, 47, 56, 32, 100, 101, 118, 32, 233, 116, 104, 48, 10]
      >>= extractRoute .iproute) = .error .unicodeDecodeError ∧
    (decodeAscii [28, 10] >>= extractRoute .iproute) = .error .indexError := by
  refine ⟨?_, ?_, ?_, ?_, ?_⟩ <;> rfl

/-! ## 4. Delivery: the message, the frame limit, the client's plan -/

/-- **Full statement** of delivery on the server side: whatever the number of routes, the ROUTES
message is queued on the mux. -/
def C17_delivery_full : Prop :=
  ∀ (rs : List Route), (∀ r ∈ rs, r.Wf) → ∀ tx : Mux.Tx, ∃ tx', sendRoutes tx rs = .ok tx'

/-- **The full statement is false of the code** (known finding `C17:delivery:routes-message-exceeds-one-frame`,
F16): 5462 routes of the shortest form `1.0.0.0/8` make a message of 65544 bytes, and
`assert len(data) <= 65535` in `Mux.send` raises — the server process ends. -/
theorem C17_delivery_full_false : ¬ C17_delivery_full := by
  intro h
  let r : Route := ⟨2, inetNtoa 16777216, 8⟩
  have hwf : r.Wf := ⟨rfl, ⟨16777216, by decide, rfl⟩, by decide, by decide⟩
  have hall : ∀ x ∈ List.replicate 5462 r, x.Wf := fun x hx => by rw [List.eq_of_mem_replicate hx]; exact hwf
  have hlen : 65535 < (routePkt (List.replicate 5462 r)).length := by
    rw [routePkt_replicate]
    have : (fmtRoute r).length = 12 := by decide
    omega
  obtain ⟨tx', htx⟩ := h _ hall {}
  rw [sendRoutes_big {} _ hall hlen] at htx
  cases htx

/-- More precisely: for well-formed routes the message is queued **iff** it fits one frame. -/
theorem C17_delivery_iff (tx : Mux.Tx) (rs : List Route) (hwf : ∀ r ∈ rs, r.Wf) :
    (∃ tx', sendRoutes tx rs = .ok tx') ↔ (routePkt rs).length ≤ 65535 := by
  constructor
  · intro ⟨tx', h⟩
    by_cases hl : (routePkt rs).length ≤ 65535
    · exact hl
    · rw [sendRoutes_big tx rs hwf (by omega)] at h; cases h
  · intro hl
    exact ⟨_, sendRoutes_fits tx rs hwf hl⟩

/-- **Delivery, the part that holds** (missing from the full statement: the size bound, which is
hypothesis `hlen`; it holds e.g. for every table of at most 3120 routes, each costing ≤ 21 bytes).
For every list of routes `list_routes` can produce whose message fits one frame:
the server queues exactly one ROUTES frame carrying the message; that frame decodes back to it
(C07 carries it across any segmentation); the client — waiting for routes, with `--auto-nets` and an
IPv4 listener — parses it into exactly those networks, each with ports `0,0`, appends them to
`fw.auto_nets`, clears `got_routes`, and calls `fw.start()` once, whose dialogue lists the configured
includes, then every advertised network as `2,<width>,0,<ip>,0,0`, then the excludes, before anything
that follows (`NSLIST` … `GO`). -/
theorem C17_delivery_partial (rs : List Route) (hwf : ∀ r ∈ rs, r.Wf) (hlen : (routePkt rs).length ≤ 65535)
    (tx : Mux.Tx) (c : Client) (tail : List Bytes)
    (hgr : c.gotRoutes = true) (hopt : c.autoNetsOpt = true) (hv4 : c.listeners.v4 = true)
    (hasc : ∀ s ∈ c.incl ++ c.fwAutoNets ++ c.excl, s.Ascii) :
    sendRoutes tx rs = .ok { outbuf := tx.outbuf ++ [Mux.encode ⟨0, Generated.CMD_ROUTES, routePkt rs⟩],
                             fullness := tx.fullness + (routePkt rs).length } ∧
    (∀ rest, Mux.decode1 (Mux.encode ⟨0, Generated.CMD_ROUTES, routePkt rs⟩ ++ rest) =
      .frame ⟨0, Generated.CMD_ROUTES, routePkt rs⟩ rest) ∧
    c.gotRoutesPacket (routePkt rs) tail =
      .ok { c with gotRoutes := false, fwAutoNets := c.fwAutoNets ++ rs.map toSubnet,
                   dialogues := c.dialogues ++ [planWith c rs tail] } := by
  refine ⟨sendRoutes_fits tx rs hwf hlen, fun rest => Mux.decode1_encode _ rest, ?_⟩
  unfold Client.gotRoutesPacket
  have hnets : onroutesLoop c.listeners (splitOn 10 (stripWith isBSpace (routePkt rs))) c.fwAutoNets =
      .ok (c.fwAutoNets ++ rs.map toSubnet) := by
    rw [split_strip_pkt rs hwf]
    split
    next h => subst h; simp [onroutesLoop]
    · exact onroutesLoop_bodies c.listeners hv4 rs _ hwf
  have hall : ∀ s ∈ c.incl ++ (c.fwAutoNets ++ rs.map toSubnet) ++ c.excl, s.Ascii := by
    intro s hs
    simp only [List.mem_append, List.mem_map] at hs
    rcases hs with (hs | hs | ⟨r, hr, rfl⟩) | hs
    · exact hasc s (by simp [hs])
    · exact hasc s (by simp [hs])
    · exact toSubnet_ascii (hwf r hr)
    · exact hasc s (by simp [hs])
  simp only [hgr, Bool.not_true, Bool.false_eq_true, ↓reduceIte, hopt, hnets, bind, Except.bind,
    fwStart_ascii _ _ _ tail hall, pure, Except.pure, planWith]

/-- The two halves joined: for **every** tool output (any lines, junk included) `list_routes` returns a
list of routes, and whenever their message fits one frame it is queued and the waiting client turns it into
the plan `planWith` and starts the firewall. -/
theorem C17_table_delivered (tool : Tool) (lines : List Bytes) (tx : Mux.Tx) (c : Client) (tail : List Bytes)
    (hgr : c.gotRoutes = true) (hopt : c.autoNetsOpt = true) (hv4 : c.listeners.v4 = true)
    (hasc : ∀ s ∈ c.incl ++ c.fwAutoNets ++ c.excl, s.Ascii) :
    ∃ rs, listRoutes tool lines = .ok rs ∧
      ((routePkt rs).length ≤ 65535 →
        (∃ tx', sendRoutes tx rs = .ok tx') ∧
        c.gotRoutesPacket (routePkt rs) tail =
          .ok { c with gotRoutes := false, fwAutoNets := c.fwAutoNets ++ rs.map toSubnet,
                       dialogues := c.dialogues ++ [planWith c rs tail] }) := by
  obtain ⟨rs, hrs, hwf⟩ := C17_list_routes_total tool lines
  refine ⟨rs, hrs, fun hlen => ?_⟩
  obtain ⟨h1, _, h3⟩ := C17_delivery_partial rs hwf hlen tx c tail hgr hopt hv4 hasc
  exact ⟨⟨_, h1⟩, h3⟩

/-- Non-vacuity: a two-route table through a client with one configured include. -/
example :
    let rs : List Route := [⟨2, inetNtoa 0xc0a80100, 24⟩, ⟨2, inetNtoa 0x0a000000, 8⟩]
    let c : Client := { autoNetsOpt := true, listeners := ⟨true, false⟩,
                        incl := [⟨2, [49, 46, 50, 46, 51, 46, 48], 24, 0, 0⟩] }
    (∀ r ∈ rs, r.Wf) ∧ (routePkt rs).length = 30 ∧ (∀ s ∈ c.incl ++ c.fwAutoNets ++ c.excl, s.Ascii) ∧
    (planWith c rs []).length = 4 := by
  refine ⟨?_, by decide, ?_, by decide⟩
  · intro r hr
    simp only [List.mem_cons, List.not_mem_nil, or_false] at hr
    rcases hr with rfl | rfl
    · exact ⟨rfl, ⟨0xc0a80100, by decide, rfl⟩, by decide, by decide⟩
    · exact ⟨rfl, ⟨0x0a000000, by decide, rfl⟩, by decide, by decide⟩
  · intro s hs
    simp only [List.append_nil, List.mem_cons, List.not_mem_nil, or_false] at hs
    subst hs; unfold Subnet.Ascii; decide

/-- **Client side, for every message whatsoever** that `onroutes` accepts: the handler was installed
and is cleared; the firewall is started exactly once (one dialogue is appended, and any further
ROUTES message is refused with the `got CMD_ROUTES without got_routes?` exception, so it can never be
started a second time this way); nothing already in `fw.auto_nets` is lost; with `--auto-nets`, every
line of the message that parses to a network the client does not ignore is in `fw.auto_nets`; and every
network in `fw.auto_nets` is written as an include line (exclude flag `0`) between the `ROUTES` header and
whatever follows (`NSLIST` … `GO`). -/
theorem C17_client_adds (c c' : Client) (data : Bytes) (tail : List Bytes)
    (h : c.gotRoutesPacket data tail = .ok c') :
    c.gotRoutes = true ∧ c'.gotRoutes = false ∧
    (∀ d2 t2, c'.gotRoutesPacket d2 t2 = .error .noHandler) ∧
    (∀ s ∈ c.fwAutoNets, s ∈ c'.fwAutoNets) ∧
    (c.autoNetsOpt = true → ∀ l ∈ splitOn 10 (stripWith isBSpace data), l.isEmpty = false →
      ∀ s, onroutesLine c.listeners l = .ok (some s) → s ∈ c'.fwAutoNets) ∧
    ∃ inc exc, c'.dialogues = c.dialogues ++ [[Gen.C17.START_HEADER] ++ inc ++ exc ++ tail] ∧
      ∀ s ∈ c'.fwAutoNets, ∃ ln ∈ inc, subnetLine 0 s = .ok ln := by
  obtain ⟨nets, d, hg, hn, hd, rfl⟩ := gotRoutesPacket_ok h
  -- shape of the dialogue
  unfold fwStart at hd
  simp only [bind, Except.bind] at hd
  cases hi : mapExc (subnetLine 0) (c.incl ++ nets) with
  | error e => rw [hi] at hd; cases hd
  | ok inc =>
    rw [hi] at hd
    simp only at hd
    cases he : mapExc (subnetLine 1) c.excl with
    | error e => rw [he] at hd; cases hd
    | ok exc =>
      rw [he] at hd
      simp only [pure, Except.pure, Except.ok.injEq] at hd
      subst hd
      refine ⟨hg, rfl, ?_, ?_, ?_, inc, exc, rfl, ?_⟩
      · intro d2 t2; simp [Client.gotRoutesPacket]
      · intro s hs
        by_cases ho : c.autoNetsOpt = true
        · rw [if_pos ho] at hn
          exact (onroutesLoop_mem _ _ _ _ hn).1 s hs
        · rw [if_neg ho] at hn
          simp only [Except.ok.injEq] at hn
          subst hn; exact hs
      · intro ho l hl hne s hs
        rw [if_pos ho] at hn
        exact (onroutesLoop_mem _ _ _ _ hn).2 l hl hne s hs
      · intro s hs
        exact mapExc_mem _ _ _ hi s (by simp [hs])

/-- Non-vacuity: an accepted message exists (the empty ROUTES message of a server without
`--auto-nets`), after which the client has started the firewall once. -/
example : ∃ c', ({ autoNetsOpt := false, listeners := ⟨true, false⟩ } : Client).gotRoutesPacket [] [] = .ok c' ∧
    c'.dialogues.length = 1 := ⟨_, rfl, rfl⟩

/-- Candidate finding F20 (note only): an IPv6 network in the message is *added* when the client has no
IPv6 listener — the first `if` only logs, the `else` of the second `if` appends.  Unreachable while
the server lists IPv4 routes only. -/
theorem C17_ipv6_net_added_without_listener :
    onroutesLine ⟨true, false⟩ [49, 48, 44, 102, 101, 56, 48, 58, 58, 44, 54, 52] =
      .ok (some ⟨10, [102, 101, 56, 48, 58, 58], 64, 0, 0⟩) := by
  decide +kernel

/-! ## 5. Whole tables: line skipping, the lines that carry no route, end to end -/

/-- **Line by line.** For every tool and every list of output lines whatsoever, `list(list_routes())` is
exactly the in-order list of what each line contributes on its own (`advOf`: at most one route per line). -/
theorem C17_list_routes_linewise (tool : Tool) (lines : List Bytes) :
    listRoutes tool lines = .ok (lines.filterMap (advOf tool)) :=
  listRoutes_linewise tool lines

/-- A line contributes nothing whenever the extractor raises on it or returns no address
(`UnicodeDecodeError`, `ValueError`, `OSError`, `IndexError`, `(None, …)`): that is what "cannot be interpreted"
means for the code. -/
theorem C17_uninterpretable_contributes_nothing (tool : Tool) (line : Bytes)
    (h : ∀ p m, (decodeAscii line >>= extractRoute tool) ≠ .ok (some p, m)) : advOf tool line = none :=
  advOf_skip tool line h

/-- **Line skipping never disturbs the other lines**, for every interleaving: removing from a table all the
lines that contribute nothing (junk, headings, blank lines, … wherever they stand) leaves the advertised
list unchanged; in particular inserting one such line anywhere changes nothing. -/
theorem C17_junk_transparent (tool : Tool) (lines : List Bytes) :
    listRoutes tool lines = listRoutes tool (lines.filter (fun l => (advOf tool l).isSome)) := by
  rw [listRoutes_linewise, listRoutes_linewise, ← filterMap_drop_none]

theorem C17_junk_line_inserted (tool : Tool) (before after : List Bytes) (junk : Bytes)
    (h : advOf tool junk = none) :
    listRoutes tool (before ++ junk :: after) = listRoutes tool (before ++ after) := by
  simp [listRoutes_linewise, List.filterMap_append, h]

/-- Non-vacuity: `10.0.0.0/8x dev eth0` (the F17 witness) contributes nothing. -/
example : advOf .iproute [49, 48, 46, 48, 46, 48, 46, 48, 47, 56, 120, 32, 100, 101, 118, 32, 101, 116, 104, 48, 10] = none := by
  decide +kernel

/-- **`ip route` lines whose first word has no `/` carry no advertisement** — for every such line: the
`default` route, the route-type keyword lines (`blackhole …`, `unreachable …`, `prohibit …`), titles, and
bare host routes; whatever follows the first word (gateway, device, metric, …) is irrelevant. -/
theorem C17_iproute_no_slash_omitted (ws word rest : Str) (hws : White ws) (hw : Word word) (hns : 47 ∉ word)
    (hr : After rest) : advertise .iproute (ws ++ word ++ rest) = .ok none := by
  rw [advertise_eq_advOf, advOf_iproute_noslash ws word rest hws hw hr hns]

/-- `default via … dev … metric …` is never advertised. -/
theorem C17_iproute_default_omitted (rest : Str) (hr : After rest) :
    advertise .iproute (defaultText ++ rest) = .ok none := by
  have := C17_iproute_no_slash_omitted [] defaultText rest (by intro c hc; cases hc)
    ⟨by decide, by decide⟩ (by decide) hr
  simpa using this

/-- **Bare host routes, over the whole grammar** (known finding `C17:iproute:bare-host-route-omitted`):
*every* `ip route` host route `a.b.c.d …` is dropped, although the property's reading demands `/32` for
every one of them outside 0.x and 127.x. -/
theorem C17_iproute_host_gap (a b c d : Nat) (ha : a < 256) (hb : b < 256) (hc : c < 256) (hd : d < 256)
    (rest : Str) (hr : Rest rest) :
    advertise .iproute ((Dest.net [a, b, c, d] none).text ++ rest) = .ok none ∧
    (a ≠ 0 → a ≠ 127 → advertised (.net [a, b, c, d] none) = some (padded [a, b, c, d], 32)) := by
  obtain ⟨hw, hns⟩ := host_word a b c d ha hb hc hd
  refine ⟨?_, ?_⟩
  · have := C17_iproute_no_slash_omitted [] (octText [a, b, c, d]) rest (by intro x hx; cases hx) hw hns hr.2
    simpa [Dest.text] using this
  · intro h0 h127
    have hp : padded [a, b, c, d] / 2 ^ 24 = a := by simp only [padded]; omega
    have hcn : canonNet (padded [a, b, c, d]) 32 = padded [a, b, c, d] := by simp [canonNet, Nat.mod_one]
    have h8 : 8 * (0 + 1 + 1 + 1 + 1) = 32 := rfl
    simp only [advertised, Dest.width, List.length_cons, List.length_nil, h8, hcn, hp]
    simp [h0, h127]

/-- **End to end, `ip route`.** For every table made of the grammar's lines (prefix routes with anything
after them, first-word-without-slash lines, blank lines, lines with non-ASCII bytes — in any number and any
interleaving) whose advertisement fits one frame (`hlen`; the unbounded statement is refuted by
`C17_end_to_end_size_false`): `list_routes` yields exactly the specification's networks `ipRoutes table`;
the server queues one ROUTES frame carrying them, which decodes back to the same message; the waiting client
with `--auto-nets` adds exactly those networks if the user asked for an IPv4 listener and none otherwise
(`servedNets`), and starts the firewall once with the plan: configured includes, earlier auto-nets, these
networks, excludes, then the rest of the dialogue. -/
theorem C17_end_to_end_iproute (table : List IpLine) (hwf : ∀ l ∈ table, l.Wf)
    (hlen : (routePkt (ipRoutes table)).length ≤ 65535)
    (tx : Mux.Tx) (c : Client) (tail : List Bytes) (hgr : c.gotRoutes = true) (hopt : c.autoNetsOpt = true)
    (hasc : ∀ s ∈ c.incl ++ c.fwAutoNets ++ c.excl, s.Ascii) :
    listRoutes .iproute (table.map IpLine.bytes) = .ok (ipRoutes table) ∧
    sendRoutes tx (ipRoutes table) =
      .ok { outbuf := tx.outbuf ++ [Mux.encode ⟨0, Generated.CMD_ROUTES, routePkt (ipRoutes table)⟩],
            fullness := tx.fullness + (routePkt (ipRoutes table)).length } ∧
    (∀ rest, Mux.decode1 (Mux.encode ⟨0, Generated.CMD_ROUTES, routePkt (ipRoutes table)⟩ ++ rest) =
      .frame ⟨0, Generated.CMD_ROUTES, routePkt (ipRoutes table)⟩ rest) ∧
    c.gotRoutesPacket (routePkt (ipRoutes table)) tail =
      .ok { c with gotRoutes := false, fwAutoNets := c.fwAutoNets ++ servedNets c.listeners (ipRoutes table),
                   dialogues := c.dialogues ++ [planServed c (ipRoutes table) tail] } :=
  ⟨listRoutes_ipTable table hwf, sendRoutes_fits tx _ (ipRoutes_wf table hwf) hlen,
   fun rest => Mux.decode1_encode _ rest, gotRoutes_served _ (ipRoutes_wf table hwf) c tail hgr hopt hasc⟩

/-- **End to end, `netstat -rn`** (Linux rows with every contiguous Genmask, BSD rows with every abbreviation,
titles and column headings, blank and non-ASCII lines, any interleaving): same statement. -/
theorem C17_end_to_end_netstat (table : List NsLine) (hwf : ∀ l ∈ table, l.Wf)
    (hlen : (routePkt (nsRoutes table)).length ≤ 65535)
    (tx : Mux.Tx) (c : Client) (tail : List Bytes) (hgr : c.gotRoutes = true) (hopt : c.autoNetsOpt = true)
    (hasc : ∀ s ∈ c.incl ++ c.fwAutoNets ++ c.excl, s.Ascii) :
    listRoutes .netstat (table.map NsLine.bytes) = .ok (nsRoutes table) ∧
    sendRoutes tx (nsRoutes table) =
      .ok { outbuf := tx.outbuf ++ [Mux.encode ⟨0, Generated.CMD_ROUTES, routePkt (nsRoutes table)⟩],
            fullness := tx.fullness + (routePkt (nsRoutes table)).length } ∧
    (∀ rest, Mux.decode1 (Mux.encode ⟨0, Generated.CMD_ROUTES, routePkt (nsRoutes table)⟩ ++ rest) =
      .frame ⟨0, Generated.CMD_ROUTES, routePkt (nsRoutes table)⟩ rest) ∧
    c.gotRoutesPacket (routePkt (nsRoutes table)) tail =
      .ok { c with gotRoutes := false, fwAutoNets := c.fwAutoNets ++ servedNets c.listeners (nsRoutes table),
                   dialogues := c.dialogues ++ [planServed c (nsRoutes table) tail] } :=
  ⟨listRoutes_nsTable table hwf, sendRoutes_fits tx _ (nsRoutes_wf table hwf) hlen,
   fun rest => Mux.decode1_encode _ rest, gotRoutes_served _ (nsRoutes_wf table hwf) c tail hgr hopt hasc⟩

/-- Non-vacuity: a mixed `ip route` table (default line, a /23 with host bits and a metric, a blank line, a
line with a non-ASCII byte, a bare host) is well formed and its advertisement is the single network
192.168.0.0/23. -/
example :
    let table : List IpLine :=
      [.other [] defaultText [32, 118, 105, 97, 32, 49, 46, 50, 46, 51, 46, 52, 10],
       .route (.net [192, 168, 1, 77] (some 23)) [32, 109, 101, 116, 114, 105, 99, 32, 54, 48, 48, 10],
       .blank [32, 10], .garbled [233, 10],
       .other [] [49, 48, 46, 56, 46, 48, 46, 49] [32, 100, 101, 118, 10]]
    (∀ l ∈ table, l.Wf) ∧ (table.filterMap IpLine.net) = [(0xc0a80000, 23)] ∧
    (routePkt (ipRoutes table)).length = 17 := by
  refine ⟨?_, by decide, by decide⟩
  intro l hl
  simp only [List.mem_cons, List.not_mem_nil, or_false] at hl
  rcases hl with rfl | rfl | rfl | rfl | rfl
  · exact ⟨(by intro c hc; cases hc), ⟨by decide, by decide⟩, by decide, Or.inr ⟨32, _, rfl, by decide⟩⟩
  · exact ⟨by simp [IpPrefix], by decide, Or.inr ⟨32, _, rfl, by decide⟩⟩
  · show List.all _ _ = true; decide
  · show List.all _ _ = false; decide
  · exact ⟨(by intro c hc; cases hc), ⟨by decide, by decide⟩, by decide, Or.inr ⟨32, _, rfl, by decide⟩⟩

/-- **The size hypothesis cannot be dropped** (known finding `C17:delivery:routes-message-exceeds-one-frame`):
the well-formed table of 5462 lines `1.0.0.0/8 dev eth0` has a 65544-byte advertisement and `Mux.send`
asserts — the server ends, nothing reaches the client. -/
theorem C17_end_to_end_size_false :
    ¬ (∀ (table : List IpLine), (∀ l ∈ table, l.Wf) → ∀ tx : Mux.Tx, ∃ tx', sendRoutes tx (ipRoutes table) = .ok tx') := by
  intro h
  let ln : IpLine := .route (.net [1, 0, 0, 0] (some 8)) [32, 100, 101, 118, 32, 101, 116, 104, 48, 10]
  have hl : ln.Wf := ⟨by simp [IpPrefix], by decide, Or.inr ⟨32, _, rfl, by decide⟩⟩
  have hwf : ∀ l ∈ List.replicate 5462 ln, l.Wf := fun l hl' => by rw [List.eq_of_mem_replicate hl']; exact hl
  have hnet : IpLine.net ln = some (16777216, 8) := by decide
  have hrs : ipRoutes (List.replicate 5462 ln) = List.replicate 5462 (toRoute (16777216, 8)) := by
    show ((List.replicate 5462 ln).filterMap IpLine.net).map toRoute = _
    rw [filterMap_replicate IpLine.net ln _ hnet, List.map_replicate]
  have hlen : 65535 < (routePkt (ipRoutes (List.replicate 5462 ln))).length := by
    rw [hrs, routePkt_replicate]
    have : (fmtRoute (toRoute (16777216, 8))).length = 12 := by decide
    omega
  obtain ⟨tx', htx⟩ := h _ hwf {}
  rw [sendRoutes_big {} _ (ipRoutes_wf _ hwf) hlen] at htx
  cases htx

end Sshuttle.Routes
