/-
C08 — A fault in one flow never takes down the tunnel or other flows.

Theorems over `Code/Wrap.lean` / `Code/Tunnel.lean`.  Faults are part of the step alphabet of the
world model (`CbIo`: any connect errno, receive error, send error / EPIPE, failing `shutdown`;
frames for flows already closed; identifier exhaustion in `accept`), so every theorem of C01
already quantifies over them.  This file adds what is specific to containment:

* exactly which results can end a process (`C08_callback_dies_iff`, `C08_death_causes`);
* an error closes the flow's local socket rather than leaving it hanging
  (`C08_connect_error_closes`, `C08_recv_error_closes`, `C08_error_means_closed`);
* a callback of one flow touches no other flow's record and queues frames of its own channel only
  (`C08_step_frame`), and the other flows keep C01's guarantee (`C08_neighbours_safe`).

UDP and DNS flows (`onaccept_udp`, `ondns`, server `UdpProxy`/`DnsProxy`) are outside this model;
their fault handling is decided on the real code by `harness/props/c08.py` (and C10/C11).
-/
import SshuttleModel.Lemmas.SockInv
import SshuttleModel.Lemmas.MuxMove
import SshuttleModel.Props.C01
import SshuttleModel.Code.Accept
import SshuttleModel.Code.Alloc

namespace Sshuttle.Tunnel
open Sshuttle.Mux (Frame)
open Sshuttle.Wrap

/-! ## 1. what can end a process -/

/-- The errno `try_connect` acts on: with EINVAL it asks the socket for SO_ERROR. -/
def effErrno (en so : Nat) : Nat := if en = Generated.EINVAL then so else en

/-- The connect results `try_connect` knows: success, still in progress, already connected, or
an errno of the handled network-error set (NET_ERRS + EACCES + EPERM). -/
def HandledConn : ConnRes → Prop
  | .ok => True
  | .errno en so =>
    effErrno en so = Generated.EINPROGRESS ∨ effErrno en so = Generated.EALREADY ∨ effErrno en so = 0 ∨
    effErrno en so = Generated.EISCONN ∨ effErrno en so ∈ Generated.NET_ERRS ++ Generated.CONNECT_EXTRA_ERRS

theorem tryConnect_died_iff (s : SockW) (e : ESock) (c : ConnRes) (se : Bool) :
    s.tryConnect e c se = .died ↔ (s.connecting = true ∧ s.shutW = false ∧ ¬ HandledConn c) := by
  unfold SockW.tryConnect
  by_cases hcn : s.connecting = true
  · by_cases hw : s.shutW = true
    · simp [hcn, hw, SockW.noread]
    · have hw' : s.shutW = false := by simpa using hw
      simp only [hcn, hw', Bool.and_false, Bool.false_eq_true, ↓reduceIte, Bool.not_true, true_and]
      cases c with
      | ok => simp [HandledConn]
      | errno en so =>
        simp only [HandledConn, effErrno]
        generalize (if en = Generated.EINVAL then so else en) = x
        by_cases c1 : x = Generated.EINPROGRESS ∨ x = Generated.EALREADY
        · rw [if_pos c1]
          constructor
          · intro h; cases h
          · intro h; exact absurd (by rcases c1 with c | c; exact Or.inl c; exact Or.inr (Or.inl c)) h
        · rw [if_neg c1]
          by_cases c2 : x = 0
          · rw [if_pos c2]
            exact ⟨fun h => (by cases h), fun h => absurd (Or.inr (Or.inr (Or.inl c2))) h⟩
          · rw [if_neg c2]
            by_cases c3 : x = Generated.EISCONN
            · rw [if_pos c3]
              exact ⟨fun h => (by cases h), fun h => absurd (Or.inr (Or.inr (Or.inr (Or.inl c3)))) h⟩
            · rw [if_neg c3]
              by_cases c4 : x ∈ Generated.NET_ERRS ++ Generated.CONNECT_EXTRA_ERRS
              · rw [if_pos c4]
                exact ⟨fun h => (by cases h), fun h => absurd (Or.inr (Or.inr (Or.inr (Or.inr c4)))) h⟩
              · rw [if_neg c4]
                refine ⟨fun _ => ?_, fun _ => rfl⟩
                intro h
                rcases h with h | h | h | h | h
                · exact c1 (Or.inl h)
                · exact c1 (Or.inr h)
                · exact c2 h
                · exact c3 h
                · exact c4 h
  · have hcn' : s.connecting = false := by simpa using hcn
    simp [hcn']

/-- **A callback ends the process exactly when a connect is pending and fails with an errno
outside the handled set** (`raise  # error we've never heard of?!  barf completely.`).  No receive
error, send error, EPIPE or failing `shutdown` ever does. -/
theorem C08_callback_dies_iff (p : ProxyS) (m : MuxL) (e : ESock) (io : CbIo) :
    p.callback m e io = .died ↔ (p.sw.connecting = true ∧ p.sw.shutW = false ∧ ¬ HandledConn io.conn) := by
  rw [← tryConnect_died_iff p.sw e io.conn io.shutErr]
  unfold ProxyS.callback
  cases htc : p.sw.tryConnect e io.conn io.shutErr with
  | died => simp
  | ok s0 e0 =>
    simp only
    constructor
    · intro h
      split at h <;> cases h
    · intro h; cases h

/-- Corollary: with every connect errno in the handled set, no callback ends the process,
whatever else the sockets do. -/
theorem C08_callback_total (p : ProxyS) (m : MuxL) (e : ESock) (io : CbIo) (h : HandledConn io.conn) :
    p.callback m e io ≠ .died := by
  intro hd
  exact ((C08_callback_dies_iff p m e io).mp hd).2.2 h

/-! ## 2. an error closes the flow's socket -/

/-- A failed connect (handled errno that is neither "in progress" nor "already connected") leaves
the wrapper shut both ways, the error recorded, and the local socket shut down — and the rest
of the callback, and everything later, keeps it so. -/
theorem C08_connect_error_closes (p : ProxyS) (m : MuxL) (e : ESock) (io : CbIo) (p' : ProxyS) (m' : MuxL)
    (e' : ESock) (en so : Nat) (hconn : io.conn = .errno en so)
    (hc : p.sw.connecting = true) (hw : p.sw.shutW = false)
    (h1 : ¬ (effErrno en so = Generated.EINPROGRESS ∨ effErrno en so = Generated.EALREADY))
    (h2 : effErrno en so ≠ 0) (h3 : effErrno en so ≠ Generated.EISCONN)
    (h4 : effErrno en so ∈ Generated.NET_ERRS ++ Generated.CONNECT_EXTRA_ERRS)
    (h : p.callback m e io = .ok p' m' e') :
    p'.sw.shutR = true ∧ p'.sw.shutW = true ∧ e'.sawShut = true := by
  -- the connect stage
  have htc : p.sw.tryConnect e io.conn io.shutErr =
      .ok (SockW.seterr { p.sw with connecting := false } e io.shutErr).1
          (SockW.seterr { p.sw with connecting := false } e io.shutErr).2 := by
    unfold SockW.tryConnect
    simp only [hc, hw, Bool.and_false, Bool.false_eq_true, ↓reduceIte, Bool.not_true, hconn]
    unfold effErrno at h1 h2 h3 h4
    rw [if_neg h1, if_neg h2, if_neg h3, if_pos h4]
  obtain ⟨a1, a2, _, a4, a5⟩ := seterr_shut { p.sw with connecting := false } e io.shutErr
  have a4' : (SockW.seterr { p.sw with connecting := false } e io.shutErr).2.sawShut = true := by
    rcases a4 with a | a
    · exact a
    · simp only at a; rw [hw] at a; cases a
  rw [callback_after_connect p m e io _ _ htc (by rw [a5])] at h
  obtain ⟨k1, k2, k3, _, _⟩ := callback_mono _ m _ io p' m' e' h
  exact ⟨k3 a1, k1 a2, k2 a4'⟩

/-- A receive error (reset, …) on an established flow likewise closes it. -/
theorem C08_recv_error_closes (p : ProxyS) (m : MuxL) (e : ESock) (io : CbIo) (p' : ProxyS) (m' : MuxL)
    (e' : ESock) (hc : p.sw.connecting = false) (hb : p.sw.buf = []) (hr : p.sw.shutR = false)
    (hrecv : io.recv = .err) (hse : SE p.sw e) (h : p.callback m e io = .ok p' m' e') :
    p'.sw.shutR = true ∧ p'.sw.shutW = true ∧ e'.sawShut = true ∧ p'.sw.exc = true := by
  have hse' := hse.callback m io p' m' e' h
  suffices hx : p'.sw.exc = true from ⟨(hse'.1 hx).1, (hse'.1 hx).2, hse'.2.mp (hse'.1 hx).2, hx⟩
  -- `exc` is set by the fill stage and never cleared
  obtain ⟨psw, pmw, pok, sf⟩ := p
  simp only at hc hb hr
  unfold ProxyS.callback at h
  simp only at h
  rw [tryConnect_idle psw e io.conn io.shutErr hc] at h
  simp only at h
  have hfill : (psw.fill e io.recv io.shutErr).1.exc = true := by
    unfold SockW.fill
    simp only [hb, List.isEmpty_nil, Bool.not_true, Bool.false_eq_true, ↓reduceIte, hc, hr, hrecv, ESock.recv]
    unfold SockW.seterr SockW.nowrite SockW.noread
    split
    · rfl
    · split <;> rfl
  generalize psw.fill e io.recv io.shutErr = f at h hfill
  obtain ⟨s1, e1⟩ := f
  simp only at h hfill
  have nowrite_exc : ∀ (s : SockW) (e : ESock) (se : Bool), s.exc = true → (s.nowrite e se).1.exc = true := by
    intro s e se hx
    unfold SockW.nowrite
    split
    · exact hx
    · split
      · rfl
      · exact hx
  have copyMS_exc : ∀ (w : MuxW) (s : SockW) (e : ESock) (r : SendRes) (se : Bool), s.exc = true →
      (muxCopyToSock w s e r se).2.1.exc = true := by
    intro w s e r se hx
    have huw : ∀ b, (s.uwrite e b r se).2.1.exc = true := by
      intro b
      unfold SockW.uwrite
      split
      · exact hx
      · simp only
        split
        · exact hx
        · exact hx
        · exact nowrite_exc s e se hx
        · unfold SockW.seterr SockW.noread
          exact nowrite_exc { s with exc := true } e se rfl
    unfold muxCopyToSock
    cases hwb : w.buf with
    | nil =>
      simp only
      split
      · exact nowrite_exc s e se hx
      · exact hx
    | cons b rest =>
      simp only
      by_cases hbe : b.isEmpty = true
      · simp only [hbe, ↓reduceIte]
        split
        · exact nowrite_exc s e se hx
        · exact hx
      · simp only [hbe, Bool.false_eq_true, ↓reduceIte]
        have := huw b
        generalize s.uwrite e b r se = u at this
        obtain ⟨on, s1, e1⟩ := u
        cases on with
        | none =>
          simp only
          split
          · exact nowrite_exc s1 e1 se this
          · exact this
        | some n =>
          simp only
          split
          · exact nowrite_exc s1 e1 se this
          · exact this
  have cleanup_exc : ∀ (q : ProxyS) (m : MuxL) (e : ESock) (se : Bool), q.sw.exc = true →
      (q.cleanup m e se).1.sw.exc = true := by
    intro q m e se hx
    have hds : ∀ q : ProxyS, q.sw.exc = true → q.dropSock.sw.exc = true := by
      intro q hx; unfold ProxyS.dropSock; split
      · exact hx
      · exact hx
    have hfin : ∀ (q : ProxyS) (m : MuxL), q.sw.exc = true → (q.finish m e se).1.sw.exc = true := by
      intro q m hx; unfold ProxyS.finish; split
      · split <;> exact nowrite_exc q.sw e se hx
      · exact hx
    unfold ProxyS.cleanup
    by_cases hf : q.sockFirst = true
    · simp only [hf, ↓reduceIte]
      apply hfin; rw [(preSelect_fields _ _).1, dropMux_sw]; exact hds q hx
    · simp only [hf, Bool.false_eq_true, ↓reduceIte]
      apply hfin; rw [(preSelect_fields _ _).1]; apply hds; rw [dropMux_sw]; exact hx
  cases sf
  case true =>
    simp only [↓reduceIte] at h
    have g2 := (sockCopyToMux_sw s1 pmw m).2.2.1
    generalize sockCopyToMux s1 pmw m = g at h g2
    obtain ⟨s2, w2, m2⟩ := g
    simp only at h g2
    have g3 := copyMS_exc w2 s2 e1 io.send io.shutErr (by rw [g2]; exact hfill)
    generalize muxCopyToSock w2 s2 e1 io.send io.shutErr = k at h g3
    obtain ⟨w3, s3, e3⟩ := k
    simp only at h g3
    injection h with hp _ _
    rw [← hp]
    exact cleanup_exc { sw := s3, mw := w3, ok := pok, sockFirst := true } m2 e3 io.shutErr g3
  case false =>
    simp only [Bool.false_eq_true, ↓reduceIte] at h
    have g2 := copyMS_exc pmw s1 e1 io.send io.shutErr hfill
    generalize muxCopyToSock pmw s1 e1 io.send io.shutErr = k at h g2
    obtain ⟨w2, s2, e2⟩ := k
    simp only at h g2
    have g3 := (sockCopyToMux_sw s2 w2 m).2.2.1
    generalize sockCopyToMux s2 w2 m = g at h g3
    obtain ⟨s3, w3, m3⟩ := g
    simp only at h g3
    injection h with hp _ _
    rw [← hp]
    exact cleanup_exc { sw := s3, mw := w3, ok := pok, sockFirst := false } m3 e2 io.shutErr (by rw [g3]; exact g2)

/-- **An error never leaves a socket hanging**, in every reachable state of EVERY schedule (no
hypothesis on the steps at all): a handler that has recorded an error (`exc`) has its socket
wrapper shut both ways and the socket shut down; a handler about to be dropped (`ok = False`)
is completely finished and unregistered, so its identifier is free. -/
theorem C08_error_means_closed (w0 : World) (h0 : w0.flows = []) (steps : List Step) :
    ∀ f ∈ (w0.run steps).flows,
      (∀ p, f.c = some p →
        (p.sw.exc = true → p.sw.shutR = true ∧ p.sw.shutW = true ∧ f.app.sawShut = true) ∧
        (p.ok = false → p.mw.registered = false ∧ f.app.sawShut = true)) ∧
      (∀ p, f.s = some p →
        (p.sw.exc = true → p.sw.shutR = true ∧ p.sw.shutW = true ∧ f.dst.sawShut = true) ∧
        (p.ok = false → p.mw.registered = false ∧ f.dst.sawShut = true)) := by
  intro f hf
  obtain ⟨hc, hs, _, _⟩ := reach_flowSock w0 h0 steps f hf
  constructor
  · intro p hp
    obtain ⟨⟨a, b⟩, d⟩ := hc p hp
    exact ⟨fun hx => ⟨(a hx).1, (a hx).2, b.mp (a hx).2⟩, fun hok => ⟨(d hok).unregistered, b.mp (d hok).2.1⟩⟩
  · intro p hp
    obtain ⟨⟨a, b⟩, d⟩ := hs p hp
    exact ⟨fun hx => ⟨(a hx).1, (a hx).2, b.mp (a hx).2⟩, fun hok => ⟨(d hok).unregistered, b.mp (d hok).2.1⟩⟩

/-! ## 3. other flows are not touched -/

/-- **Frame lemma.**  A callback (with any fault) or `pre_select` of flow `i` changes no other
flow's record, and the frames it queues all carry flow `i`'s own channel. -/
theorem C08_step_frame (w : World) (e : End) (i : Nat) (io : CbIo) :
    (∀ j, j ≠ i → (w.stepRaw (.cb e i io)).flows[j]? = w.flows[j]?) ∧
    (∀ f, w.flows[i]? = some f → Grows f.chan w.cm (w.stepRaw (.cb e i io)).cm ∨ handlerAt .client f = none ∨
        ∀ p, handlerAt .client f = some p → p.mw.chan ≠ f.chan) ∧
    (∀ f, w.flows[i]? = some f → Grows f.chan w.sm (w.stepRaw (.cb e i io)).sm ∨ handlerAt .server f = none ∨
        ∀ p, handlerAt .server f = some p → p.mw.chan ≠ f.chan) := by
  refine ⟨?_, ?_, ?_⟩
  · intro j hj
    cases e
    · simp only [World.stepRaw, World.cbC]
      split
      · split
        · split
          · simp only; rw [modifyAt_getElem?, if_neg hj]
          · rfl
        · rfl
      · rfl
    · simp only [World.stepRaw, World.cbS]
      split
      · split
        · split
          · simp only; rw [modifyAt_getElem?, if_neg hj]
          · rfl
        · rfl
      · rfl
  · intro f hf
    cases e
    · simp only [World.stepRaw, World.cbC, hf]
      cases hc : f.c with
      | none => right; left; simp [handlerAt, hc]
      | some p =>
        simp only
        by_cases hch : p.mw.chan = f.chan
        · left
          split
          next p' m' e' hcb =>
            have := callback_grows p w.cm f.app io p' m' e' hcb
            rw [hch] at this; exact this
          · exact Grows.refl _ _
        · right; right
          intro q hq
          simp only [handlerAt, hc, Option.some.injEq] at hq
          subst hq; exact hch
    · left
      simp only [World.stepRaw, World.cbS]
      split
      · split
        · split <;> exact Grows.refl _ _
        · exact Grows.refl _ _
      · exact Grows.refl _ _
  · intro f hf
    cases e
    · left
      simp only [World.stepRaw, World.cbC]
      split
      · split
        · split <;> exact Grows.refl _ _
        · exact Grows.refl _ _
      · exact Grows.refl _ _
    · simp only [World.stepRaw, World.cbS, hf]
      cases hc : f.s with
      | none => right; left; simp [handlerAt, hc]
      | some p =>
        simp only
        by_cases hch : p.mw.chan = f.chan
        · left
          split
          next p' m' e' hcb =>
            have := callback_grows p w.sm f.dst io p' m' e' hcb
            rw [hch] at this; exact this
          · exact Grows.refl _ _
        · right; right
          intro q hq
          simp only [handlerAt, hc, Option.some.injEq] at hq
          subst hq; exact hch

/-- **The neighbours keep their guarantee.**  C01's statement, read for faults: whatever errors
are injected into whichever flows at whichever moments — they are ordinary steps of the
schedule — every flow's delivered bytes remain a prefix of what its own peer wrote. -/
theorem C08_neighbours_safe (w0 : World) (h0 : Fresh w0) (steps : List Step)
    (hg : ∀ st ∈ steps, GoodStep st) (hn : (chans (w0.run steps)).Nodup) :
    ∀ f ∈ (w0.run steps).flows,
      f.dst.delivered <+: written f.app ∧ f.app.delivered <+: written f.dst :=
  C01_prefix w0 h0 steps hg hn


/-! ## 4. every way a process can end -/

theorem gotPacket_died_iff (w : MuxW) (cmd : Nat) (data : Bytes) :
    w.gotPacket cmd data = .died ↔ (cmd ≠ EOF ∧ cmd ≠ STOP ∧ cmd ≠ DATA) := by
  unfold MuxW.gotPacket
  by_cases h1 : cmd = Generated.CMD_TCP_EOF
  · rw [if_pos h1]; exact ⟨fun h => (by cases h), fun h => absurd h1 h.1⟩
  · rw [if_neg h1]
    by_cases h2 : cmd = Generated.CMD_TCP_STOP_SENDING
    · rw [if_pos h2]; exact ⟨fun h => (by cases h), fun h => absurd h2 h.2.1⟩
    · rw [if_neg h2]
      by_cases h3 : cmd = Generated.CMD_TCP_DATA
      · rw [if_pos h3]; exact ⟨fun h => (by cases h), fun h => absurd h3 h.2.2⟩
      · rw [if_neg h3]; exact ⟨fun _ => ⟨h1, h2, h3⟩, fun _ => rfl⟩

/-- `dispatch` raises only when a frame that is not DATA / EOF / STOP_SENDING is addressed to a
channel on which a TCP wrapper is still registered. -/
theorem dispatch_died (e : End) (flows : List Flow) (fr : Frame) (h : (dispatch e flows fr).2 = true) :
    ∃ f ∈ flows, ∃ p, handlerAt e f = some p ∧ f.chan = fr.chan ∧ p.mw.registered = true ∧
      fr.cmd ≠ EOF ∧ fr.cmd ≠ STOP ∧ fr.cmd ≠ DATA := by
  induction flows with
  | nil => simp [dispatch] at h
  | cons f rest ih =>
    unfold dispatch at h
    cases hh : handlerAt e f with
    | none =>
      rw [hh] at h
      simp only at h
      obtain ⟨g, hg, r⟩ := ih h
      exact ⟨g, List.mem_cons_of_mem _ hg, r⟩
    | some p =>
      rw [hh] at h
      simp only at h
      by_cases hc : (f.chan == fr.chan && p.mw.registered) = true
      · rw [if_pos hc] at h
        simp only [Bool.and_eq_true, beq_iff_eq] at hc
        cases hg : p.mw.gotPacket fr.cmd fr.data with
        | ok w' => rw [hg] at h; cases h
        | died =>
          have := (gotPacket_died_iff p.mw fr.cmd fr.data).mp hg
          exact ⟨f, List.mem_cons_self, p, hh, hc.1, hc.2, this⟩
      · rw [if_neg hc] at h
        simp only at h
        obtain ⟨g, hg, r⟩ := ih h
        exact ⟨g, List.mem_cons_of_mem _ hg, r⟩

/-- The complete list of ways one step can end a process. -/
def DeathCause (w : World) : Step → Prop
  | .cb _ _ io => ¬ HandledConn io.conn                       -- connect errno outside the handled set
  | .deliver .server conn =>
    ∃ fr rest, w.cm.out = fr :: rest ∧
      ((fr.cmd = CONNECT ∧ (w.sOcc fr.chan = true ∨ ¬ HandledConn conn)) ∨   -- CONNECT for a live id / unknown errno
       (fr.cmd ≠ PING ∧ fr.cmd ≠ PONG ∧ fr.cmd ≠ CONNECT ∧ isControl fr.cmd = false ∧
        ∃ f ∈ w.flows, ∃ p, f.s = some p ∧ f.chan = fr.chan ∧ p.mw.registered = true ∧
          fr.cmd ≠ EOF ∧ fr.cmd ≠ STOP ∧ fr.cmd ≠ DATA))                    -- non-stream frame on a TCP channel
  | .deliver .client _ =>
    ∃ fr rest, w.sm.out = fr :: rest ∧
      ((fr.cmd = CONNECT ∧ w.cOcc fr.chan = true) ∨
       (fr.cmd ≠ PING ∧ fr.cmd ≠ PONG ∧ fr.cmd ≠ CONNECT ∧ isControl fr.cmd = false ∧
        ∃ f ∈ w.flows, ∃ p, f.c = some p ∧ f.chan = fr.chan ∧ p.mw.registered = true ∧
          fr.cmd ≠ EOF ∧ fr.cmd ≠ STOP ∧ fr.cmd ≠ DATA))
  | _ => False

theorem dispatchAt_died (w : World) (e : End) (fr : Frame) (hw : w.died = none)
    (h : (w.dispatchAt e fr).died ≠ none) : (dispatch e w.flows fr).2 = true := by
  unfold World.dispatchAt at h
  by_cases hc : (dispatch e w.flows fr).2 = true
  · exact hc
  · rw [if_neg hc] at h; exact absurd hw h

/-- **Nothing else ends a process.**  If a step of an alive world ends a process, the step is one
of the cases of `DeathCause`: in particular no receive / send error, no EPIPE, no failing
`shutdown`, no frame for a flow that is already closed (its wrapper is unregistered, so the
frame is dropped), no identifier exhaustion, no close order. -/
theorem C08_death_causes (w : World) (st : Step) (h0 : w.died = none) (hd : (w.step st).died ≠ none) :
    DeathCause w st := by
  have hraw : (w.stepRaw st).died ≠ none := by
    unfold World.step at hd
    rw [h0] at hd
    simp only [Option.isSome_none, Bool.false_eq_true, ↓reduceIte] at hd
    by_cases hc : (w.stepRaw st).died.isSome = true
    · intro hn; rw [hn] at hc; cases hc
    · rw [if_neg hc] at hd; exact hd
  unfold World.stepRaw at hraw
  cases st with
  | accept =>
    simp only [World.accept] at hraw
    split at hraw <;> exact absurd h0 hraw
  | cb e i io =>
    simp only [DeathCause]
    cases e
    · simp only [World.cbC] at hraw
      split at hraw
      next f hf =>
        split at hraw
        next p hp =>
          cases hcb : p.callback w.cm f.app io with
          | ok p' m' e' => rw [hcb] at hraw; exact absurd h0 hraw
          | died => exact ((C08_callback_dies_iff p w.cm f.app io).mp hcb).2.2
        · exact absurd h0 hraw
      · exact absurd h0 hraw
    · simp only [World.cbS] at hraw
      split at hraw
      next f hf =>
        split at hraw
        next p hp =>
          cases hcb : p.callback w.sm f.dst io with
          | ok p' m' e' => rw [hcb] at hraw; exact absurd h0 hraw
          | died => exact ((C08_callback_dies_iff p w.sm f.dst io).mp hcb).2.2
        · exact absurd h0 hraw
      · exact absurd h0 hraw
  | pre e i =>
    cases e
    · simp only [World.preC] at hraw
      split at hraw
      · split at hraw <;> exact absurd h0 hraw
      · exact absurd h0 hraw
    · simp only [World.preS] at hraw
      split at hraw
      · split at hraw <;> exact absurd h0 hraw
      · exact absurd h0 hraw
  | deliver e conn =>
    cases e
    · simp only [DeathCause]
      simp only [World.deliverC] at hraw
      cases ho : w.sm.out with
      | nil => rw [ho] at hraw; exact absurd h0 hraw
      | cons fr rest =>
        rw [ho] at hraw
        simp only at hraw
        refine ⟨fr, rest, rfl, ?_⟩
        by_cases c1 : (fr.cmd == Generated.CMD_PING) = true
        · rw [if_pos c1] at hraw; exact absurd h0 hraw
        · rw [if_neg c1] at hraw
          by_cases c2 : (fr.cmd == Generated.CMD_PONG) = true
          · rw [if_pos c2] at hraw; exact absurd h0 hraw
          · rw [if_neg c2] at hraw
            by_cases c3 : (fr.cmd == Generated.CMD_TCP_CONNECT) = true
            · rw [if_pos c3] at hraw
              split at hraw
              next hocc => left; exact ⟨by simpa using c3, hocc⟩
              · exact absurd h0 hraw
            · rw [if_neg c3] at hraw
              by_cases c4 : isControl fr.cmd = true
              · rw [if_pos c4] at hraw; exact absurd h0 hraw
              · rw [if_neg c4] at hraw
                right
                have := dispatchAt_died { w with sm := { w.sm with out := rest } } .client fr h0 hraw
                obtain ⟨f, hf, p, hp, r⟩ := dispatch_died .client w.flows fr this
                exact ⟨by simpa using c1, by simpa using c2, by simpa using c3, by simpa using c4, f, hf, p, hp, r⟩
    · simp only [DeathCause]
      simp only [World.deliverS] at hraw
      cases ho : w.cm.out with
      | nil => rw [ho] at hraw; exact absurd h0 hraw
      | cons fr rest =>
        rw [ho] at hraw
        simp only at hraw
        refine ⟨fr, rest, rfl, ?_⟩
        by_cases c1 : (fr.cmd == Generated.CMD_PING) = true
        · rw [if_pos c1] at hraw; exact absurd h0 hraw
        · rw [if_neg c1] at hraw
          by_cases c2 : (fr.cmd == Generated.CMD_PONG) = true
          · rw [if_pos c2] at hraw; exact absurd h0 hraw
          · rw [if_neg c2] at hraw
            by_cases c3 : (fr.cmd == Generated.CMD_TCP_CONNECT) = true
            · rw [if_pos c3] at hraw
              left
              refine ⟨by simpa using c3, ?_⟩
              unfold World.connectS at hraw
              by_cases hocc : w.sOcc fr.chan = true
              · exact Or.inl hocc
              · right
                have hocc' : World.sOcc { w with cm := { w.cm with out := rest } } fr.chan = w.sOcc fr.chan := rfl
                rw [hocc'] at hraw
                rw [if_neg hocc] at hraw
                split at hraw
                · exact absurd h0 hraw
                · split at hraw
                  · exact absurd h0 hraw
                  next f hf =>
                    cases htc : SockW.tryConnect { connecting := true } f.dst conn false with
                    | ok s e => rw [htc] at hraw; exact absurd h0 hraw
                    | died => exact ((tryConnect_died_iff _ _ _ _).mp htc).2.2
            · rw [if_neg c3] at hraw
              by_cases c4 : isControl fr.cmd = true
              · rw [if_pos c4] at hraw; exact absurd h0 hraw
              · rw [if_neg c4] at hraw
                right
                have := dispatchAt_died { w with cm := { w.cm with out := rest } } .server fr h0 hraw
                obtain ⟨f, hf, p, hp, r⟩ := dispatch_died .server w.flows fr this
                exact ⟨by simpa using c1, by simpa using c2, by simpa using c3, by simpa using c4, f, hf, p, hp, r⟩
  | removeDead e => cases e <;> exact absurd h0 hraw
  | checkFull e => cases e <;> exact absurd h0 hraw
  | foreign e fr => cases e <;> exact absurd h0 hraw
  | appWrite i b => exact absurd h0 hraw
  | appEof i => exact absurd h0 hraw
  | dstWrite i b => exact absurd h0 hraw
  | dstEof i => exact absurd h0 hraw


/-! ## 6. the processes keep running -/

/-- A frame that no TCP wrapper of this run will ever be handed: PING / PONG / a control message,
or a frame of another flow kind whose channel is none of the run's TCP flow ids. -/
def Benign (fin : List Nat) (fr : Frame) : Prop :=
  fr.cmd = PING ∨ fr.cmd = PONG ∨ isControl fr.cmd = true ∨ (isStreamCmd fr.cmd = false ∧ fr.chan ∉ fin)

/-- Every queued frame is a stream frame (CONNECT only towards the server) or benign. -/
def QInv (fin : List Nat) (w : World) : Prop :=
  (∀ fr ∈ w.cm.out, isStreamCmd fr.cmd = true ∨ Benign fin fr) ∧
  (∀ fr ∈ w.sm.out, (isStreamCmd fr.cmd = true ∧ fr.cmd ≠ CONNECT) ∨ Benign fin fr)

/-- The environment's side of the bargain: connect errnos come from the handled set, and frames
of other flow kinds (DNS, UDP, control) are not addressed to a TCP flow's channel. -/
def SafeStep (fin : List Nat) : Step → Prop
  | .cb _ _ io => HandledConn io.conn
  | .deliver .server conn => HandledConn conn
  | .foreign _ fr => isStreamCmd fr.cmd = false ∧ Benign fin fr
  | _ => True

theorem SafeStep.good {fin : List Nat} {st : Step} (h : SafeStep fin st) : GoodStep st := by
  cases st <;> simp only [GoodStep]
  exact h.1

theorem streamKind_cmd {cmd : Nat} (h : streamKind cmd) : isStreamCmd cmd = true ∧ cmd ≠ CONNECT := by
  obtain ⟨d1, d2, d3, d4, d5, d6⟩ := cmds_distinct
  rcases h with h | h | h <;> subst h
  · exact ⟨by simp [isStreamCmd], d3⟩
  · exact ⟨by simp [isStreamCmd], d5⟩
  · exact ⟨by simp [isStreamCmd], d6⟩

theorem ping_facts : isStreamCmd PING = false ∧ isStreamCmd PONG = false ∧ PING ≠ CONNECT ∧ PONG ≠ CONNECT ∧
    isControl CONNECT = false := by decide

theorem QInv.stepRaw {fin : List Nat} {w : World} (h : QInv fin w) (st : Step) (hs : SafeStep fin st) :
    QInv fin (w.stepRaw st) := by
  constructor
  · rcases stepRaw_cmOut w st with ⟨extra, he, ha⟩ | ⟨fr, ho⟩
    · rw [he]
      intro fr hfr
      rcases List.mem_append.mp hfr with hm | hm
      · exact h.1 fr hm
      · rcases ha fr hm with k | k | k | k | ⟨fr', hst, hc1, hc2⟩
        · exact Or.inl (streamKind_cmd k).1
        · left; rw [k]; decide
        · exact Or.inr (Or.inl k)
        · exact Or.inr (Or.inr (Or.inl k))
        · subst hst
          right
          obtain ⟨_, hb⟩ := hs
          rcases hb with b | b | b | ⟨b1, b2⟩
          · exact Or.inl (by rw [hc2]; exact b)
          · exact Or.inr (Or.inl (by rw [hc2]; exact b))
          · exact Or.inr (Or.inr (Or.inl (by rw [hc2]; exact b)))
          · exact Or.inr (Or.inr (Or.inr ⟨by rw [hc2]; exact b1, by rw [hc1]; exact b2⟩))
    · intro x hx
      exact h.1 x (by rw [ho]; exact List.mem_cons_of_mem _ hx)
  · rcases stepRaw_smOut w st with ⟨extra, he, ha⟩ | ⟨fr, ho⟩
    · rw [he]
      intro fr hfr
      rcases List.mem_append.mp hfr with hm | hm
      · exact h.2 fr hm
      · rcases ha fr hm with k | k | k | ⟨fr', hst, hc1, hc2⟩
        · exact Or.inl (streamKind_cmd k)
        · exact Or.inr (Or.inl k)
        · exact Or.inr (Or.inr (Or.inl k))
        · subst hst
          right
          obtain ⟨_, hb⟩ := hs
          rcases hb with b | b | b | ⟨b1, b2⟩
          · exact Or.inl (by rw [hc2]; exact b)
          · exact Or.inr (Or.inl (by rw [hc2]; exact b))
          · exact Or.inr (Or.inr (Or.inl (by rw [hc2]; exact b)))
          · exact Or.inr (Or.inr (Or.inr ⟨by rw [hc2]; exact b1, by rw [hc1]; exact b2⟩))
    · intro x hx
      exact h.2 x (by rw [ho]; exact List.mem_cons_of_mem _ hx)

theorem QInv.step {fin : List Nat} {w : World} (h : QInv fin w) (st : Step) (hs : SafeStep fin st) :
    QInv fin (w.step st) := by
  unfold World.step
  split
  · exact h
  · split
    · exact h
    · exact h.stepRaw st hs

/-- One step of an alive world that satisfies the invariants cannot end a process. -/
theorem step_alive {fin : List Nat} {w : World} (hw : WInv w) (hq : QInv fin w) (hd : w.died = none)
    (hsub : ∀ c ∈ chans w, c ∈ fin) (st : Step) (hs : SafeStep fin st) : (w.step st).died = none := by
  cases hdd : (w.step st).died with
  | none => rfl
  | some msg =>
    exfalso
    have hc := C08_death_causes w st hd (by rw [hdd]; exact fun h => by cases h)
    obtain ⟨d1, d2, d3, d4, d5, d6⟩ := cmds_distinct
    -- a frame of the queue that reaches a registered TCP wrapper of this world is a stream frame
    have notBenign : ∀ (fr : Frame) (f : Flow), f ∈ w.flows → f.chan = fr.chan → fr.cmd ≠ PING → fr.cmd ≠ PONG →
        isControl fr.cmd = false → ¬ Benign fin fr := by
      intro fr f hf hch n1 n2 n3 hb
      rcases hb with b | b | b | ⟨_, b⟩
      · exact n1 b
      · exact n2 b
      · rw [n3] at b; cases b
      · exact b (hsub _ (by rw [← hch]; exact List.mem_map_of_mem hf))
    have notStream : ∀ cmd : Nat, cmd ≠ EOF → cmd ≠ STOP → cmd ≠ DATA → cmd ≠ CONNECT → isStreamCmd cmd = false := by
      intro cmd a b c d
      simp [isStreamCmd, a, b, c, d]
    cases st with
    | cb e i io => exact hc hs
    | deliver e conn =>
      cases e
      · -- the client handles the head of the server → client queue
        obtain ⟨fr, rest, ho, hcase⟩ := hc
        have hfr := hq.2 fr (by rw [ho]; exact List.mem_cons_self)
        rcases hcase with ⟨hcn, _⟩ | ⟨n1, n2, n3, n4, f, hf, p, hp, hch, _, k1, k2, k3⟩
        · rcases hfr with ⟨_, k⟩ | b
          · exact k hcn
          · rcases b with b | b | b | ⟨b, _⟩
            · rw [hcn] at b; exact ping_facts.2.2.1 b.symm
            · rw [hcn] at b; exact ping_facts.2.2.2.1 b.symm
            · rw [hcn, ping_facts.2.2.2.2] at b; cases b
            · rw [hcn] at b; revert b; decide
        · rcases hfr with ⟨k, _⟩ | b
          · rw [notStream fr.cmd k1 k2 k3 n3] at k; cases k
          · exact notBenign fr f hf hch n1 n2 n4 b
      · obtain ⟨fr, rest, ho, hcase⟩ := hc
        have hfr := hq.1 fr (by rw [ho]; exact List.mem_cons_self)
        rcases hcase with ⟨hcn, hocc | hh⟩ | ⟨n1, n2, n3, n4, f, hf, p, hp, hch, _, k1, k2, k3⟩
        · -- CONNECT for an id on which a server wrapper is registered: impossible
          unfold World.sOcc at hocc
          obtain ⟨f, hf, hfc⟩ := List.any_eq_true.mp hocc
          simp only [Bool.and_eq_true, beq_iff_eq] at hfc
          obtain ⟨hch, hreg⟩ := hfc
          cases hsf : f.s with
          | none => rw [hsf] at hreg; cases hreg
          | some p =>
            obtain ⟨i, hi⟩ := List.getElem?_of_mem hf
            have hfo := hw.flows i f hi
            have hk := hfo.up.connOk
            rw [upSrc_out, ho, nConnect_cons] at hk
            have hic : isConnect f.chan fr = true := by simp [isConnect, hch, hcn]
            rw [hic] at hk
            rcases hk with hk | ⟨_, hk⟩
            · simp at hk
            · simp [upSink, hsf, KV] at hk
        · exact hh hs
        · rcases hfr with k | b
          · rw [notStream fr.cmd k1 k2 k3 n3] at k; cases k
          · exact notBenign fr f hf hch n1 n2 n4 b
    | accept => exact hc
    | pre e i => exact hc
    | removeDead e => exact hc
    | checkFull e => exact hc
    | foreign e fr => exact hc
    | appWrite i b => exact hc
    | appEof i => exact hc
    | dstWrite i b => exact hc
    | dstEof i => exact hc

/-- A world right after start-up: no flows, both processes alive, only PING / PONG / control
frames (the initial PINGs, the server's ROUTES message) queued. -/
def Boot (w : World) : Prop :=
  w.flows = [] ∧ w.died = none ∧
  (∀ fr ∈ w.cm.out, fr.cmd = PING ∨ fr.cmd = PONG ∨ isControl fr.cmd = true) ∧
  (∀ fr ∈ w.sm.out, fr.cmd = PING ∨ fr.cmd = PONG ∨ isControl fr.cmd = true)

theorem ctl_not_stream {cmd : Nat} (h : cmd = PING ∨ cmd = PONG ∨ isControl cmd = true) :
    isStreamCmd cmd = false := by
  rcases h with h | h | h
  · rw [h]; decide
  · rw [h]; decide
  · simp only [isControl, Bool.or_eq_true, beq_iff_eq] at h
    rcases h with ((((h | h) | h) | h) | h) | h <;> (rw [h]; decide)

theorem Boot.fresh {w : World} (h : Boot w) : Fresh w :=
  ⟨h.1, fun fr hfr => ctl_not_stream (h.2.2.1 fr hfr), fun fr hfr => ctl_not_stream (h.2.2.2 fr hfr)⟩

theorem Boot.qinv {w : World} (h : Boot w) (fin : List Nat) : QInv fin w :=
  ⟨fun fr hfr => Or.inr ((h.2.2.1 fr hfr).elim Or.inl (fun k => k.elim (fun k => Or.inr (Or.inl k)) (fun k => Or.inr (Or.inr (Or.inl k))))),
   fun fr hfr => Or.inr ((h.2.2.2 fr hfr).elim Or.inl (fun k => k.elim (fun k => Or.inr (Or.inl k)) (fun k => Or.inr (Or.inr (Or.inl k)))))⟩

theorem no_death_run (fin : List Nat) (hn : fin.Nodup) (w : World) (hr : RunInv w) (hq : QInv fin w)
    (hd : w.died = none) (steps : List Step) (hs : ∀ st ∈ steps, SafeStep fin st)
    (hfin : chans (w.run steps) = fin) : (w.run steps).died = none := by
  induction steps generalizing w with
  | nil => exact hd
  | cons st rest ih =>
    simp only [World.run, List.foldl_cons] at hfin ⊢
    have hst := hs st (by simp)
    have hpre1 : chans (w.step st) <+: fin := by rw [← hfin]; exact chans_run_prefix (w.step st) rest
    have hpre0 : chans w <+: fin := (chans_step_prefix w st).trans hpre1
    have hd1 := step_alive (hr.2.2 hd) hq hd (fun c hc => hpre0.subset hc) st hst
    have hr1 := hr.step st hst.good (nodup_of_prefix hpre1 hn)
    exact ih (w.step st) hr1 (hq.step st hst) hd1 (fun s hs' => hs s (by simp [hs'])) hfin

/-- **C08, process liveness.**  From start-up, for EVERY schedule — any interleaving of accepts,
callbacks with any socket fault at any moment on any flow (reset, EPIPE, failing shutdown,
refused / unreachable / timed-out connects), frame deliveries however delayed, frames arriving
for flows already closed, identifier exhaustion, removal of handlers, latency-control rounds,
any number of concurrent flows — neither the client nor the server process ends.

Hypotheses (the environment's part): connect errnos come from the handled set (`SafeStep`; any
other errno is re-raised by design), frames of other flow kinds are not addressed to a TCP
flow's id, and the TCP flow ids of the run are pairwise distinct (re-use after a full cursor
cycle is known finding F19). -/
theorem C08_no_death (w0 : World) (hb : Boot w0) (steps : List Step)
    (hs : ∀ st ∈ steps, SafeStep (chans (w0.run steps)) st) (hn : (chans (w0.run steps)).Nodup) :
    (w0.run steps).died = none :=
  no_death_run _ hn w0 hb.fresh.runInv (hb.qinv _) hb.2.1 steps hs rfl

/-! ## 5. non-vacuity -/

/-- ECONNREFUSED (111) is in the handled set; a connect that fails with it closes the flow and the
process lives.  An errno outside the set (here 1000) does end the process — the hypothesis of
`C08_callback_total` is not vacuous and not redundant. -/
example : HandledConn (.errno 111 0) ∧ ¬ HandledConn (.errno 1000 0) := by
  constructor
  · unfold HandledConn effErrno; decide
  · unfold HandledConn effErrno; decide

example :
    let p : ProxyS := { sw := { connecting := true }, mw := { chan := 3 }, sockFirst := false }
    (∃ p' m' e', p.callback {} {} { conn := .errno 111 0 } = .ok p' m' e' ∧
        p'.sw.shutW = true ∧ p'.sw.shutR = true ∧ e'.sawShut = true ∧ p'.sw.exc = true) ∧
    p.callback {} {} { conn := .errno 1000 0 } = .died := by
  refine ⟨⟨_, _, _, rfl, by decide⟩, ?_⟩
  rw [C08_callback_dies_iff]
  refine ⟨rfl, rfl, ?_⟩
  unfold HandledConn effErrno; decide


def demo8 : List Step :=
  [.accept, .accept, .appWrite 1 [5, 6], .cb .client 1 { recv := .data 65536 },
   .deliver .server (.errno 111 0),                 -- flow 0: connection refused at the server
   .deliver .server .ok, .deliver .server .ok,      -- flow 1: connected, its data arrives
   .cb .server 0 {}, .cb .server 1 { send := .sent 65536 },
   .cb .client 0 { recv := .err },                  -- flow 0: reset on the application side too
   .foreign .server ⟨9, Generated.CMD_DNS_RESPONSE, [1]⟩]

/-- The hypotheses of `C08_no_death` are met by a schedule with a refused connect, a reset and a
frame of another flow kind; the faulty flow's destination socket ends shut, its neighbour's bytes
arrive. -/
example :
    Boot ({} : World) ∧ (∀ st ∈ demo8, SafeStep (chans (({} : World).run demo8)) st) ∧
    (chans (({} : World).run demo8)).Nodup ∧
    ((({} : World).run demo8).flows.map fun f => (f.dst.sawShut, f.dst.delivered)) = [(true, []), (false, [5, 6])] := by
  refine ⟨⟨rfl, rfl, by simp, by simp⟩, ?_, by decide +kernel, by decide +kernel⟩
  have hfin : chans (({} : World).run demo8) = [1, 2] := by decide +kernel
  rw [hfin]
  intro st hst
  simp only [demo8, List.mem_cons, List.not_mem_nil, or_false] at hst
  rcases hst with h | h | h | h | h | h | h | h | h | h | h <;> subst h
  all_goals first
    | trivial
    | (simp only [SafeStep, HandledConn, effErrno]; decide)
    | (exact ⟨by decide, Or.inr (Or.inr (Or.inr ⟨by decide, by decide⟩))⟩)


/-! ### Faults in front of the flow: the accept handler -/

/-- A reset that arrives between `accept()` and the construction of the flow's wrapper makes
`getpeername()` fail (ENOTCONN on Linux, EINVAL on BSD/macOS, ENOTSOCK for a closed descriptor):
the accept handler swallows each of them, the flow is created and then ends through the ordinary
receive-error path — the client does not end.  (`Generated.PEERNAME_TOLERATED` is read off the
handler in `ssnet._try_peername` on every run.) -/
theorem C08_reset_at_accept_contained (e : Nat)
    (h : e = Generated.ENOTCONN ∨ e = Generated.EINVAL ∨ e = Generated.ENOTSOCK) :
    Accept.peername (some e) = .created := by
  rcases h with h | h | h <;> subst h <;> decide

/-- Descriptor exhaustion at `accept()` (EMFILE / ENFILE) ends at most the arriving connection:
for every number of free descriptor slots — zero included, which is the case the path exists for —
the handler's sequence of descriptor operations (read off `client.onaccept_tcp` on every run) never
needs a slot it has not freed itself, closes the connection it accepted, and leaves the spare
descriptor open again, with as many free slots as before. -/
theorem C08_fd_exhaustion_contained (e free : Nat) (h : e = Generated.EMFILE ∨ e = Generated.ENFILE) :
    Accept.acceptError e { free := free } = (.refused, some { free := free }) := by
  have hp : Accept.emfilePath = some [.closeExtra, .accept, .closeSock, .openExtra, .ret] := by decide
  have hc : Generated.ACCEPT_HANDLED.contains e = true := by
    rcases h with h | h <;> subst h <;> decide
  unfold Accept.acceptError
  rw [hc, hp]
  simp [Accept.Fd.run, Accept.Fd.op]

/-- Any other `accept()` error is not handled by the accept handler (it is re-raised: outside the
property's fault list, recorded so that the boundary is explicit). -/
theorem C08_accept_other_errors_raise (e : Nat) (s : Accept.Fd) (h : Generated.ACCEPT_HANDLED.contains e = false) :
    (Accept.acceptError e s).1 = .died := by
  unfold Accept.acceptError; rw [h]; rfl


/-- **No identifier free for a new flow ends at most that flow.**  When the allocator finds no free
id within its probe window (TCP accept, DNS query or UDP datagram from a new source alike), the
arrival is discarded and the client's tables — registered ids, held DNS requests and UDP
associations with their deadlines — are exactly what they were; only the allocation cursor has
moved.  (The table model is the one C06 keeps in lock-step with the real `onaccept_tcp`, `ondns`
and `onaccept_udp`, exhaustion included.) -/
theorem C08_exhaustion_discards (max probes : Nat) (s : Alloc.Timed) (k : Alloc.Kind)
    (h : (Alloc.nextChannel max s.t.occ probes s.t.chani).1 = none) :
    (s.step max probes (.base (.open k))).2 = .base .discarded ∧
    (s.step max probes (.base (.open k))).1.t.live = s.t.live ∧
    (s.step max probes (.base (.open k))).1.dl = s.dl ∧
    (s.step max probes (.base (.open k))).1.now = s.now := by
  simp only [Alloc.Timed.step, Alloc.Table.step]
  cases hn : Alloc.nextChannel max s.t.occ probes s.t.chani with
  | mk r ch =>
    rw [hn] at h
    simp only at h
    subst h
    exact ⟨rfl, rfl, rfl, rfl⟩

end Sshuttle.Tunnel
