/-
C08 — A fault in one flow never takes down the tunnel or other flows.

Theorems over `Code/Wrap.lean` / `Code/Tunnel.lean`.  Faults are part of the step alphabet of the
world model (`CbIo`: any connect errno, receive error, send error / EPIPE, failing `shutdown`;
frames for flows already closed; identifier exhaustion in `accept`), so every theorem of C01
already quantifies over them.  This file adds what is specific to containment:

* exactly which results can end a process (`C08_callback_dies_iff`, `C08_death_causes`);
* an error closes the flow's local socket rather than leaving it hanging
  (`C08_connect_error_closes`, `C08_recv_error_closes`, `C08_error_means_closed`);
* a callback of one flow touches no other flow's record and queues frames of its own channel only
  (`C08_step_frame`), and the other flows keep C01's guarantee (`C08_neighbours_safe`).

UDP and DNS flows (`onaccept_udp`, `ondns`, server `UdpProxy`/`DnsProxy`) are outside this model;
their fault handling is decided on the real code by `harness/props/c08.py` (and C10/C11).
-/
import SshuttleModel.Lemmas.SockInv
import SshuttleModel.Props.C01

namespace Sshuttle.Tunnel
open Sshuttle.Mux (Frame)
open Sshuttle.Wrap

/-! ## 1. what can end a process -/

/-- The errno `try_connect` acts on: with EINVAL it asks the socket for SO_ERROR. -/
def effErrno (en so : Nat) : Nat := if en = Generated.EINVAL then so else en

/-- The connect results `try_connect` knows: success, still in progress, already connected, or
an errno of the handled network-error set (NET_ERRS + EACCES + EPERM). -/
def HandledConn : ConnRes → Prop
  | .ok => True
  | .errno en so =>
    effErrno en so = Generated.EINPROGRESS ∨ effErrno en so = Generated.EALREADY ∨ effErrno en so = 0 ∨
    effErrno en so = Generated.EISCONN ∨ effErrno en so ∈ Generated.NET_ERRS ++ Generated.CONNECT_EXTRA_ERRS

theorem tryConnect_died_iff (s : SockW) (e : ESock) (c : ConnRes) (se : Bool) :
    s.tryConnect e c se = .died ↔ (s.connecting = true ∧ s.shutW = false ∧ ¬ HandledConn c) := by
  unfold SockW.tryConnect
  by_cases hcn : s.connecting = true
  · by_cases hw : s.shutW = true
    · simp [hcn, hw, SockW.noread]
    · have hw' : s.shutW = false := by simpa using hw
      simp only [hcn, hw', Bool.and_false, Bool.false_eq_true, ↓reduceIte, Bool.not_true, true_and]
      cases c with
      | ok => simp [HandledConn]
      | errno en so =>
        simp only [HandledConn, effErrno]
        generalize (if en = Generated.EINVAL then so else en) = x
        by_cases c1 : x = Generated.EINPROGRESS ∨ x = Generated.EALREADY
        · rw [if_pos c1]
          constructor
          · intro h; cases h
          · intro h; exact absurd (by rcases c1 with c | c; exact Or.inl c; exact Or.inr (Or.inl c)) h
        · rw [if_neg c1]
          by_cases c2 : x = 0
          · rw [if_pos c2]
            exact ⟨fun h => (by cases h), fun h => absurd (Or.inr (Or.inr (Or.inl c2))) h⟩
          · rw [if_neg c2]
            by_cases c3 : x = Generated.EISCONN
            · rw [if_pos c3]
              exact ⟨fun h => (by cases h), fun h => absurd (Or.inr (Or.inr (Or.inr (Or.inl c3)))) h⟩
            · rw [if_neg c3]
              by_cases c4 : x ∈ Generated.NET_ERRS ++ Generated.CONNECT_EXTRA_ERRS
              · rw [if_pos c4]
                exact ⟨fun h => (by cases h), fun h => absurd (Or.inr (Or.inr (Or.inr (Or.inr c4)))) h⟩
              · rw [if_neg c4]
                refine ⟨fun _ => ?_, fun _ => rfl⟩
                intro h
                rcases h with h | h | h | h | h
                · exact c1 (Or.inl h)
                · exact c1 (Or.inr h)
                · exact c2 h
                · exact c3 h
                · exact c4 h
  · have hcn' : s.connecting = false := by simpa using hcn
    simp [hcn']

/-- **A callback ends the process exactly when a connect is pending and fails with an errno
outside the handled set** (`raise  # error we've never heard of?!  barf completely.`).  No receive
error, send error, EPIPE or failing `shutdown` ever does. -/
theorem C08_callback_dies_iff (p : ProxyS) (m : MuxL) (e : ESock) (io : CbIo) :
    p.callback m e io = .died ↔ (p.sw.connecting = true ∧ p.sw.shutW = false ∧ ¬ HandledConn io.conn) := by
  rw [← tryConnect_died_iff p.sw e io.conn io.shutErr]
  unfold ProxyS.callback
  cases htc : p.sw.tryConnect e io.conn io.shutErr with
  | died => simp
  | ok s0 e0 =>
    simp only
    constructor
    · intro h
      split at h <;> cases h
    · intro h; cases h

/-- Corollary: with every connect errno in the handled set, no callback ends the process,
whatever else the sockets do. -/
theorem C08_callback_total (p : ProxyS) (m : MuxL) (e : ESock) (io : CbIo) (h : HandledConn io.conn) :
    p.callback m e io ≠ .died := by
  intro hd
  exact ((C08_callback_dies_iff p m e io).mp hd).2.2 h

/-! ## 2. an error closes the flow's socket -/

/-- A failed connect (handled errno that is neither "in progress" nor "already connected") leaves
the wrapper shut both ways, the error recorded, and the local socket shut down — and the rest
of the callback, and everything later, keeps it so. -/
theorem C08_connect_error_closes (p : ProxyS) (m : MuxL) (e : ESock) (io : CbIo) (p' : ProxyS) (m' : MuxL)
    (e' : ESock) (en so : Nat) (hconn : io.conn = .errno en so)
    (hc : p.sw.connecting = true) (hw : p.sw.shutW = false)
    (h1 : ¬ (effErrno en so = Generated.EINPROGRESS ∨ effErrno en so = Generated.EALREADY))
    (h2 : effErrno en so ≠ 0) (h3 : effErrno en so ≠ Generated.EISCONN)
    (h4 : effErrno en so ∈ Generated.NET_ERRS ++ Generated.CONNECT_EXTRA_ERRS)
    (h : p.callback m e io = .ok p' m' e') :
    p'.sw.shutR = true ∧ p'.sw.shutW = true ∧ e'.sawShut = true := by
  -- the connect stage
  have htc : p.sw.tryConnect e io.conn io.shutErr =
      .ok (SockW.seterr { p.sw with connecting := false } e io.shutErr).1
          (SockW.seterr { p.sw with connecting := false } e io.shutErr).2 := by
    unfold SockW.tryConnect
    simp only [hc, hw, Bool.and_false, Bool.false_eq_true, ↓reduceIte, Bool.not_true, hconn]
    unfold effErrno at h1 h2 h3 h4
    rw [if_neg h1, if_neg h2, if_neg h3, if_pos h4]
  obtain ⟨a1, a2, _, a4, a5⟩ := seterr_shut { p.sw with connecting := false } e io.shutErr
  have a4' : (SockW.seterr { p.sw with connecting := false } e io.shutErr).2.sawShut = true := by
    rcases a4 with a | a
    · exact a
    · simp only at a; rw [hw] at a; cases a
  rw [callback_after_connect p m e io _ _ htc (by rw [a5])] at h
  obtain ⟨k1, k2, k3, _, _⟩ := callback_mono _ m _ io p' m' e' h
  exact ⟨k3 a1, k1 a2, k2 a4'⟩

/-- A receive error (reset, …) on an established flow likewise closes it. -/
theorem C08_recv_error_closes (p : ProxyS) (m : MuxL) (e : ESock) (io : CbIo) (p' : ProxyS) (m' : MuxL)
    (e' : ESock) (hc : p.sw.connecting = false) (hb : p.sw.buf = []) (hr : p.sw.shutR = false)
    (hrecv : io.recv = .err) (hse : SE p.sw e) (h : p.callback m e io = .ok p' m' e') :
    p'.sw.shutR = true ∧ p'.sw.shutW = true ∧ e'.sawShut = true ∧ p'.sw.exc = true := by
  have hse' := hse.callback m io p' m' e' h
  suffices hx : p'.sw.exc = true from ⟨(hse'.1 hx).1, (hse'.1 hx).2, hse'.2 (hse'.1 hx).2, hx⟩
  -- `exc` is set by the fill stage and never cleared
  obtain ⟨psw, pmw, pok, sf⟩ := p
  simp only at hc hb hr
  unfold ProxyS.callback at h
  simp only at h
  rw [tryConnect_idle psw e io.conn io.shutErr hc] at h
  simp only at h
  have hfill : (psw.fill e io.recv io.shutErr).1.exc = true := by
    unfold SockW.fill
    simp only [hb, List.isEmpty_nil, Bool.not_true, Bool.false_eq_true, ↓reduceIte, hc, hr, hrecv, ESock.recv]
    unfold SockW.seterr SockW.nowrite SockW.noread
    split
    · rfl
    · split <;> rfl
  generalize psw.fill e io.recv io.shutErr = f at h hfill
  obtain ⟨s1, e1⟩ := f
  simp only at h hfill
  have nowrite_exc : ∀ (s : SockW) (e : ESock) (se : Bool), s.exc = true → (s.nowrite e se).1.exc = true := by
    intro s e se hx
    unfold SockW.nowrite
    split
    · exact hx
    · split
      · rfl
      · exact hx
  have copyMS_exc : ∀ (w : MuxW) (s : SockW) (e : ESock) (r : SendRes) (se : Bool), s.exc = true →
      (muxCopyToSock w s e r se).2.1.exc = true := by
    intro w s e r se hx
    have huw : ∀ b, (s.uwrite e b r se).2.1.exc = true := by
      intro b
      unfold SockW.uwrite
      split
      · exact hx
      · simp only
        split
        · exact hx
        · exact hx
        · exact nowrite_exc s e se hx
        · unfold SockW.seterr SockW.noread
          exact nowrite_exc { s with exc := true } e se rfl
    unfold muxCopyToSock
    cases hwb : w.buf with
    | nil =>
      simp only
      split
      · exact nowrite_exc s e se hx
      · exact hx
    | cons b rest =>
      simp only
      by_cases hbe : b.isEmpty = true
      · simp only [hbe, ↓reduceIte]
        split
        · exact nowrite_exc s e se hx
        · exact hx
      · simp only [hbe, Bool.false_eq_true, ↓reduceIte]
        have := huw b
        generalize s.uwrite e b r se = u at this
        obtain ⟨on, s1, e1⟩ := u
        cases on with
        | none =>
          simp only
          split
          · exact nowrite_exc s1 e1 se this
          · exact this
        | some n =>
          simp only
          split
          · exact nowrite_exc s1 e1 se this
          · exact this
  have cleanup_exc : ∀ (q : ProxyS) (m : MuxL) (e : ESock) (se : Bool), q.sw.exc = true →
      (q.cleanup m e se).1.sw.exc = true := by
    intro q m e se hx
    have hds : ∀ q : ProxyS, q.sw.exc = true → q.dropSock.sw.exc = true := by
      intro q hx; unfold ProxyS.dropSock; split
      · exact hx
      · exact hx
    have hfin : ∀ (q : ProxyS) (m : MuxL), q.sw.exc = true → (q.finish m e se).1.sw.exc = true := by
      intro q m hx; unfold ProxyS.finish; split
      · split <;> exact nowrite_exc q.sw e se hx
      · exact hx
    unfold ProxyS.cleanup
    by_cases hf : q.sockFirst = true
    · simp only [hf, ↓reduceIte]
      apply hfin; rw [dropMux_sw]; exact hds q hx
    · simp only [hf, Bool.false_eq_true, ↓reduceIte]
      apply hfin; apply hds; rw [dropMux_sw]; exact hx
  cases sf
  case true =>
    simp only [↓reduceIte] at h
    have g2 := (sockCopyToMux_sw s1 pmw m).2.2.1
    generalize sockCopyToMux s1 pmw m = g at h g2
    obtain ⟨s2, w2, m2⟩ := g
    simp only at h g2
    have g3 := copyMS_exc w2 s2 e1 io.send io.shutErr (by rw [g2]; exact hfill)
    generalize muxCopyToSock w2 s2 e1 io.send io.shutErr = k at h g3
    obtain ⟨w3, s3, e3⟩ := k
    simp only at h g3
    injection h with hp _ _
    rw [← hp]
    exact cleanup_exc { sw := s3, mw := w3, ok := pok, sockFirst := true } m2 e3 io.shutErr g3
  case false =>
    simp only [Bool.false_eq_true, ↓reduceIte] at h
    have g2 := copyMS_exc pmw s1 e1 io.send io.shutErr hfill
    generalize muxCopyToSock pmw s1 e1 io.send io.shutErr = k at h g2
    obtain ⟨w2, s2, e2⟩ := k
    simp only at h g2
    have g3 := (sockCopyToMux_sw s2 w2 m).2.2.1
    generalize sockCopyToMux s2 w2 m = g at h g3
    obtain ⟨s3, w3, m3⟩ := g
    simp only at h g3
    injection h with hp _ _
    rw [← hp]
    exact cleanup_exc { sw := s3, mw := w3, ok := pok, sockFirst := false } m3 e2 io.shutErr (by rw [g3]; exact g2)

/-- **An error never leaves a socket hanging**, in every reachable state of EVERY schedule (no
hypothesis on the steps at all): a handler that has recorded an error (`exc`) has its socket
wrapper shut both ways and the socket shut down; a handler about to be dropped (`ok = False`)
is completely finished and unregistered, so its identifier is free. -/
theorem C08_error_means_closed (w0 : World) (h0 : w0.flows = []) (steps : List Step) :
    ∀ f ∈ (w0.run steps).flows,
      (∀ p, f.c = some p →
        (p.sw.exc = true → p.sw.shutR = true ∧ p.sw.shutW = true ∧ f.app.sawShut = true) ∧
        (p.ok = false → p.mw.registered = false ∧ f.app.sawShut = true)) ∧
      (∀ p, f.s = some p →
        (p.sw.exc = true → p.sw.shutR = true ∧ p.sw.shutW = true ∧ f.dst.sawShut = true) ∧
        (p.ok = false → p.mw.registered = false ∧ f.dst.sawShut = true)) := by
  intro f hf
  obtain ⟨hc, hs⟩ := reach_flowSock w0 h0 steps f hf
  constructor
  · intro p hp
    obtain ⟨⟨a, b⟩, d⟩ := hc p hp
    exact ⟨fun hx => ⟨(a hx).1, (a hx).2, b (a hx).2⟩, fun hok => ⟨(d hok).unregistered, b (d hok).2.1⟩⟩
  · intro p hp
    obtain ⟨⟨a, b⟩, d⟩ := hs p hp
    exact ⟨fun hx => ⟨(a hx).1, (a hx).2, b (a hx).2⟩, fun hok => ⟨(d hok).unregistered, b (d hok).2.1⟩⟩

/-! ## 3. other flows are not touched -/

/-- **Frame lemma.**  A callback (with any fault) or `pre_select` of flow `i` changes no other
flow's record, and the frames it queues all carry flow `i`'s own channel. -/
theorem C08_step_frame (w : World) (e : End) (i : Nat) (io : CbIo) :
    (∀ j, j ≠ i → (w.stepRaw (.cb e i io)).flows[j]? = w.flows[j]?) ∧
    (∀ f, w.flows[i]? = some f → Grows f.chan w.cm (w.stepRaw (.cb e i io)).cm ∨ handlerAt .client f = none ∨
        ∀ p, handlerAt .client f = some p → p.mw.chan ≠ f.chan) ∧
    (∀ f, w.flows[i]? = some f → Grows f.chan w.sm (w.stepRaw (.cb e i io)).sm ∨ handlerAt .server f = none ∨
        ∀ p, handlerAt .server f = some p → p.mw.chan ≠ f.chan) := by
  refine ⟨?_, ?_, ?_⟩
  · intro j hj
    cases e
    · simp only [World.stepRaw, World.cbC]
      split
      · split
        · split
          · simp only; rw [modifyAt_getElem?, if_neg hj]
          · rfl
        · rfl
      · rfl
    · simp only [World.stepRaw, World.cbS]
      split
      · split
        · split
          · simp only; rw [modifyAt_getElem?, if_neg hj]
          · rfl
        · rfl
      · rfl
  · intro f hf
    cases e
    · simp only [World.stepRaw, World.cbC, hf]
      cases hc : f.c with
      | none => right; left; simp [handlerAt, hc]
      | some p =>
        simp only
        by_cases hch : p.mw.chan = f.chan
        · left
          split
          next p' m' e' hcb =>
            have := callback_grows p w.cm f.app io p' m' e' hcb
            rw [hch] at this; exact this
          · exact Grows.refl _ _
        · right; right
          intro q hq
          simp only [handlerAt, hc, Option.some.injEq] at hq
          subst hq; exact hch
    · left
      simp only [World.stepRaw, World.cbS]
      split
      · split
        · split <;> exact Grows.refl _ _
        · exact Grows.refl _ _
      · exact Grows.refl _ _
  · intro f hf
    cases e
    · left
      simp only [World.stepRaw, World.cbC]
      split
      · split
        · split <;> exact Grows.refl _ _
        · exact Grows.refl _ _
      · exact Grows.refl _ _
    · simp only [World.stepRaw, World.cbS, hf]
      cases hc : f.s with
      | none => right; left; simp [handlerAt, hc]
      | some p =>
        simp only
        by_cases hch : p.mw.chan = f.chan
        · left
          split
          next p' m' e' hcb =>
            have := callback_grows p w.sm f.dst io p' m' e' hcb
            rw [hch] at this; exact this
          · exact Grows.refl _ _
        · right; right
          intro q hq
          simp only [handlerAt, hc, Option.some.injEq] at hq
          subst hq; exact hch

/-- **The neighbours keep their guarantee.**  C01's statement, read for faults: whatever errors
are injected into whichever flows at whichever moments — they are ordinary steps of the
schedule — every flow's delivered bytes remain a prefix of what its own peer wrote. -/
theorem C08_neighbours_safe (w0 : World) (h0 : Fresh w0) (steps : List Step)
    (hg : ∀ st ∈ steps, GoodStep st) (hn : (chans (w0.run steps)).Nodup) :
    ∀ f ∈ (w0.run steps).flows,
      f.dst.delivered <+: written f.app ∧ f.app.delivered <+: written f.dst :=
  C01_prefix w0 h0 steps hg hn


/-! ## 4. every way a process can end -/

theorem gotPacket_died_iff (w : MuxW) (cmd : Nat) (data : Bytes) :
    w.gotPacket cmd data = .died ↔ (cmd ≠ EOF ∧ cmd ≠ STOP ∧ cmd ≠ DATA) := by
  unfold MuxW.gotPacket
  by_cases h1 : cmd = Generated.CMD_TCP_EOF
  · rw [if_pos h1]; exact ⟨fun h => (by cases h), fun h => absurd h1 h.1⟩
  · rw [if_neg h1]
    by_cases h2 : cmd = Generated.CMD_TCP_STOP_SENDING
    · rw [if_pos h2]; exact ⟨fun h => (by cases h), fun h => absurd h2 h.2.1⟩
    · rw [if_neg h2]
      by_cases h3 : cmd = Generated.CMD_TCP_DATA
      · rw [if_pos h3]; exact ⟨fun h => (by cases h), fun h => absurd h3 h.2.2⟩
      · rw [if_neg h3]; exact ⟨fun _ => ⟨h1, h2, h3⟩, fun _ => rfl⟩

/-- `dispatch` raises only when a frame that is not DATA / EOF / STOP_SENDING is addressed to a
channel on which a TCP wrapper is still registered. -/
theorem dispatch_died (e : End) (flows : List Flow) (fr : Frame) (h : (dispatch e flows fr).2 = true) :
    ∃ f ∈ flows, ∃ p, handlerAt e f = some p ∧ f.chan = fr.chan ∧ p.mw.registered = true ∧
      fr.cmd ≠ EOF ∧ fr.cmd ≠ STOP ∧ fr.cmd ≠ DATA := by
  induction flows with
  | nil => simp [dispatch] at h
  | cons f rest ih =>
    unfold dispatch at h
    cases hh : handlerAt e f with
    | none =>
      rw [hh] at h
      simp only at h
      obtain ⟨g, hg, r⟩ := ih h
      exact ⟨g, List.mem_cons_of_mem _ hg, r⟩
    | some p =>
      rw [hh] at h
      simp only at h
      by_cases hc : (f.chan == fr.chan && p.mw.registered) = true
      · rw [if_pos hc] at h
        simp only [Bool.and_eq_true, beq_iff_eq] at hc
        cases hg : p.mw.gotPacket fr.cmd fr.data with
        | ok w' => rw [hg] at h; cases h
        | died =>
          have := (gotPacket_died_iff p.mw fr.cmd fr.data).mp hg
          exact ⟨f, List.mem_cons_self, p, hh, hc.1, hc.2, this⟩
      · rw [if_neg hc] at h
        simp only at h
        obtain ⟨g, hg, r⟩ := ih h
        exact ⟨g, List.mem_cons_of_mem _ hg, r⟩

/-- The complete list of ways one step can end a process. -/
def DeathCause (w : World) : Step → Prop
  | .cb _ _ io => ¬ HandledConn io.conn                       -- connect errno outside the handled set
  | .deliver .server conn =>
    ∃ fr rest, w.cm.out = fr :: rest ∧
      ((fr.cmd = CONNECT ∧ (w.sOcc fr.chan = true ∨ ¬ HandledConn conn)) ∨   -- CONNECT for a live id / unknown errno
       (∃ f ∈ w.flows, ∃ p, f.s = some p ∧ f.chan = fr.chan ∧ p.mw.registered = true ∧
          fr.cmd ≠ EOF ∧ fr.cmd ≠ STOP ∧ fr.cmd ≠ DATA))                    -- non-stream frame on a TCP channel
  | .deliver .client _ =>
    ∃ fr rest, w.sm.out = fr :: rest ∧
      ((fr.cmd = CONNECT ∧ w.cOcc fr.chan = true) ∨
       (∃ f ∈ w.flows, ∃ p, f.c = some p ∧ f.chan = fr.chan ∧ p.mw.registered = true ∧
          fr.cmd ≠ EOF ∧ fr.cmd ≠ STOP ∧ fr.cmd ≠ DATA))
  | _ => False

theorem dispatchAt_died (w : World) (e : End) (fr : Frame) (hw : w.died = none)
    (h : (w.dispatchAt e fr).died ≠ none) : (dispatch e w.flows fr).2 = true := by
  unfold World.dispatchAt at h
  by_cases hc : (dispatch e w.flows fr).2 = true
  · exact hc
  · rw [if_neg hc] at h; exact absurd hw h

/-- **Nothing else ends a process.**  If a step of an alive world ends a process, the step is one
of the cases of `DeathCause`: in particular no receive / send error, no EPIPE, no failing
`shutdown`, no frame for a flow that is already closed (its wrapper is unregistered, so the
frame is dropped), no identifier exhaustion, no close order. -/
theorem C08_death_causes (w : World) (st : Step) (h0 : w.died = none) (hd : (w.step st).died ≠ none) :
    DeathCause w st := by
  have hraw : (w.stepRaw st).died ≠ none := by
    unfold World.step at hd
    rw [h0] at hd
    simp only [Option.isSome_none, Bool.false_eq_true, ↓reduceIte] at hd
    by_cases hc : (w.stepRaw st).died.isSome = true
    · intro hn; rw [hn] at hc; cases hc
    · rw [if_neg hc] at hd; exact hd
  unfold World.stepRaw at hraw
  cases st with
  | accept =>
    simp only [World.accept] at hraw
    split at hraw <;> exact absurd h0 hraw
  | cb e i io =>
    simp only [DeathCause]
    cases e
    · simp only [World.cbC] at hraw
      split at hraw
      next f hf =>
        split at hraw
        next p hp =>
          cases hcb : p.callback w.cm f.app io with
          | ok p' m' e' => rw [hcb] at hraw; exact absurd h0 hraw
          | died => exact ((C08_callback_dies_iff p w.cm f.app io).mp hcb).2.2
        · exact absurd h0 hraw
      · exact absurd h0 hraw
    · simp only [World.cbS] at hraw
      split at hraw
      next f hf =>
        split at hraw
        next p hp =>
          cases hcb : p.callback w.sm f.dst io with
          | ok p' m' e' => rw [hcb] at hraw; exact absurd h0 hraw
          | died => exact ((C08_callback_dies_iff p w.sm f.dst io).mp hcb).2.2
        · exact absurd h0 hraw
      · exact absurd h0 hraw
  | pre e i =>
    cases e
    · simp only [World.preC] at hraw
      split at hraw
      · split at hraw <;> exact absurd h0 hraw
      · exact absurd h0 hraw
    · simp only [World.preS] at hraw
      split at hraw
      · split at hraw <;> exact absurd h0 hraw
      · exact absurd h0 hraw
  | deliver e conn =>
    cases e
    · simp only [DeathCause]
      simp only [World.deliverC] at hraw
      cases ho : w.sm.out with
      | nil => rw [ho] at hraw; exact absurd h0 hraw
      | cons fr rest =>
        rw [ho] at hraw
        simp only at hraw
        refine ⟨fr, rest, rfl, ?_⟩
        split at hraw
        · exact absurd h0 hraw
        · split at hraw
          · exact absurd h0 hraw
          · split at hraw
            next hcn =>
              split at hraw
              next hocc => left; exact ⟨by simpa using hcn, hocc⟩
              · exact absurd h0 hraw
            · split at hraw
              · exact absurd h0 hraw
              · right
                have := dispatchAt_died { w with sm := { w.sm with out := rest } } .client fr h0 hraw
                obtain ⟨f, hf, p, hp, r⟩ := dispatch_died .client w.flows fr this
                exact ⟨f, hf, p, hp, r⟩
    · simp only [DeathCause]
      simp only [World.deliverS] at hraw
      cases ho : w.cm.out with
      | nil => rw [ho] at hraw; exact absurd h0 hraw
      | cons fr rest =>
        rw [ho] at hraw
        simp only at hraw
        refine ⟨fr, rest, rfl, ?_⟩
        split at hraw
        · exact absurd h0 hraw
        · split at hraw
          · exact absurd h0 hraw
          · split at hraw
            next hcn =>
              left
              refine ⟨by simpa using hcn, ?_⟩
              unfold World.connectS at hraw
              by_cases hocc : w.sOcc fr.chan = true
              · exact Or.inl hocc
              · right
                have hocc' : World.sOcc { w with cm := { w.cm with out := rest } } fr.chan = w.sOcc fr.chan := rfl
                rw [hocc'] at hraw
                rw [if_neg hocc] at hraw
                split at hraw
                · exact absurd h0 hraw
                · split at hraw
                  · exact absurd h0 hraw
                  next f hf =>
                    cases htc : SockW.tryConnect { connecting := true } f.dst conn false with
                    | ok s e => rw [htc] at hraw; exact absurd h0 hraw
                    | died => exact ((tryConnect_died_iff _ _ _ _).mp htc).2.2
            · split at hraw
              · exact absurd h0 hraw
              · right
                have := dispatchAt_died { w with cm := { w.cm with out := rest } } .server fr h0 hraw
                obtain ⟨f, hf, p, hp, r⟩ := dispatch_died .server w.flows fr this
                exact ⟨f, hf, p, hp, r⟩
  | removeDead e => cases e <;> exact absurd h0 hraw
  | checkFull e => cases e <;> exact absurd h0 hraw
  | foreign e fr => cases e <;> exact absurd h0 hraw
  | appWrite i b => exact absurd h0 hraw
  | appEof i => exact absurd h0 hraw
  | dstWrite i b => exact absurd h0 hraw
  | dstEof i => exact absurd h0 hraw

/-! ## 5. non-vacuity -/

/-- ECONNREFUSED (111) is in the handled set; a connect that fails with it closes the flow and the
process lives.  An errno outside the set (here 1000) does end the process — the hypothesis of
`C08_callback_total` is not vacuous and not redundant. -/
example : HandledConn (.errno 111 0) ∧ ¬ HandledConn (.errno 1000 0) := by
  constructor
  · unfold HandledConn effErrno; decide
  · unfold HandledConn effErrno; decide

example :
    let p : ProxyS := { sw := { connecting := true }, mw := { chan := 3 }, sockFirst := false }
    (∃ p' m' e', p.callback {} {} { conn := .errno 111 0 } = .ok p' m' e' ∧
        p'.sw.shutW = true ∧ p'.sw.shutR = true ∧ e'.sawShut = true ∧ p'.sw.exc = true) ∧
    p.callback {} {} { conn := .errno 1000 0 } = .died := by
  refine ⟨⟨_, _, _, rfl, by decide⟩, ?_⟩
  rw [C08_callback_dies_iff]
  refine ⟨rfl, rfl, ?_⟩
  unfold HandledConn effErrno; decide

end Sshuttle.Tunnel
