/-
C01 — Tunnelled TCP payload is delivered intact, in order, to the right peer.

Property theorems over `Code/Tunnel.lean` (the two tunnel ends, any number of flows, the
frame FIFOs, endpoint sockets with ghost logs).  Helper lemmas: `Lemmas/FrameQ`, `DirInv`,
`WrapRefine`, `WrapGrows`, `TunnelInv`, `TunnelStep`.
-/
import SshuttleModel.Lemmas.TunnelStep

namespace Sshuttle.Tunnel
open Sshuttle.Mux (Frame)
open Sshuttle.Wrap

/-- What reached each endpoint is a prefix of what the tunnel read from the other endpoint of
the same flow. -/
def Safe (w : World) : Prop :=
  ∀ (i : Nat) (f : Flow), w.flows[i]? = some f →
    f.dst.delivered <+: f.app.consumed ∧ f.app.delivered <+: f.dst.consumed

theorem WInv.safe {w : World} (h : WInv w) : Safe w :=
  fun i f hi => by
    have hf := h.flows i f hi
    have h1 := hf.up.pre
    have h2 := hf.down.pre
    constructor
    · have e1 : (upSink f).delivered = f.dst.delivered := by unfold upSink; split <;> rfl
      have e2 : (upSrc w.cm f).consumed = f.app.consumed := by unfold upSrc; split <;> rfl
      rw [e1, e2] at h1; exact h1
    · have e1 : (downSink f).delivered = f.app.delivered := by unfold downSink; split <;> rfl
      have e2 : (downSrc w.sm f).consumed = f.dst.consumed := by unfold downSrc; split <;> rfl
      rw [e1, e2] at h2; exact h2

/-- The invariant carried along a run: safety always; the full world invariant while every
process is alive. -/
def RunInv (w : World) : Prop := Safe w ∧ (∀ f ∈ w.flows, FlowSock f) ∧ (w.died = none → WInv w)

theorem chans_step_prefix (w : World) (st : Step) : chans w <+: chans (w.step st) := by
  unfold World.step
  split
  · exact List.prefix_refl _
  · split
    · exact List.prefix_refl _
    · exact chans_stepRaw_prefix w st

theorem chans_run_prefix (w : World) (steps : List Step) : chans w <+: chans (w.run steps) := by
  induction steps generalizing w with
  | nil => exact List.prefix_refl _
  | cons st rest ih =>
    simp only [World.run, List.foldl_cons]
    exact (chans_step_prefix w st).trans (ih (w.step st))

theorem RunInv.step {w : World} (h : RunInv w) (st : Step) (hg : GoodStep st)
    (hn : (chans (w.step st)).Nodup) : RunInv (w.step st) := by
  unfold World.step at hn ⊢
  by_cases hd : w.died.isSome = true
  · rw [if_pos hd]
    exact h
  · rw [if_neg hd] at hn ⊢
    have hd0 : w.died = none := by simpa using hd
    by_cases hd1 : (w.stepRaw st).died.isSome = true
    · rw [if_pos hd1]
      refine ⟨h.1, h.2.1, ?_⟩
      intro hnone
      simp only at hnone
      rw [hnone] at hd1; simp at hd1
    · rw [if_neg hd1] at hn ⊢
      have hw := (h.2.2 hd0).stepRaw (fun j f hj => h.2.1 f (List.mem_of_getElem? hj)) hd0 st hg hn (by simpa using hd1)
      have hs := flow_invariant_step FlowSock flowSock_new flowSock_ev w h.2.1 st
      unfold World.step at hs
      rw [if_neg hd, if_neg hd1] at hs
      exact ⟨hw.safe, hs, fun _ => hw⟩

theorem RunInv.run {w : World} (h : RunInv w) (steps : List Step) (hg : ∀ st ∈ steps, GoodStep st)
    (hn : (chans (w.run steps)).Nodup) : RunInv (w.run steps) := by
  induction steps generalizing w with
  | nil => exact h
  | cons st rest ih =>
    simp only [World.run, List.foldl_cons] at hn ⊢
    have hn1 : (chans (w.step st)).Nodup :=
      nodup_of_prefix (chans_run_prefix (w.step st) rest) hn
    exact ih (h.step st (hg st (by simp)) hn1) (fun s hs => hg s (by simp [hs])) hn

/-- A world before any connection has been accepted: no flows, and only control frames queued
(the initial PING of each `Mux`, the server's ROUTES message). -/
def Fresh (w : World) : Prop :=
  w.flows = [] ∧ (∀ fr ∈ w.cm.out, isStreamCmd fr.cmd = false) ∧ (∀ fr ∈ w.sm.out, isStreamCmd fr.cmd = false)

theorem Fresh.runInv {w : World} (h : Fresh w) : RunInv w := by
  obtain ⟨h1, h2, h3⟩ := h
  refine ⟨fun i f hi => (by rw [h1] at hi; simp at hi), fun f hf => (by rw [h1] at hf; cases hf), fun _ => ⟨?_, ?_, ?_⟩⟩
  · intro i f hi; rw [h1] at hi; simp at hi
  · intro fr hfr hs; rw [h2 fr hfr] at hs; cases hs
  · intro fr hfr hs; rw [h3 fr hfr] at hs; cases hs

/-- Everything an endpoint ever wrote: what the tunnel has read plus what is still pending. -/
def written (e : ESock) : Bytes := e.consumed ++ e.pending

/-- **C01 (safety), full strength.**  Start from any world with no flows yet.  For EVERY
schedule of steps — accepts, `Proxy.callback`s on either end with any recv/send grant,
would-block, EPIPE, reset or connect errno, `pre_select`s, frame deliveries, removal of dead
handlers, `check_fullness` (latency control on or off, any buffer size), frames of other flow
kinds, endpoint writes of any size and closes, in any interleaving and for any number of
concurrent flows — the bytes the server has handed to the destination of a flow are a prefix
of the bytes the application of THAT flow wrote, and the bytes handed back to the application
are a prefix of what that flow's destination wrote.  Nothing is reordered, duplicated,
altered or taken from another connection.

Hypotheses: other flow kinds never inject TCP stream frames (`GoodStep`), and the flow ids
handed out during the run are pairwise distinct (true for the first MAX_CHANNEL flows of a
session by `C06_fresh_before_wrap`; re-use after a full cursor cycle is DESIGN F19). -/
theorem C01_prefix (w0 : World) (h0 : Fresh w0) (steps : List Step)
    (hg : ∀ st ∈ steps, GoodStep st) (hn : (chans (w0.run steps)).Nodup) :
    ∀ f ∈ (w0.run steps).flows,
      f.dst.delivered <+: written f.app ∧ f.app.delivered <+: written f.dst := by
  have h := (h0.runInv.run steps hg hn).1
  intro f hf
  obtain ⟨i, hi⟩ := List.getElem?_of_mem hf
  obtain ⟨h1, h2⟩ := h i f hi
  exact ⟨h1.trans (List.prefix_append _ _), h2.trans (List.prefix_append _ _)⟩

/-- **C01 conservation (no byte lost or duplicated while the flow can still deliver).**
As long as the destination socket of a flow has not been shut down, the bytes read from the
application are EXACTLY: what the destination received, then what the server-side wrapper
buffers, then the payloads of this flow's DATA frames still in the client → server queue, then
what the client-side wrapper buffers.  Nothing is lost, whatever happens in the other direction
or in other flows: the client discards buffered bytes only on STOP_SENDING, and the server sends
that only after it has shut the destination socket.  Symmetrically for the other direction. -/
theorem C01_conservation (w0 : World) (h0 : Fresh w0) (steps : List Step)
    (hg : ∀ st ∈ steps, GoodStep st) (hn : (chans (w0.run steps)).Nodup)
    (halive : (w0.run steps).died = none) :
    ∀ f ∈ (w0.run steps).flows,
      (f.dst.sawShut = true ∨
        f.app.consumed = f.dst.delivered ++ (upSink f).buf ++ dataOf f.chan (w0.run steps).cm.out ++
          (upSrc (w0.run steps).cm f).buf) ∧
      (f.app.sawShut = true ∨
        f.dst.consumed = f.app.delivered ++ (downSink f).buf ++ dataOf f.chan (w0.run steps).sm.out ++
          (downSrc (w0.run steps).sm f).buf) := by
  have hw := (h0.runInv.run steps hg hn).2.2 halive
  intro f hf
  obtain ⟨i, hi⟩ := List.getElem?_of_mem hf
  have hfo := hw.flows i f hi
  have eU1 : (upSink f).delivered = f.dst.delivered := by unfold upSink; split <;> rfl
  have eU2 : (upSink f).sawShut = f.dst.sawShut := by unfold upSink; split <;> rfl
  have eU3 : (upSrc (w0.run steps).cm f).consumed = f.app.consumed := by unfold upSrc; split <;> rfl
  have eU4 : (upSrc (w0.run steps).cm f).out = (w0.run steps).cm.out := upSrc_out _ _
  have eD1 : (downSink f).delivered = f.app.delivered := by unfold downSink; split <;> rfl
  have eD2 : (downSink f).sawShut = f.app.sawShut := by unfold downSink; split <;> rfl
  have eD3 : (downSrc (w0.run steps).sm f).consumed = f.dst.consumed := by unfold downSrc; split <;> rfl
  have eD4 : (downSrc (w0.run steps).sm f).out = (w0.run steps).sm.out := downSrc_out _ _
  constructor
  · rcases hfo.up.exact with h | he
    · left; rw [← eU2]; exact h
    · right; rw [← eU1, ← eU3, ← eU4]; exact he
  · rcases hfo.down.exact with h | he
    · left; rw [← eD2]; exact h
    · right; rw [← eD1, ← eD3, ← eD4]; exact he

/-- Non-vacuity: a concrete schedule with two concurrent flows, a payload crossing the 2048-byte
frame cut, a short write and a would-block reaches a state in which both flows have delivered
different bytes, from a `Fresh` world, with distinct ids and only good steps. -/
example :
    let w0 : World := { cm := ({} : MuxL).send 0 Generated.CMD_PING [1], sm := ({} : MuxL).send 0 Generated.CMD_PING [1] }
    let big : Bytes := List.replicate 2100 7
    let steps : List Step :=
      [.accept, .accept, .appWrite 0 big, .appWrite 1 [9, 9],
       .cb .client 0 { recv := .data 65536 }, .cb .client 1 { recv := .data 1 },
       .cb .client 0 {}, .deliver .server .ok, .deliver .server .ok, .deliver .server (.errno 115 0),
       .deliver .server .ok, .deliver .server .ok, .deliver .server .ok,
       .cb .server 0 { send := .sent 5 }, .cb .server 0 { send := .eagain }, .cb .server 0 { send := .sent 4000 },
       .cb .server 1 { conn := .ok, send := .sent 10 }]
    Fresh w0 ∧ (chans (w0.run steps)).Nodup ∧
    ((w0.run steps).flows.map fun f => f.dst.delivered.length) = [2048, 1] := by
  refine ⟨⟨rfl, by decide, by decide⟩, by decide +kernel, by decide +kernel⟩

end Sshuttle.Tunnel
