import SshuttleModel.Code.Tunnel
namespace Sshuttle.Tunnel
end Sshuttle.Tunnel
