/-
C15 — Every valid option combination yields a consistent interception plan.

Property theorems only; helper lemmas are in `Lemmas/ClientPlan.lean`, `Lemmas/ClientPlanSearch.lean`,
`Lemmas/ClientPlanMain.lean`.  `run c env` is `cmdline.main` → `client.main` up to `fw.setup`
(`Code/ClientPlan.lean`); `c` ranges over every command line argparse can produce (every
`--listen` form, every subnet / exclude / name-server list, `--dns`, `--to-ns`, `-N`,
`--user`/`--group`, `--disable-ipv6`, every `--method` string), `env` over every feature table,
resolver list, passwd/group database and bind oracle.

The theorems depend on facts of the source that are regenerated from the tree under test on every
run (`Gen/C15.lean`); they enter through `C15_side_conditions`, which is checked by `decide` on
the regenerated values.  On a tree where `used_ports` is assigned only in the `else` branch,
`assert_features` omits `group`, … that theorem — and with it this file — no longer checks.
-/
import SshuttleModel.Lemmas.ClientPlanMain
import SshuttleModel.Lemmas.ClientPlanGranted
import SshuttleModel.Spec.PlanConsistent
import SshuttleModel.Lemmas.ClientPlanSpecEval

namespace Sshuttle.ClientPlan
open Sshuttle.Gen.C15 Sshuttle.PlanSpec

/-! ## 0. What the theorems need from the source, checked on the regenerated values -/

/-- The structural facts and value relations the proofs below rely on:
* `used_ports` is bound on every path into the redirector search (finding F11);
* the automatic IPv4 exclude does not subscript a missing IPv4 listen address (F22);
* the DNS search skips the redirector ports, also explicitly given ones (F12);
* the DNS `bound` check precedes the first use of `dns_listener` (F21);
* `assert_features` reads only attributes `client.main` sets, and checks `group` and `user` (F13);
* both search ranges are non-empty (the DNS range has at least 4 candidates), and the list used
  when both ports are explicit is non-empty;
* the default listen addresses are the loopback addresses, the automatic excludes are host-wide. -/
theorem C15_side_conditions :
    USED_PORTS_ALWAYS_BOUND = true ∧ V4_EXCLUDE_GUARDED = true ∧
    DNS_SEARCH_SKIPS_REDIRECT_PORTS = true ∧ DNS_BOUND_CHECK_BEFORE_PRINT = true ∧
    (∀ k ∈ ASSERT_KEYS, k ∈ REQUIRED_ATTRS) ∧ FeatKey.group ∈ ASSERT_KEYS ∧ FeatKey.user ∈ ASSERT_KEYS ∧
    TCP_PORT_STOP < TCP_PORT_START ∧ DNS_PORT_STOP + 4 ≤ DNS_PORT_START ∧ BOTH_EXPLICIT_PORTS ≠ [] ∧
    LOOP4 = loopbackOf .v4 ∧ LOOP6 = loopbackOf .v6 ∧
    EXCL_WIDTH4 = hostWidth .v4 ∧ EXCL_WIDTH6 = hostWidth .v6 := by
  decide

/-- Every method the manual documents is accepted by the option parser (finding F14), every
documented method other than `auto` and every candidate of `auto` has a feature table, and every
table has IPv4 and `loopback_proxy_port` (the hypotheses of `C15_total` / `C15_consistent`). -/
theorem C15_method_tables :
    (∀ m ∈ DOC_METHODS, m ∈ METHOD_CHOICES) ∧ METHOD_DEFAULT ∈ METHOD_CHOICES ∧
    (∀ m ∈ DOC_METHODS, m ≠ "auto" → m ∈ METHOD_TABLE.map (·.1)) ∧
    (∀ m ∈ AUTO_METHODS, m ∈ METHOD_TABLE.map (·.1)) ∧
    (∀ mf ∈ METHOD_TABLE, mf.2.ipv4 = true ∧ mf.2.loopback_proxy_port = true) := by
  decide

/-- Name servers are filed under IPv6 exactly when their text contains a colon (the source's
`family_ip_tuple` is that test: regenerated flag), whatever else the text contains — a zone id
(`fe80::1%eth0`), an embedded IPv4 part, a compressed run of zeros. -/
theorem C15_ns_family (t : String) :
    FAMILY_IP_TUPLE_BY_COLON = true ∧ (familyOfText t = Fam.v6 ↔ ':' ∈ t.toList) := by
  refine ⟨by decide, ?_⟩
  unfold familyOfText
  by_cases h : t.toList.contains ':' = true
  · simp only [h, ↓reduceIte, true_iff]; simpa using h
  · simp only [h, Bool.false_eq_true, ↓reduceIte]
    constructor
    · intro hc; cases hc
    · intro hm; exact absurd (by simpa using hm) h

example : familyOfText "fe80::1%eth0" = Fam.v6 ∧ familyOfText "::ffff:1.2.3.4" = Fam.v6 ∧
    familyOfText "8.8.8.8" = Fam.v4 := by decide

/-! ## 1. Never an internal error -/

/-- **C15_total.** For every command line and every environment whose method supports IPv4
(all five do, `C15_method_tables`), start-up ends in argparse's usage message, a fatal message,
a bind error re-raised on purpose, or a plan — never in an exception nobody planned for
(`UnboundLocalError`, `TypeError`, `AttributeError`, a failed `assert`). -/
theorem C15_total (c : Cmd) (env : Env) (hv4 : env.avail.ipv4 = true) :
    (run c env).isInternal = false := by
  obtain ⟨hU, hG, _, hB, hK, _, _, hT, hD, hE, _⟩ := C15_side_conditions
  unfold run
  split
  · rfl
  · split
    · rfl
    · exact clientMain_not_internal hK hG hU hB hT hE hD hv4

/-- The same for each of the five real feature tables, with no hypothesis left. -/
theorem C15_total_methods (c : Cmd) (env : Env) (h : ∃ m, (m, env.avail) ∈ METHOD_TABLE) :
    (run c env).isInternal = false := by
  obtain ⟨m, hm⟩ := h
  exact C15_total c env (C15_method_tables.2.2.2.2 _ hm).1

example : ∃ m, (m, ({ avail := FEAT_tproxy } : Env).avail) ∈ METHOD_TABLE := ⟨"tproxy", by decide⟩

/-! ## 2. Every plan is consistent -/

/-- (a) Without `--listen`, every socket is on 127.0.0.1 / ::1 (for a method with
`loopback_proxy_port`, which all five have). -/
theorem C15_a (c : Cmd) (env : Env) (p : Plan) (hloop : env.avail.loopback_proxy_port = true)
    (h : run c env = .plan p) : DefaultLoopback c.listen.isSome p := by
  obtain ⟨hU, _, _, _, _, _, _, _, _, _, hL4, hL6, _⟩ := C15_side_conditions
  obtain ⟨l6, l4, uid, gid, F⟩ := clientMain_plan_facts hU (run_plan h)
  intro hg
  have hnone : c.listen = none := by cases hc : c.listen <;> simp_all
  have h4 : l4 = some ⟨loopbackOf .v4, 0⟩ := by
    rw [F.hl4]; simp [listenArgs, hnone, resolveL4, hloop, hL4]
  have h6 : l6 = none ∨ l6 = some ⟨loopbackOf .v6, 0⟩ := by
    rw [F.hl6]
    simp only [listenArgs, hnone]
    cases c.disableIpv6 <;> cases hv : env.avail.ipv6 <;> simp [resolveL6, hv, hloop, hL6]
  have t4 := F.tcp4
  have t6 := F.tcp6
  have hd := F.dns
  rw [h4] at t4 hd
  simp only [FamBound] at t4
  intro l hl f a ha
  simp only [listeners, List.cons_append, List.nil_append, List.mem_cons, List.mem_append,
    Option.mem_toList] at hl
  have htcp : ∀ f a, Listener.at p.tcp f = some a → a.ip = loopbackOf f := by
    intro f a ha
    cases f with
    | v4 => simp only [Listener.at] at ha; rw [t4.1] at ha; injection ha with ha; rw [← ha]
    | v6 =>
      simp only [Listener.at] at ha
      rcases h6 with h6 | h6 <;> rw [h6] at t6 <;> simp only [FamBound] at t6
      · rw [t6.1] at ha; cases ha
      · rw [t6.1] at ha; injection ha with ha; rw [← ha]
  rcases hl with rfl | hl | hl
  · exact htcp f a ha
  · rw [F.udpL] at hl
    split at hl
    · simp only [Option.some.injEq] at hl; subst hl; exact htcp f a ha
    · cases hl
  · rcases hd with ⟨_, hn, _⟩ | ⟨_, q, _, hq, _⟩
    · rw [hn] at hl; cases hl
    · rw [hq] at hl
      simp only [Option.some.injEq] at hl
      subst hl
      cases f with
      | v4 => simp only [Listener.at, Option.map_some, Option.some.injEq] at ha; rw [← ha]
      | v6 =>
        simp only [Listener.at] at ha
        rcases h6 with h6 | h6 <;> rw [h6] at ha
        · cases ha
        · simp only [Option.map_some, Option.some.injEq] at ha; rw [← ha]

/-- (b) Each address the redirector listens on is excluded with a host-wide entry, unless the
user listed that very address among the subnets. -/
theorem C15_b (c : Cmd) (env : Env) (p : Plan) (h : run c env = .plan p) :
    ListenExcluded c.includes p := by
  obtain ⟨hU, _, _, _, _, _, _, _, _, _, _, _, hW4, hW6⟩ := C15_side_conditions
  obtain ⟨l6, l4, uid, gid, F⟩ := clientMain_plan_facts hU (run_plan h)
  intro f a ha
  cases f with
  | v4 =>
    simp only [Listener.at] at ha
    have t4 := F.tcp4
    cases hl : l4 with
    | none => rw [hl] at t4; simp only [FamBound] at t4; rw [t4.1] at ha; cases ha
    | some b =>
      rw [hl] at t4; simp only [FamBound] at t4
      rw [t4.1] at ha; injection ha with ha; subst ha
      rcases mkPrep_excl4 c env l6 l4 uid gid hl with he | hi
      · left; rw [F.hexc, ← hW4]; exact he
      · right; exact hi
  | v6 =>
    simp only [Listener.at] at ha
    have t6 := F.tcp6
    cases hl : l6 with
    | none => rw [hl] at t6; simp only [FamBound] at t6; rw [t6.1] at ha; cases ha
    | some b =>
      rw [hl] at t6; simp only [FamBound] at t6
      rw [t6.1] at ha; injection ha with ha; subst ha
      rcases mkPrep_excl6 c env l6 l4 uid gid hl with he | ⟨s, hs, hf, hip⟩
      · left; rw [F.hexc, ← hW6]; exact he
      · right; exact ⟨s, mkPrep_includes_sub c env l6 l4 uid gid s hs, hf, hip⟩

/-- (c) IPv6 entries are handed over exactly when IPv6 is active. -/
theorem C15_c (c : Cmd) (env : Env) (p : Plan) (h : run c env = .plan p) : Ipv6Exactly p := by
  obtain ⟨hU, _⟩ := C15_side_conditions
  obtain ⟨l6, l4, uid, gid, F⟩ := clientMain_plan_facts hU (run_plan h)
  have t6 := F.tcp6
  unfold Ipv6Exactly ipv6Active
  cases hl : l6 with
  | some b =>
    rw [hl] at t6; simp only [FamBound] at t6
    refine ⟨fun _ => ⟨t6.2, ?_⟩, fun hn => ?_⟩
    · rcases mkPrep_excl6 c env l6 l4 uid gid hl with he | ⟨s, hs, hf, _⟩
      · exact ⟨_, List.mem_append_right _ (by rw [F.hexc]; exact he), rfl⟩
      · exact ⟨s, List.mem_append_left _ (by rw [F.hinc]; exact hs), hf⟩
    · rw [t6.1] at hn; cases hn
  | none =>
    rw [hl] at t6; simp only [FamBound] at t6
    refine ⟨fun ha => ?_, fun _ => ?_⟩
    · rw [t6.1] at ha; cases ha
    · obtain ⟨n1, n2, n3, _, _⟩ := mkPrep_no_v6 c env l6 l4 uid gid hl
      have hd := F.dns
      rw [hl] at hd
      refine ⟨t6.2, ?_, by rw [F.hinc]; exact n1, by rw [F.hexc]; exact n2, by rw [F.hns]; exact n3, ?_⟩
      · rcases hd with ⟨_, _, h6, _⟩ | ⟨_, q, _, _, h6, _⟩
        · exact h6
        · simpa using h6
      · intro l hm
        simp only [listeners, List.cons_append, List.nil_append, List.mem_cons, List.mem_append,
          Option.mem_toList] at hm
        rcases hm with rfl | hm | hm
        · exact t6.1
        · rw [F.udpL] at hm
          split at hm
          · simp only [Option.some.injEq] at hm; subst hm; exact t6.1
          · cases hm
        · rcases hd with ⟨_, hn, _⟩ | ⟨_, q, _, hq, _⟩
          · rw [hn] at hm; cases hm
          · rw [hq] at hm
            simp only [Option.some.injEq] at hm
            subst hm; rfl

/-- (d) Every family with subnets or name servers has bound listeners, and the ports handed to
`fw.setup` are exactly the ports of the bound sockets. -/
theorem C15_d (c : Cmd) (env : Env) (p : Plan) (h : run c env = .plan p) : ListenersMatch p := by
  obtain ⟨hU, _⟩ := C15_side_conditions
  obtain ⟨l6, l4, uid, gid, F⟩ := clientMain_plan_facts hU (run_plan h)
  have hsplit := mkPrep_split c env l6 l4 uid gid
  simp only at hsplit
  obtain ⟨e4, e6, en4, en6⟩ := hsplit
  have t4 := F.tcp4
  have t6 := F.tcp6
  have hd := F.dns
  have hudp : (p.udp = true → p.udpL = some p.tcp) ∧ (p.udp = false → p.udpL = none) := by
    rw [F.udpL]; cases p.udp <;> simp
  intro f
  cases f with
  | v4 =>
    simp only [Listener.at, rp, dp]
    cases hl : l4 with
    | none =>
      rw [hl] at t4 hd; simp only [FamBound] at t4
      refine ⟨?_, ?_, by rw [t4.1, t4.2]; rfl, ?_, hudp.1, hudp.2, (by intro a ha; rw [t4.1] at ha; cases ha), ?_⟩
      · rintro ⟨s, hs, hf⟩
        exfalso
        apply F.sub4 _ t4.2
        rw [e4]
        exact filter_ne_nil_of_mem (by rw [← F.hinc]; exact hs) (by simp [isV4, hf])
      · rintro ⟨n, hn, hf⟩
        exfalso
        have : p.dp4 = 0 := by
          rcases hd with ⟨_, _, _, h0⟩ | ⟨_, q, _, _, _, h0, _⟩
          · exact h0
          · simpa using h0
        apply F.ns4 _ this
        rw [en4]
        exact filter_ne_nil_of_mem (by rw [← F.hns]; exact hn) (by simp [isV4, hf])
      · rcases hd with ⟨_, hn, _, h0⟩ | ⟨_, q, _, hq, _, h0, _⟩
        · rw [hn, h0]; try rfl
        · rw [hq, h0]; try rfl
      · intro d a hdl ha
        rcases hd with ⟨_, hn, _⟩ | ⟨_, q, _, hq, _⟩
        · rw [hn] at hdl; cases hdl
        · rw [hq] at hdl; injection hdl with hdl; subst hdl; cases ha
    | some b =>
      rw [hl] at t4 hd; simp only [FamBound] at t4
      refine ⟨fun _ => by rw [t4.1]; rfl, ?_, by rw [t4.1]; rfl, ?_, hudp.1, hudp.2, ?_, ?_⟩
      · rintro ⟨n, hn, hf⟩
        rcases hd with ⟨hnil, _⟩ | ⟨_, q, _, hq, _⟩
        · rw [hnil] at hn; cases hn
        · exact ⟨_, hq, rfl⟩
      · rcases hd with ⟨_, hn, _, h0⟩ | ⟨_, q, _, hq, _, h0, _⟩
        · rw [hn, h0]; try rfl
        · rw [hq, h0]; try rfl
      · intro a ha; rw [t4.1] at ha; injection ha with ha; rw [← ha]; exact t4.2
      · intro d a hdl ha
        rcases hd with ⟨_, hn, _⟩ | ⟨_, q, q0, hq, _⟩
        · rw [hn] at hdl; cases hdl
        · rw [hq] at hdl; injection hdl with hdl; subst hdl
          simp only [Option.map_some, Option.some.injEq] at ha
          rw [← ha]; exact q0
  | v6 =>
    simp only [Listener.at, rp, dp]
    cases hl : l6 with
    | none =>
      rw [hl] at t6 hd; simp only [FamBound] at t6
      refine ⟨?_, ?_, by rw [t6.1, t6.2]; rfl, ?_, hudp.1, hudp.2, (by intro a ha; rw [t6.1] at ha; cases ha), ?_⟩
      · rintro ⟨s, hs, hf⟩
        exfalso
        apply F.sub6 _ t6.2
        rw [e6]
        exact filter_ne_nil_of_mem (by rw [← F.hinc]; exact hs) (by simp [isV6, hf])
      · rintro ⟨n, hn, hf⟩
        exfalso
        have : p.dp6 = 0 := by
          rcases hd with ⟨_, _, h0, _⟩ | ⟨_, q, _, _, h0, _⟩
          · exact h0
          · simpa using h0
        apply F.ns6 _ this
        rw [en6]
        exact filter_ne_nil_of_mem (by rw [← F.hns]; exact hn) (by simp [isV6, hf])
      · rcases hd with ⟨_, hn, h0, _⟩ | ⟨_, q, _, hq, h0, _⟩
        · rw [hn, h0]; try rfl
        · rw [hq, h0]; try rfl
      · intro d a hdl ha
        rcases hd with ⟨_, hn, _⟩ | ⟨_, q, _, hq, _⟩
        · rw [hn] at hdl; cases hdl
        · rw [hq] at hdl; injection hdl with hdl; subst hdl; cases ha
    | some b =>
      rw [hl] at t6 hd; simp only [FamBound] at t6
      refine ⟨fun _ => by rw [t6.1]; rfl, ?_, by rw [t6.1]; rfl, ?_, hudp.1, hudp.2, ?_, ?_⟩
      · rintro ⟨n, hn, hf⟩
        rcases hd with ⟨hnil, _⟩ | ⟨_, q, _, hq, _⟩
        · rw [hnil] at hn; cases hn
        · exact ⟨_, hq, rfl⟩
      · rcases hd with ⟨_, hn, h0, _⟩ | ⟨_, q, _, hq, h0, _⟩
        · rw [hn, h0]; try rfl
        · rw [hq, h0]; try rfl
      · intro a ha; rw [t6.1] at ha; injection ha with ha; rw [← ha]; exact t6.2
      · intro d a hdl ha
        rcases hd with ⟨_, hn, _⟩ | ⟨_, q, q0, hq, _⟩
        · rw [hn] at hdl; cases hdl
        · rw [hq] at hdl; injection hdl with hdl; subst hdl
          simp only [Option.map_some, Option.some.injEq] at ha
          rw [← ha]; exact q0

/-- (e) The DNS listener's port is never a redirector port — also when the redirector port was
given explicitly with `--listen`. -/
theorem C15_e (c : Cmd) (env : Env) (p : Plan) (h : run c env = .plan p) : DnsPortDistinct p := by
  obtain ⟨hU, _, hR, _⟩ := C15_side_conditions
  obtain ⟨l6, l4, uid, gid, F⟩ := clientMain_plan_facts hU (run_plan h)
  intro f g hne
  rcases F.dns with ⟨_, _, h6, h4⟩ | ⟨_, q, _, _, h6, h4, hq⟩
  · cases f <;> simp_all [dp]
  · obtain ⟨q4, q6⟩ := hq hR
    have hdp : dp p f = q := by
      cases f with
      | v4 => simp only [dp] at hne ⊢; rw [h4] at hne ⊢; split at hne <;> simp_all
      | v6 => simp only [dp] at hne ⊢; rw [h6] at hne ⊢; split at hne <;> simp_all
    rw [hdp]
    cases g with
    | v4 => exact q4
    | v6 => exact q6

/-- **C15_consistent.** Every plan `client.main` hands to the helper satisfies (a)–(e). -/
theorem C15_consistent (c : Cmd) (env : Env) (p : Plan)
    (hloop : env.avail.loopback_proxy_port = true) (h : run c env = .plan p) :
    Consistent c.listen.isSome c.includes p :=
  ⟨C15_a c env p hloop h, C15_b c env p h, C15_c c env p h, C15_d c env p h, C15_e c env p h⟩

/-- The executable versions of (a)–(e) that the driver evaluates on every enumerated
configuration (and that the harness compares with its own, independent oracle on the real code's
plan) decide exactly the predicates the theorems above are about. -/
theorem C15_spec_evaluators (g : Bool) (inc : List Subnet) (p : Plan) :
    (chkA g p = true ↔ DefaultLoopback g p) ∧ (chkB inc p = true ↔ ListenExcluded inc p) ∧
    (chkC p = true ↔ Ipv6Exactly p) ∧ (chkD p = true ↔ ListenersMatch p) ∧
    (chkE p = true ↔ DnsPortDistinct p) :=
  ⟨chkA_iff g p, chkB_iff inc p, chkC_iff p, chkD_iff p, chkE_iff p⟩

/-- **C15_pf_nonempty.** For every active family the subnet list handed to the helper is
non-empty (the automatic exclude, or the user's own entry for the listen address). -/
theorem C15_pf_nonempty (c : Cmd) (env : Env) (p : Plan) (h : run c env = .plan p) :
    FamilyListsNonempty p := by
  intro f hs
  have hb := C15_b c env p h f
  cases ha : Listener.at p.tcp f with
  | none => rw [ha] at hs; cases hs
  | some a =>
    rcases hb a ha with he | ⟨s, hs', hf, hip⟩
    · exact ⟨_, List.mem_append_right _ he, rfl⟩
    · -- the user's entry for the listen address is itself handed over
      obtain ⟨hU, _⟩ := C15_side_conditions
      obtain ⟨l6, l4, uid, gid, F⟩ := clientMain_plan_facts hU (run_plan h)
      cases f with
      | v4 =>
        have t4 := F.tcp4
        simp only [Listener.at] at ha
        cases hl : l4 with
        | none => rw [hl] at t4; simp only [FamBound] at t4; rw [t4.1] at ha; cases ha
        | some b =>
          rcases mkPrep_excl4 c env l6 l4 uid gid hl with he | _
          · exact ⟨_, List.mem_append_right _ (by rw [F.hexc]; exact he), rfl⟩
          · refine ⟨s, List.mem_append_left _ ?_, hf⟩
            rw [F.hinc]
            simp only [mkPrep]
            split
            · exact List.mem_filter.mpr ⟨hs', by simp [isV4, hf]⟩
            · exact hs'
      | v6 =>
        have t6 := F.tcp6
        simp only [Listener.at] at ha
        cases hl : l6 with
        | none => rw [hl] at t6; simp only [FamBound] at t6; rw [t6.1] at ha; cases ha
        | some b =>
          rcases mkPrep_excl6 c env l6 l4 uid gid hl with he | ⟨s2, hs2, hf2, _⟩
          · exact ⟨_, List.mem_append_right _ (by rw [F.hexc]; exact he), rfl⟩
          · exact ⟨s2, List.mem_append_left _ (by rw [F.hinc]; exact hs2), hf2⟩

/-! ## 3. Capabilities are honoured -/

/-- **C15_group_honoured.** `--group` with a method whose table has `group = False` never reaches
the hand-over: it is refused by `assert_features` (or start-up stopped even earlier). -/
theorem C15_group_honoured (c : Cmd) (env : Env) (g : Nat) (hg : c.group = some g)
    (hav : env.avail.group = false) : ∀ p, run c env ≠ .plan p := by
  intro p h
  obtain ⟨hU, _, _, _, _, hgk, _⟩ := C15_side_conditions
  obtain ⟨l6, l4, uid, gid, F⟩ := clientMain_plan_facts hU (run_plan h)
  obtain ⟨r, hr, himp⟩ := assertFeatures_none F.feats _ hgk
  have hre := requiredGet_group _ _ _ _ _ _ hr
  have hgid : gid.isSome = true := by
    have := F.hgid
    rw [hg] at this
    simp only [lookupOpt, Option.map_eq_some_iff] at this
    obtain ⟨x, _, hx⟩ := this
    rw [← hx]; rfl
  rw [hgid] at hre
  have := himp hre
  simp only [Features.get] at this
  rw [hav] at this; cases this

/-- The same for `--user`. -/
theorem C15_user_honoured (c : Cmd) (env : Env) (u : Nat) (hu : c.user = some u)
    (hav : env.avail.user = false) : ∀ p, run c env ≠ .plan p := by
  intro p h
  obtain ⟨hU, _, _, _, _, _, huk, _⟩ := C15_side_conditions
  obtain ⟨l6, l4, uid, gid, F⟩ := clientMain_plan_facts hU (run_plan h)
  obtain ⟨r, hr, himp⟩ := assertFeatures_none F.feats _ huk
  have hre : r = uid.isSome := by
    unfold requiredGet at hr
    split at hr
    · simpa using hr.symm
    · cases hr
  have huid : uid.isSome = true := by
    have := F.huid
    rw [hu] at this
    simp only [lookupOpt, Option.map_eq_some_iff] at this
    obtain ⟨x, _, hx⟩ := this
    rw [← hx]; rfl
  rw [huid] at hre
  have := himp hre
  simp only [Features.get] at this
  rw [hav] at this; cases this

example : ({ group := some 1 } : Cmd).group = some 1 ∧ FEAT_nft.group = false := by decide

/-! ## 4. Every documented method name is accepted -/

/-- **C15_methods.** A method name the manual documents is never answered with argparse's
"invalid choice", and leads to a fatal message, a re-raised bind error or a plan. -/
theorem C15_methods (m : String) (hm : m ∈ DOC_METHODS) (c : Cmd) (env : Env)
    (hc : c.methodOpt = some m) (hv4 : env.avail.ipv4 = true) :
    run c env ≠ .usage .methodChoice ∧ (run c env).isInternal = false := by
  refine ⟨?_, C15_total c env hv4⟩
  have hin : METHOD_CHOICES.contains m = true := by
    simpa using C15_method_tables.1 m hm
  unfold run
  simp only [hc, Option.getD_some, hin, Bool.not_true, Bool.false_eq_true, ↓reduceIte]
  split
  · intro h; cases h
  · intro h
    unfold clientMain at h
    split at h
    · cases h
    · split at h
      · cases h
      · split at h
        · cases h
        · split at h <;> cases h

example : "nft" ∈ DOC_METHODS := by decide

/-! ## 5. `--disable-ipv6`: holds without `--listen`, false with an IPv6 `--listen` address -/

/-- Without `--listen`, `--disable-ipv6` switches IPv6 off in every plan. -/
theorem C15_disable_ipv6_partial (c : Cmd) (env : Env) (p : Plan) (hd : c.disableIpv6 = true)
    (hl : c.listen = none) (h : run c env = .plan p) : ipv6Active p = false := by
  obtain ⟨hU, _⟩ := C15_side_conditions
  obtain ⟨l6, l4, uid, gid, F⟩ := clientMain_plan_facts hU (run_plan h)
  have h6 : l6 = none := by rw [F.hl6]; simp [listenArgs, hl, hd, resolveL6]
  have t6 := F.tcp6
  rw [h6] at t6
  simp only [FamBound] at t6
  simp [ipv6Active, t6.1]

/-- The full statement ("`--disable-ipv6` ⇒ IPv6 inactive", for every command line). -/
def C15_disable_ipv6_full : Prop :=
  ∀ (c : Cmd) (env : Env) (p : Plan), c.disableIpv6 = true → run c env = .plan p → ipv6Active p = false

/-- `sshuttle --disable-ipv6 --listen 127.0.0.1,[::1] -r … 10.0.0.0/8` with the nat method. -/
def witnessCmd : Cmd :=
  { disableIpv6 := true, listen := some [(Fam.v4, ⟨2130706433, 0⟩), (Fam.v6, ⟨1, 0⟩)],
    includes := [⟨.v4, 167772160, 8, 0, 0⟩] }

def witnessEnv : Env := { avail := FEAT_nat }

def witnessPlan : Plan :=
  { includes := [⟨.v4, 167772160, 8, 0, 0⟩],
    excludes := [⟨.v4, 2130706433, 32, 0, 0⟩, ⟨.v6, 1, 128, 0, 0⟩], nslist := [],
    rp6 := 12300, rp4 := 12300, dp6 := 0, dp4 := 0, udp := false, user := none, group := none,
    tcp := ⟨some ⟨1, 12300⟩, some ⟨2130706433, 12300⟩⟩, udpL := none, dnsL := none, toNs := none }

theorem C15_witness_run : run witnessCmd witnessEnv = .plan witnessPlan := by decide +kernel

/-- The full statement is false of the code: an IPv6 `--listen` address overrides
`--disable-ipv6` (`cmdline.main` consults the flag only when `--listen` is absent).
Recorded in `known_findings/C15.json`. -/
theorem C15_disable_ipv6_false : ¬ C15_disable_ipv6_full := by
  intro h
  have := h witnessCmd witnessEnv witnessPlan rfl C15_witness_run
  revert this
  decide

/-! ## 6. Non-vacuity: concrete configurations that satisfy the hypotheses -/

/-- `sshuttle --dns --listen 12299 -r … 10.0.0.0/8 2001:db8::/32` (nat; resolvers 8.8.8.8 and
2001:db8::53; TCP 12300 busy on IPv4): a plan is reached, so `C15_consistent`,
`C15_pf_nonempty`, `C15_a`–`C15_e` are not vacuous, and the DNS port (12298) avoids the
explicit redirector port 12299. -/
example :
    let c : Cmd := { listen := some [(Fam.v4, ⟨0, 12299⟩)], dns := true,
                     includes := [⟨.v4, 167772160, 8, 0, 0⟩] }
    let env : Env := { avail := FEAT_nat, resolv := [⟨.v4, 134744072⟩, ⟨.v6, 53⟩],
                       bind := fun pr f port => if pr = .tcp ∧ f = .v4 ∧ port = 12300 then some .inUse else none }
    env.avail.loopback_proxy_port = true ∧ env.avail.ipv4 = true ∧
    (match run c env with
     | .plan p => p.rp4 == 12299 && p.dp4 == 12298 && p.rp6 == 0
     | _ => false) = true := by
  decide +kernel

/-- Both listen ports explicit (the configuration of finding F11) now reaches a plan. -/
example :
    (match run { listen := some [(Fam.v4, ⟨2130706433, 12305⟩), (Fam.v6, ⟨1, 12301⟩)],
                 includes := [⟨.v4, 167772160, 8, 0, 0⟩] } { avail := FEAT_nat } with
     | .plan p => p.rp4 == 12305 && p.rp6 == 12301
     | _ => false) = true := by
  decide +kernel

/-- `--method nft --group g` is refused with "Feature group not supported" (findings F13, F14). -/
example :
    run { methodOpt := some "nft", group := some 1, includes := [⟨.v4, 167772160, 8, 0, 0⟩] }
        { avail := FEAT_nft, groups := fun _ => some 100 } = .stop (.fatal (.feature .group)) := by
  decide +kernel

/-! ## 7. The port search as a whole -/

/-- **C15_port_search.** For every bind oracle, every pair of listen addresses (absent, without
port, with explicit port — per family), with or without a UDP redirector, with or without DNS:

* the redirector search either fails — with the fatal message for an unavailable IPv6 address,
  with a re-raised bind error other than `EADDRINUSE`, or with `EADDRINUSE` when *every* candidate
  port was busy — or it binds on the **first** candidate on which all binds succeed; then exactly
  the families with a listen address have a socket, on exactly the reported non-zero port, the UDP
  redirector (if any) sits on the same addresses, and every socket was granted by the oracle;
* the DNS search then either fails (same two ways, never an internal error) or binds one non-zero
  port, for exactly the families with a listen address, granted by the oracle, not held by the
  UDP redirector, and different from both redirector ports.

By induction over the candidate list (`Lemmas/ClientPlanSearch`, `Lemmas/ClientPlanGranted`). -/
theorem C15_port_search (env : Env) (P : Prep) :
    (∀ s, tcpStage env P = .error s →
      s = .fatal .bindV6NotAvail ∨ (∃ e, e ≠ Errno.inUse ∧ s = .osError e) ∨
      (s = .osError .inUse ∧ ∀ q ∈ tcpPorts P, tcpAttempt env P.l6 P.l4 P.udp q = .err .inUse)) ∧
    (∀ T, tcpStage env P = .ok T →
      FamBound P.l6 T.tcp.v6 T.rp6 ∧ FamBound P.l4 T.tcp.v4 T.rp4 ∧
      T.udpL = (if P.udp then some T.tcp else none) ∧
      Granted env [] .tcp T.tcp ∧ (P.udp = true → Granted env [] .udp T.tcp) ∧
      (∃ pre p post, tcpPorts P = pre ++ p :: post ∧
        (∀ q ∈ pre, tcpAttempt env P.l6 P.l4 P.udp q = .err .inUse) ∧
        tcpAttempt env P.l6 P.l4 P.udp p = .ok T.tcp) ∧
      (∀ s, dnsStage env P T = .error s → s = .fatal .bindV6NotAvail ∨ ∃ e, s = .osError e) ∧
      (∀ D, dnsStage env P T = .ok D →
        (P.reqDns = false ∧ D.dnsL = none ∧ D.dp6 = 0 ∧ D.dp4 = 0) ∨
        (P.reqDns = true ∧ ∃ q d, q ≠ 0 ∧ q ≠ T.rp4 ∧ q ≠ T.rp6 ∧ D.dnsL = some d ∧
          d = ⟨P.l6.map fun a => ⟨a.ip, q⟩, P.l4.map fun a => ⟨a.ip, q⟩⟩ ∧
          D.dp6 = (if P.l6.isSome then q else 0) ∧ D.dp4 = (if P.l4.isSome then q else 0) ∧
          Granted env (heldOf T.udpL) .udp d))) := by
  obtain ⟨hU, _, hR, hB, _, _, _, hT, hD, hE, _⟩ := C15_side_conditions
  refine ⟨fun s h => tcpStage_error_kind hU hT hE h, fun T hT' => ?_⟩
  obtain ⟨t6, t4, tu, tused⟩ := tcpStage_ok hU hT'
  obtain ⟨pre, p, post, e, hpre, hp, g1, g2⟩ := tcpStage_first hU hT'
  refine ⟨t6, t4, tu, g1, g2, ⟨pre, p, post, e, hpre, hp⟩,
    fun s h => dnsStage_error_kind hB hD tused h, fun D hD' => ?_⟩
  rcases dnsStage_ok hD' with h | ⟨hq, q, q0, hl, h6, h4, hne⟩
  · exact Or.inl h
  · right
    obtain ⟨n4, n6⟩ := hne hR
    exact ⟨hq, q, _, q0, n4, n6, hl, rfl, h6, h4, dnsStage_granted hD' hl⟩

/-- Non-vacuity: with IPv4 TCP 12300 busy and IPv6 UDP 12298 busy the redirectors (TCP and UDP) go
to 12299 and the DNS listener to 12297. -/
example :
    let env : Env := { avail := FEAT_tproxy, bind := fun pr f port =>
      if (pr = .tcp ∧ f = .v4 ∧ port = 12300) ∨ (pr = .udp ∧ f = .v6 ∧ port = 12298) then some .inUse else none }
    let P : Prep := mkPrep { dns := true, nsHosts := [⟨.v4, 1⟩] } env (some ⟨1, 0⟩) (some ⟨2130706433, 0⟩) none none
    (match tcpStage env P with
     | .ok T => T.rp4 == 12299 && T.rp6 == 12299 &&
        (match dnsStage env P T with | .ok D => D.dp4 == 12297 && D.dp6 == 12297 | _ => false)
     | _ => false) = true := by
  decide +kernel

/-- **C15_sockets_granted.** In every plan, every socket the plan names was granted by the bind
oracle, and the DNS listener does not share an address with this process' UDP redirector. -/
theorem C15_sockets_granted (c : Cmd) (env : Env) (p : Plan) (h : run c env = .plan p) :
    SocketsGranted env.bind p := by
  obtain ⟨hU, _⟩ := C15_side_conditions
  obtain ⟨P, T, D, _, h2, h3, h4⟩ := clientMain_plan (run_plan h)
  obtain ⟨hp, _⟩ := sanity_ok h4
  obtain ⟨_, _, tu, g1, g2, _, _, hdns⟩ := (C15_port_search env P).2 T h2
  subst hp
  intro f a
  refine ⟨fun ha => ?_, fun u hu ha => ?_, fun d hd ha => ?_⟩
  · cases f with
    | v4 => exact (bindOne_none (g1.2 a ha)).1
    | v6 => exact (bindOne_none (g1.1 a ha)).1
  · simp only at hu
    rw [tu] at hu
    split at hu
    next hudp =>
      injection hu with hu; subst hu
      cases f with
      | v4 => exact (bindOne_none ((g2 hudp).2 a ha)).1
      | v6 => exact (bindOne_none ((g2 hudp).1 a ha)).1
    · cases hu
  · simp only at hd
    rcases hdns D h3 with ⟨_, hn, _⟩ | ⟨_, q, d', _, _, _, hl, _, _, _, g⟩
    · rw [hn] at hd; cases hd
    · rw [hl] at hd; injection hd with hd; subst hd
      have hb : bindOne env (heldOf T.udpL) .udp f a = none := by
        cases f with
        | v4 => exact g.2 a ha
        | v6 => exact g.1 a ha
      obtain ⟨b1, b2⟩ := bindOne_none hb
      refine ⟨b1, fun u hu hua => b2 rfl ?_⟩
      simp only at hu
      rw [hu]
      cases f with
      | v4 => simp only [Listener.at] at hua; simp [heldOf, hua]
      | v6 => simp only [Listener.at] at hua; simp [heldOf, hua]

/-! ## 8. The feature check, in one statement -/



/-- **C15_features.** For every feature table (in particular each regenerated one), every command
line and every environment: a plan is handed over only if *every* feature the plan asks of the
method — IPv4, IPv6 iff active, UDP iff a UDP redirector is planned, DNS iff name servers are handed
over, user / group iff `--user` / `--group` was given — is in the method's table. -/
theorem C15_features (c : Cmd) (env : Env) (p : Plan) (h : run c env = .plan p) :
    ∀ k ∈ ASSERT_KEYS, requested c.user.isSome c.group.isSome p k = true → env.avail.get k = true := by
  obtain ⟨hU, _⟩ := C15_side_conditions
  obtain ⟨l6, l4, uid, gid, F⟩ := clientMain_plan_facts hU (run_plan h)
  intro k hk hr
  obtain ⟨r, hreq, himp⟩ := assertFeatures_none F.feats k hk
  apply himp
  unfold requiredGet at hreq
  split at hreq
  · injection hreq with hreq
    rw [← hreq]
    have t6 := F.tcp6
    cases k with
    | ipv4 => rfl
    | ipv6 =>
      simp only [requested] at hr ⊢
      cases hl : l6 with
      | none => rw [hl] at t6; simp only [FamBound] at t6; rw [t6.1] at hr; cases hr
      | some a => rfl
    | udp => simp only [requested] at hr ⊢; rw [← F.hudp]; exact hr
    | dns =>
      simp only [requested] at hr ⊢
      apply F.hreq.mpr
      intro hn; rw [hn] at hr; cases hr
    | user => simp only [requested] at hr ⊢; rw [lookupOpt_isSome F.huid]; exact hr
    | group => simp only [requested] at hr ⊢; rw [lookupOpt_isSome F.hgid]; exact hr
    | loopback_proxy_port => cases hr
  · cases hreq

/-- The same, instantiated on the regenerated table: for each of the five methods, a plan with
`--group` exists only if that method's table has `group` (likewise `--user`, IPv6, DNS, UDP). -/
theorem C15_features_table (m : String) (f : Features) (hm : (m, f) ∈ METHOD_TABLE)
    (c : Cmd) (env : Env) (p : Plan) (he : env.avail = f) (h : run c env = .plan p) :
    ∀ k ∈ ASSERT_KEYS, requested c.user.isSome c.group.isSome p k = true → f.get k = true := by
  subst he
  exact C15_features c env p h

/-- **C15_feature_fatal.** Conversely, "Feature K not supported with method M" is only ever said
when K is one of the checked keys, the method's table really lacks K, and K was really asked for
(`--user` / `--group` given for those two keys; UDP is never the reason, it is only switched on
when available). -/
theorem C15_feature_fatal (c : Cmd) (env : Env) (k : FeatKey)
    (h : run c env = .stop (.fatal (.feature k))) :
    k ∈ ASSERT_KEYS ∧ env.avail.get k = false ∧ k ≠ .udp ∧
    (k = .user → c.user.isSome = true) ∧ (k = .group → c.group.isSome = true) := by
  obtain ⟨hU, _, _, hB, _, _, _, hT, hD, hE, _⟩ := C15_side_conditions
  have hm : clientMain c env (listenArgs c).1 (listenArgs c).2 = .stop (.fatal (.feature k)) := by
    unfold run at h
    split at h
    · cases h
    · split at h
      · cases h
      · exact h
  rcases clientMain_stop hm with h1 | ⟨P, h1, h2⟩
  · obtain ⟨uid, gid, hu, hg, ha⟩ := prep_error_feature h1
    obtain ⟨hk, hr, hav⟩ := assertFeatures_feature ha
    refine ⟨hk, hav, ?_, ?_, ?_⟩
    · intro hc; subst hc
      unfold requiredGet at hr
      split at hr
      · injection hr with hr
        simp only [Features.get] at hav
        rw [hav] at hr; cases hr
      · cases hr
    · intro hc; subst hc
      unfold requiredGet at hr
      split at hr
      · injection hr with hr
        rw [← lookupOpt_isSome hu]; exact hr
      · cases hr
    · intro hc; subst hc
      unfold requiredGet at hr
      split at hr
      · injection hr with hr
        rw [← lookupOpt_isSome hg]; exact hr
      · cases hr
  · exfalso
    rcases h2 with h2 | ⟨T, h2, h3⟩
    · rcases tcpStage_error_kind hU hT hE h2 with hk | ⟨e, _, hk⟩ | ⟨hk, _⟩ <;> cases hk
    · have tused := (tcpStage_ok hU h2).2.2.2
      rcases h3 with h3 | ⟨D, _, h4⟩
      · rcases dnsStage_error_kind hB hD tused h3 with hk | ⟨e, hk⟩
        · cases hk
        · cases hk
      · rcases sanity_error_kind h4 with hk | ⟨m, hk, hf⟩
        · cases hk
        · injection hk with hk; subst hk; cases hf

example : run { group := some 7, includes := [⟨.v4, 167772160, 8, 0, 0⟩] }
    { avail := FEAT_tproxy, groups := fun _ => some 0 } = .stop (.fatal (.feature .group)) := by
  decide +kernel

/-! ## 9. Family pruning removes IPv6 entries, only them, and only when IPv6 is inactive -/



/-- **C15_pruning_exact.** For every input: the subnets handed over are the user's subnets when
IPv6 is active and exactly their IPv4 part when it is not; the excludes are the user's excludes
(resp. their IPv4 part) followed only by host-wide excludes of addresses the redirector listens on;
the name servers are the requested ones (`--ns-hosts`, plus resolv.conf with `--dns`) resp. their
IPv4 part.  No IPv4 entry is ever dropped, no IPv6 entry survives an inactive IPv6. -/
theorem C15_pruning_exact (c : Cmd) (env : Env) (p : Plan) (h : run c env = .plan p) :
    p.includes = (if ipv6Active p then c.includes else c.includes.filter fun s => isV4 s.fam) ∧
    p.nslist = (if ipv6Active p then nslistOf c env else (nslistOf c env).filter fun n => isV4 n.fam) ∧
    ∃ auto, p.excludes =
        (if ipv6Active p then c.excludes else c.excludes.filter fun s => isV4 s.fam) ++ auto ∧
      ∀ s ∈ auto, ∃ a, Listener.at p.tcp s.fam = some a ∧ s = ⟨s.fam, a.ip, hostWidth s.fam, 0, 0⟩ := by
  obtain ⟨hU, _, _, _, _, _, _, _, _, _, _, _, hW4, hW6⟩ := C15_side_conditions
  obtain ⟨l6, l4, uid, gid, F⟩ := clientMain_plan_facts hU (run_plan h)
  have t6 := F.tcp6
  have t4 := F.tcp4
  have hact : ipv6Active p = l6.isSome := by
    unfold ipv6Active
    cases hl : l6 with
    | none => rw [hl] at t6; simp only [FamBound] at t6; simp [t6.1]
    | some a => rw [hl] at t6; simp only [FamBound] at t6; simp [t6.1]
  rw [hact, F.hinc, F.hns, F.hexc]
  refine ⟨?_, ?_, ?_⟩
  · simp only [mkPrep]
    cases hl : l6.isSome with
    | true => simp
    | false =>
      simp only [Bool.not_false, Bool.true_and, Bool.false_eq_true, ↓reduceIte]
      split
      · rfl
      next hp =>
        simp only [gt_iff_lt, decide_eq_true_eq, Nat.not_lt, Nat.le_zero_eq, List.length_eq_zero_iff] at hp
        exact (filter_v4_of_no_v6 Subnet.fam c.includes hp).symm
  · simp only [mkPrep]
    cases hl : l6.isSome with
    | true => simp
    | false =>
      simp only [Bool.not_false, Bool.and_true, Bool.false_eq_true, ↓reduceIte]
      split
      · rfl
      next hp =>
        simp only [gt_iff_lt, Bool.and_eq_true, decide_eq_true_eq, not_and, Nat.not_lt, Nat.le_zero_eq,
          List.length_eq_zero_iff] at hp
        by_cases hz : 0 < (nslistOf c env).length
        · exact (filter_v4_of_no_v6 Ns.fam _ (hp hz)).symm
        · have : nslistOf c env = [] := List.length_eq_zero_iff.mp (by omega)
          simp [this]
  · simp only [mkPrep, List.append_assoc]
    have hif : (if l6.isSome = true then c.excludes else c.excludes.filter fun s => isV4 s.fam) =
        (if (!l6.isSome) = true then c.excludes.filter fun s => isV4 s.fam else c.excludes) := by
      cases l6.isSome <;> rfl
    rw [hif]
    refine ⟨_, rfl, ?_⟩
    intro s hs
    rcases List.mem_append.mp hs with hs | hs
    · cases hl : l4 with
      | none => rw [hl] at hs; cases hs
      | some a =>
        rw [hl] at hs t4
        simp only [FamBound] at t4
        dsimp only at hs
        split at hs
        · simp only [List.mem_singleton] at hs; subst hs
          exact ⟨_, t4.1, by simp [hostWidth, hW4]⟩
        · cases hs
    · cases hl : l6 with
      | none => rw [hl] at hs; cases hs
      | some a =>
        rw [hl] at hs t6
        simp only [FamBound] at t6
        simp only [Option.isSome_some, Bool.not_true, Bool.false_and, Bool.false_eq_true, ↓reduceIte] at hs
        split at hs
        · simp only [List.mem_singleton] at hs; subst hs
          exact ⟨_, t6.1, by simp [hostWidth, hW6]⟩
        · cases hs

/-- **C15_auto_exclude_exact.** The excludes handed over are the user's (resp. their IPv4 part)
followed by automatic entries, and the automatic entries are *exactly* the host-wide excludes of the
listen addresses the user did **not** list as a subnet: one for every such address, none for an
address the user listed — whatever else (verbosity, other options) is on the command line. -/
theorem C15_auto_exclude_exact (c : Cmd) (env : Env) (p : Plan) (h : run c env = .plan p) :
    ∃ auto, p.excludes =
        (if ipv6Active p then c.excludes else c.excludes.filter fun s => isV4 s.fam) ++ auto ∧
      ∀ s, s ∈ auto ↔ ∃ a, Listener.at p.tcp s.fam = some a ∧ s = ⟨s.fam, a.ip, hostWidth s.fam, 0, 0⟩ ∧
        ¬ ∃ u ∈ c.includes, u.fam = s.fam ∧ u.ip = a.ip := by
  obtain ⟨hU, _, _, _, _, _, _, _, _, _, _, _, hW4, hW6⟩ := C15_side_conditions
  obtain ⟨l6, l4, uid, gid, F⟩ := clientMain_plan_facts hU (run_plan h)
  have t6 := F.tcp6
  have t4 := F.tcp4
  have hact : ipv6Active p = l6.isSome := by
    unfold ipv6Active
    cases hl : l6 with
    | none => rw [hl] at t6; simp only [FamBound] at t6; simp [t6.1]
    | some a => rw [hl] at t6; simp only [FamBound] at t6; simp [t6.1]
  rw [hact, F.hexc]
  simp only [mkPrep, List.append_assoc]
  have hif : (if l6.isSome = true then c.excludes else c.excludes.filter fun s => isV4 s.fam) =
      (if (!l6.isSome) = true then c.excludes.filter fun s => isV4 s.fam else c.excludes) := by
    cases l6.isSome <;> rfl
  rw [hif]
  refine ⟨_, rfl, ?_⟩
  intro s
  have h4 : ∀ (a : Addr), (listedAsSubnet a.ip (c.includes.filter fun s => isV4 s.fam) = true) ↔
      ∃ u ∈ c.includes, u.fam = Fam.v4 ∧ u.ip = a.ip := by
    intro a; rw [listedAsSubnet_iff]
    constructor
    · rintro ⟨u, hu, hip⟩; simp only [List.mem_filter, isV4_iff] at hu; exact ⟨u, hu.1, hu.2, hip⟩
    · rintro ⟨u, hu, hf, hip⟩; exact ⟨u, List.mem_filter.mpr ⟨hu, by simp [isV4, hf]⟩, hip⟩
  have h6 : ∀ (a : Addr), (listedAsSubnet a.ip (c.includes.filter fun s => isV6 s.fam) = true) ↔
      ∃ u ∈ c.includes, u.fam = Fam.v6 ∧ u.ip = a.ip := by
    intro a; rw [listedAsSubnet_iff]
    constructor
    · rintro ⟨u, hu, hip⟩; simp only [List.mem_filter, isV6_iff] at hu; exact ⟨u, hu.1, hu.2, hip⟩
    · rintro ⟨u, hu, hf, hip⟩; exact ⟨u, List.mem_filter.mpr ⟨hu, by simp [isV6, hf]⟩, hip⟩
  rw [List.mem_append]
  constructor
  · rintro (hs | hs)
    · cases hl : l4 with
      | none => rw [hl] at hs; cases hs
      | some a =>
        rw [hl] at hs t4
        simp only [FamBound] at t4
        dsimp only at hs
        split at hs
        next hc =>
          simp only [List.mem_singleton] at hs; subst hs
          refine ⟨_, t4.1, by simp [hostWidth, hW4], ?_⟩
          intro hex
          have := (h4 a).mpr hex
          simp [this] at hc
        · cases hs
    · cases hl : l6 with
      | none => rw [hl] at hs; cases hs
      | some a =>
        rw [hl] at hs t6
        simp only [FamBound] at t6
        simp only [Option.isSome_some, Bool.not_true, Bool.false_and, Bool.false_eq_true, ↓reduceIte] at hs
        split at hs
        next hc =>
          simp only [List.mem_singleton] at hs; subst hs
          refine ⟨_, t6.1, by simp [hostWidth, hW6], ?_⟩
          intro hex
          have := (h6 a).mpr hex
          simp [this] at hc
        · cases hs
  · rintro ⟨a, ha, hs, hno⟩
    cases hf : s.fam with
    | v4 =>
      left
      rw [hf] at ha hs hno
      simp only [Listener.at] at ha
      cases hl : l4 with
      | none => rw [hl] at t4; simp only [FamBound] at t4; rw [t4.1] at ha; cases ha
      | some b =>
        rw [hl] at t4; simp only [FamBound] at t4
        rw [t4.1] at ha; injection ha with ha; subst ha
        have hn : listedAsSubnet b.ip (c.includes.filter fun s => isV4 s.fam) = false := by
          cases hc : listedAsSubnet b.ip (c.includes.filter fun s => isV4 s.fam) with
          | false => rfl
          | true => exact absurd ((h4 b).mp hc) hno
        simp only [hn, Bool.not_false, ↓reduceIte, List.mem_singleton]
        rw [hs]; simp [hostWidth, hW4]
    | v6 =>
      right
      rw [hf] at ha hs hno
      simp only [Listener.at] at ha
      cases hl : l6 with
      | none => rw [hl] at t6; simp only [FamBound] at t6; rw [t6.1] at ha; cases ha
      | some b =>
        rw [hl] at t6; simp only [FamBound] at t6
        rw [t6.1] at ha; injection ha with ha; subst ha
        have hn : listedAsSubnet b.ip (c.includes.filter fun s => isV6 s.fam) = false := by
          cases hc : listedAsSubnet b.ip (c.includes.filter fun s => isV6 s.fam) with
          | false => rfl
          | true => exact absurd ((h6 b).mp hc) hno
        simp only [Option.isSome_some, Bool.not_true, Bool.false_and, Bool.false_eq_true, ↓reduceIte, hn,
          Bool.not_false, List.mem_singleton]
        rw [hs]; simp [hostWidth, hW6]

end Sshuttle.ClientPlan
