/-
C11 (and C10: the two share `mux.channels`) — the client's tables stay consistent through every
handler that touches them.

`ClientTables` = every id in `udp_by_src` carries that source's UDP callback (`TablesInChans`, the
hypothesis of `C11_one_socket_per_source_partial`), every id in `dnsreqs` carries a DNS callback
(`DnsInChans`), and both tables have one entry per key (`SrcNodup`, `DnsNodup`).  Proved here to be
preserved by `expire_connections`, `ondns`, `onaccept_udp` and `dns_done` — the four places of
`client.py` that write `mux.channels`, `dnsreqs` or `udp_by_src` on behalf of DNS/UDP flows.
(`udp_done` writes none of them.)  Lifted to every event of the client system (`CSys.step`, with TCP
flows taking and returning ids as context) and to every reachable state (`C11_reachable_tables`); the
full `C11_one_socket_per_source` follows.  Context ids of TCP flows (`Cb.other`) are unconstrained.
Core Lean only.
-/
import SshuttleModel.Props.C11_Tables
import SshuttleModel.Code.Dns

namespace Sshuttle.Dgram

/-- `dnsreqs` is a dict: one entry per id. -/
def DnsNodup (c : Client) : Prop := (c.dnsreqs.map (·.1)).Nodup

/-- The sweep keeps the DNS table consistent as well. -/
theorem C11_dns_in_chans_after_expire (now : Nat) (c c' : Client) (fr : List Frame)
    (hinv : TablesInChans c) (hdns : DnsInChans c) (hdn : DnsNodup c)
    (h : expire now c = .ok (c', fr)) : DnsInChans c' ∧ DnsNodup c' := by
  have hu := unique_of_keys_nodup _ hdn
  unfold expire at h
  simp only at h
  split at h
  · cases h
  · next ch1 h1 =>
    split at h
    · cases h
    · next ch2 h2 =>
      simp only [Except.ok.injEq, Prod.mk.injEq] at h
      obtain ⟨hc, _⟩ := h
      subst hc
      refine ⟨?_, ?_⟩
      · intro q hq
        simp only [List.mem_filter, decide_not, Bool.not_eq_eq_eq_not, Bool.not_true,
          decide_eq_false_iff_not] at hq
        obtain ⟨hq, hlive⟩ := hq
        obtain ⟨qid, l, a, o, hl⟩ := hdns q hq
        refine ⟨qid, l, a, o, ?_⟩
        simp only
        rw [delChans_eq_filter h2, delChans_eq_filter h1]
        apply lookup_filter
        · apply lookup_filter _ hl
          simp only [decide_eq_true_eq, List.mem_map, List.mem_filter, not_exists, not_and]
          intro q' ⟨hq', hexp⟩ e
          have := hu q hq q' hq' e.symm
          subst this
          exact hlive hexp
        · simp only [decide_eq_true_eq, List.mem_map, List.mem_filter, not_exists, not_and]
          intro p ⟨hp, _⟩ e
          obtain ⟨l', hp'⟩ := hinv p hp
          rw [e, hl] at hp'
          cases hp'
      · unfold DnsNodup
        simp only
        exact hdn.sublist ((List.filter_sublist).map _)

/-- The four table conditions together. -/
def ClientTables (c : Client) : Prop :=
  TablesInChans c ∧ DnsInChans c ∧ SrcNodup c ∧ DnsNodup c

theorem C11_expire_keeps_tables (now : Nat) (c c' : Client) (fr : List Frame) (hc : ClientTables c)
    (h : expire now c = .ok (c', fr)) : ClientTables c' := by
  obtain ⟨h1, h2, h3, h4⟩ := hc
  have hd := C11_dns_in_chans_after_expire now c c' fr h1 h2 h4 h
  exact ⟨C11_tables_in_chans_after_expire now c c' fr h1 h2 (C11_src_nodup_unique _ h3) h,
    hd.1, C11_src_nodup_after_expire now c c' fr h3 h, hd.2⟩

/-- **`ondns` keeps the tables consistent**: the id it registers was free, so no association and
no pending request loses its callback; then the sweep. -/
theorem C10_C11_ondns_keeps_tables (cfg : Cfg) (now : Nat) (cap : Capture) (c c' : Client)
    (fr : List Frame) (hc : ClientTables c) (h : ondns cfg now cap c = .ok (c', fr)) :
    ClientTables c' := by
  unfold ondns at h
  split at h
  · simp only [Except.ok.injEq, Prod.mk.injEq] at h
    obtain ⟨rfl, _⟩ := h
    exact hc
  · next srcip dstip data _ =>
    split at h
    · next chani' _ =>
      simp only [Except.ok.injEq, Prod.mk.injEq] at h
      obtain ⟨rfl, _⟩ := h
      exact hc
    · next chani' chan hn =>
      simp only at h
      split at h
      · cases h
      · next c2 closes he =>
        simp only [Except.ok.injEq, Prod.mk.injEq] at h
        obtain ⟨rfl, _⟩ := h
        refine C11_expire_keeps_tables now _ c2 closes ?_ he
        obtain ⟨h1, h2, h3, h4⟩ := hc
        have hfree : hasKey chan c.chans = false := (nextChannel_free _ _ _ _ hn).1
        have hne : ∀ k cb, lookup k c.chans = some cb → chan ≠ k := by
          intro k cb hl e
          rw [← e] at hl
          exact (hasKey_eq_false_iff _ c.chans).1 hfree _ (lookup_mem hl) rfl
        refine ⟨?_, ?_, h3, keys_set_nodup _ _ _ h4⟩
        · intro p hp
          obtain ⟨l, hl⟩ := h1 p hp
          refine ⟨l, ?_⟩
          simp only
          rw [lookup_set_ne _ _ (hne _ _ hl)]
          exact hl
        · intro q hq
          simp only at hq ⊢
          rcases mem_set hq with rfl | hq'
          · exact ⟨_, _, _, _, lookup_set_self _ _ _⟩
          · obtain ⟨qid, l, a, o, hl⟩ := h2 q hq'
            refine ⟨qid, l, a, o, ?_⟩
            rw [lookup_set_ne _ _ (hne _ _ hl)]
            exact hl

/-- **`onaccept_udp` keeps all four table conditions.** -/
theorem C11_onaccept_udp_keeps_client_tables (cfg : Cfg) (now : Nat) (cap : Capture) (c c' : Client)
    (fr : List Frame) (hc : ClientTables c) (h : onacceptUdp cfg now cap c = .ok (c', fr)) :
    ClientTables c' := by
  obtain ⟨hinv, hd, hn, hdn⟩ := hc
  unfold onacceptUdp at h
  split at h
  · simp only [Except.ok.injEq, Prod.mk.injEq] at h
    obtain ⟨rfl, _⟩ := h
    exact ⟨hinv, hd, hn, hdn⟩
  · next srcip dstip data _ =>
    split at h
    · next c1 ha =>
      simp only [Except.ok.injEq, Prod.mk.injEq] at h
      obtain ⟨rfl, _⟩ := h
      obtain ⟨_, e2, e3, e4⟩ := udpAlloc_ok ha
      have ech : c1.chans = c.chans := by
        rcases e4 with ⟨ech, _⟩ | ⟨ch, _, _, _, e5⟩
        · exact ech
        · cases e5
      refine ⟨?_, ?_, ?_, ?_⟩
      · intro p hp
        rw [e3] at hp
        rw [ech]
        exact hinv p hp
      · intro q hq
        rw [e2] at hq
        rw [ech]
        exact hd q hq
      · unfold SrcNodup; rw [e3]; exact hn
      · unfold DnsNodup; rw [e2]; exact hdn
    · next c1 chan opens ha =>
      simp only at h
      split at h
      · cases h
      · next d =>
        split at h
        · cases h
        · next c3 closes he =>
          simp only [Except.ok.injEq, Prod.mk.injEq] at h
          obtain ⟨rfl, _⟩ := h
          have h1 := C11_tables_in_chans_after_alloc cfg cap.lsn srcip c c1 chan
            (now + cfg.udpHorizonS * cfg.ticksPerS) opens hinv ha
          have h2 := C11_src_nodup_after_alloc cfg cap.lsn srcip c c1 _
            (chan, now + cfg.udpHorizonS * cfg.ticksPerS) hn ha
          have h3 := C11_dns_in_chans_after_alloc cfg cap.lsn srcip c c1 _
            (chan, now + cfg.udpHorizonS * cfg.ticksPerS) hd ha
          have h4 : DnsNodup ({ c1 with udpBySrc := set srcip (chan, now + cfg.udpHorizonS * cfg.ticksPerS) c1.udpBySrc } : Client) := by
            obtain ⟨_, e2, _, _⟩ := udpAlloc_ok ha
            unfold DnsNodup; simp only [e2]; exact hdn
          exact C11_expire_keeps_tables now _ c3 closes ⟨h1, h3, h2, h4⟩ he

/-- **`dns_done` keeps them**: it deletes one id from `mux.channels` and from `dnsreqs`; that id
carried a DNS callback, so no UDP association loses its own. -/
theorem C10_C11_dns_done_keeps_tables (cfg : Cfg) (chan lsn : Nat) (asker : Addr) (orig : Option Addr)
    (data : Bytes) (c c' : Client) (es : List Emit) (hc : ClientTables c)
    (h : dnsDone cfg chan lsn asker orig data c = .ok (c', es)) : ClientTables c' := by
  obtain ⟨h1, h2, h3, h4⟩ := hc
  unfold dnsDone at h
  split at h
  · cases h
  · split at h
    · cases h
    · next hk =>
      simp only at h
      split at h
      · cases h
      · simp only [Except.ok.injEq, Prod.mk.injEq] at h
        obtain ⟨rfl, _⟩ := h
        have hk' : hasKey chan c.dnsreqs = true := by simpa using hk
        obtain ⟨dl, hdl⟩ := Option.isSome_iff_exists.1 hk'
        obtain ⟨qid, l, a, o, hcb⟩ := h2 (chan, dl) (lookup_mem hdl)
        refine ⟨?_, ?_, h3, ?_⟩
        · intro p hp
          obtain ⟨l', hl⟩ := h1 p hp
          refine ⟨l', ?_⟩
          simp only
          unfold erase
          apply lookup_filter _ hl
          simp only [decide_not, Bool.not_eq_eq_eq_not, Bool.not_true, decide_eq_false_iff_not]
          intro e
          rw [e, hcb] at hl
          cases hl
        · intro q hq
          simp only at hq ⊢
          obtain ⟨hq1, hq2⟩ := mem_erase.1 hq
          obtain ⟨qid', l', a', o', hl⟩ := h2 q hq1
          refine ⟨qid', l', a', o', ?_⟩
          unfold erase
          apply lookup_filter _ hl
          simpa using hq2
        · unfold DnsNodup
          simp only
          exact h4.sublist ((erase_sublist _ _).map _)

/-- `Mux.got_packet` on the client: only the DNS reply path writes the tables. -/
theorem C11_client_got_keeps_tables (cfg : Cfg) (f : Frame) (c c' : Client) (es : List Emit)
    (hc : ClientTables c) (h : clientGot cfg f c = .ok (c', es)) : ClientTables c' := by
  unfold clientGot at h
  split at h
  · simp only [Except.ok.injEq, Prod.mk.injEq] at h
    obtain ⟨rfl, _⟩ := h; exact hc
  · split at h
    · simp only [Except.ok.injEq, Prod.mk.injEq] at h
      obtain ⟨rfl, _⟩ := h; exact hc
    · simp only [Except.ok.injEq, Prod.mk.injEq] at h
      obtain ⟨rfl, _⟩ := h; exact hc
    · exact C10_C11_dns_done_keeps_tables cfg _ _ _ _ _ c c' es hc h
    · split at h
      · cases h
      · simp only [Except.ok.injEq, Prod.mk.injEq] at h
        obtain ⟨rfl, _⟩ := h; exact hc

/-- **Every client event keeps the tables consistent** — DNS capture, UDP capture, any other accept
(sweep), a TCP flow taking or returning an id, any frame from the tunnel. -/
theorem C11_step_keeps_tables (cfg : Cfg) (now : Nat) (s : CSys) (op : COp)
    (hc : ClientTables s.c) : ClientTables (s.step cfg now op).c := by
  unfold CSys.step
  split
  · exact hc
  · cases op with
    | dns cap =>
      simp only
      split
      · exact hc
      · next c' frames h => exact C10_C11_ondns_keeps_tables cfg now cap s.c c' frames hc h
    | udp cap =>
      simp only
      split
      · exact hc
      · next c' frames h => exact C11_onaccept_udp_keeps_client_tables cfg now cap s.c c' frames hc h
    | accept =>
      simp only
      split
      · exact hc
      · next c' frames h => exact C11_expire_keeps_tables now s.c c' frames hc h
    | occupy id =>
      simp only
      split
      · exact hc
      · next hfree =>
        obtain ⟨h1, h2, h3, h4⟩ := hc
        have hfree' : hasKey id s.c.chans = false := by simpa using hfree
        have hne : ∀ k cb, lookup k s.c.chans = some cb → id ≠ k := by
          intro k cb hl e
          rw [← e] at hl
          exact (hasKey_eq_false_iff _ s.c.chans).1 hfree' _ (lookup_mem hl) rfl
        refine ⟨?_, ?_, h3, h4⟩
        · intro p hp
          obtain ⟨l, hl⟩ := h1 p hp
          exact ⟨l, by simp only; rw [lookup_set_ne _ _ (hne _ _ hl)]; exact hl⟩
        · intro q hq
          obtain ⟨qid, l, a, o, hl⟩ := h2 q hq
          exact ⟨qid, l, a, o, by simp only; rw [lookup_set_ne _ _ (hne _ _ hl)]; exact hl⟩
    | release id =>
      simp only
      split
      · next hoth =>
        obtain ⟨h1, h2, h3, h4⟩ := hc
        refine ⟨?_, ?_, h3, h4⟩
        · intro p hp
          obtain ⟨l, hl⟩ := h1 p hp
          refine ⟨l, ?_⟩
          simp only
          unfold erase
          apply lookup_filter _ hl
          simp only [decide_not, Bool.not_eq_eq_eq_not, Bool.not_true, decide_eq_false_iff_not]
          intro e
          rw [e, hoth] at hl
          cases hl
        · intro q hq
          obtain ⟨qid, l, a, o, hl⟩ := h2 q hq
          refine ⟨qid, l, a, o, ?_⟩
          simp only
          unfold erase
          apply lookup_filter _ hl
          simp only [decide_not, Bool.not_eq_eq_eq_not, Bool.not_true, decide_eq_false_iff_not]
          intro e
          rw [e, hoth] at hl
          cases hl
      · exact hc
    | frame f =>
      simp only
      split
      · exact hc
      · next c' es h => exact C11_client_got_keeps_tables cfg f s.c c' es hc h

/-- **Every reachable client state has consistent tables**: any sequence of events from the empty
client, any clock readings. -/
theorem C11_run_keeps_tables (cfg : Cfg) (s : CSys) (ops : List (Nat × COp)) (hc : ClientTables s.c) :
    ClientTables (s.run cfg ops).c := by
  induction ops generalizing s with
  | nil => exact hc
  | cons p ops ih => exact ih _ (C11_step_keeps_tables cfg p.1 s p.2 hc)

theorem C11_reachable_tables (cfg : Cfg) (ops : List (Nat × COp)) :
    ClientTables ((({} : CSys).run cfg ops).c) := by
  apply C11_run_keeps_tables
  refine ⟨?_, ?_, ?_, ?_⟩
  · intro p hp; cases hp
  · intro q hq; cases hq
  · exact List.nodup_nil
  · exact List.nodup_nil

/-- **Distinct sources have distinct ids — full statement**, for every reachable client state (any
history of captures, sweeps, replies and TCP flows taking and returning ids): the id a new source is
given differs from the id of every source in the table.  (`C11_one_socket_per_source_partial` with its
hypothesis discharged.) -/
theorem C11_one_socket_per_source (cfg : Cfg) (ops : List (Nat × COp)) (lsn : Nat) (src : Addr)
    (c1 : Client) (chan : Nat) (opens : List Frame)
    (hnew : lookup src (({} : CSys).run cfg ops).c.udpBySrc = none)
    (h : udpAlloc cfg lsn src (({} : CSys).run cfg ops).c = (c1, some (chan, opens))) :
    ∀ p ∈ (({} : CSys).run cfg ops).c.udpBySrc, p.2.1 ≠ chan :=
  C11_one_socket_per_source_partial cfg lsn src _ c1 chan opens (C11_reachable_tables cfg ops).1 hnew h

/-- … and inside the table of every reachable state no two sources share an id, and no source's id
is the id of a pending DNS request. -/
theorem C11_table_ids_distinct (cfg : Cfg) (ops : List (Nat × COp)) :
    let c := (({} : CSys).run cfg ops).c
    (∀ p ∈ c.udpBySrc, ∀ q ∈ c.udpBySrc, p.2.1 = q.2.1 → p = q) ∧
    (∀ p ∈ c.udpBySrc, ∀ q ∈ c.dnsreqs, p.2.1 ≠ q.1) := by
  obtain ⟨h1, h2, h3, _⟩ := C11_reachable_tables cfg ops
  refine ⟨?_, ?_⟩
  · intro p hp q hq e
    obtain ⟨l, hl⟩ := h1 p hp
    obtain ⟨l', hl'⟩ := h1 q hq
    rw [e, hl'] at hl
    simp only [Option.some.injEq, Cb.udp.injEq] at hl
    exact C11_src_nodup_unique _ h3 p hp q hq hl.2.symm
  · intro p hp q hq e
    obtain ⟨l, hl⟩ := h1 p hp
    obtain ⟨qid, l', a, o, hl'⟩ := h2 q hq
    rw [e, hl'] at hl
    cases hl

/-- Non-vacuity: a reachable state with a non-empty table, a pending DNS request and a second source
that is given an id — the hypotheses of `C11_one_socket_per_source` hold there (a datagram from source
`1:4000`, a DNS capture, then source `2:4001` arrives: ids 1, 2 and 3). -/
example :
    let cfg : Cfg := { method := .tproxy }
    let cap : Capture := ⟨2, ⟨[49], 4000, []⟩, some ⟨[57], 53, []⟩, [44, 44]⟩
    let src2 : Addr := ⟨[50], 4001, []⟩
    let c := (({} : CSys).run cfg [(0, .udp cap), (100, .dns cap)]).c
    c.udpBySrc.length = 1 ∧ c.dnsreqs.length = 1 ∧ lookup src2 c.udpBySrc = none ∧
    (udpAlloc cfg 2 src2 c).2.map (·.1) = some 3 := by
  decide

end Sshuttle.Dgram
