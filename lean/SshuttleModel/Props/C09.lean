/-
C09 — Latency control bounds queued stream data and never wedges the tunnel.

Theorems over the latency part of the Mux model (`Code/Wrap.lean`: `MuxL`, `MuxW.uwrite`,
`checkFullness`) inside the tunnel world (`Code/Tunnel.lean`).  Helper lemmas: `Lemmas/Latency`.
-/
import SshuttleModel.Lemmas.Latency
import SshuttleModel.Lemmas.MuxMove
import SshuttleModel.Props.C01

namespace Sshuttle.Tunnel
open Sshuttle.Mux (Frame)
open Sshuttle.Wrap


/-! ## 1. the gate, the bound, ping-once: one end -/

/-- While `too_full`, `MuxWrapper.uwrite` accepts nothing and queues nothing. -/
theorem C09_gate_uwrite (w : MuxW) (m : MuxL) (b : Bytes) (h : m.tooFull = true) : w.uwrite m b = (0, m) := by
  simp [MuxW.uwrite, h]

/-- **Gate.** A whole `Proxy.callback` — whatever the sockets do — queues no TCP_DATA frame while
the mux is `too_full`, never changes `too_full`, and control frames it queues (EOF, STOP_SENDING)
carry no payload. -/
theorem C09_gate (p : ProxyS) (m : MuxL) (e : ESock) (io : CbIo) (p' : ProxyS) (m' : MuxL) (e' : ESock)
    (h : p.callback m e io = .ok p' m' e') :
    m'.tooFull = m.tooFull ∧ ∃ extra, m'.out = m.out ++ extra ∧
      (m.tooFull = true → ∀ fr ∈ extra, fr.cmd ≠ DATA) := by
  obtain ⟨h1, extra, h2, _, h4, _, _⟩ := lat_callback p m e io p' m' e' h
  exact ⟨h1, extra, h2, h4⟩

/-- **Overshoot constant.** One `Proxy.callback` adds at most one frame cut (2048 bytes) of stream
payload to `fullness`; so between two `check_fullness` calls the budget is exceeded by at most
2048 bytes per callback run, i.e. per ready descriptor of an active connection. -/
theorem C09_callback_bound (p : ProxyS) (m : MuxL) (e : ESock) (io : CbIo) (p' : ProxyS) (m' : MuxL) (e' : ESock)
    (h : p.callback m e io = .ok p' m' e') : m'.fullness ≤ m.fullness + Generated.MUX_CUT := by
  obtain ⟨_, extra, _, h3, _, _, h6⟩ := lat_callback p m e io p' m' e' h
  omega

/-- `check_fullness`: over budget and not yet paused → exactly one `rttest` PING and pause;
already paused → nothing more is queued (one request per episode); within budget → nothing. -/
theorem C09_ping_once (m : MuxL) (b : Nat) :
    (m.tooFull = true → (m.checkFullness b).out = m.out ∧ (m.checkFullness b).tooFull = true) ∧
    (m.tooFull = false → m.fullness > b →
      (m.checkFullness b).out = m.out ++ [⟨0, PING, bytesOfStr Generated.PING_RTT_PAYLOAD⟩] ∧
      (m.checkFullness b).tooFull = true) ∧
    (m.fullness ≤ b → m.checkFullness b = m) := by
  refine ⟨?_, ?_, ?_⟩
  · intro h; unfold MuxL.checkFullness; split <;> simp [h]
  · intro h hb; unfold MuxL.checkFullness; simp [hb, h, MuxL.send]
  · intro hb; unfold MuxL.checkFullness
    have : ¬ m.fullness > b := by omega
    simp [this]

/-! ## 2. every request is answered: both ends, every schedule -/

def pingIn (q : List Frame) : Prop := ∃ fr ∈ q, fr.cmd = PING
def pongIn (q : List Frame) : Prop := ∃ fr ∈ q, fr.cmd = PONG

/-- A paused end has its request or the answer to it still in flight. -/
def AnsInv (cm sm : MuxL) : Prop :=
  (cm.tooFull = true → pingIn cm.out ∨ pongIn sm.out) ∧
  (sm.tooFull = true → pingIn sm.out ∨ pongIn cm.out)

/-- `m'` is `m` with frames appended and `too_full` untouched. -/
def Grow2 (m m' : MuxL) : Prop := m'.tooFull = m.tooFull ∧ ∃ extra, m'.out = m.out ++ extra

theorem Grow2.refl (m : MuxL) : Grow2 m m := ⟨rfl, [], by simp⟩
theorem Lat.grow2 {k : Nat} {m m' : MuxL} (h : Lat k m m') : Grow2 m m' := by
  obtain ⟨h1, extra, h2, _⟩ := h; exact ⟨h1, extra, h2⟩
theorem grow2_send (m : MuxL) (c cmd : Nat) (d : Bytes) : Grow2 m (m.send c cmd d) := ⟨rfl, _, rfl⟩

theorem pingIn_append {q : List Frame} (x : List Frame) (h : pingIn q) : pingIn (q ++ x) := by
  obtain ⟨fr, hfr, hc⟩ := h; exact ⟨fr, by simp [hfr], hc⟩
theorem pongIn_append {q : List Frame} (x : List Frame) (h : pongIn q) : pongIn (q ++ x) := by
  obtain ⟨fr, hfr, hc⟩ := h; exact ⟨fr, by simp [hfr], hc⟩

theorem AnsInv.growC {cm sm cm' : MuxL} (h : AnsInv cm sm) (g : Grow2 cm cm') : AnsInv cm' sm := by
  obtain ⟨g1, x, g2⟩ := g
  refine ⟨fun ht => ?_, fun ht => ?_⟩
  · rw [g1] at ht; rw [g2]
    exact (h.1 ht).elim (fun a => Or.inl (pingIn_append x a)) Or.inr
  · rw [g2]
    exact (h.2 ht).elim Or.inl (fun a => Or.inr (pongIn_append x a))

theorem AnsInv.symm {cm sm : MuxL} (h : AnsInv cm sm) : AnsInv sm cm := ⟨h.2, h.1⟩

theorem AnsInv.growS {cm sm sm' : MuxL} (h : AnsInv cm sm) (g : Grow2 sm sm') : AnsInv cm sm' :=
  (h.symm.growC g).symm

/-- **A PING is always answered**, whatever the state of the end that receives it (also when that
end is itself paused), and a PONG always lifts the pause. -/
theorem C09_ping_answered (fr : Frame) (m : MuxL) :
    (fr.cmd = PING → (afterFrame fr m).out = m.out ++ [⟨0, PONG, fr.data⟩]) ∧
    (fr.cmd = PONG → (afterFrame fr m).tooFull = false ∧ (afterFrame fr m).fullness = 0) := by
  have hne : PING ≠ PONG := by decide
  constructor
  · intro h; simp [afterFrame, h, MuxL.send]
  · intro h
    have hne' : ¬ (PONG = PING) := fun h' => hne h'.symm
    unfold afterFrame
    rw [if_neg (by rw [h]; simpa using hne'), if_pos (by rw [h]; simp)]
    exact ⟨rfl, rfl⟩

theorem AnsInv.deliver {src dst : MuxL} (h : AnsInv src dst) (fr : Frame) (rest : List Frame)
    (ho : src.out = fr :: rest) : AnsInv { src with out := rest } (afterFrame fr dst) := by
  have hne : PING ≠ PONG := by decide
  unfold afterFrame
  by_cases h1 : fr.cmd = PING
  · -- the request reaches the peer: the answer is queued
    simp only [h1, beq_self_eq_true, ↓reduceIte]
    refine ⟨fun _ => Or.inr ⟨⟨0, PONG, fr.data⟩, by simp [MuxL.send], rfl⟩, fun ht => ?_⟩
    have ht' : dst.tooFull = true := ht
    rcases h.2 ht' with ⟨x, hx, hc⟩ | ⟨x, hx, hc⟩
    · exact Or.inl ⟨x, by simp [MuxL.send, hx], hc⟩
    · right
      rw [ho] at hx
      rcases List.mem_cons.mp hx with hx | hx
      · subst hx; rw [h1] at hc; exact absurd hc hne
      · exact ⟨x, hx, hc⟩
  · by_cases h2 : fr.cmd = PONG
    · -- the answer arrives: the pause is lifted
      have a1 : ¬ ((fr.cmd == PING) = true) := by simpa using h1
      have a2 : (fr.cmd == PONG) = true := by simpa using h2
      rw [if_neg a1, if_pos a2]
      refine ⟨fun ht => ?_, fun ht => by simp at ht⟩
      have ht' : src.tooFull = true := ht
      rcases h.1 ht' with ⟨x, hx, hc⟩ | ⟨x, hx, hc⟩
      · left
        rw [ho] at hx
        rcases List.mem_cons.mp hx with hx | hx
        · subst hx; exact absurd hc h1
        · exact ⟨x, hx, hc⟩
      · exact Or.inr ⟨x, hx, hc⟩
    · have a1 : ¬ ((fr.cmd == PING) = true) := by simpa using h1
      have a2 : ¬ ((fr.cmd == PONG) = true) := by simpa using h2
      rw [if_neg a1, if_neg a2]
      refine ⟨fun ht => ?_, fun ht => ?_⟩
      · have ht' : src.tooFull = true := ht
        rcases h.1 ht' with ⟨x, hx, hc⟩ | hp
        · left
          rw [ho] at hx
          rcases List.mem_cons.mp hx with hx | hx
          · subst hx; exact absurd hc h1
          · exact ⟨x, hx, hc⟩
        · exact Or.inr hp
      · rcases h.2 ht with hp | ⟨x, hx, hc⟩
        · exact Or.inl hp
        · right
          rw [ho] at hx
          rcases List.mem_cons.mp hx with hx | hx
          · subst hx; exact absurd hc h2
          · exact ⟨x, hx, hc⟩

theorem AnsInv.check {cm sm : MuxL} (h : AnsInv cm sm) (b : Nat) : AnsInv (cm.checkFullness b) sm := by
  unfold MuxL.checkFullness
  split
  · by_cases ht : cm.tooFull = true
    · simp only [ht, ↓reduceIte]
      have e : ({ cm with tooFull := true } : MuxL) = cm := by cases cm; simp_all
      rw [e]; exact h
    · have ht' : cm.tooFull = false := by simpa using ht
      simp only [ht', Bool.false_eq_true, ↓reduceIte]
      refine ⟨fun _ => Or.inl ⟨⟨0, PING, bytesOfStr Generated.PING_RTT_PAYLOAD⟩, by simp [MuxL.send], rfl⟩, fun hs => ?_⟩
      exact (h.2 hs).elim Or.inl (fun a => Or.inr (by simpa [MuxL.send] using pongIn_append _ a))
  · exact h

/-- How the two muxes move in one raw step. -/
inductive MuxMove (w w' : World) (st : Step) : Prop
  | growC (h : Grow2 w.cm w'.cm) (hs : w'.sm = w.sm)
  | growS (h : Grow2 w.sm w'.sm) (hc : w'.cm = w.cm)
  | toS (fr : Frame) (rest : List Frame) (ho : w.cm.out = fr :: rest)
      (hc : w'.cm = { w.cm with out := rest }) (hs : w'.sm = afterFrame fr w.sm)
  | toC (fr : Frame) (rest : List Frame) (ho : w.sm.out = fr :: rest)
      (hs : w'.sm = { w.sm with out := rest }) (hc : w'.cm = afterFrame fr w.cm)
  | checkC (hst : st = .checkFull .client) (hc : w'.cm = w.cm.checkFullness w.bufsize) (hs : w'.sm = w.sm)
  | checkS (hst : st = .checkFull .server) (hs : w'.sm = w.sm.checkFullness w.bufsize) (hc : w'.cm = w.cm)

theorem stepRaw_move (w : World) (st : Step) : MuxMove w (w.stepRaw st) st := by
  have same : ∀ (w' : World) (st : Step), w'.cm = w.cm → w'.sm = w.sm → MuxMove w w' st :=
    fun w' _ h1 h2 => .growC (by rw [h1]; exact Grow2.refl _) h2
  unfold World.stepRaw
  cases st with
  | accept =>
    simp only [World.accept]
    split
    · exact same _ _ rfl rfl
    · exact .growC (grow2_send _ _ _ _) rfl
  | cb e i io =>
    cases e
    · simp only [World.cbC]
      split
      · split
        · split
          next p' m' e' hcb => exact .growC (lat_callback _ _ _ _ _ _ _ hcb).grow2 rfl
          · exact same _ _ rfl rfl
        · exact same _ _ rfl rfl
      · exact same _ _ rfl rfl
    · simp only [World.cbS]
      split
      · split
        · split
          next p' m' e' hcb => exact .growS (lat_callback _ _ _ _ _ _ _ hcb).grow2 rfl
          · exact same _ _ rfl rfl
        · exact same _ _ rfl rfl
      · exact same _ _ rfl rfl
  | pre e i =>
    cases e
    · simp only [World.preC]
      split
      · split
        · exact .growC (lat_preSelect _ _).grow2 rfl
        · exact same _ _ rfl rfl
      · exact same _ _ rfl rfl
    · simp only [World.preS]
      split
      · split
        · exact .growS (lat_preSelect _ _).grow2 rfl
        · exact same _ _ rfl rfl
      · exact same _ _ rfl rfl
  | deliver e conn =>
    cases e
    · simp only
      rcases deliverC_mux w with ⟨h1, h2, _⟩ | ⟨fr, rest, ho, hs, hc⟩
      · exact same _ _ h1 h2
      · exact .toC fr rest ho hs hc
    · simp only
      rcases deliverS_mux w conn with ⟨h1, h2, _⟩ | ⟨fr, rest, ho, hc, hs⟩
      · exact same _ _ h1 h2
      · exact .toS fr rest ho hc hs
  | removeDead e => cases e <;> exact same _ _ rfl rfl
  | checkFull e =>
    cases e
    · exact .checkC rfl rfl rfl
    · exact .checkS rfl rfl rfl
  | foreign e fr =>
    cases e
    · exact .growC (grow2_send _ _ _ _) rfl
    · exact .growS (grow2_send _ _ _ _) rfl
  | appWrite i b => exact same _ _ rfl rfl
  | appEof i => exact same _ _ rfl rfl
  | dstWrite i b => exact same _ _ rfl rfl
  | dstEof i => exact same _ _ rfl rfl

theorem step_move (w : World) (st : Step) :
    ((w.step st).cm = w.cm ∧ (w.step st).sm = w.sm) ∨ MuxMove w (w.step st) st := by
  unfold World.step
  split
  · left; exact ⟨rfl, rfl⟩
  · split
    · left; exact ⟨rfl, rfl⟩
    · right; exact stepRaw_move w st

theorem AnsInv.move {w w' : World} {st : Step} (h : AnsInv w.cm w.sm) (m : MuxMove w w' st) : AnsInv w'.cm w'.sm := by
  cases m with
  | growC g hs => rw [hs]; exact h.growC g
  | growS g hc => rw [hc]; exact h.growS g
  | toS fr rest ho hc hs => rw [hc, hs]; exact h.deliver fr rest ho
  | toC fr rest ho hs hc => rw [hc, hs]; exact (h.symm.deliver fr rest ho).symm
  | checkC _ hc hs => rw [hc, hs]; exact h.check _
  | checkS _ hs hc => rw [hc, hs]; exact (h.symm.check _).symm

theorem AnsInv.run {w : World} (h : AnsInv w.cm w.sm) (steps : List Step) :
    AnsInv (w.run steps).cm (w.run steps).sm := by
  induction steps generalizing w with
  | nil => exact h
  | cons st rest ih =>
    simp only [World.run, List.foldl_cons]
    apply ih
    rcases step_move w st with ⟨h1, h2⟩ | m
    · rw [h1, h2]; exact h
    · exact h.move m

/-- **C09 answered.**  From a world in which no end is paused, after EVERY schedule (any
interleaving of callbacks, deliveries delayed arbitrarily, `check_fullness` at any moments, any
buffer size, any number of flows, frames of other flow kinds): an end that is `too_full` has its
`rttest` PING still queued towards the peer, or a PONG is queued towards it.  Every request is
answered; no pause is orphaned. -/
theorem C09_answered (w0 : World) (h0 : w0.cm.tooFull = false ∧ w0.sm.tooFull = false) (steps : List Step) :
    AnsInv (w0.run steps).cm (w0.run steps).sm := by
  apply AnsInv.run
  exact ⟨fun h => (by rw [h0.1] at h; cases h), fun h => (by rw [h0.2] at h; cases h)⟩

/-- Corollary: once both frame queues are drained (everything queued has reached the peer), no
end is paused — transfers always resume. -/
theorem C09_drained_not_full (w0 : World) (h0 : w0.cm.tooFull = false ∧ w0.sm.tooFull = false)
    (steps : List Step) (hc : (w0.run steps).cm.out = []) (hs : (w0.run steps).sm.out = []) :
    (w0.run steps).cm.tooFull = false ∧ (w0.run steps).sm.tooFull = false := by
  have h := C09_answered w0 h0 steps
  have no1 : ∀ q : List Frame, q = [] → ¬ pingIn q ∧ ¬ pongIn q := by
    intro q hq; subst hq
    exact ⟨fun ⟨_, h, _⟩ => (by cases h), fun ⟨_, h, _⟩ => (by cases h)⟩
  constructor
  · cases ht : (w0.run steps).cm.tooFull with
    | false => rfl
    | true =>
      rcases h.1 ht with a | a
      · exact absurd a (no1 _ hc).1
      · exact absurd a (no1 _ hs).2
  · cases ht : (w0.run steps).sm.tooFull with
    | false => rfl
    | true =>
      rcases h.2 ht with a | a
      · exact absurd a (no1 _ hs).1
      · exact absurd a (no1 _ hc).2

/-! ## 3. latency control off -/

def NoCheck : Step → Prop
  | .checkFull _ => False
  | _ => True

theorem afterFrame_tooFull (fr : Frame) (m : MuxL) (h : m.tooFull = false) : (afterFrame fr m).tooFull = false := by
  unfold afterFrame
  split
  · exact h
  · split
    · rfl
    · exact h

/-- **C09 off.**  With latency control disabled (`check_fullness` is never called), `too_full` is
false in every reachable state, so `uwrite` never refuses for that reason: no pauses. -/
theorem C09_off (w0 : World) (h0 : w0.cm.tooFull = false ∧ w0.sm.tooFull = false) (steps : List Step)
    (hn : ∀ st ∈ steps, NoCheck st) :
    (w0.run steps).cm.tooFull = false ∧ (w0.run steps).sm.tooFull = false := by
  induction steps generalizing w0 with
  | nil => exact h0
  | cons st rest ih =>
    simp only [World.run, List.foldl_cons]
    apply ih _ _ (fun s hs => hn s (by simp [hs]))
    have hst' := hn st (by simp)
    rcases step_move w0 st with ⟨h1, h2⟩ | m
    · rw [h1, h2]; exact h0
    · cases m with
      | growC g hs => rw [hs, g.1]; exact h0
      | growS g hc => rw [hc, g.1]; exact h0
      | toS fr r ho hc hs => rw [hc, hs]; exact ⟨h0.1, afterFrame_tooFull fr _ h0.2⟩
      | toC fr r ho hs hc => rw [hc, hs]; exact ⟨afterFrame_tooFull fr _ h0.1, h0.2⟩
      | checkC hst _ _ => rw [hst] at hst'; exact absurd hst' (by simp [NoCheck])
      | checkS hst _ _ => rw [hst] at hst'; exact absurd hst' (by simp [NoCheck])


/-! ## 4. non-vacuity: a run in which an end pauses, is refused, is answered and resumes -/

def demoSteps : List Step :=
  [.accept, .deliver .server .ok, .appWrite 0 (List.replicate 300 7),
   .cb .client 0 { recv := .data 200 }, .checkFull .client,          -- over a 100-byte budget: PING, paused
   .cb .client 0 { recv := .data 200 }]                               -- gate: nothing queued

def demoW0 : World := { bufsize := 100 }

example :
    (demoW0.run demoSteps).cm.tooFull = true ∧ pingIn (demoW0.run demoSteps).cm.out ∧
    (demoW0.run demoSteps).cm.fullness = 206 ∧
    ((demoW0.run (demoSteps ++ [.deliver .server .ok, .deliver .server .ok, .deliver .client .ok])).cm.tooFull = false) := by
  refine ⟨by decide +kernel, ⟨⟨0, PING, bytesOfStr Generated.PING_RTT_PAYLOAD⟩, by decide +kernel, rfl⟩, by decide +kernel, by decide +kernel⟩


/-! ## 4. the overshoot of one pass of the loop -/

theorem cb_fullness (w : World) (e : End) (i : Nat) (io : CbIo) :
    (w.step (.cb e i io)).cm.fullness ≤ w.cm.fullness + Generated.MUX_CUT ∧
    (w.step (.cb e i io)).sm.fullness ≤ w.sm.fullness + Generated.MUX_CUT := by
  unfold World.step
  split
  · exact ⟨by omega, by omega⟩
  · split
    · exact ⟨by simp only; omega, by simp only; omega⟩
    · cases e with
      | client =>
        simp only [World.stepRaw, World.cbC]
        split
        · split
          · split
            next hcb => exact ⟨C09_callback_bound _ _ _ _ _ _ _ hcb, by simp only; omega⟩
            · exact ⟨by simp only; omega, by simp only; omega⟩
          · exact ⟨by omega, by omega⟩
        · exact ⟨by omega, by omega⟩
      | server =>
        simp only [World.stepRaw, World.cbS]
        split
        · split
          · split
            next hcb => exact ⟨by simp only; omega, C09_callback_bound _ _ _ _ _ _ _ hcb⟩
            · exact ⟨by simp only; omega, by simp only; omega⟩
          · exact ⟨by omega, by omega⟩
        · exact ⟨by omega, by omega⟩

/-- **The overshoot is bounded by a constant per active connection.**  Between two
`check_fullness` calls the select loop only runs callbacks; any sequence of `n` callbacks (of any
handlers of either end, whatever their sockets do) adds at most `n × 2048` bytes of stream
payload to an end's `fullness`.  One pass of `runonce` calls a handler once per ready entry of its
`socks` list — the flow's socket and the tunnel's two files, four entries — so at most four times:
when the `check_fullness` that follows the pass finds the budget exceeded and pauses the end
(`C09_ping_once`; from then on `C09_gate` admits no stream payload at all), the budget is exceeded
by at most `4 × 2048` bytes per active connection. -/
theorem C09_callbacks_overshoot (w : World) (steps : List Step)
    (hcb : ∀ st ∈ steps, ∃ e i io, st = Step.cb e i io) :
    (w.run steps).cm.fullness ≤ w.cm.fullness + steps.length * Generated.MUX_CUT ∧
    (w.run steps).sm.fullness ≤ w.sm.fullness + steps.length * Generated.MUX_CUT := by
  induction steps generalizing w with
  | nil => simp [World.run]
  | cons st rest ih =>
    obtain ⟨e, i, io, rfl⟩ := hcb _ (List.mem_cons_self)
    have hs := cb_fullness w e i io
    have hr := ih (w.step (.cb e i io)) (fun st hst => hcb st (List.mem_cons_of_mem _ hst))
    simp only [World.run, List.foldl_cons, List.length_cons] at hr ⊢
    have : (rest.length + 1) * Generated.MUX_CUT = rest.length * Generated.MUX_CUT + Generated.MUX_CUT := by
      rw [Nat.add_mul]; simp
    have hrun : List.foldl World.step (w.step (.cb e i io)) rest = (w.step (.cb e i io)).run rest := rfl
    rw [hrun] at hr ⊢
    omega

/-- The same for one pass in which every handler of an end gets exactly one callback. -/
theorem C09_pass_overshoot (w : World) (e : End) (ios : Nat → CbIo) (k : Nat) :
    (w.run (passCallbacks e ios k)).cm.fullness ≤ w.cm.fullness + k * Generated.MUX_CUT ∧
    (w.run (passCallbacks e ios k)).sm.fullness ≤ w.sm.fullness + k * Generated.MUX_CUT := by
  have h := C09_callbacks_overshoot w (passCallbacks e ios k) (by
    intro st hst
    simp only [passCallbacks, List.mem_map, List.mem_range] at hst
    obtain ⟨i, _, rfl⟩ := hst
    exact ⟨e, i, ios i, rfl⟩)
  simpa [passCallbacks] using h

end Sshuttle.Tunnel
