/-
C06 — Flow identifiers keep concurrent flows apart.
Theorems about `Code/Alloc.lean` (allocator, client-side table, dispatch by id).
-/
import SshuttleModel.Code.Alloc
import SshuttleModel.Props.C07

namespace Sshuttle.Alloc

/-- The ids `next_channel` looks at, in order: cursor+1, cursor+2, …, wrapping from
`max` to 1 (never 0). -/
def probeSeq (max : Nat) : Nat → Nat → List Nat
  | 0, _ => []
  | k + 1, chani =>
    let c := if chani + 1 > max then 1 else chani + 1
    c :: probeSeq max k c

/-- **The allocator returns the first free id of the probe sequence** (and `None` exactly
when all `probes` ids after the cursor are occupied): ids still in use are skipped. -/
theorem C06_alloc_first_free (max : Nat) (occ : Nat → Bool) (k chani : Nat) :
    (nextChannel max occ k chani).1 = (probeSeq max k chani).find? (fun c => !occ c) := by
  induction k generalizing chani with
  | zero => rfl
  | succ k ih =>
    simp only [nextChannel, probeSeq]
    by_cases h : occ (if chani + 1 > max then 1 else chani + 1)
    · simp [h, ih]
    · simp [h]

theorem probeSeq_bounds (max : Nat) (hmax : 1 ≤ max) (k chani : Nat) :
    ∀ c ∈ probeSeq max k chani, 1 ≤ c ∧ c ≤ max := by
  induction k generalizing chani with
  | zero => intro c h; simp [probeSeq] at h
  | succ k ih =>
    intro c h
    simp only [probeSeq, List.mem_cons] at h
    rcases h with h | h
    · subst h; split <;> omega
    · exact ih _ c h

/-- An allocated id is never the reserved control id 0, lies in `1..MAX`, and was free. -/
theorem C06_alloc_sound (max : Nat) (hmax : 1 ≤ max) (occ : Nat → Bool) (k chani c ch : Nat)
    (h : nextChannel max occ k chani = (some c, ch)) :
    1 ≤ c ∧ c ≤ max ∧ occ c = false ∧ ch = c := by
  have hf := C06_alloc_first_free max occ k chani
  rw [h] at hf
  have hm := List.mem_of_find?_eq_some hf.symm
  have hp := List.find?_some hf.symm
  have hb := probeSeq_bounds max hmax k chani c hm
  refine ⟨hb.1, hb.2, by simpa using hp, ?_⟩
  clear hf hm hp hb
  induction k generalizing chani with
  | zero => simp [nextChannel] at h
  | succ k ih =>
    simp only [nextChannel] at h
    generalize (if chani + 1 > max then 1 else chani + 1) = c' at h
    by_cases ho : occ c' = true
    · rw [if_pos ho] at h; exact ih _ h
    · rw [if_neg ho] at h
      injection h with h1 h2; injection h1 with h1; omega

/-- `None` is returned exactly when every probed id is occupied. -/
theorem C06_alloc_none (max : Nat) (occ : Nat → Bool) (k chani : Nat) :
    (nextChannel max occ k chani).1 = none ↔ ∀ c ∈ probeSeq max k chani, occ c = true := by
  rw [C06_alloc_first_free, List.find?_eq_none]
  simp

/-- The probe sequence walks the id space cyclically: with the cursor inside `0..max`, the
i-th probed id is `((cursor + i) mod max) + 1` — wrap-around goes from `max` to 1. -/
theorem C06_probe_cyclic (max : Nat) (hmax : 1 ≤ max) (k chani : Nat) (hc : chani ≤ max) :
    probeSeq max k chani = (List.range k).map (fun i => (chani + i) % max + 1) := by
  induction k generalizing chani with
  | zero => rfl
  | succ k ih =>
    simp only [probeSeq, List.range_succ_eq_map, List.map_cons, List.map_map]
    by_cases h : chani + 1 > max
    · have hcm : chani = max := by omega
      subst hcm
      simp only [h, ↓reduceIte]
      rw [ih 1 hmax]
      refine List.cons_eq_cons.mpr ⟨by simp, ?_⟩
      apply List.map_congr_left
      intro i _
      simp only [Function.comp]
      rw [show chani + (i + 1) = (1 + i) + chani * 1 by omega, Nat.add_mul_mod_self_left]
    · simp only [h, ↓reduceIte]
      rw [ih (chani + 1) (by omega)]
      refine List.cons_eq_cons.mpr ⟨by simp; rw [Nat.mod_eq_of_lt (by omega)], ?_⟩
      apply List.map_congr_left
      intro i _
      simp only [Function.comp]
      rw [show chani + (i + 1) = chani + 1 + i by omega]

/-! ## Histories of opening and closing flows of the three kinds -/

def Table.ids (t : Table) : List Nat := t.live.map (·.1)

/-- Invariant: live ids pairwise distinct, never 0, within `1..max`. -/
def Table.Inv (max : Nat) (t : Table) : Prop :=
  t.ids.Nodup ∧ ∀ c ∈ t.ids, 1 ≤ c ∧ c ≤ max

theorem occ_iff (t : Table) (c : Nat) : t.occ c = true ↔ c ∈ t.ids := by
  unfold Table.occ Table.ids
  simp only [List.any_eq_true, List.mem_map, beq_iff_eq]

theorem Table.inv_step (max probes : Nat) (hmax : 1 ≤ max) (t : Table) (op : Op)
    (h : t.Inv max) : (t.step max probes op).1.Inv max := by
  obtain ⟨hn, hb⟩ := h
  cases op with
  | «open» k =>
    simp only [Table.step]
    cases hnc : nextChannel max t.occ probes t.chani with
    | mk r ch =>
      cases r with
      | none => exact ⟨hn, hb⟩
      | some c =>
        obtain ⟨h1, h2, h3, _⟩ := C06_alloc_sound max hmax t.occ probes t.chani c ch hnc
        have hfree : c ∉ t.ids := by
          intro hin
          have := (occ_iff t c).mpr hin
          rw [h3] at this; cases this
        simp only [Table.Inv, Table.ids, List.map_append, List.map_cons, List.map_nil]
        refine ⟨?_, ?_⟩
        · rw [List.nodup_append]
          refine ⟨hn, by simp, ?_⟩
          intro a ha b hb2
          simp only [List.mem_singleton] at hb2
          subst hb2
          intro hab; subst hab; exact hfree ha
        · intro x hx
          simp only [List.mem_append, List.mem_singleton] at hx
          rcases hx with hx | hx
          · exact hb x hx
          · subst hx; exact ⟨h1, h2⟩
  | close c =>
    simp only [Table.step, Table.Inv, Table.ids]
    have hsub : ((t.live.filter (·.1 != c)).map (·.1)).Sublist (t.live.map (·.1)) :=
      (List.filter_sublist).map _
    refine ⟨hn.sublist hsub, ?_⟩
    intro x hx
    exact hb x (hsub.subset hx)
  | frame c =>
    simp only [Table.step]
    split
    · simp only [Table.Inv, Table.ids]
      have hsub : ((t.live.filter (·.1 != c)).map (·.1)).Sublist (t.live.map (·.1)) :=
        (List.filter_sublist).map _
      exact ⟨hn.sublist hsub, fun x hx => hb x (hsub.subset hx)⟩
    · exact ⟨hn, hb⟩
    · exact ⟨hn, hb⟩

theorem Table.inv_run (max probes : Nat) (hmax : 1 ≤ max) (t : Table) (ops : List Op)
    (h : t.Inv max) : (Table.run max probes t ops).1.Inv max := by
  induction ops generalizing t with
  | nil => exact h
  | cons op ops ih =>
    simp only [Table.run]
    exact ih _ (Table.inv_step max probes hmax t op h)

/-- **C06 distinctness.** After any history of opens (TCP, DNS, UDP), closes/expiries and
frame arrivals — wrap-around of the cursor, dense or sparse occupancy included — the ids
of the concurrently open flows are pairwise distinct, and none is the control id 0.
Holds for every `1 ≤ MAX_CHANNEL` (so also for `--wrap`) and every probe count. -/
theorem C06_distinct (max probes : Nat) (hmax : 1 ≤ max) (ops : List Op) :
    let t := (Table.run max probes {} ops).1
    t.ids.Nodup ∧ ∀ c ∈ t.ids, c ≠ 0 ∧ c ≤ max := by
  have h := Table.inv_run max probes hmax {} ops ⟨List.nodup_nil, by simp [Table.ids]⟩
  refine ⟨h.1, fun c hc => ⟨by have := (h.2 c hc).1; omega, (h.2 c hc).2⟩⟩

/-- A message for an id that is not (or no longer) registered is discarded: the table is
unchanged and no flow's callback runs. -/
theorem C06_late_frame_dropped (max probes : Nat) (t : Table) (c : Nat) (h : c ∉ t.ids) :
    t.step max probes (.frame c) = (t, .dropped) := by
  simp only [Table.step]
  have : t.live.find? (·.1 == c) = none := by
    rw [List.find?_eq_none]
    intro e he hc
    simp only [beq_iff_eq] at hc
    exact h (List.mem_map.mpr ⟨e, he, hc⟩)
  simp only [this]

/-- A message that is delivered goes to a flow registered under exactly that id; with
`C06_distinct` there is only one such flow, so it never reaches another flow. -/
theorem C06_frame_reaches_owner (max probes : Nat) (t : Table) (c : Nat) (k : Kind) (f : Nat)
    (h : (t.step max probes (.frame c)).2 = .delivered k f) : (c, k, f) ∈ t.live := by
  simp only [Table.step] at h
  split at h
  next c' f' heq =>
    injection h with h1 h2; subst h1 h2
    have hm := List.mem_of_find?_eq_some heq
    have hp := List.find?_some heq
    simp only [beq_iff_eq] at hp
    subst hp; exact hm
  next c' k' f' _ heq =>
    injection h with h1 h2; subst h1 h2
    have hm := List.mem_of_find?_eq_some heq
    have hp := List.find?_some heq
    simp only [beq_iff_eq] at hp
    subst hp; exact hm
  · cases h

theorem C06_owner_unique (max : Nat) (t : Table) (h : t.Inv max) (c : Nat) (k₁ k₂ : Kind) (f₁ f₂ : Nat)
    (h1 : (c, k₁, f₁) ∈ t.live) (h2 : (c, k₂, f₂) ∈ t.live) : k₁ = k₂ ∧ f₁ = f₂ := by
  have hn := h.1
  unfold Table.ids at hn
  generalize t.live = l at hn h1 h2
  induction l with
  | nil => cases h1
  | cons e l ih =>
    simp only [List.map_cons, List.nodup_cons, List.mem_map, not_exists, not_and] at hn
    rcases List.mem_cons.mp h1 with e1 | m1 <;> rcases List.mem_cons.mp h2 with e2 | m2
    · rw [← e1] at e2; injection e2 with _ e3; injection e3 with e4 e5; exact ⟨e4.symm, e5.symm⟩
    · subst e1; exact absurd rfl (hn.1 (c, k₂, f₂) m2)
    · subst e2; exact absurd rfl (hn.1 (c, k₁, f₁) m1)
    · exact ih hn.2 m1 m2

/-- Before the cursor has gone once round the id space, ids are handed out as 1, 2, 3, …:
an id is never re-used for the first `MAX_CHANNEL` flows of a session, whatever was closed
in between. (Re-use after a full cycle is what F19 in DESIGN §3 is about.) -/
theorem C06_fresh_before_wrap (max probes : Nat) (hp : 1 ≤ probes) (t : Table)
    (hlt : t.chani < max) (hle : ∀ c ∈ t.ids, c ≤ t.chani) (k : Kind) :
    t.step max probes (.open k) =
      ({ chani := t.chani + 1, live := t.live ++ [(t.chani + 1, k, t.nextFlow)],
         nextFlow := t.nextFlow + 1 }, .opened (t.chani + 1) t.nextFlow) := by
  simp only [Table.step]
  obtain ⟨p, rfl⟩ : ∃ p, probes = p + 1 := ⟨probes - 1, by omega⟩
  have hfree : t.occ (t.chani + 1) = false := by
    cases ho : t.occ (t.chani + 1) with
    | false => rfl
    | true => have := hle _ ((occ_iff t _).mp ho); omega
  have : ¬ (t.chani + 1 > max) := by omega
  simp [nextChannel, this, hfree]


/-- **An allocated identifier fits the wire.**  With the code's own `MAX_CHANNEL` (read off the
source on every run), whatever `next_channel` hands out is non-zero and fits the 16-bit header
field: `Mux.send` accepts a frame on it, and the peer's decoder gives back exactly that
identifier — the flow the peer sees is the flow the client opened, up to the last id of the space. -/
theorem C06_allocated_id_fits_the_wire (occ : Nat → Bool) (k chani c ch : Nat)
    (h : nextChannel Generated.MAX_CHANNEL occ k chani = (some c, ch))
    (cmd : Nat) (hcmd : cmd < 65536) (data : Bytes) (hd : data.length ≤ 65535) :
    c ≠ 0 ∧ (∃ tx', Mux.send {} (some c) cmd data = .ok tx') ∧
    ∀ rest, Mux.decode1 (Mux.encode ⟨c, cmd, data⟩ ++ rest) = .frame ⟨c, cmd, data⟩ rest := by
  obtain ⟨h1, h2, _, h4⟩ := C06_alloc_sound Generated.MAX_CHANNEL (by decide) occ k chani c ch h
  have hmax : Generated.MAX_CHANNEL ≤ 65535 := by decide
  refine ⟨by omega, ?_, fun rest => Mux.C07_roundtrip ⟨c, cmd, data⟩ rest⟩
  exact (Mux.C07_send_iff {} c cmd data).mpr ⟨(by show c < 65536; omega), hcmd, hd⟩

/-- **The identifier the cursor stands on is not handed out again while fewer than `max` ids are
probed.**  The i-th probed id is `((cursor + i) mod max) + 1`; it equals the cursor only for
`i = max − 1`.  So an allocation returns an id at cyclic distance `1 … probes` *ahead* of the cursor,
never the cursor's own id. -/
theorem C06_cursor_id_not_reused (max : Nat) (occ : Nat → Bool) (k chani c ch : Nat)
    (hk : k < max) (h1 : 1 ≤ chani) (h2 : chani ≤ max)
    (h : nextChannel max occ k chani = (some c, ch)) :
    c ≠ chani ∧ ∃ i, i < k ∧ c = (chani + i) % max + 1 := by
  have hf := C06_alloc_first_free max occ k chani
  rw [h, C06_probe_cyclic max (by omega) k chani h2] at hf
  have hm := List.mem_of_find?_eq_some hf.symm
  simp only [List.mem_map, List.mem_range] at hm
  obtain ⟨i, hi, rfl⟩ := hm
  refine ⟨?_, i, hi, rfl⟩
  intro he
  have hlt : i < max := by omega
  by_cases hw : chani + i < max
  · rw [Nat.mod_eq_of_lt hw] at he; omega
  · have : (chani + i) % max = chani + i - max := by
      rw [Nat.mod_eq_sub_mod (by omega), Nat.mod_eq_of_lt (by omega)]
    rw [this] at he; omega

/-- With the code's own constants (`MAX_CHANNEL`, 1024 probes — both read off the source on every
run): **the identifier released last is not the next one handed out.**  In a session of the client's
table, the flow opened right after flow `c` (the cursor's id) was closed gets another id, so a message
still on its way for the closed flow meets a closed identifier (`C06_late_frame_dropped`) and not the
new flow — however quickly the new flow arrives. -/
theorem C06_released_id_not_next (t : Table) (k : Kind) (h1 : 1 ≤ t.chani)
    (h2 : t.chani ≤ Generated.MAX_CHANNEL) (c flow : Nat) (t' : Table)
    (h : (t.step Generated.MAX_CHANNEL Generated.ALLOC_PROBES (.close t.chani)).1.step
            Generated.MAX_CHANNEL Generated.ALLOC_PROBES (.open k) = (t', .opened c flow)) :
    c ≠ t.chani := by
  simp only [Table.step] at h
  split at h
  · cases h
  · next c' ch hn =>
    injection h with _ h; injection h with h _; subst h
    exact (C06_cursor_id_not_reused Generated.MAX_CHANNEL _ Generated.ALLOC_PROBES t.chani c' ch
      (by decide) h1 h2 hn).1

/-! ## The same histories with the clock: lazy expiry and refreshed UDP associations -/

/-- Invariant of the client's tables: the id table's invariant, one entry per id among the held
DNS requests / UDP associations, and every held association's id is registered. -/
def Timed.Inv (max : Nat) (s : Timed) : Prop :=
  s.t.Inv max ∧ (s.dl.map (·.1)).Nodup ∧ ∀ e ∈ s.dl, e.1 ∈ s.t.ids

theorem fst_inj_of_nodup {l : List (Nat × Nat)} (h : (l.map (·.1)).Nodup) {a b : Nat × Nat}
    (ha : a ∈ l) (hb : b ∈ l) (hab : a.1 = b.1) : a = b := by
  induction l with
  | nil => cases ha
  | cons e l ih =>
    simp only [List.map_cons, List.nodup_cons, List.mem_map, not_exists, not_and] at h
    rcases List.mem_cons.mp ha with e1 | m1 <;> rcases List.mem_cons.mp hb with e2 | m2
    · rw [e1, e2]
    · subst e1; exact absurd hab.symm (h.1 b m2)
    · subst e2; exact absurd hab (h.1 a m1)
    · exact ih h.2 m1 m2

theorem Timed.inv_expire (max : Nat) (s : Timed) (now : Nat) (h : s.Inv max) : (s.expire now).Inv max := by
  obtain ⟨⟨hn, hb⟩, hd, hr⟩ := h
  unfold Timed.expire
  refine ⟨?_, ?_, ?_⟩
  · simp only [Table.Inv, Table.ids]
    have hsub : ((s.t.live.filter fun e => !((s.dl.filter fun e => decide (e.2 < now)).map (·.1)).contains e.1).map (·.1)).Sublist
        (s.t.live.map (·.1)) := (List.filter_sublist).map _
    exact ⟨hn.sublist hsub, fun x hx => hb x (hsub.subset hx)⟩
  · exact hd.sublist ((List.filter_sublist).map _)
  · intro e he
    simp only [List.mem_filter, Bool.not_eq_eq_eq_not, Bool.not_true, decide_eq_false_iff_not] at he
    obtain ⟨hel, hlive⟩ := he
    have hin := hr e hel
    simp only [Table.ids, List.mem_map] at hin ⊢
    obtain ⟨x, hx, hxe⟩ := hin
    refine ⟨x, ?_, hxe⟩
    simp only [List.mem_filter, Bool.not_eq_eq_eq_not, Bool.not_true]
    refine ⟨hx, ?_⟩
    cases hc : ((s.dl.filter fun e => decide (e.2 < now)).map (·.1)).contains x.1 with
    | false => rfl
    | true =>
      exfalso
      simp only [List.contains_eq_mem, List.mem_map, List.mem_filter, decide_eq_true_eq] at hc
      obtain ⟨e', ⟨he'l, he'lt⟩, he'x⟩ := hc
      have : e' = e := fst_inj_of_nodup hd he'l hel (by rw [he'x, hxe])
      subst this
      exact hlive he'lt

theorem Timed.inv_step (max probes : Nat) (hmax : 1 ≤ max) (s : Timed) (op : TOp) (h : s.Inv max) :
    (s.step max probes op).1.Inv max := by
  have h0 := h
  obtain ⟨hT, hd, hr⟩ := h
  cases op with
  | tick d => exact ⟨hT, hd, hr⟩
  | again c =>
    simp only [Timed.step]
    split
    · split
      · apply Timed.inv_expire
        have hm : (s.dl.map fun e => if (e.1 == c) = true then (c, s.now + timeout .udp) else e).map (·.1) = s.dl.map (·.1) := by
          rw [List.map_map]
          apply List.map_congr_left
          intro e _
          simp only [Function.comp]
          split
          next hc => simp only [beq_iff_eq] at hc; exact hc.symm
          · rfl
        refine ⟨hT, by rw [hm]; exact hd, ?_⟩
        intro e he
        have : e.1 ∈ (s.dl.map fun e => if (e.1 == c) = true then (c, s.now + timeout .udp) else e).map (·.1) :=
          List.mem_map.mpr ⟨e, he, rfl⟩
        rw [hm] at this
        obtain ⟨e0, he0, h0e⟩ := List.mem_map.mp this
        rw [← h0e]; exact hr e0 he0
      · exact h0
    · exact h0
  | base o =>
    cases o with
    | close c =>
      simp only [Timed.step]
      have hT' := Table.inv_step max probes hmax s.t (.close c) hT
      refine ⟨hT', hd.sublist ((List.filter_sublist).map _), ?_⟩
      intro e he
      simp only [List.mem_filter, bne_iff_ne, ne_eq] at he
      have hin := hr e he.1
      simp only [Table.step, Table.ids, List.mem_map] at hin ⊢
      obtain ⟨x, hx, hxe⟩ := hin
      exact ⟨x, List.mem_filter.mpr ⟨hx, by simp only [bne_iff_ne, ne_eq]; rw [hxe]; exact he.2⟩, hxe⟩
    | frame c =>
      simp only [Timed.step]
      have hT' := Table.inv_step max probes hmax s.t (.frame c) hT
      have key : ∀ (t1 : Table) (o : Out), s.t.step max probes (.frame c) = (t1, o) →
          (∀ f, o = .delivered .dns f → t1.live = s.t.live.filter (·.1 != c)) ∧
          ((∀ f, o ≠ .delivered .dns f) → t1 = s.t) := by
        intro t1 o hst
        simp only [Table.step] at hst
        cases hf : s.t.live.find? (·.1 == c) with
        | none =>
          rw [hf] at hst
          injection hst with a b; subst a; subst b
          exact ⟨fun f hf => (by cases hf), fun _ => rfl⟩
        | some x =>
          obtain ⟨c', k', f'⟩ := x
          rw [hf] at hst
          cases k' with
          | dns =>
            injection hst with a b; subst a; subst b
            exact ⟨fun _ _ => rfl, fun hne => absurd rfl (hne _)⟩
          | tcp =>
            injection hst with a b; subst a; subst b
            exact ⟨fun f hf => (by cases hf), fun _ => rfl⟩
          | udp =>
            injection hst with a b; subst a; subst b
            exact ⟨fun f hf => (by cases hf), fun _ => rfl⟩
      generalize hst : s.t.step max probes (.frame c) = r at hT'
      obtain ⟨t1, o⟩ := r
      obtain ⟨k1, k2⟩ := key t1 o hst
      split
      next t1' f heq =>
        injection heq with a b; subst a; subst b
        refine ⟨hT', hd.sublist ((List.filter_sublist).map _), ?_⟩
        intro e he
        simp only [List.mem_filter, bne_iff_ne, ne_eq] at he
        have hin := hr e he.1
        simp only [Table.ids, List.mem_map] at hin ⊢
        obtain ⟨x, hx, hxe⟩ := hin
        rw [k1 f rfl]
        exact ⟨x, List.mem_filter.mpr ⟨hx, by simp only [bne_iff_ne, ne_eq]; rw [hxe]; exact he.2⟩, hxe⟩
      next t1' o' hno heq =>
        injection heq with a b; subst a; subst b
        have : t1 = s.t := k2 (fun f hf => hno f hf)
        subst this
        exact ⟨hT, hd, hr⟩
    | «open» k =>
      simp only [Timed.step]
      have hT' := Table.inv_step max probes hmax s.t (.open k) hT
      have key : ∀ (t1 : Table) (o : Out), s.t.step max probes (.open k) = (t1, o) →
          (∀ c f, o = .opened c f → t1.live = s.t.live ++ [(c, k, f)] ∧ c ∉ s.t.ids) ∧
          ((∀ c f, o ≠ .opened c f) → t1.live = s.t.live) := by
        intro t1 o hst
        simp only [Table.step] at hst
        cases hnc : nextChannel max s.t.occ probes s.t.chani with
        | mk r ch =>
          rw [hnc] at hst
          cases r with
          | none =>
            injection hst with a b; subst a; subst b
            exact ⟨fun c f hf => (by cases hf), fun _ => rfl⟩
          | some c =>
            simp only at hst
            injection hst with a b; subst a; subst b
            obtain ⟨_, _, h3, _⟩ := C06_alloc_sound max hmax s.t.occ probes s.t.chani c ch hnc
            refine ⟨fun c' f' hf => ?_, fun hne => absurd rfl (hne _ _)⟩
            injection hf with hc hf2; subst hc; subst hf2
            refine ⟨rfl, ?_⟩
            intro hin
            have := (occ_iff s.t c).mpr hin
            rw [h3] at this; cases this
      generalize hst : s.t.step max probes (.open k) = r at hT'
      obtain ⟨t1, o⟩ := r
      obtain ⟨k1, k2⟩ := key t1 o hst
      split
      next t1' c f heq =>
        injection heq with a b; subst a; subst b
        obtain ⟨hl, hfree⟩ := k1 c f rfl
        apply Timed.inv_expire
        have hids : ∀ x, x ∈ s.t.ids → x ∈ t1.ids := by
          intro x hx
          simp only [Table.ids, hl, List.map_append, List.mem_append]
          exact Or.inl hx
        have hcin : c ∈ t1.ids := by
          simp [Table.ids, hl]
        refine ⟨hT', ?_, ?_⟩
        · simp only
          split
          · exact hd
          · rw [List.map_append, List.nodup_append]
            refine ⟨hd, by simp, ?_⟩
            intro a ha b hb2
            simp only [List.map_cons, List.map_nil, List.mem_singleton] at hb2
            subst hb2
            intro hab; subst hab
            obtain ⟨e, he, hea⟩ := List.mem_map.mp ha
            exact hfree (hea ▸ hr e he)
        · intro e he
          simp only at he
          split at he
          · exact hids _ (hr e he)
          · rcases List.mem_append.mp he with h1 | h1
            · exact hids _ (hr e h1)
            · simp only [List.mem_singleton] at h1; subst h1; exact hcin
      next t1' o' hno heq =>
        injection heq with a b; subst a; subst b
        have hl : t1.live = s.t.live := k2 (fun c f hf => hno c f hf)
        refine ⟨hT', hd, ?_⟩
        intro e he
        simp only [Table.ids, hl]
        exact hr e he

theorem Timed.inv_run (max probes : Nat) (hmax : 1 ≤ max) (s : Timed) (ops : List TOp)
    (h : s.Inv max) : (Timed.run max probes s ops).1.Inv max := by
  induction ops generalizing s with
  | nil => exact h
  | cons op ops ih =>
    simp only [Timed.run]
    exact ih _ (Timed.inv_step max probes hmax s op h)

/-- **C06 distinctness, with the clock.**  After any history of arrivals of the three kinds,
closes, frames, clock advances (so: lazy expiry sweeps at the end of every accept handler) and
datagrams from sources that already have an association, starting at any time: open flows own
pairwise distinct non-zero ids within range, the client holds at most one association per id,
and every association it holds (and will send on) owns a registered id — so the allocator skips
it. -/
theorem C06_distinct_timed (max probes : Nat) (hmax : 1 ≤ max) (now : Nat) (ops : List TOp) :
    let s := (Timed.run max probes { now := now } ops).1
    s.t.ids.Nodup ∧ (∀ c ∈ s.t.ids, c ≠ 0 ∧ c ≤ max) ∧ (s.dl.map (·.1)).Nodup ∧ ∀ e ∈ s.dl, e.1 ∈ s.t.ids := by
  have h := Timed.inv_run max probes hmax { now := now } ops
    ⟨⟨List.nodup_nil, by simp [Table.ids]⟩, List.nodup_nil, by simp⟩
  exact ⟨h.1.1, fun c hc => ⟨by have := (h.1.2 c hc).1; omega, (h.1.2 c hc).2⟩, h.2.1, h.2.2⟩

/-- A datagram from a source with an association refreshes it before the sweep of the same
handler: however long the source was silent, the association is still held afterwards, with a
deadline the UDP timeout (30 s) ahead, and its id is still registered. -/
theorem C06_refresh_survives_sweep (max probes : Nat) (hmax : 1 ≤ max) (s : Timed) (h : s.Inv max) (c : Nat)
    (hs : (s.step max probes (.again c)).2 = .sent c) :
    (c, s.now + Generated.CLIENT_UDP_TIMEOUT) ∈ (s.step max probes (.again c)).1.dl ∧ c ∈ (s.step max probes (.again c)).1.t.ids := by
  have hinv := Timed.inv_step max probes hmax s (.again c) h
  have hmem : (c, s.now + Generated.CLIENT_UDP_TIMEOUT) ∈ (s.step max probes (.again c)).1.dl := by
    simp only [Timed.step] at hs ⊢
    cases hf : s.t.live.find? (·.1 == c) with
    | none => rw [hf] at hs; cases hs
    | some x =>
      obtain ⟨c', k', f'⟩ := x
      rw [hf] at hs
      cases k' with
      | tcp => cases hs
      | dns => cases hs
      | udp =>
        simp only at hs ⊢
        cases hany : s.dl.any (·.1 == c) with
        | false => rw [hany] at hs; cases hs
        | true =>
          simp only [↓reduceIte, Timed.expire, timeout]
          simp only [List.any_eq_true, beq_iff_eq] at hany
          obtain ⟨e, he, hec⟩ := hany
          simp only [List.mem_filter, Bool.not_eq_eq_eq_not, Bool.not_true, decide_eq_false_iff_not]
          refine ⟨List.mem_map.mpr ⟨e, he, by simp [hec]⟩, by omega⟩
  exact ⟨hmem, hinv.2.2 _ hmem⟩

/-- Non-vacuity: a source silent for 61 s sends again — its association (id 1) survives the sweep
that removes the DNS request opened at the same time (id 2); the next arrival skips id 1. -/
example :
    (Timed.run 2 4 { now := 1000 } [.base (.open .udp), .base (.open .dns), .tick 61, .again 1,
                                     .base (.open .tcp), .base (.open .tcp)]).2 =
      [.base (.opened 1 0), .base (.opened 2 1), .ticked, .sent 1, .base (.opened 2 2), .base .discarded] := by
  decide

/-- Non-vacuity: a history with wrap-around (MAX = 3), dense occupancy and a late frame. -/
example :
    (Table.run 3 4 {} [.open .tcp, .open .dns, .open .udp, .open .tcp, .close 2, .frame 2,
                       .open .dns, .frame 2, .close 1, .open .tcp]).2 =
      [.opened 1 0, .opened 2 1, .opened 3 2, .discarded, .closed, .dropped,
       .opened 2 3, .delivered .dns 3, .closed, .opened 1 4] := by decide

/-- Premises of `C06_released_id_not_next` met: open, close that id, open again → ids 1 then 2. -/
example : (Table.run Generated.MAX_CHANNEL Generated.ALLOC_PROBES {} [.open .tcp, .close 1, .open .tcp]).2 =
    [.opened 1 0, .closed, .opened 2 1] := by decide

/-- A DNS reply releases the id: a second (duplicate or late) reply is dropped. -/
example : (Table.run 5 4 {} [.open .dns, .frame 1, .frame 1]).2 =
    [.opened 1 0, .delivered .dns 0, .dropped] := by decide

end Sshuttle.Alloc
