/-
C10 — DNS queries are relayed verbatim, matched to their asker, at most once.

Property theorems only; helper lemmas are in `Lemmas/Dgram.lean`, `Lemmas/DgramClient.lean`
(client invariant under arbitrary events and arbitrary incoming frames) and
`Lemmas/DgramServer.lean` (`try_send` under every script of socket-call outcomes).
-/
import SshuttleModel.Spec.Dgram
import SshuttleModel.Lemmas.DgramClient
import SshuttleModel.Lemmas.DgramServer
import SshuttleModel.Lemmas.DgramLife
import SshuttleModel.Lemmas.DgramAssoc
import SshuttleModel.Lemmas.DgramE2E
import SshuttleModel.Lemmas.DgramPins

namespace Sshuttle.Dgram

/-! ## 1. Verbatim on every hop -/

/-- **Capture → tunnel.** An accepted query queues DNS_REQ whose payload is the datagram as
received (at most the receive size, a regenerated parameter), followed only by UDP_CLOSE frames
of the sweep; a query that is not relayed (method reports no destination / no id free) queues
nothing. -/
theorem C10_verbatim_capture {cfg : Cfg} {now : Nat} {cap : Capture} {c c' : Client} {fr : List Frame}
    (h : ondns cfg now cap c = .ok (c', fr)) :
    fr = [] ∨ ∃ chan closes, fr = ⟨chan, CMD_DNS_REQ, cap.data.take cfg.recvMax⟩ :: closes ∧
      hasKey chan c.chans = false ∧ ∀ f ∈ closes, f.cmd = CMD_UDP_CLOSE := by
  rcases ondns_ok h with ⟨_, _, _, _, e⟩ | ⟨chan, dst, data, closes, c1, _, hd, hfree, _, _, _, _, he, e⟩
  · exact Or.inl e
  · subst hd
    refine Or.inr ⟨chan, closes, e, hfree, ?_⟩
    obtain ⟨_, _, _, _, _, hcl, _⟩ := expire_ok he
    intro f hf
    rw [hcl] at hf
    simp only [List.mem_map] at hf
    obtain ⟨p, _, rfl⟩ := hf
    rfl

/-- **Tunnel → resolver.** Whatever the name-server picks and the outcomes of `connect`/`send`
are, every datagram a `DnsProxy` hands to a resolver socket is the request it was created with,
addressed to the configured resolver, else a listed name server of the remote host, else
127.0.0.1, port 53 unless configured; and at most one `send` succeeds per call chain. -/
theorem C10_verbatim_resolver (cfg : Cfg) (now hid chan : Nat) (request : Bytes) (ns : Nat) (sc : Script) :
    let r := dnsProxyNew cfg now hid chan request ns sc
    r.sends.length ≤ 1 ∧
    ∀ s ∈ r.sends, s.data = request ∧ s.chan = chan ∧ allowedResolver cfg s.peer s.port := by
  intro r
  have t := trySend_ok cfg (cfg.maxTries + 1)
    { hid := hid, chan := chan, deadline := now + cfg.srvDnsHorizonS * cfg.ticksPerS, request := request } ns sc
  refine ⟨t.sends_le, ?_⟩
  intro s hs
  obtain ⟨a, b, _, d, _⟩ := t.sends_ok s hs
  exact ⟨a, b, d⟩

/-- **Resolver → tunnel.** The first datagram read from a live resolver socket becomes exactly
one DNS_RESPONSE on the query's id with the payload as received, no further query is sent,
and the handler retires (`ok = false`), so no second reply is ever relayed for it. -/
theorem C10_verbatim_reply (cfg : Cfg) (h : DnsH) (sock : Nat) (host : Addr) (d : Bytes) (ns : Nat)
    (sc : Script) (peer : Bytes) (hp : lookup sock h.peers = some peer) :
    let r := dnsCallback cfg h sock (.data host d) ns sc
    r.frames = [⟨h.chan, CMD_DNS_RESPONSE, d.take cfg.srvRecvMax⟩] ∧ r.sends = [] ∧ r.h.ok = false ∧
    r.err = none := by
  simp [dnsCallback, hp]

/-- **Tunnel → asker.** A frame arriving on the id of an outstanding query produces at most one
datagram, with the frame's payload unchanged, addressed to the asker recorded at capture time,
from the original destination (a socket bound to it under tproxy; the listener socket itself when
the method reports none). -/
theorem C10_verbatim_delivery {cfg : Cfg} {f : Frame} {c c' : Client} {es : List Emit}
    {q l : Nat} {a : Addr} {o : Option Addr}
    (hc : isChannelCmd f.cmd = true) (hl : lookup f.chan c.chans = some (.dns q l a o))
    (h : clientGot cfg f c = .ok (c', es)) :
    es = [] ∨ es = [⟨l, o, a, f.data⟩] := by
  rcases clientGot_ok h with ⟨_, e | e⟩ | ⟨_, q', l', a', o', hl', _, _, _, _, _, _, hs⟩
  · rw [hc] at e; cases e
  · rw [hl] at e; simp [cbQid] at e
  · rw [hl] at hl'
    simp only [Option.some.injEq, Cb.dns.injEq] at hl'
    obtain ⟨_, rfl, rfl, rfl⟩ := hl'
    exact sendUdp_ok hs

/-! ## 1b. Which resolver: the remote host's resolv.conf -/

/-- **A `nameserver` line names its address whatever follows it** (trailing comment, extra
tokens): once the line is cut into words, only the first two matter. -/
theorem C10_resolvconf_trailing_ignored (addr : Bytes) (rest : List Bytes) :
    nsOfWords (kwNameserver :: addr :: rest) = some addr := by
  simp [nsOfWords]

/-- A line with fewer than two words, or another first word, names nothing. -/
theorem C10_resolvconf_other_lines (w : Bytes) (rest : List Bytes) (h : w ≠ kwNameserver) :
    nsOfWords (w :: rest) = none ∧ nsOfWords [kwNameserver] = none ∧ nsOfWords [] = none := by
  refine ⟨?_, rfl, rfl⟩
  cases rest with
  | nil => rfl
  | cons a r => simp [nsOfWords, h]

/-- The text `"# c\nnameserver\t10.0.0.1   # site\r\nNAMESERVER 10.0.0.2 x y\n#nameserver 9.9.9.9\n"`
yields exactly `10.0.0.1` and `10.0.0.2`. -/
example : parseResolvConf (bytesOfStr "# c\nnameserver\t10.0.0.1   # site\r\nNAMESERVER 10.0.0.2 x y\n#nameserver 9.9.9.9\n")
    = [bytesOfStr "10.0.0.1", bytesOfStr "10.0.0.2"] := by decide

/-- Pins: the parsing model was written for this shape of `helpers.resolvconf_nameservers`
(regenerated from the working tree on every run). -/
example : Gen.C10.RESOLV_ACCEPT_RULE = ["len(words) >= 2", "words[0] == 'nameserver'", "words[1]"] := by decide
example : Gen.C10.RESOLV_WORDS_EXPR = "line.lower().split()" := by decide

/-! ## 2. Matched to the asker, at most once — every event sequence, every incoming frame -/

/-- **At most once.** For every configuration and every sequence of client events — captures,
other accepts, expiry at arbitrary clock readings, ids taken and released by other flows, and
*arbitrary* frames arriving from the tunnel (replies in any order, duplicated, late, forged) —
no captured query ever has two datagrams sent to its asker. -/
theorem C10_at_most_once (cfg : Cfg) (ops : List (Nat × COp)) :
    AtMostOncePerQuery (CSys.run cfg {} ops) :=
  (CInv.init.run ops).em_nodup

/-- **Right asker.** Under the same quantification: every datagram sent for a query goes to
the address that asked it, through the listener of that family, from the original destination
the method reported for it; and query serial numbers identify queries uniquely. -/
theorem C10_right_asker (cfg : Cfg) (ops : List (Nat × COp)) :
    ToTheAsker (CSys.run cfg {} ops) ∧ ((CSys.run cfg {} ops).queries.map (·.qid)).Nodup := by
  have h := CInv.init.run (cfg := cfg) ops
  refine ⟨h.em_rec, ?_⟩
  rw [h.qids]
  exact List.nodup_range

/-- Non-vacuity: a run in which a query is captured, answered, answered again by a duplicate
frame and a forged frame arrives on a free id delivers exactly one datagram. -/
example :
    let cfg : Cfg := { method := .tproxy }
    let cap : Capture := ⟨2, ⟨[49], 4000, []⟩, some ⟨[57], 53, []⟩, [1, 2, 3]⟩
    let ops : List (Nat × COp) :=
      [(0, .dns cap), (5, .frame ⟨1, CMD_DNS_RESPONSE, [9, 9]⟩), (6, .frame ⟨1, CMD_DNS_RESPONSE, [9, 9]⟩),
       (7, .frame ⟨2, CMD_DNS_RESPONSE, [8]⟩)]
    (CSys.run cfg {} ops).emitted = [(some 0, ⟨2, some ⟨[57], 53, []⟩, ⟨[49], 4000, []⟩, [9, 9]⟩)] := by
  decide

/-! ## 3. At most three attempts, retries only after a network error -/

/-- **Tries.** For every handler state, every script of picks and socket-call outcomes and every
recursion depth: `try_send` never raises the attempt counter above `max(tries, 3)`; it creates
exactly as many sockets as it counts attempts; the handler's id, request and deadline do not
change. -/
theorem C10_tries (cfg : Cfg) (fuel : Nat) (h : DnsH) (ns : Nat) (sc : Script) :
    let r := trySend cfg fuel h ns sc
    r.h.tries ≤ max h.tries cfg.maxTries ∧ h.tries + r.attempts = r.h.tries ∧
    r.nextSock = ns + r.attempts ∧ r.h.chan = h.chan ∧ r.h.request = h.request ∧
    r.h.deadline = h.deadline := by
  intro r
  have t := trySend_ok cfg fuel h ns sc
  exact ⟨t.tries_le, t.attempts, t.socks_used, t.same.1, t.same.2.2.1, t.same.2.2.2.1⟩

/-- The life of one `DnsProxy` after its creation: a sequence of socket events. -/
def handlerLife (cfg : Cfg) : DnsH → Nat → List (Nat × RecvRes × Script) → DnsH × Nat
  | h, n, [] => (h, n)
  | h, n, (sock, r, sc) :: rest =>
    let t := dnsCallback cfg h sock r 0 sc
    handlerLife cfg t.h (n + t.attempts) rest

theorem dnsCallback_tries (cfg : Cfg) (h : DnsH) (sock : Nat) (r : RecvRes) (ns : Nat) (sc : Script)
    (hle : h.tries ≤ cfg.maxTries) :
    (dnsCallback cfg h sock r ns sc).h.tries ≤ cfg.maxTries ∧
    h.tries + (dnsCallback cfg h sock r ns sc).attempts = (dnsCallback cfg h sock r ns sc).h.tries := by
  unfold dnsCallback
  split
  · exact ⟨hle, rfl⟩
  · split
    · split
      · have t := trySend_ok cfg (cfg.maxTries + 1)
          { h with socks := h.socks.erase sock, peers := erase sock h.peers } ns sc
        refine ⟨?_, t.attempts⟩
        have := t.tries_le
        simp only at this ⊢
        omega
      · exact ⟨hle, rfl⟩
    · exact ⟨hle, rfl⟩

/-- **At most three sockets per query, for every error sequence.** From the creation of the
handler on, through any sequence of resolver-socket events (replies, receive errors of any
errno, each followed by whatever `connect`/`send` outcomes the script dictates), the total
number of sockets ever created for the query is its attempt counter and never exceeds
`DNS_MAX_TRIES`. -/
theorem C10_tries_lifetime (cfg : Cfg) (now hid chan : Nat) (request : Bytes) (sc : Script)
    (events : List (Nat × RecvRes × Script)) :
    let r := dnsProxyNew cfg now hid chan request 0 sc
    let fin := handlerLife cfg r.h r.attempts events
    fin.2 = fin.1.tries ∧ fin.1.tries ≤ cfg.maxTries := by
  intro r fin
  have t := trySend_ok cfg (cfg.maxTries + 1)
    { hid := hid, chan := chan, deadline := now + cfg.srvDnsHorizonS * cfg.ticksPerS, request := request } 0 sc
  have h0 : r.attempts = r.h.tries := by
    have := t.attempts; simp only [Nat.zero_add] at this; exact this
  have h1 : r.h.tries ≤ cfg.maxTries := by
    have := t.tries_le; simp only [Nat.zero_le, Nat.max_eq_right] at this; exact this
  suffices ∀ (h : DnsH) (n : Nat), n = h.tries → h.tries ≤ cfg.maxTries →
      (handlerLife cfg h n events).2 = (handlerLife cfg h n events).1.tries ∧
      (handlerLife cfg h n events).1.tries ≤ cfg.maxTries from this r.h r.attempts h0 h1
  induction events with
  | nil => intro h n e hle; exact ⟨e, hle⟩
  | cons ev rest ih =>
    intro h n e hle
    obtain ⟨sock, rr, sc'⟩ := ev
    simp only [handlerLife]
    obtain ⟨a, b⟩ := dnsCallback_tries cfg h sock rr 0 sc' hle
    exact ih _ _ (by omega) a

/-- **A retry happens only after an errno in `NET_ERRS`.** A receive error outside the list
makes the handler give up: no socket is created, nothing is sent. -/
theorem C10_retry_only_on_net_errs (cfg : Cfg) (h : DnsH) (sock e ns : Nat) (sc : Script)
    (hne : cfg.netErrs.contains e = false) :
    (dnsCallback cfg h sock (.err e) ns sc).attempts = 0 ∧ (dnsCallback cfg h sock (.err e) ns sc).sends = [] := by
  unfold dnsCallback
  split
  · exact ⟨rfl, rfl⟩
  · simp only [hne, Bool.false_eq_true, if_false, and_self]

/-- **Per-query socket state stays small.** A handler listens on at most one resolver socket:
after its creation, and again after a receive error on that socket (which removes it before any
retry), for every script of picks and socket-call outcomes.  All per-query state (`socks`, `peers`,
`tries`) lives in the handler record, which `SSys.round` drops at the start of the round after
`ok` became false (answer relayed, or deadline passed at a sweep).  That CPython then closes the
descriptors of the dropped record is the runtime's doing and is checked by the harness's
resource oracle, not by a theorem. -/
theorem C10_one_live_socket (cfg : Cfg) (now hid chan : Nat) (request : Bytes) (ns : Nat) (sc : Script)
    (h : DnsH) (sock e : Nat) (hs : h.socks = [sock]) :
    (dnsProxyNew cfg now hid chan request ns sc).h.socks.length ≤ 1 ∧
    (dnsCallback cfg h sock (.err e) ns sc).h.socks.length ≤ 1 := by
  constructor
  · have t := trySend_ok cfg (cfg.maxTries + 1)
      { hid := hid, chan := chan, deadline := now + cfg.srvDnsHorizonS * cfg.ticksPerS, request := request } ns sc
    have h1 := t.socks
    have h2 := t.sends_le
    unfold dnsProxyNew
    rw [h1]
    simp only [List.nil_append, List.length_map]
    exact h2
  · unfold dnsCallback
    split
    · rw [hs]; simp
    · by_cases hc : cfg.netErrs.contains e = true
      · have t := trySend_ok cfg (cfg.maxTries + 1)
          { h with socks := h.socks.erase sock, peers := erase sock h.peers } ns sc
        have h1 := t.socks
        have h2 := t.sends_le
        simp only [hs, List.erase_cons_head] at h1 h2
        simp only [hc, if_true, hs, List.erase_cons_head]
        rw [h1]
        simp only [List.nil_append, List.length_map]
        exact h2
      · have hc' : cfg.netErrs.contains e = false := by simpa using hc
        simp only [hc', Bool.false_eq_true, if_false, hs, List.erase_cons_head, List.length_nil, Nat.zero_le]

/-- **At most three attempts per QUERY, over its whole life, for all interleavings.**  From the
moment DNS_REQ reaches the server, through any sequence of events on the query's resolver
sockets — replies, receive errors of any errno (each re-entering `try_send` with whatever
name-server picks and `connect`/`send` outcomes the script dictates), duplicates on retired
sockets — and end-of-round sweeps, in any order:
* the sockets ever created for the query, hence the datagrams ever handed to a resolver, number
  at most `DNS_MAX_TRIES` (the budget is per query, not per call of `try_send`);
* every one of those datagrams is the query as captured, on the query's id;
* at most one DNS_RESPONSE is ever queued for it, on its own id, and the reply it carries
  arrived on one of the (at most three) sockets created for this query. -/
theorem C10_attempts_per_query (cfg : Cfg) (now hid chan : Nat) (request : Bytes) (ns : Nat) (sc : Script)
    (evs : List LifeEv) :
    let l := (Life.start cfg now hid chan request ns sc).run cfg evs
    l.attempts ≤ cfg.maxTries ∧ l.sends.length ≤ cfg.maxTries ∧
    (∀ s ∈ l.sends, s.data = request ∧ s.chan = chan ∧ ns ≤ s.sock ∧ s.sock < ns + cfg.maxTries) ∧
    l.frames.length ≤ 1 ∧ (∀ f ∈ l.frames, f.chan = chan ∧ f.cmd = CMD_DNS_RESPONSE) ∧
    l.replySocks.length = l.frames.length ∧ (∀ k ∈ l.replySocks, ns ≤ k ∧ k < ns + cfg.maxTries) := by
  intro l
  have h : LInv cfg ns chan request l := (LInv.start cfg now hid chan request ns sc).run evs
  have h1 := h.attempts
  have h2 := h.tries_le
  have h3 := h.sends_le
  exact ⟨by show _ ≤ _; omega, by show _ ≤ _; rw [h1] at h3; exact Nat.le_trans h3 h2, h.sends_ok, h.frames_le, h.frames_ok,
    h.replies.1, h.replies.2⟩

/-- The regenerated bound is three. -/
example : ({} : Cfg).maxTries = 3 := by decide

/-- Non-vacuity: send error, then a receive error on the second socket, then a third attempt
whose reply is relayed, then a duplicate reply and a late error — three sockets, one frame. -/
example :
    let cfg : Cfg := { nslist := [[49]], connectInTry := true }
    let evs : List LifeEv := [.sock 1 (.err 111) ⟨[], [none, none]⟩, .sock 2 (.data ⟨[49], 53, []⟩ [7]) {},
                              .sock 2 (.data ⟨[49], 53, []⟩ [7]) {}, .sweep true, .sock 1 (.err 104) {}]
    let l := (Life.start cfg 0 0 5 [1, 2] 0 ⟨[], [none, some 111, none, none]⟩).run cfg evs
    l.attempts = 3 ∧ l.sends.length = 2 ∧ l.frames = [⟨5, CMD_DNS_RESPONSE, [7]⟩] ∧ l.replySocks = [2] := by
  decide

/-! ## 4. Release -/

/-- **Released when answered.** After the first frame on a query's id has been handled, the id
is free in `mux.channels` and absent from `dnsreqs`; nothing else in either table changed. -/
theorem C10_release_on_answer {cfg : Cfg} {f : Frame} {c c' : Client} {es : List Emit}
    {q l : Nat} {a : Addr} {o : Option Addr}
    (hc : isChannelCmd f.cmd = true) (hl : lookup f.chan c.chans = some (.dns q l a o))
    (h : clientGot cfg f c = .ok (c', es)) :
    hasKey f.chan c'.chans = false ∧ hasKey f.chan c'.dnsreqs = false ∧
    c'.chans = erase f.chan c.chans ∧ c'.dnsreqs = erase f.chan c.dnsreqs ∧ c'.udpBySrc = c.udpBySrc := by
  rcases clientGot_ok h with ⟨_, e | e⟩ | ⟨_, _, _, _, _, _, _, e1, e2, _, e4, _, _⟩
  · rw [hc] at e; cases e
  · rw [hl] at e; simp [cbQid] at e
  · exact ⟨by rw [e1]; exact hasKey_erase_self _ _, by rw [e2]; exact hasKey_erase_self _ _, e1, e2, e4⟩

/-- **Forgotten after 30 s, newer ones undisturbed.** After any accept event's sweep at clock
`now`: no query whose deadline is before `now` is left in `dnsreqs` and its id is free; every
query whose deadline is not before `now` is still in `dnsreqs`, in order, and every callback
whose id was not swept is still registered. -/
theorem C10_release_on_expiry {now : Nat} {c c' : Client} {fr : List Frame} (h : expire now c = .ok (c', fr)) :
    SweptAt now c c' ∧
    (∀ p ∈ c'.dnsreqs, ¬ p.2 < now) ∧
    (∀ p ∈ c.dnsreqs, p.2 < now → hasKey p.1 c'.chans = false) ∧
    (∀ p ∈ c.dnsreqs, ¬ p.2 < now → p ∈ c'.dnsreqs) ∧
    (∀ p ∈ c.chans, p.1 ∉ (c.dnsreqs.filter fun q => q.2 < now).map (·.1) →
        p.1 ∉ (c.udpBySrc.filter fun q => q.2.2 < now).map (·.2.1) → p ∈ c'.chans) := by
  obtain ⟨_, _, _, e1, e2, _, e4, e5, _⟩ := expire_ok h
  refine ⟨⟨e1, e2⟩, ?_, ?_, ?_, e4⟩
  · intro p hp; rw [e1] at hp; simpa using (List.mem_filter.1 hp).2
  · intro p hp hlt
    apply e5
    simp only [List.mem_map, List.mem_filter]
    exact ⟨p, ⟨hp, by simpa using hlt⟩, rfl⟩
  · intro p hp hge; rw [e1]; exact List.mem_filter.2 ⟨hp, by simpa using hge⟩

/-- The sweep of the query being captured happens inside the same accept event: `ondns` ends
with `expire_connections(now)` on the state that already holds the new query. -/
theorem C10_capture_sweeps {cfg : Cfg} {now : Nat} {cap : Capture} {c c' : Client} {fr : List Frame}
    (h : ondns cfg now cap c = .ok (c', fr)) (hne : fr ≠ []) :
    ∃ c1 closes, expire now c1 = .ok (c', closes) ∧ c1.udpBySrc = c.udpBySrc ∧
      ∃ chan, c1.dnsreqs = set chan (now + cfg.dnsHorizonS * cfg.ticksPerS) c.dnsreqs := by
  rcases ondns_ok h with ⟨_, _, _, _, e⟩ | ⟨chan, _, _, closes, c1, _, _, _, _, _, e6, e7, he, _⟩
  · exact absurd e hne
  · exact ⟨c1, closes, he, e7, chan, e6⟩

/-- **One clock.** The deadline of a query is written from the clock reading `now` its capture
saw (`now + 30 s`), survives that capture's own sweep, and every later sweep compares it with
the reading it is given: the entry stays while that reading is not beyond the deadline and no
entry older than the reading is left.  In the Python all readings come from the same call
(pinned below), so a stamp is never compared in another clock's domain. -/
theorem C10_one_clock {cfg : Cfg} {now : Nat} {cap : Capture} {c c' : Client} {fr : List Frame}
    (h : ondns cfg now cap c = .ok (c', fr)) (hfr : fr ≠ []) :
    ∃ chan, lookup chan c'.dnsreqs = some (now + cfg.dnsHorizonS * cfg.ticksPerS) ∧
      ∀ now' c'' fr', expire now' c' = .ok (c'', fr') →
        (now' ≤ now + cfg.dnsHorizonS * cfg.ticksPerS →
          lookup chan c''.dnsreqs = some (now + cfg.dnsHorizonS * cfg.ticksPerS)) ∧
        (∀ p ∈ c''.dnsreqs, ¬ p.2 < now') := by
  rcases ondns_ok h with ⟨_, _, _, _, e⟩ | ⟨chan, _, _, closes, c1, _, _, _, _, _, e6, _, he, _⟩
  · exact absurd e hfr
  · obtain ⟨_, _, _, e4, _⟩ := expire_ok he
    have hl : lookup chan c'.dnsreqs = some (now + cfg.dnsHorizonS * cfg.ticksPerS) := by
      rw [e4, e6]; exact lookup_filter _ (lookup_set_self _ _ _) (by simp)
    refine ⟨chan, hl, ?_⟩
    intro now' c'' fr' he'
    obtain ⟨_, _, _, e4', _⟩ := expire_ok he'
    refine ⟨fun hle => by rw [e4']; exact lookup_filter _ hl (by simp; omega), ?_⟩
    intro p hp
    rw [e4'] at hp
    simpa using (List.mem_filter.1 hp).2

/-- Pin: every deadline is written and compared with the same clock call. -/
example : Gen.C10.CLOCK_READS =
    ["client.onaccept_tcp:time.time", "client.onaccept_udp:time.time", "client.ondns:time.time",
     "server.DnsProxy.__init__:time.time", "server.UdpProxy.__init__:time.time", "server.main:time.time"] := by
  decide

/-! ## 5. End to end, and where the full statement fails -/

/-- Full statement: in every run of both ends, each datagram an asker receives is a resolver's
reply to its own query. -/
def C10_full : Prop := ∀ (cfg : Cfg) (ops : List Op), AnswersOwnQuery (Sys.run { cfg := cfg } ops)

/-- **A reply goes to its asker, end to end (no id reassigned).**  For every configuration and
every honest DNS run of both ends joined by the tunnel — captures, other accepts, sweeps, ids
taken by other flows, clock advances, server rounds reading any number of frames, resolver
replies and receive errors on any socket with any script of outcomes, frames delivered to the
client, in any order — in which no id is given to two queries: every datagram sent to a local
socket for a query goes to the address that asked it, from the original destination the method
reported (`ToTheAsker`), and it is, unchanged, a datagram the server read from a resolver socket
of the handler created for *that* query's own request bytes on that query's id
(`AnswersOwnQuery`).  `C10_full_false` below shows the hypothesis cannot be dropped. -/
theorem C10_reply_goes_to_its_asker (cfg : Cfg) (ops : List Op) (hon : ∀ op ∈ ops, op.dnsHonest = true)
    (hnoreuse : ((Sys.run { cfg := cfg } ops).cl.queries.map (·.chan)).Nodup) :
    AnswersOwnQuery (Sys.run { cfg := cfg } ops) ∧ ToTheAsker (Sys.run { cfg := cfg } ops).cl := by
  have hinv : ∀ (ops : List Op) (s : Sys), EInv s → (∀ op ∈ ops, op.dnsHonest = true) → EInv (Sys.run s ops) := by
    intro ops
    induction ops with
    | nil => intro s h _; exact h
    | cons op ops ih =>
      intro s h hh
      exact ih (s.step op) (h.step op (hh op (by simp))) (fun o ho => hh o (List.mem_cons_of_mem _ ho))
  have h := hinv ops _ (EInv.init cfg) hon
  refine ⟨?_, h.cinv.em_rec⟩
  intro q e hm
  obtain ⟨qu, hq, h1, rp, hr, h2, h3⟩ := h.emitted q e hm
  obtain ⟨qu', hq', h4, h5⟩ := h.srv.replies rp hr
  have : qu' = qu := nodup_map_inj (·.chan) hnoreuse hq' hq (by rw [h4, h2])
  subst this
  exact ⟨qu', hq, h1, rp, hr, h2, h5.symm, h3⟩

/-- Non-vacuity: two queries, answered in the opposite order, one retry; ids 1 and 2 are distinct. -/
example :
    let cfg : Cfg := { method := .tproxy, nslist := [[49]], connectInTry := true }
    let cap (p b : Nat) : Capture := ⟨2, ⟨[49], p, []⟩, some ⟨[57], 53, []⟩, [b]⟩
    let ops : List Op := [.client (.dns (cap 4000 0xaa)), .client (.dns (cap 4001 0xbb)),
      .sround 2 ⟨[], [some 111, none, none]⟩, .ssock 2 (.data ⟨[49], 53, []⟩ [0xb1]) {}, .tick 5,
      .ssock 1 (.data ⟨[49], 53, []⟩ [0xa1]) {}, .cdeliver, .cdeliver]
    (∀ op ∈ ops, op.dnsHonest = true) ∧
    ((Sys.run { cfg := cfg } ops).cl.queries.map (·.chan)).Nodup ∧
    (Sys.run { cfg := cfg } ops).cl.emitted.map (fun p => (p.1, p.2.to.port, p.2.data)) =
      [(some 1, 4001, [0xb1]), (some 0, 4000, [0xa1])] := by
  decide

def f19Cfg : Cfg := { method := .tproxy, maxCh := 2, nslist := [[49]] }

def f19Ops : List Op :=
  let cap (p : Nat) (b : Nat) : Capture := ⟨2, ⟨[49], p, []⟩, some ⟨[57], 53, []⟩, [b]⟩
  [.client (.dns (cap 4000 0xaa)), .tick 5120, .sround 1 {}, .tick 25601,
   .client (.dns (cap 4001 0xbb)), .client (.dns (cap 4002 0xcc)),
   .ssock 0 (.data ⟨[49], 53, []⟩ [0xa1]) {}, .cdeliver]

/-- **The full statement is false** when ids are reassigned while the server still has a
handler for the previous owner (DESIGN F19).  Witness with `MAX_CHANNEL = 2`: query 0 (payload
`aa`, id 1) reaches the server 5 s after capture; 30.001 s after capture the client has expired
it, queries 1 and 2 are captured and query 2 (payload `cc`) is given id 1 again; the server,
which has not run a round since, still relays the late reply `a1` to `aa` on id 1; the client
delivers it to the asker of query 2. -/
theorem C10_full_false : ¬ C10_full := by
  intro h
  have h1 := h f19Cfg f19Ops
  have em : (Sys.run { cfg := f19Cfg } f19Ops).cl.emitted =
      [(some 2, ⟨2, some ⟨[57], 53, []⟩, ⟨[49], 4002, []⟩, [0xa1]⟩)] := by decide
  have rp : (Sys.run { cfg := f19Cfg } f19Ops).sv.replies = [⟨0, 1, [0xaa], [0xa1]⟩] := by decide
  have qd : ∀ qu ∈ (Sys.run { cfg := f19Cfg } f19Ops).cl.queries, qu.qid = 2 → qu.data = [0xcc] := by decide
  obtain ⟨qu, hq, hid, r, hr, _, hreq, _⟩ := h1 2 _ (by rw [em]; exact List.mem_singleton.2 rfl)
  rw [rp] at hr
  simp only [List.mem_singleton] at hr
  subst hr
  have := qd qu hq hid
  rw [this] at hreq
  cases hreq

end Sshuttle.Dgram
