/-
C05 — The server is asked to reach the address and port the application dialled.

Property theorems only; helper lemmas are in `Lemmas/Dst.lean`, `Lemmas/DstV6.lean`; the
format strings / offsets the model was written for are pinned in `Lemmas/DstPins.lean`.
Addresses: an IPv4 address is `V4` (four bytes; `V4.ofNat ip` for `ip < 2^32`), an IPv6
address is its eight 16-bit groups.  Ports are `Nat` below 65536.
-/
import SshuttleModel.Lemmas.DstPins
import SshuttleModel.Lemmas.Dst
import SshuttleModel.Lemmas.DstV6
import SshuttleModel.Lemmas.DstPf

namespace Sshuttle.Dst
open Sshuttle.Gen

/-! ## 1. Kernel byte strings → (text, port) -/

/-- `original_dst` on a `sockaddr_in`: for every address, every port, whatever the family
bytes and the padding are, the result is the dotted quad of the address bytes in network order
and the port read big-endian. -/
theorem C05_sockaddr_in (f0 f1 port : Nat) (x : V4) (pad : Bytes) (_hp : port < 65536) :
    originalDst C05.AF_INET (.bytes (sockaddrIn f0 f1 port x pad)) =
      .ok (strV4 x.a x.b x.c x.d) port := by
  simp [originalDst, sockaddrIn, unbe16]
  omega

/-- The same statement indexed by the 32-bit number. -/
theorem C05_sockaddr_in_nat (f0 f1 port ip : Nat) (pad : Bytes) (hp : port < 65536) :
    originalDst C05.AF_INET (.bytes (sockaddrIn f0 f1 port (V4.ofNat ip) pad)) =
      .ok (strV4 (ip / 16777216 % 256) (ip / 65536 % 256) (ip / 256 % 256) (ip % 256)) port :=
  C05_sockaddr_in f0 f1 port (V4.ofNat ip) pad hp

/-- `V4.ofNat` is the base-256 expansion: nothing is lost for `ip < 2^32`. -/
theorem C05_v4_ofNat (ip : Nat) (h : ip < 4294967296) :
    (V4.ofNat ip).toNat = ip ∧ (V4.ofNat ip).Wf := by
  simp only [V4.ofNat, V4.toNat, V4.Wf]
  omega

/-- A getsockopt failure with `ENOPROTOOPT` falls back to the socket's own name; any other
errno is re-raised; an unknown family is `Fatal`. -/
theorem C05_original_dst_errors (fam e : Nat) :
    originalDst fam (.error e) =
      if fam = C05.AF_INET ∨ fam = C05.AF_INET6 then
        (if e = C05.ENOPROTOOPT then .sockname else .raised e)
      else .fatal := by
  unfold originalDst
  by_cases h4 : fam = C05.AF_INET
  · simp [h4]
  · by_cases h6 : fam = C05.AF_INET6
    · simp [h6]
    · simp [h4, h6]

/-- `original_dst` on a `sockaddr_in6`: for every address (eight groups), every port, arbitrary
family bytes, flowinfo and scope id, the result is CPython's text of exactly those sixteen
address bytes and the port read big-endian (the offset skips flowinfo, not more, not less). -/
theorem C05_sockaddr_in6 (f0 f1 port : Nat) (flow : Bytes) (gs : List Nat) (scope : Bytes)
    (_hp : port < 65536) (hflow : flow.length = 4) (hgs : gs.length = 8) :
    originalDst C05.AF_INET6 (.bytes (sockaddrIn6 f0 f1 port flow gs scope)) =
      .ok (strV6 gs) port := by
  match flow, hflow, gs, hgs with
  | [a, b, c, d], _, [g0, g1, g2, g3, g4, g5, g6, g7], _ =>
    have hne : C05.AF_INET6 ≠ C05.AF_INET := by decide
    have hh := hextets_packGroups [g0, g1, g2, g3, g4, g5, g6, g7]
    simp only [packGroups, List.flatMap_cons, List.flatMap_nil, List.cons_append, List.nil_append,
      List.append_nil] at hh
    simp [originalDst, hne, sockaddrIn6, v6Bytes, packGroups, unbe16, hh]
    have hlt : ¬ (scope.length + 1 + 1 + 1 + 1 + 1 + 1 + 1 + 1 + 1 + 1 + 1 + 1 + 1 + 1 + 1 + 1 + 1 + 1
        + 1 + 1 + 1 + 1 + 1 + 1 < 24) := by omega
    rw [if_neg hlt]
    congr 1
    omega

example : originalDst C05.AF_INET6 (.bytes (sockaddrIn6 10 0 8080 [0, 0, 0, 9] [0x2001, 0xdb8, 0, 0, 1, 0, 0, 1] [7, 0, 0, 0]))
    = .ok (bytesOfStr "2001:db8::1:0:0:1") 8080 := by decide

/-! ## 2. Text round trips -/

/-- Dotted-quad parse ∘ print = id, all 2^32 addresses. -/
theorem C05_text_roundtrip_v4 (x : V4) (h : x.Wf) : DenotesV4 (strV4 x.a x.b x.c x.d) x := by
  obtain ⟨ha, hb, hc, hd⟩ := h
  exact parseV4_strV4 x.a x.b x.c x.d ha hb hc hd

/-- IPv6 text round trip for `str(ipaddress.IPv6Address(x))` (what `original_dst` prints):
parse ∘ print = id for **every** address — any number of zero runs, anywhere. -/
theorem C05_text_roundtrip_v6 (gs : List Nat) (h : V6Wf gs) : DenotesV6 (strV6 gs) gs :=
  parseV6_strV6 gs h.1 h.2

/-- IPv6 text round trip for libc `inet_ntop` (tproxy `recv_udp`, `getsockname`, pf), the
`::a.b.c.d` and `::ffff:a.b.c.d` dotted forms included. -/
theorem C05_text_roundtrip_v6_ntop (gs : List Nat) (h : V6Wf gs) : DenotesV6 (ntopV6 gs) gs :=
  parseV6_ntopV6 gs h.1 h.2

example : V6Wf [0, 0, 0, 0, 0, 0xffff, 0x102, 0x304] ∧
    ntopV6 [0, 0, 0, 0, 0, 0xffff, 0x102, 0x304] = bytesOfStr "::ffff:1.2.3.4" ∧
    strV6 [1, 0, 0, 2, 0, 0, 0, 3] = bytesOfStr "1:0:0:2::3" := by decide

/-! ## 3. CONNECT message and UDP header -/

/-- Client `b'%d,%s,%d'` then server `split(',', 2)` + `int` + family coercion: the server's
`connect_dst` gets the same address text and port, and `AF_INET` iff the client said `AF_INET`
— for every family number, every port, and every address text that is ASCII without a comma. -/
theorem C05_connect_msg (fam : Nat) (ip : Text) (port : Nat)
    (hcomma : 44 ∉ ip) (hascii : isAscii ip = true) :
    newChannel (encodeConnect fam ip (Int.ofNat port)) =
      .ok (if fam = C05.AF_INET then C05.AF_INET else C05.AF_INET6) ip (Int.ofNat port) :=
  newChannel_encode fam ip port hcomma hascii

example : 44 ∉ strV4 192 168 1 1 ∧ isAscii (strV4 192 168 1 1) = true := by decide

/-- Instance for every IPv4 destination. -/
theorem C05_connect_msg_v4 (x : V4) (port : Nat) :
    newChannel (encodeConnect C05.AF_INET (strV4 x.a x.b x.c x.d) (Int.ofNat port)) =
      .ok C05.AF_INET (strV4 x.a x.b x.c x.d) (Int.ofNat port) := by
  have hal := strV4_alphabet x.a x.b x.c x.d
  have h := C05_connect_msg C05.AF_INET (strV4 x.a x.b x.c x.d) port
    (by intro hm; rcases hal 44 hm with h | h
        · simp [isDigit] at h
        · omega)
    (by rw [isAscii_iff]; intro c hc; rcases hal c hc with h | h
        · exact digit_lt_128 h
        · omega)
  simpa using h

/-- Instance for every IPv6 destination, whichever of the two printers produced the text, and
whatever number the client's platform uses for `AF_INET6` (10, 24, 28, 30, …): the server
opens an `AF_INET6` socket and connects to the same text and port. -/
theorem C05_connect_msg_v6 (fam : Nat) (gs : List Nat) (port : Nat) (hfam : fam ≠ C05.AF_INET) :
    newChannel (encodeConnect fam (strV6 gs) (Int.ofNat port)) =
      .ok C05.AF_INET6 (strV6 gs) (Int.ofNat port) ∧
    newChannel (encodeConnect fam (ntopV6 gs) (Int.ofNat port)) =
      .ok C05.AF_INET6 (ntopV6 gs) (Int.ofNat port) := by
  have h1 := addr_text_ok (strV6 gs) (fun c hc => by
    rcases strV6_alphabet gs c hc with h | h
    · exact Or.inl h
    · exact Or.inr (Or.inl h))
  have h2 := addr_text_ok (ntopV6 gs) (ntopV6_alphabet gs)
  constructor
  · simpa [hfam] using C05_connect_msg fam (strV6 gs) port h1.1 h1.2
  · simpa [hfam] using C05_connect_msg fam (ntopV6 gs) port h2.1 h2.2

/-- UDP header `b"%s,%d,"` + payload, then `split(b',', 2)`: address text, port and the
payload come back unchanged — for an *arbitrary* payload, commas included. -/
theorem C05_udp_hdr (ip : Text) (port : Nat) (data : Bytes) (hcomma : 44 ∉ ip) :
    udpReq (encodeUdp ip (Int.ofNat port) data) = .ok ip (Int.ofNat port) data :=
  udpReq_encode ip port data hcomma

example : udpReq (encodeUdp (strV4 10 0 0 1) 53 [44, 44, 1, 44]) = .ok (strV4 10 0 0 1) 53 [44, 44, 1, 44] := by
  decide

/-- **Every datagram carries its own destination.** Whatever the association table already
holds for the source (a known source reuses its channel, an unknown one gets `UDP_OPEN` first),
the `UDP_DATA` frame sent for a datagram decodes on the server to *that datagram's* address
text, port and payload. -/
theorem C05_udp_per_datagram (tbl : UdpTable) (fam src : Nat) (ip : Text) (port : Nat) (data : Bytes)
    (fresh now : Nat) (hcomma : 44 ∉ ip) (hasc : isAscii ip = true) (hf : fresh ≠ 0) :
    (dataPayloads (onacceptUdp tbl fam src ip (Int.ofNat port) data (some fresh) now).2).map udpReq =
      [.ok ip (Int.ofNat port) data] := by
  rw [onacceptUdp_payloads tbl fam src ip port data fresh now hasc hf]
  simp only [List.map_cons, List.map_nil]
  rw [C05_udp_hdr ip port data hcomma]

/-- **Sequences.** For every sequence of datagrams — any mix of sources, a source sending to
several different destinations within one association included, at arbitrary clock readings
(associations being refreshed, expiring and being re-opened in between) — the server's
`udp_req` sees, in order, exactly the destination and payload of each datagram: the server
does `sendto(dst_i, data_i)` for every `i`. -/
theorem C05_udp_sequence (fam : Nat) (tbl : UdpTable) (ds : List Dgram)
    (h : ∀ d ∈ ds, 44 ∉ d.ip ∧ isAscii d.ip = true ∧ d.fresh ≠ 0) :
    (dataPayloads (runUdp fam tbl ds)).map udpReq =
      ds.map fun d => UdpReqRes.ok d.ip (Int.ofNat d.port) d.data := by
  induction ds generalizing tbl with
  | nil => rfl
  | cons d ds ih =>
    obtain ⟨h1, h2, h3⟩ := h d (by simp)
    simp only [runUdp, dataPayloads_append, List.map_append, List.map_cons]
    rw [C05_udp_per_datagram tbl fam d.src d.ip d.port d.data d.fresh d.now h1 h2 h3,
        ih _ (fun x hx => h x (by simp [hx]))]
    rfl

/-- Non-vacuity: one source, two destinations; the second frame carries the second one. -/
example :
    runUdp 2 [] [⟨1, strV4 10 0 0 1, 53, [1], 7, 100⟩, ⟨1, strV4 10 0 0 2, 5353, [2, 44], 8, 101⟩] =
      [.open_ 7 [50], .data 7 (bytesOfStr "10.0.0.1,53," ++ [1]),
       .data 7 (bytesOfStr "10.0.0.2,5353," ++ [2, 44])] := by decide

/-- **Refresh before the sweep.** The call that handles a datagram from `src` leaves `src`'s
association in the table on the very channel its `UDP_DATA` went out on (the known channel if
there was one), at any clock reading: the expiry sweep at the end of the call can close other
sources' associations, never the one just used, so the next datagram of `src` needs no new
`UDP_OPEN` and cannot land on a closed channel. -/
theorem C05_udp_association_kept (tbl : UdpTable) (fam src : Nat) (ip : Text) (port : Int) (data : Bytes)
    (fresh now : Nat) (hasc : isAscii ip = true) (hf : fresh ≠ 0) :
    ∃ c, (onacceptUdp tbl fam src ip port data (some fresh) now).1.find src = some c ∧
      UdpEv.data c (encodeUdp ip port data) ∈ (onacceptUdp tbl fam src ip port data (some fresh) now).2 ∧
      (∀ c', tbl.find src = some c' → c = c') :=
  onacceptUdp_keeps tbl fam src ip port data fresh now hasc hf

/-- Non-vacuity with expiry: source 2's association (deadline 130) is swept at time 140 while
source 1, refreshed in the same call, stays; source 2 then gets a fresh `UDP_OPEN`. -/
example :
    runUdp 2 [] [⟨1, strV4 10 0 0 1, 53, [], 7, 100⟩, ⟨2, strV4 10 0 0 1, 53, [], 8, 100⟩,
                 ⟨1, strV4 10 0 0 9, 99, [], 9, 140⟩, ⟨2, strV4 10 0 0 3, 53, [], 9, 141⟩] =
      [.open_ 7 [50], .data 7 (bytesOfStr "10.0.0.1,53,"),
       .open_ 8 [50], .data 8 (bytesOfStr "10.0.0.1,53,"),
       .data 7 (bytesOfStr "10.0.0.9,99,"), .close 8,
       .open_ 9 [50], .data 9 (bytesOfStr "10.0.0.3,53,")] := by decide

/-! ## 4. Self-address guard -/

/-- `onaccept_tcp`: if the recovered destination has the accepted socket's own port and
`islocal` says the address is local, the connection is closed and nothing is sent. -/
theorem C05_self_guard (fam : Nat) (ip : Text) (port : Int) (chan : Option Nat) :
    onacceptTcp fam ip port port .yes chan = [.close] := by
  simp [onacceptTcp]

/-- The guard does not depend on what address the listener is bound to: with a wildcard
listener (`0.0.0.0` / `::`), or one bound to another local address than the one dialled, a
connection to the proxy's port on *any* local address is dropped (`isLocalAddr` is what the
bind probe of `islocal` answers; `sockPort`, the accepted socket's own port, is the listener's). -/
theorem C05_self_guard_bind (fam : Nat) (bindIp dstIp : Text) (wildcard : Bool) (listenPort dstPort : Int)
    (isLocalAddr : Text → Bool) (chan : Option Nat)
    (h : IsSelf bindIp wildcard listenPort dstIp dstPort isLocalAddr) :
    onacceptTcp fam dstIp dstPort listenPort (if isLocalAddr dstIp then .yes else .no) chan = [.close] := by
  obtain ⟨hp, hl, _⟩ := h
  subst hp
  simp [hl, C05_self_guard]

example : IsSelf (bytesOfStr "0.0.0.0") true 12300 (bytesOfStr "192.168.7.5") 12300
    (fun t => t == bytesOfStr "192.168.7.5" || t == bytesOfStr "127.0.0.1") := by
  refine ⟨rfl, by decide, Or.inl rfl⟩

/-- Otherwise (different port — `islocal` is then not even consulted — or not local), with a
free channel id, exactly one CONNECT carrying that destination is sent and the socket is kept. -/
theorem C05_self_guard_else (fam : Nat) (ip : Text) (port sockPort : Int) (isl : IsLocal) (c : Nat)
    (hnot : port ≠ sockPort ∨ isl = .no) (hc : c ≠ 0) (hascii : isAscii ip = true) :
    onacceptTcp fam ip port sockPort isl (some c) = [.connect c (encodeConnect fam ip port)] := by
  unfold onacceptTcp
  by_cases hp : port = sockPort
  · rcases hnot with h | h
    · exact absurd hp h
    · subst h
      cases c with
      | zero => exact absurd rfl hc
      | succ c => simp [hp, hascii]
  · cases c with
    | zero => exact absurd rfl hc
    | succ c => simp [hp, hascii]

example : onacceptTcp 2 (strV4 10 0 0 1) 80 12300 .no (some 7) =
    [.connect 7 (bytesOfStr "2,10.0.0.1,80")] := by decide

/-- No channel id left (`next_channel()` returned `None`): the connection is closed, no
CONNECT. -/
theorem C05_no_channel (fam : Nat) (ip : Text) (port sockPort : Int)
    (hnot : port ≠ sockPort) : onacceptTcp fam ip port sockPort .no none = [.close] := by
  simp [onacceptTcp, hnot]

/-! ## 5. UDP: ancillary data (tproxy `recv_udp`) -/

/-- `IP_ORIGDSTADDR`: on a little-endian **and** on a big-endian host, whatever foreign
ancillary items come first, the decoded destination is the address bytes at offset 4 as a dotted
quad and the port in network order — for every address and port. -/
theorem C05_cmsg_v4 (le : Bool) (port : Nat) (x : V4) (pad : Bytes) (noise rest : List Cmsg)
    (hp : port < 65536) (hn : ∀ n ∈ noise, n.Foreign) :
    tproxyRecvUdp le (noise ++ origDstCmsgV4 le C05.AF_INET port x pad :: rest) =
      .ok (strV4 x.a x.b x.c x.d) port := by
  rw [tproxy_skip le noise _ hn]; exact tproxy_v4 le port x pad rest hp

/-- `IPV6_ORIGDSTADDR`: the sixteen address bytes start at offset 8 (after flowinfo), for any
flowinfo / scope id, both byte orders. -/
theorem C05_cmsg_v6 (le : Bool) (port : Nat) (flow : Bytes) (gs : List Nat) (scope : Bytes)
    (noise rest : List Cmsg) (hp : port < 65536) (hflow : flow.length = 4) (hgs : gs.length = 8)
    (hn : ∀ n ∈ noise, n.Foreign) :
    tproxyRecvUdp le (noise ++ origDstCmsgV6 le C05.AF_INET6 port flow gs scope :: rest) =
      .ok (ntopV6 gs) port := by
  rw [tproxy_skip le noise _ hn]; exact tproxy_v6 le port flow gs scope rest hp hflow hgs

example : (∀ n ∈ [(⟨1, 20, [1, 2]⟩ : Cmsg)], n.Foreign) ∧
    tproxyRecvUdp true [⟨1, 20, [1, 2]⟩, origDstCmsgV4 true C05.AF_INET 0x1234 ⟨10, 0, 0, 7⟩ [0, 0, 0, 0, 0, 0, 0, 0]]
      = .ok (bytesOfStr "10.0.0.7") 0x1234 := by
  constructor
  · intro n hn; simp at hn; subst hn; simp [Cmsg.Foreign]
  · decide

/-- No recognised ancillary item: `dstip = None`, and `Method.recv_udp` drops the datagram. -/
theorem C05_cmsg_none (le : Bool) (noise : List Cmsg) (hn : ∀ n ∈ noise, n.Foreign) :
    tproxyRecvUdp le noise = .none_ := by
  have := tproxy_skip le noise [] hn
  simpa [tproxyRecvUdp] using this

/-- **Never a wrong address.** For *every* ancillary list `recvmsg` can deliver (any number
and order of control messages, any contents, truncated or not), on either byte order: if
`recv_udp` returns a destination at all, it is the decode of the first recognised
`ORIGDSTADDR` item at the real `sockaddr_in` / `sockaddr_in6` offsets — port in network order at
2..4, IPv4 address at 4..8, IPv6 address at 8..24 after the flowinfo word, sixteen bytes all
present — and everything before that item is foreign. -/
theorem C05_cmsg_total (le : Bool) (cs : List Cmsg) (ip : Text) (port : Nat)
    (h : tproxyRecvUdp le cs = .ok ip port) :
    ∃ pre c post, cs = pre ++ c :: post ∧ (∀ n ∈ pre, n.Foreign) ∧ DecodesTo le c ip port :=
  tproxy_ok_inv le cs ip port h

/-- **A truncated item never yields a destination.** If the first recognised item is an
`IPV6_ORIGDSTADDR` whose data stops before byte 24 (resp. an `IP_ORIGDSTADDR` stopping before
byte 8), `recv_udp` does not return a destination (it raises; nothing is forwarded). -/
theorem C05_cmsg_truncated (le : Bool) (pre post : List Cmsg) (c : Cmsg) (ip : Text) (port : Nat)
    (hpre : ∀ n ∈ pre, n.Foreign)
    (hc : (c.level = 41 ∧ c.type = 74 ∧ c.data.length < 24) ∨ (c.level = 0 ∧ c.type = 20 ∧ c.data.length < 8)) :
    tproxyRecvUdp le (pre ++ c :: post) ≠ .ok ip port := by
  intro h
  rw [tproxy_skip le pre _ hpre] at h
  obtain ⟨pre', c', post', hcs, hpre', f0, f1, p1, p0, _, _, hd⟩ := tproxy_ok_inv le _ ip port h
  cases pre' with
  | cons n ns =>
    simp only [List.cons_append, List.cons.injEq] at hcs
    have := hpre' n (by simp)
    rw [← hcs.1] at this
    rcases hc with hc | hc
    · exact this.2 ⟨hc.1, hc.2.1⟩
    · exact this.1 ⟨hc.1, hc.2.1⟩
  | nil =>
    simp only [List.nil_append, List.cons.injEq] at hcs
    rw [← hcs.1] at hd
    rcases hd with ⟨l4, t4, _, a, b, c'', d, hpk, _⟩ | ⟨l6, t6, _, hlen, _⟩
    · rcases hc with hc | hc
      · omega
      · have : ((c.data.drop 4).take 4).length = 4 := by rw [hpk]; rfl
        simp only [List.length_take, List.length_drop] at this
        omega
    · rcases hc with hc | hc
      · simp only [List.length_take, List.length_drop] at hlen
        omega
      · omega

/-- **The control buffer the code asks for is big enough — and the next smaller size is not.**
With `CMSG_SPACE(24)` (the size read from the source) the kernel hands over the first 24 bytes
of the 28-byte `sockaddr_in6` (scope id cut off, `MSG_CTRUNC`), which still hold the whole
address: the destination is recovered for every address and port.  With `CMSG_SPACE(16)` the
same datagram makes `recv_udp` raise. -/
theorem C05_cmsg_buffer (le : Bool) (port : Nat) (x : V4) (pad : Bytes) (flow : Bytes) (gs : List Nat)
    (scope : Bytes) (hp : port < 65536) (hpad : pad.length = 8) (hflow : flow.length = 4)
    (hgs : gs.length = 8) (hscope : scope.length = 4) :
    tproxyRecvUdp le (kernelAncillary (cmsgSpace C05.TPROXY_ANC_DATA)
        [origDstCmsgV4 le C05.AF_INET port x pad]) = .ok (strV4 x.a x.b x.c x.d) port ∧
    tproxyRecvUdp le (kernelAncillary (cmsgSpace C05.TPROXY_ANC_DATA)
        [origDstCmsgV6 le C05.AF_INET6 port flow gs scope]) = .ok (ntopV6 gs) port ∧
    tproxyRecvUdp le (kernelAncillary (cmsgSpace 16)
        [origDstCmsgV6 le C05.AF_INET6 port flow gs scope]) = .valueError := by
  have hport := port_native le port hp
  match pad, hpad, flow, hflow, gs, hgs, scope, hscope with
  | [q0, q1, q2, q3, q4, q5, q6, q7], _, [a, b, c, d], _, [g0, g1, g2, g3, g4, g5, g6, g7], _, [s0, s1, s2, s3], _ =>
    have k4 : kernelAncillary (cmsgSpace C05.TPROXY_ANC_DATA)
        [origDstCmsgV4 le C05.AF_INET port x [q0, q1, q2, q3, q4, q5, q6, q7]] =
        [origDstCmsgV4 le C05.AF_INET port x [q0, q1, q2, q3, q4, q5, q6, q7]] := by
      cases le <;> simp [kernelAncillary, cmsgSpace, cmsgHdr, cmsgAlign, C05.TPROXY_ANC_DATA, origDstCmsgV4, native16]
    have k6 : kernelAncillary (cmsgSpace C05.TPROXY_ANC_DATA)
        [origDstCmsgV6 le C05.AF_INET6 port [a, b, c, d] [g0, g1, g2, g3, g4, g5, g6, g7] [s0, s1, s2, s3]] =
        [origDstCmsgV6 le C05.AF_INET6 port [a, b, c, d] [g0, g1, g2, g3, g4, g5, g6, g7] []] := by
      cases le <;> simp [kernelAncillary, cmsgSpace, cmsgHdr, cmsgAlign, C05.TPROXY_ANC_DATA, origDstCmsgV6,
        native16, v6Bytes, packGroups]
    refine ⟨?_, ?_, ?_⟩
    · rw [k4]; exact tproxy_v4 le port x _ [] hp
    · rw [k6]; exact tproxy_v6 le port _ _ [] [] hp rfl rfl
    · cases le <;>
        simp [kernelAncillary, cmsgSpace, cmsgHdr, cmsgAlign, origDstCmsgV6, native16, v6Bytes, packGroups,
          tproxyRecvUdp, tproxyOne, inetNtop, rd16, C05.SOL_IP, C05.TPROXY_IP_ORIGDSTADDR, C05.TPROXY_SOL_IPV6,
          C05.TPROXY_IPV6_ORIGDSTADDR, C05.TPROXY_V6_START, C05.TPROXY_V6_LENGTH, C05.AF_INET6, C05.AF_INET]

/-! ## 6. pf: the QUERY_PF_NAT dialogue -/

/-- The request line always fits the helper's `readline(128)`: for every family number below
100, all ports, and address texts up to 45 characters (`INET6_ADDRSTRLEN - 1`). -/
theorem C05_pf_request_short (fam : Nat) (peerIp proxyIp : Text) (pp qp : Nat)
    (hfam : fam < 100) (hpp : pp < 65536) (hqp : qp < 65536)
    (h1 : peerIp.length ≤ 45) (h2 : proxyIp.length ≤ 45) :
    (pfRequest fam peerIp (Int.ofNat pp) proxyIp (Int.ofNat qp)).length < C05.FW_READLINE_MAX := by
  have l1 := decNat_length 1 fam (by simpa using hfam)
  have l2 := decNat_length 4 pp (by simp; omega)
  have l3 := decNat_length 4 qp (by simp; omega)
  have l4 : (decNat C05.IPPROTO_TCP).length = 1 := by decide
  have l5 : pfReqPrefix.length = 13 := by decide
  simp only [pfRequest, fmtD, List.length_append, List.length_cons, List.length_nil, l4, l5]
  have : C05.FW_READLINE_MAX = 128 := by decide
  omega

/-- What the helper works on (`readline(128).decode().strip()`) is the request without its
newline. -/
theorem C05_pf_request_strip (fam : Nat) (src : Text) (sport : Nat) (dst : Text) (dport : Nat) :
    strip (pfRequest fam src (Int.ofNat sport) dst (Int.ofNat dport)) =
      pfCmdLine fam src sport dst dport := by
  rw [pfRequest_eq]
  apply strip_line
  · intro c hc; simp [pfCmdLine, pfReqPrefix, C05.PF_CMD_PREFIX, bytesOfStr] at hc; subst hc; decide
  · intro c hc
    have hX : pfCmdLine fam src sport dst dport =
        (pfReqPrefix ++ (decNat fam ++ 44 :: (decNat C05.IPPROTO_TCP ++ 44 :: (src ++ 44 ::
          (decNat sport ++ 44 :: (dst ++ [44])))))) ++ decNat dport := by
      simp [pfCmdLine, joinSep]
    rw [hX, List.getLast?_append] at hc
    cases hq : (decNat dport).getLast? with
    | none => exact absurd (List.getLast?_eq_none_iff.mp hq) (decNat_ne_nil dport)
    | some v =>
      rw [hq] at hc
      simp at hc
      subst hc
      exact isSpace_of_digit (decNat_digits dport v (List.mem_of_getLast? hq))
  · simp [pfCmdLine, pfReqPrefix, C05.PF_CMD_PREFIX, bytesOfStr]

/-- **pf dialogue, IPv4.** On each of the three platform layouts, with the kernel modelled as
a table from the lookup key it reads out of the structure (`af`, `proto`, direction, source
address/port, destination address/port at that platform's offsets): the client's request
fits the helper's line read, the helper hands the kernel exactly the accepted socket's peer and
proxy endpoints, and the client gets back exactly the address and port the kernel answered. -/
theorem C05_pf_dialogue_v4 (L : PfLayout) (hL : L ∈ knownLayouts) (table : NatKey → NatlookRes)
    (s d r : V4) (sport dport rport : Nat) (pad : Bytes)
    (hs : s.Wf) (hd : d.Wf) (hsp : sport < 65536) (hdp : dport < 65536)
    (hk : table ⟨C05.AF_INET, C05.IPPROTO_TCP, C05.PF_OUT, s.bytes, d.bytes, sport, dport⟩ =
            .found (r.bytes ++ pad) rport) :
    let line := pfRequest C05.AF_INET (strV4 s.a s.b s.c s.d) (Int.ofNat sport)
                  (strV4 d.a d.b d.c d.d) (Int.ofNat dport)
    let reply := pfOkPrefix ++ (strV4 r.a r.b r.c r.d ++ 44 :: (decNat rport ++ [10]))
    pfGetTcpDstip C05.AF_INET (.ok (strV4 s.a s.b s.c s.d) (Int.ofNat sport))
        (strV4 d.a d.b d.c d.d) (Int.ofNat dport) = .ask line ∧
    line.length < C05.FW_READLINE_MAX ∧
    pfFirewallCommand L (fun b n => table (readKey L b n)) (strip line) =
      .reply reply (some (pfMarshal L C05.AF_INET C05.IPPROTO_TCP s.bytes d.bytes sport dport)) ∧
    pfParseReply reply = .ok (strV4 r.a r.b r.c r.d) (Int.ofNat rport) := by
  have hkey := marshal_key4 L hL C05.AF_INET C05.IPPROTO_TCP s.a s.b s.c s.d d.a d.b d.c d.d sport dport
    (by decide) (by decide) hsp hdp
  refine ⟨?_, ?_, ?_, ?_⟩
  · simp [pfGetTcpDstip, (strV4_ok s.a s.b s.c s.d).2, (strV4_ok d.a d.b d.c d.d).2]
  · exact C05_pf_request_short _ _ _ _ _ (by decide) hsp hdp
      (by have := strV4_length s hs; omega) (by have := strV4_length d hd; omega)
  · rw [C05_pf_request_strip]
    exact pfFirewallCommand_ok L _ C05.AF_INET _ _ (strV4 r.a r.b r.c r.d) s.bytes d.bytes (r.bytes ++ pad)
      sport dport rport (inetPton_v4 s hs) (inetPton_v4 d hd) (strV4_ok _ _ _ _).1 (strV4_ok _ _ _ _).1 hsp hdp
      (by simp only [V4.bytes] at hkey hk ⊢
          rw [show ([s.a, s.b, s.c, s.d] : Bytes).length = 4 from rfl, hkey]; exact hk)
      (inetNtop_v4 r pad)
  · exact pfParseReply_ok _ rport (strV4_ok _ _ _ _).1 (strV4_ok _ _ _ _).2

/-- Non-vacuity: a kernel table with one NAT state, asked through the FreeBSD layout. -/
example :
    let table : NatKey → NatlookRes := fun k =>
      if k = ⟨C05.AF_INET, C05.IPPROTO_TCP, C05.PF_OUT, [10, 0, 0, 1], [127, 0, 0, 1], 40000, 12300⟩
      then .found [93, 184, 216, 34, 0, 0, 0, 0, 0, 0, 0, 0, 0, 0, 0, 0] 443 else .ioError
    knownLayouts.length = 3 ∧ (⟨10, 0, 0, 1⟩ : V4).Wf ∧
    ∃ L ∈ knownLayouts,
      pfFirewallCommand L (fun b n => table (readKey L b n))
        (strip (pfRequest C05.AF_INET (strV4 10 0 0 1) 40000 (strV4 127 0 0 1) 12300)) =
      .reply (bytesOfStr "QUERY_PF_NAT_SUCCESS 93.184.216.34,443\n")
        (some (pfMarshal L C05.AF_INET C05.IPPROTO_TCP [10, 0, 0, 1] [127, 0, 0, 1] 40000 12300)) := by
  refine ⟨by decide, by decide, ⟨0, 16, 48, 64, 66, 70, 72, 73, 75, 76⟩, by decide, by decide⟩

/-- **pf dialogue, IPv6** (addresses printed by `inet_ntop` on both sides). -/
theorem C05_pf_dialogue_v6 (L : PfLayout) (hL : L ∈ knownLayouts) (table : NatKey → NatlookRes)
    (s d r : List Nat) (sport dport rport : Nat) (pad : Bytes)
    (hs : V6Wf s) (hd : V6Wf d) (hr : r.length = 8) (hsp : sport < 65536) (hdp : dport < 65536)
    (hk : table ⟨C05.AF_INET6, C05.IPPROTO_TCP, C05.PF_OUT, v6Bytes s, v6Bytes d, sport, dport⟩ =
            .found (v6Bytes r ++ pad) rport) :
    let line := pfRequest C05.AF_INET6 (ntopV6 s) (Int.ofNat sport) (ntopV6 d) (Int.ofNat dport)
    let reply := pfOkPrefix ++ (ntopV6 r ++ 44 :: (decNat rport ++ [10]))
    pfGetTcpDstip C05.AF_INET6 (.ok (ntopV6 s) (Int.ofNat sport)) (ntopV6 d) (Int.ofNat dport) = .ask line ∧
    line.length < C05.FW_READLINE_MAX ∧
    pfFirewallCommand L (fun b n => table (readKey L b n)) (strip line) =
      .reply reply (some (pfMarshal L C05.AF_INET6 C05.IPPROTO_TCP (v6Bytes s) (v6Bytes d) sport dport)) ∧
    pfParseReply reply = .ok (ntopV6 r) (Int.ofNat rport) := by
  have hkey := marshal_key16 L hL C05.AF_INET6 C05.IPPROTO_TCP sport dport s d hs.1 hd.1
    (by decide) (by decide) hsp hdp
  have hlen : (packGroups s).length = 16 := by rw [packGroups_length, hs.1]
  refine ⟨?_, ?_, ?_, ?_⟩
  · simp [pfGetTcpDstip, (ntopV6_ok s).2, (ntopV6_ok d).2]
  · exact C05_pf_request_short _ _ _ _ _ (by decide) hsp hdp (ntopV6_length s hs) (ntopV6_length d hd)
  · rw [C05_pf_request_strip]
    exact pfFirewallCommand_ok L _ C05.AF_INET6 _ _ (ntopV6 r) (packGroups s) (packGroups d) (v6Bytes r ++ pad)
      sport dport rport (inetPton_v6 s hs) (inetPton_v6 d hd) (ntopV6_ok _).1 (ntopV6_ok _).1 hsp hdp
      (by simp only [v6Bytes] at hk ⊢; rw [hlen, hkey]; exact hk)
      (by rw [hlen]; exact inetNtop_v6 r pad hr)
  · exact pfParseReply_ok _ rport (ntopV6_ok _).1 (ntopV6_ok _).2

/-- **pf dialogue, no state found.** If the kernel's lookup fails (`IOError`), the helper
answers FAILURE and the client falls back to `getsockname()` — i.e. the proxy's own address,
which the self-address guard then drops (`C05_self_guard`). -/
theorem C05_pf_dialogue_failure (L : PfLayout) (hL : L ∈ knownLayouts) (table : NatKey → NatlookRes)
    (s d : V4) (sport dport : Nat)
    (hs : s.Wf) (hd : d.Wf) (hsp : sport < 65536) (hdp : dport < 65536)
    (hk : table ⟨C05.AF_INET, C05.IPPROTO_TCP, C05.PF_OUT, s.bytes, d.bytes, sport, dport⟩ = .ioError) :
    let line := pfRequest C05.AF_INET (strV4 s.a s.b s.c s.d) (Int.ofNat sport)
                  (strV4 d.a d.b d.c d.d) (Int.ofNat dport)
    pfFirewallCommand L (fun b n => table (readKey L b n)) (strip line) =
      .reply (bytesOfStr "QUERY_PF_NAT_FAILURE\n")
        (some (pfMarshal L C05.AF_INET C05.IPPROTO_TCP s.bytes d.bytes sport dport)) ∧
    ∀ rest, pfParseReply (bytesOfStr "QUERY_PF_NAT_FAILURE" ++ rest) = .sockname := by
  have hkey := marshal_key4 L hL C05.AF_INET C05.IPPROTO_TCP s.a s.b s.c s.d d.a d.b d.c d.d sport dport
    (by decide) (by decide) hsp hdp
  refine ⟨?_, pfParseReply_failure⟩
  rw [C05_pf_request_strip]
  exact pfFirewallCommand_miss L _ C05.AF_INET _ _ s.bytes d.bytes sport dport
    (inetPton_v4 s hs) (inetPton_v4 d hd) (strV4_ok _ _ _ _).1 (strV4_ok _ _ _ _).1 hsp hdp
    (by simp only [V4.bytes] at hkey hk ⊢
        rw [show ([s.a, s.b, s.c, s.d] : Bytes).length = 4 from rfl, hkey]; exact hk)

/-- `getpeername()` failing with EINVAL: `getsockname()` is used without asking the helper. -/
theorem C05_pf_peer_einval (fam : Nat) (ip : Text) (port : Int) :
    pfGetTcpDstip fam .einval ip port = .sockname := rfl

/-- **Sessions: replies pair with requests.** For every interleaving of `HOST` lines (whose
hosts-file rewrite may fail) and original-destination queries for any number of connections,
each query reads the reply to *its own* request while the helper lives, and end-of-file (→
`getsockname()` → dropped by the self guard) once a failed rewrite has ended the helper; no
line is ever left over for a later query. -/
theorem C05_pf_session_pairing (ops : List SOp) (s : Sess) (hp : s.pending = []) :
    sessRun s ops = sessExpected s.alive ops := by
  induction ops generalizing s with
  | nil => rfl
  | cons op ops ih =>
    obtain ⟨pending, alive⟩ := s
    simp only at hp
    subst hp
    cases op with
    | host fails =>
      cases alive <;> simp [sessRun, sessStep, sessExpected, ih]
    | query reply =>
      cases alive <;> simp [sessRun, sessStep, sessExpected, ih]

example : sessRun {} [.query [1], .host false, .query [2], .host true, .query [3]] =
    [some (.line [1]), none, some (.line [2]), none, some .eof] := by decide

/-! ## 7. End to end -/

/-- Second half shared by every TCP path: once `get_tcp_dstip` has produced `(ip, port)` with
`ip` a comma-free ASCII text, and the destination is not the proxy itself, the server's
`connect_dst` receives exactly that text and port, on an `AF_INET` socket iff the client's
listener was `AF_INET`. -/
theorem C05_connect_path (fam : Nat) (ip : Text) (port : Nat) (sockPort : Int) (isl : IsLocal) (c : Nat)
    (hip : 44 ∉ ip ∧ isAscii ip = true)
    (hnot : Int.ofNat port ≠ sockPort ∨ isl = .no) (hc : c ≠ 0) :
    onacceptTcp fam ip (Int.ofNat port) sockPort isl (some c) =
      [.connect c (encodeConnect fam ip (Int.ofNat port))] ∧
    newChannel (encodeConnect fam ip (Int.ofNat port)) =
      .ok (if fam = C05.AF_INET then C05.AF_INET else C05.AF_INET6) ip (Int.ofNat port) :=
  ⟨C05_self_guard_else fam ip _ sockPort isl c hnot hc hip.2, C05_connect_msg fam ip port hip.1 hip.2⟩

/-- **nat / nft, IPv4**: kernel `sockaddr_in` → `original_dst` → CONNECT → server: the server
connects an `AF_INET` socket to a text that denotes the dialled address, with the dialled port. -/
theorem C05_end_to_end_nat_v4 (f0 f1 port : Nat) (x : V4) (pad : Bytes) (lport : Int) (isl : IsLocal)
    (c : Nat) (hx : x.Wf) (hp : port < 65536) (hc : c ≠ 0) (hnot : Int.ofNat port ≠ lport ∨ isl = .no) :
    let t := strV4 x.a x.b x.c x.d
    originalDst C05.AF_INET (.bytes (sockaddrIn f0 f1 port x pad)) = .ok t port ∧
    onacceptTcp C05.AF_INET t (Int.ofNat port) lport isl (some c) =
      [.connect c (encodeConnect C05.AF_INET t (Int.ofNat port))] ∧
    newChannel (encodeConnect C05.AF_INET t (Int.ofNat port)) = .ok C05.AF_INET t (Int.ofNat port) ∧
    DenotesV4 t x := by
  have h := C05_connect_path C05.AF_INET (strV4 x.a x.b x.c x.d) port lport isl c (strV4_ok _ _ _ _) hnot hc
  exact ⟨C05_sockaddr_in f0 f1 port x pad hp, h.1, by simpa using h.2, C05_text_roundtrip_v4 x hx⟩

example : (⟨192, 168, 1, 1⟩ : V4).Wf ∧ (Int.ofNat 443 ≠ (12300 : Int) ∨ IsLocal.yes = .no) := by decide

/-- **nat / nft, IPv6**: the same with `sockaddr_in6` and CPython's IPv6 text; the server opens
an `AF_INET6` socket. -/
theorem C05_end_to_end_nat_v6 (f0 f1 port : Nat) (flow : Bytes) (gs : List Nat) (scope : Bytes)
    (lport : Int) (isl : IsLocal) (c : Nat) (hgs : V6Wf gs) (hflow : flow.length = 4)
    (hp : port < 65536) (hc : c ≠ 0) (hnot : Int.ofNat port ≠ lport ∨ isl = .no) :
    let t := strV6 gs
    originalDst C05.AF_INET6 (.bytes (sockaddrIn6 f0 f1 port flow gs scope)) = .ok t port ∧
    onacceptTcp C05.AF_INET6 t (Int.ofNat port) lport isl (some c) =
      [.connect c (encodeConnect C05.AF_INET6 t (Int.ofNat port))] ∧
    newChannel (encodeConnect C05.AF_INET6 t (Int.ofNat port)) = .ok C05.AF_INET6 t (Int.ofNat port) ∧
    DenotesV6 t gs := by
  have h := C05_connect_path C05.AF_INET6 (strV6 gs) port lport isl c (strV6_ok gs) hnot hc
  have hne : C05.AF_INET6 ≠ C05.AF_INET := by decide
  exact ⟨C05_sockaddr_in6 f0 f1 port flow gs scope hp hflow hgs.1, h.1, by simpa [hne] using h.2,
    C05_text_roundtrip_v6 gs hgs⟩

/-- **tproxy / ipfw TCP** (`getsockname()` of the accepted transparent socket, printed by libc)
and **pf** (the text parsed from the helper's reply, `C05_pf_dialogue_v4/_v6`): for a
destination text printed by `inet_ntop`, the server connects to a text denoting that address.
`fam6` is whatever number the client's platform uses for `AF_INET6`. -/
theorem C05_end_to_end_ntop (fam6 : Nat) (x : V4) (gs : List Nat) (port : Nat) (sockPort : Int)
    (isl : IsLocal) (c : Nat) (hx : x.Wf) (hgs : V6Wf gs) (hfam : fam6 ≠ C05.AF_INET)
    (hc : c ≠ 0) (hnot : Int.ofNat port ≠ sockPort ∨ isl = .no) :
    (onacceptTcp C05.AF_INET (strV4 x.a x.b x.c x.d) (Int.ofNat port) sockPort isl (some c) =
        [.connect c (encodeConnect C05.AF_INET (strV4 x.a x.b x.c x.d) (Int.ofNat port))] ∧
      newChannel (encodeConnect C05.AF_INET (strV4 x.a x.b x.c x.d) (Int.ofNat port)) =
        .ok C05.AF_INET (strV4 x.a x.b x.c x.d) (Int.ofNat port) ∧
      DenotesV4 (strV4 x.a x.b x.c x.d) x) ∧
    (onacceptTcp fam6 (ntopV6 gs) (Int.ofNat port) sockPort isl (some c) =
        [.connect c (encodeConnect fam6 (ntopV6 gs) (Int.ofNat port))] ∧
      newChannel (encodeConnect fam6 (ntopV6 gs) (Int.ofNat port)) =
        .ok C05.AF_INET6 (ntopV6 gs) (Int.ofNat port) ∧
      DenotesV6 (ntopV6 gs) gs) := by
  have h4 := C05_connect_path C05.AF_INET (strV4 x.a x.b x.c x.d) port sockPort isl c (strV4_ok _ _ _ _) hnot hc
  have h6 := C05_connect_path fam6 (ntopV6 gs) port sockPort isl c (ntopV6_ok gs) hnot hc
  exact ⟨⟨h4.1, by simpa using h4.2, C05_text_roundtrip_v4 x hx⟩,
    ⟨h6.1, by simpa [hfam] using h6.2, C05_text_roundtrip_v6_ntop gs hgs⟩⟩

/-- **One TCP round trip over the text model.** Whatever the application dialled — an IPv4
address, an IPv6 address, or a scoped link-local IPv6 address such as `fe80::1%eth0` — and
whichever way the client printed it (dotted quad; CPython's or libc's IPv6 text; either
followed by `%zone`), for every port, every family number of the client's platform and every
listener port that is not the self case: `onaccept_tcp` sends exactly one CONNECT, the server
parses it back to exactly that text and port (it neither rewrites nor rejects the text — a
`%zone` suffix included), opens an `AF_INET` socket iff the destination is IPv4, and the text
denotes the dialled address. -/
theorem C05_tcp_roundtrip (d : Dialled) (t : Text) (fam port : Nat) (sockPort : Int) (isl : IsLocal) (c : Nat)
    (hd : d.Wf) (ht : d.Printed t) (hc : c ≠ 0) (hnot : Int.ofNat port ≠ sockPort ∨ isl = .no) :
    onacceptTcp fam t (Int.ofNat port) sockPort isl (some c) =
      [.connect c (encodeConnect fam t (Int.ofNat port))] ∧
    newChannel (encodeConnect fam t (Int.ofNat port)) =
      .ok (if fam = C05.AF_INET then C05.AF_INET else C05.AF_INET6) t (Int.ofNat port) ∧
    d.Denoted t := by
  have hzone : ∀ (a zone : Text), (44 ∉ a ∧ isAscii a = true) →
      (∀ c ∈ zone, (48 ≤ c ∧ c ≤ 57) ∨ (97 ≤ c ∧ c ≤ 122) ∨ (65 ≤ c ∧ c ≤ 90)) →
      (44 ∉ a ++ 37 :: zone ∧ isAscii (a ++ 37 :: zone) = true) := by
    intro a zone ha hz
    rw [isAscii_iff] at ha ⊢
    constructor
    · intro hm
      simp only [List.mem_append, List.mem_cons] at hm
      rcases hm with h | h | h
      · exact ha.1 h
      · omega
      · have := hz 44 h; omega
    · intro x hx
      simp only [List.mem_append, List.mem_cons] at hx
      rcases hx with h | h | h
      · exact ha.2 x h
      · omega
      · have := hz x h; omega
  have hbreak : ∀ (a zone : Text), (∀ x ∈ a, isHexLower x = true ∨ x = 58 ∨ x = 46) →
      breakAt 37 (a ++ 37 :: zone) = some (a, zone) := by
    intro a zone ha
    apply breakAt_append
    intro hm
    rcases ha 37 hm with h | h | h
    · simp [isHexLower, isDigit] at h
    · omega
    · omega
  have alpha6 : ∀ gs x, x ∈ strV6 gs → isHexLower x = true ∨ x = 58 ∨ x = 46 := by
    intro gs x hx
    rcases strV6_alphabet gs x hx with h | h
    · exact Or.inl h
    · exact Or.inr (Or.inl h)
  have fin : ∀ (hok : 44 ∉ t ∧ isAscii t = true) (hden : d.Denoted t), _ := fun hok hden =>
    (⟨(C05_connect_path fam t port sockPort isl c hok hnot hc).1,
      (C05_connect_path fam t port sockPort isl c hok hnot hc).2, hden⟩ :
      onacceptTcp fam t (Int.ofNat port) sockPort isl (some c) =
        [.connect c (encodeConnect fam t (Int.ofNat port))] ∧
      newChannel (encodeConnect fam t (Int.ofNat port)) =
        .ok (if fam = C05.AF_INET then C05.AF_INET else C05.AF_INET6) t (Int.ofNat port) ∧
      d.Denoted t)
  cases d with
  | v4 x =>
    simp only [Dialled.Printed] at ht
    subst ht
    exact fin (strV4_ok _ _ _ _) (C05_text_roundtrip_v4 x hd)
  | v6 gs =>
    simp only [Dialled.Printed] at ht
    rcases ht with rfl | rfl
    · exact fin (strV6_ok gs) (C05_text_roundtrip_v6 gs hd)
    · exact fin (ntopV6_ok gs) (C05_text_roundtrip_v6_ntop gs hd)
  | v6scoped gs zone =>
    simp only [Dialled.Printed] at ht
    obtain ⟨hgs, _, hz⟩ := hd
    rcases ht with rfl | rfl
    · exact fin (hzone _ _ (strV6_ok gs) hz)
        ⟨strV6 gs, hbreak _ _ (alpha6 gs), parseV6_strV6 gs hgs.1 hgs.2⟩
    · exact fin (hzone _ _ (ntopV6_ok gs) hz)
        ⟨ntopV6 gs, hbreak _ _ (ntopV6_alphabet gs), parseV6_ntopV6 gs hgs.1 hgs.2⟩

example : (Dialled.v6scoped [0xfe80, 0, 0, 0, 0, 0, 0, 1] (bytesOfStr "eth0")).Wf ∧
    (Dialled.v6scoped [0xfe80, 0, 0, 0, 0, 0, 0, 1] (bytesOfStr "eth0")).Printed (bytesOfStr "fe80::1%eth0") := by
  refine ⟨⟨by decide, by decide, by decide⟩, Or.inr (by decide)⟩

/-- **pf sessions end to end.** In a session whose hosts-file rewrites all succeed, for every
interleaving of `HOST` lines and queries, the k-th accepted connection's `get_tcp_dstip`
parses, from the line it reads, exactly the address text and port the kernel answered for
*that* connection (then `C05_tcp_roundtrip` carries it to the server). -/
theorem C05_pf_session_destinations (ops : List SOp)
    (hops : ∀ op ∈ ops, op = .host false ∨
      ∃ ip port, (44 ∉ ip ∧ isAscii ip = true) ∧
        op = .query (pfOkPrefix ++ (ip ++ 44 :: (decNat port ++ [10])))) :
    ∀ r ∈ sessRun {} ops, r = none ∨
      ∃ ip port, r = some (.line (pfOkPrefix ++ (ip ++ 44 :: (decNat port ++ [10])))) ∧
        pfParseReply (pfOkPrefix ++ (ip ++ 44 :: (decNat port ++ [10]))) = .ok ip (Int.ofNat port) := by
  rw [C05_pf_session_pairing ops {} rfl]
  have key : ∀ (ops : List SOp), (∀ op ∈ ops, op = .host false ∨
      ∃ ip port, (44 ∉ ip ∧ isAscii ip = true) ∧
        op = .query (pfOkPrefix ++ (ip ++ 44 :: (decNat port ++ [10])))) →
      ∀ r ∈ sessExpected true ops, r = none ∨
      ∃ ip port, r = some (.line (pfOkPrefix ++ (ip ++ 44 :: (decNat port ++ [10])))) ∧
        pfParseReply (pfOkPrefix ++ (ip ++ 44 :: (decNat port ++ [10]))) = .ok ip (Int.ofNat port) := by
    intro ops
    induction ops with
    | nil => intro _ r hr; simp [sessExpected] at hr
    | cons op rest ih =>
      intro h r hr
      rcases h op (by simp) with rfl | ⟨ip, port, hip, rfl⟩
      · simp only [sessExpected, Bool.not_false, Bool.and_self, List.mem_cons] at hr
        rcases hr with rfl | hr
        · exact Or.inl rfl
        · exact ih (fun o ho => h o (by simp [ho])) r hr
      · simp only [sessExpected, ↓reduceIte, List.mem_cons] at hr
        rcases hr with rfl | hr
        · exact Or.inr ⟨ip, port, rfl, pfParseReply_ok ip port hip.1 hip.2⟩
        · exact ih (fun o ho => h o (by simp [ho])) r hr
  exact key ops hops

/-- **tproxy UDP**: kernel cmsg → `recv_udp` → `b"%s,%d," + data` → server `split(b',', 2)` →
`sendto`: same payload (whatever bytes it holds), same port, a text denoting the dialled
address — both families, both host byte orders. -/
theorem C05_end_to_end_udp (le : Bool) (port : Nat) (x : V4) (pad flow : Bytes) (gs : List Nat)
    (scope data : Bytes) (noise : List Cmsg) (hx : x.Wf) (hgs : V6Wf gs) (hflow : flow.length = 4)
    (hp : port < 65536) (hn : ∀ n ∈ noise, n.Foreign) :
    (tproxyRecvUdp le (noise ++ [origDstCmsgV4 le C05.AF_INET port x pad]) = .ok (strV4 x.a x.b x.c x.d) port ∧
      udpReq (encodeUdp (strV4 x.a x.b x.c x.d) (Int.ofNat port) data) =
        .ok (strV4 x.a x.b x.c x.d) (Int.ofNat port) data ∧
      DenotesV4 (strV4 x.a x.b x.c x.d) x) ∧
    (tproxyRecvUdp le (noise ++ [origDstCmsgV6 le C05.AF_INET6 port flow gs scope]) = .ok (ntopV6 gs) port ∧
      udpReq (encodeUdp (ntopV6 gs) (Int.ofNat port) data) = .ok (ntopV6 gs) (Int.ofNat port) data ∧
      DenotesV6 (ntopV6 gs) gs) :=
  ⟨⟨C05_cmsg_v4 le port x pad noise [] hp hn, C05_udp_hdr _ port data (strV4_ok _ _ _ _).1,
      C05_text_roundtrip_v4 x hx⟩,
   ⟨C05_cmsg_v6 le port flow gs scope noise [] hp hflow hgs.1 hn, C05_udp_hdr _ port data (ntopV6_ok gs).1,
      C05_text_roundtrip_v6_ntop gs hgs⟩⟩

end Sshuttle.Dst
