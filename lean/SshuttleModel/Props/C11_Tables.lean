/-
C11 — towards the invariant `C11_one_socket_per_source_partial` assumes.

`TablesInChans` ("every id in `udp_by_src` is occupied in `mux.channels` by the callback of that
very source") is what makes a fresh id differ from all ids in use.  Here: the allocating half of
`onaccept_udp` — `udp_by_src` lookup / `next_channel` + `mux.channels[chan] = …`, then
`udp_by_src[srcip] = chan, timeout` — preserves it, for a new source and for a known one alike.
The `expire_connections` half preserves it too (`C11_tables_in_chans_after_expire`), given that DNS ids
carry DNS callbacks (`DnsInChans`) and `udp_by_src` has one entry per source (`SrcUnique`); `SrcUnique` follows from
`SrcNodup`, which both halves of `onaccept_udp` preserve (`C11_src_nodup_after_alloc/_expire`); that
`DnsInChans` is an invariant of every step is not yet proved.  Core Lean only.
-/
import SshuttleModel.Props.C11
import SshuttleModel.Lemmas.DgramExpire

namespace Sshuttle.Dgram

theorem C11_tables_in_chans_after_alloc (cfg : Cfg) (lsn : Nat) (src : Addr) (c c1 : Client)
    (chan dl : Nat) (opens : List Frame) (hinv : TablesInChans c)
    (h : udpAlloc cfg lsn src c = (c1, some (chan, opens))) :
    TablesInChans { c1 with udpBySrc := set src (chan, dl) c1.udpBySrc } := by
  obtain ⟨_, _, e3, e4⟩ := udpAlloc_ok h
  intro p hp
  simp only [e3] at hp
  simp only
  rcases e4 with ⟨ech, e5 | ⟨ch, t, e5, e6⟩⟩ | ⟨ch, _, hfree, ech, e5⟩
  · cases e5
  · -- known source: nothing registered, same id
    simp only [Option.some.injEq, Prod.mk.injEq] at e6
    obtain ⟨rfl, _⟩ := e6
    rw [ech]
    rcases mem_set hp with rfl | hp'
    · exact hinv (src, (chan, t)) (lookup_mem e5)
    · exact hinv p hp'
  · -- new source: a free id was registered first
    simp only [Option.some.injEq, Prod.mk.injEq] at e5
    obtain ⟨rfl, _⟩ := e5
    rw [ech, ← set_of_not_hasKey _ _ _ hfree]
    rcases mem_set hp with rfl | hp'
    · exact ⟨lsn, lookup_set_self _ _ _⟩
    · obtain ⟨l, hl⟩ := hinv p hp'
      refine ⟨l, ?_⟩
      have hne : p.2.1 ≠ chan := by
        intro e
        rw [e] at hl
        exact (hasKey_eq_false_iff _ c.chans).1 hfree _ (lookup_mem hl) rfl
      rw [lookup_set_ne _ _ (Ne.symm hne)]
      exact hl

/-- Hence two different sources in the table after the allocation never share an id that a third,
new source is then given: the conclusion of `C11_one_socket_per_source_partial` holds again for
the next allocation. -/
theorem C11_alloc_twice_distinct (cfg : Cfg) (lsn lsn2 : Nat) (src src2 : Addr) (c c1 c2 : Client)
    (chan dl chan2 : Nat) (opens opens2 : List Frame) (hinv : TablesInChans c)
    (h : udpAlloc cfg lsn src c = (c1, some (chan, opens)))
    (hnew : lookup src2 (set src (chan, dl) c1.udpBySrc) = none)
    (h2 : udpAlloc cfg lsn2 src2 { c1 with udpBySrc := set src (chan, dl) c1.udpBySrc } =
      (c2, some (chan2, opens2))) :
    chan2 ≠ chan := by
  have hinv1 := C11_tables_in_chans_after_alloc cfg lsn src c c1 chan dl opens hinv h
  have := C11_one_socket_per_source_partial cfg lsn2 src2 _ c2 chan2 opens2 hinv1 hnew h2
    (src, (chan, dl)) (by
      simp only
      exact lookup_mem (lookup_set_self _ _ _))
  exact fun e => this e.symm

/-- Every id in the DNS table is occupied by a DNS callback. -/
def DnsInChans (c : Client) : Prop :=
  ∀ q ∈ c.dnsreqs, ∃ qid l a o, lookup q.1 c.chans = some (.dns qid l a o)

/-- `udp_by_src` is a dict: one entry per source. -/
def SrcUnique (c : Client) : Prop :=
  ∀ p ∈ c.udpBySrc, ∀ q ∈ c.udpBySrc, p.1 = q.1 → p = q

/-- **The sweep keeps the tables consistent**: an association that survives `expire_connections`
still owns its id — the sweep deletes from `mux.channels` only the ids of expired DNS requests (which
carry DNS callbacks, so none of them is a live UDP id) and of expired UDP associations (another
source's id, because one id carries one source's callback). -/
theorem C11_tables_in_chans_after_expire (now : Nat) (c c' : Client) (fr : List Frame)
    (hinv : TablesInChans c) (hdns : DnsInChans c) (hu : SrcUnique c)
    (h : expire now c = .ok (c', fr)) : TablesInChans c' := by
  unfold expire at h
  simp only at h
  split at h
  · cases h
  · next ch1 h1 =>
    split at h
    · cases h
    · next ch2 h2 =>
      simp only [Except.ok.injEq, Prod.mk.injEq] at h
      obtain ⟨hc, _⟩ := h
      subst hc
      intro p hp
      simp only [List.mem_filter, decide_not, Bool.not_eq_eq_eq_not, Bool.not_true,
        decide_eq_false_iff_not] at hp
      obtain ⟨hp, hlive⟩ := hp
      obtain ⟨l, hl⟩ := hinv p hp
      refine ⟨l, ?_⟩
      simp only
      rw [delChans_eq_filter h2, delChans_eq_filter h1]
      apply lookup_filter
      · apply lookup_filter _ hl
        simp only [decide_eq_true_eq, List.mem_map, List.mem_filter, not_exists, not_and]
        intro q ⟨hq, _⟩ e
        obtain ⟨qid, l', a, o, hq'⟩ := hdns q hq
        rw [e, hl] at hq'
        cases hq'
      · simp only [decide_eq_true_eq, List.mem_map, List.mem_filter, not_exists, not_and]
        intro q ⟨hq, hexp⟩ e
        obtain ⟨l', hq'⟩ := hinv q hq
        rw [e, hl] at hq'
        simp only [Option.some.injEq, Cb.udp.injEq] at hq'
        have := hu p hp q hq hq'.2
        subst this
        exact hlive hexp

/-- `udp_by_src` has no two entries for one source (it is a dict). -/
def SrcNodup (c : Client) : Prop := (c.udpBySrc.map (·.1)).Nodup

theorem C11_src_nodup_unique (c : Client) (h : SrcNodup c) : SrcUnique c :=
  unique_of_keys_nodup _ h

/-- … and both halves of `onaccept_udp` keep it so: the table update … -/
theorem C11_src_nodup_after_alloc (cfg : Cfg) (lsn : Nat) (src : Addr) (c c1 : Client)
    (r : Option (Nat × List Frame)) (v : Nat × Nat) (hn : SrcNodup c)
    (h : udpAlloc cfg lsn src c = (c1, r)) :
    SrcNodup { c1 with udpBySrc := set src v c1.udpBySrc } := by
  obtain ⟨_, _, e3, _⟩ := udpAlloc_ok h
  unfold SrcNodup
  simp only [e3]
  exact keys_set_nodup _ _ _ hn

/-- … and the sweep. -/
theorem C11_src_nodup_after_expire (now : Nat) (c c' : Client) (fr : List Frame) (hn : SrcNodup c)
    (h : expire now c = .ok (c', fr)) : SrcNodup c' := by
  obtain ⟨_, _, _, _, e5, _⟩ := expire_ok h
  unfold SrcNodup
  rw [e5]
  exact hn.sublist ((List.filter_sublist).map _)

/-- The allocation leaves the DNS ids with their DNS callbacks (the id it registers was free). -/
theorem C11_dns_in_chans_after_alloc (cfg : Cfg) (lsn : Nat) (src : Addr) (c c1 : Client)
    (r : Option (Nat × List Frame)) (v : Nat × Nat) (hd : DnsInChans c)
    (h : udpAlloc cfg lsn src c = (c1, r)) :
    DnsInChans { c1 with udpBySrc := set src v c1.udpBySrc } := by
  obtain ⟨_, e2, _, e4⟩ := udpAlloc_ok h
  intro q hq
  simp only [e2] at hq
  obtain ⟨qid, l, a, o, hl⟩ := hd q hq
  refine ⟨qid, l, a, o, ?_⟩
  simp only
  rcases e4 with ⟨ech, _⟩ | ⟨ch, _, hfree, ech, _⟩
  · rw [ech]; exact hl
  · rw [ech, ← set_of_not_hasKey _ _ _ hfree]
    have hne : ch ≠ q.1 := by
      intro e
      rw [← e] at hl
      exact (hasKey_eq_false_iff _ c.chans).1 hfree _ (lookup_mem hl) rfl
    rw [lookup_set_ne _ _ hne]
    exact hl

/-- **One whole `onaccept_udp` keeps the tables consistent** (allocation, table update, sweep). -/
theorem C11_onaccept_udp_keeps_tables (cfg : Cfg) (now : Nat) (cap : Capture) (c c' : Client)
    (fr : List Frame) (hinv : TablesInChans c) (hd : DnsInChans c) (hn : SrcNodup c)
    (h : onacceptUdp cfg now cap c = .ok (c', fr)) : TablesInChans c' ∧ SrcNodup c' := by
  unfold onacceptUdp at h
  split at h
  · simp only [Except.ok.injEq, Prod.mk.injEq] at h
    obtain ⟨rfl, _⟩ := h
    exact ⟨hinv, hn⟩
  · next srcip dstip data _ =>
    split at h
    · next c1 ha =>
      simp only [Except.ok.injEq, Prod.mk.injEq] at h
      obtain ⟨rfl, _⟩ := h
      obtain ⟨_, _, e3, e4⟩ := udpAlloc_ok ha
      have ech : c1.chans = c.chans := by
        rcases e4 with ⟨ech, _⟩ | ⟨ch, _, _, _, e5⟩
        · exact ech
        · cases e5
      refine ⟨?_, ?_⟩
      · intro p hp
        rw [e3] at hp
        rw [ech]
        exact hinv p hp
      · unfold SrcNodup; rw [e3]; exact hn
    · next c1 chan opens ha =>
      simp only at h
      split at h
      · cases h
      · next d =>
        split at h
        · cases h
        · next c3 closes he =>
          simp only [Except.ok.injEq, Prod.mk.injEq] at h
          obtain ⟨rfl, _⟩ := h
          have h1 := C11_tables_in_chans_after_alloc cfg cap.lsn srcip c c1 chan
            (now + cfg.udpHorizonS * cfg.ticksPerS) opens hinv ha
          have h2 := C11_src_nodup_after_alloc cfg cap.lsn srcip c c1 _
            (chan, now + cfg.udpHorizonS * cfg.ticksPerS) hn ha
          have h3 := C11_dns_in_chans_after_alloc cfg cap.lsn srcip c c1 _
            (chan, now + cfg.udpHorizonS * cfg.ticksPerS) hd ha
          exact ⟨C11_tables_in_chans_after_expire now _ c3 closes h1 h3 (C11_src_nodup_unique _ h2) he,
            C11_src_nodup_after_expire now _ c3 closes h2 he⟩

/-- Non-vacuity of `C11_onaccept_udp_keeps_tables`: a client with one UDP association on id 1 and one
pending DNS request on id 2 meets the three hypotheses. -/
example :
    let c : Client := { chans := [(1, .udp 2 ⟨[49], 7, []⟩), (2, .dns 0 3 ⟨[50], 9, []⟩ none)],
                        dnsreqs := [(2, 500)], udpBySrc := [(⟨[49], 7, []⟩, (1, 30720))] }
    TablesInChans c ∧ DnsInChans c ∧ SrcNodup c := by
  refine ⟨?_, ?_, ?_⟩
  · intro p hp
    simp only [List.mem_singleton] at hp
    subst hp
    exact ⟨2, by decide⟩
  · intro q hq
    simp only [List.mem_singleton] at hq
    subst hq
    exact ⟨0, 3, ⟨[50], 9, []⟩, none, by decide⟩
  · unfold SrcNodup; decide

/-- Non-vacuity: the empty client satisfies the invariant and an allocation succeeds on it. -/
example : TablesInChans ({} : Client) ∧ DnsInChans ({} : Client) ∧ SrcUnique ({} : Client) := by
  refine ⟨?_, ?_, ?_⟩
  · intro p hp; cases hp
  · intro q hq; cases hq
  · intro p hp; cases hp

end Sshuttle.Dgram
