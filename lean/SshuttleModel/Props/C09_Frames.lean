/-
C09 — "every such request is eventually answered", at the level of one pass of the loop.

The peer's rttest PING travels in the same byte stream as everything else.  What the property needs
from the receiving end is that a pass of its loop handles EVERY frame that has arrived — whatever
the frames in front of the PING do to their own flows — and that the PONG it queues stays queued
until the pipe takes it.  In the model of the pass (`Code/Loop.lean`) both are theorems; the harness
checks them on the real `ssnet.runonce` / `Mux.handle` (`C09:server-loop:ping-behind-a-failing-frame-…`,
`C09:wire:pause-not-lifted-over-short-writes`).
Core Lean only.
-/
import SshuttleModel.Props.C02
import SshuttleModel.Props.C09

namespace Sshuttle.Tunnel
open Sshuttle.Mux (Frame)
open Sshuttle.Wrap

/-- 1 for the step in which end `e` handles one arrived frame, 0 for every other step. -/
def delivers (e : End) : Step → Nat
  | .deliver e' _ => if e' = e then 1 else 0
  | _ => 0

def deliversIn (e : End) (l : List Step) : Nat := (l.map (delivers e)).sum

/-- A step of end `e`'s loop takes from the frames on their way to `e` exactly the one frame a
`deliver` handles, and nothing otherwise. -/
theorem stepRaw_inQueue (w : World) (e : End) (st : Step) (hst : AtEnd e st) :
    (w.stepRaw st).inQueue e = (w.inQueue e).drop (delivers e st) := by
  rcases hst with ⟨i, io, rfl⟩ | ⟨i, rfl⟩ | ⟨c, rfl⟩ | rfl
  · cases e
    · simp only [World.stepRaw, World.cbC, delivers, List.drop_zero]
      split
      · split
        · split <;> rfl
        · rfl
      · rfl
    · simp only [World.stepRaw, World.cbS, delivers, List.drop_zero]
      split
      · split
        · split <;> rfl
        · rfl
      · rfl
  · cases e
    · simp only [World.stepRaw, World.preC, delivers, List.drop_zero]
      split
      · split <;> rfl
      · rfl
    · simp only [World.stepRaw, World.preS, delivers, List.drop_zero]
      split
      · split <;> rfl
      · rfl
  · cases e
    · simp only [World.stepRaw, World.deliverC, delivers, if_true]
      cases hq : w.sm.out with
      | nil => simp [World.inQueue, hq]
      | cons fr rest =>
        simp only [World.inQueue, hq, List.drop_succ_cons, List.drop_zero]
        split
        · rfl
        · split
          · rfl
          · split
            · split <;> rfl
            · split
              · rfl
              · simp only [World.dispatchAt]
                split <;> rfl
    · simp only [World.stepRaw, World.deliverS, delivers, if_true]
      cases hq : w.cm.out with
      | nil => simp [World.inQueue, hq]
      | cons fr rest =>
        simp only [World.inQueue, hq, List.drop_succ_cons, List.drop_zero]
        split
        · rfl
        · split
          · rfl
          · split
            · simp only [World.connectS]
              split
              · rfl
              · split
                · rfl
                · split
                  · rfl
                  · split <;> rfl
            · split
              · rfl
              · simp only [World.dispatchAt]
                split <;> rfl
  · cases e <;> simp [World.stepRaw, World.rmC, World.rmS, delivers, World.inQueue]

theorem run_inQueue (e : End) (l : List Step) (w : World) (hl : ∀ st ∈ l, AtEnd e st)
    (hd : (w.run l).died = none) :
    (w.run l).inQueue e = (w.inQueue e).drop (deliversIn e l) := by
  induction l generalizing w with
  | nil => simp [World.run, deliversIn]
  | cons a rest ih =>
    have hrun : w.run (a :: rest) = (w.step a).run rest := by simp only [World.run, List.foldl_cons]
    rw [hrun] at hd ⊢
    have h2 := (step_died_none (alive_of_run hd)).2
    rw [ih (w.step a) (fun s hs => hl s (List.mem_cons_of_mem _ hs)) hd, h2,
      stepRaw_inQueue w e a (hl a List.mem_cons_self)]
    simp only [deliversIn, List.map_cons, List.sum_cons, List.drop_drop]

theorem deliversIn_append (e : End) (l1 l2 : List Step) :
    deliversIn e (l1 ++ l2) = deliversIn e l1 + deliversIn e l2 := by
  simp [deliversIn, List.sum_append]

theorem sum_zero_of_all_zero (l : List Nat) (h : ∀ x ∈ l, x = 0) : l.sum = 0 := by
  induction l with
  | nil => rfl
  | cons a rest ih =>
    simp [List.sum_cons, h a List.mem_cons_self, ih (fun x hx => h x (List.mem_cons_of_mem _ hx))]

theorem deliversIn_roundHead (e : End) (n : Nat) : deliversIn e (roundHead e n) = 0 := by
  simp only [deliversIn, roundHead, List.map_cons, List.map_map, List.sum_cons, delivers, Nat.zero_add]
  apply sum_zero_of_all_zero
  intro x hx
  simp only [List.mem_map, Function.comp] at hx
  obtain ⟨i, _, rfl⟩ := hx
  rfl

theorem sum_replicate_zero (n : Nat) : (List.replicate n 0).sum = 0 := by
  induction n with
  | zero => rfl
  | succ n ih => simp [List.replicate_succ, ih]

theorem deliversIn_roundTail (w : World) (e : End) (k : Nat) (conn : ConnRes) (sel : Sel) (ios : Nat → CbIo) :
    deliversIn e (roundTail w e k conn sel ios) = k := by
  simp only [roundTail, deliversIn_append]
  have h1 : deliversIn e (List.replicate k (Step.deliver e conn)) = k := by
    simp only [deliversIn, List.map_replicate, delivers, if_true]
    induction k with
    | zero => rfl
    | succ k ih => simp [List.replicate_succ, ih, Nat.add_comm]
  have h2 : deliversIn e (((List.range w.flows.length).zip w.flows).flatMap fun (x : Nat × Flow) =>
      List.replicate (cbCount w e k sel x.1 x.2) (Step.cb e x.1 (ios x.1))) = 0 := by
    simp only [deliversIn]
    apply sum_zero_of_all_zero
    intro x hx
    simp only [List.mem_map, List.mem_flatMap, List.mem_replicate] at hx
    obtain ⟨st, ⟨_, _, _, rfl⟩, rfl⟩ := hx
    rfl
  rw [h1, h2, Nat.add_zero]

/-- **C09 (a pass handles every frame that has arrived).**  Whatever `select` reports, however the
sockets answer, and whatever the arrived frames are — frames of other flows, late frames for closed
flows, a CONNECT whose connect fails, PINGs — a pass of end `e`'s loop in which `k` frames have
arrived and that leaves the process alive takes exactly those `k` frames off the queue: none of them
is left for "some later read", which for a paused peer never comes. -/
theorem C09_pass_handles_every_arrived_frame (w : World) (e : End) (k : Nat) (conn : ConnRes) (sel : Sel)
    (ios : Nat → CbIo) (hd : (w.round e k conn sel ios).died = none) :
    (w.round e k conn sel ios).inQueue e = (w.inQueue e).drop k := by
  have hrun : w.round e k conn sel ios = w.run (roundHead e w.flows.length ++
      roundTail (w.run (roundHead e w.flows.length)) e k conn sel ios) := by
    simp only [World.round, run_append]
  rw [hrun] at hd ⊢
  rw [run_inQueue e _ w ?_ hd, deliversIn_append, deliversIn_roundHead, deliversIn_roundTail, Nat.zero_add]
  intro st h
  rcases List.mem_append.mp h with h | h
  · exact roundHead_atEnd _ _ st h
  · exact roundTail_atEnd _ _ _ _ _ _ st h

/-! ## the PONG is queued in that pass and stays queued -/

/-- A step of end `e`'s loop only appends to `e`'s own output queue. -/
theorem stepRaw_out_append (w : World) (e : End) (st : Step) (hst : AtEnd e st) :
    ∃ extra, ((w.stepRaw st).muxAt e).out = (w.muxAt e).out ++ extra := by
  rcases hst with ⟨i, io, rfl⟩ | ⟨i, rfl⟩ | ⟨c, rfl⟩ | rfl
  · cases e
    · simp only [World.stepRaw, World.cbC, World.muxAt]
      split
      next f _ =>
        split
        next p _ =>
          split
          next p' m' e' hcb =>
            obtain ⟨_, extra, h2, _⟩ := lat_callback p w.cm f.app io p' m' e' hcb
            exact ⟨extra, h2⟩
          · exact ⟨[], by simp⟩
        · exact ⟨[], by simp⟩
      · exact ⟨[], by simp⟩
    · simp only [World.stepRaw, World.cbS, World.muxAt]
      split
      next f _ =>
        split
        next p _ =>
          split
          next p' m' e' hcb =>
            obtain ⟨_, extra, h2, _⟩ := lat_callback p w.sm f.dst io p' m' e' hcb
            exact ⟨extra, h2⟩
          · exact ⟨[], by simp⟩
        · exact ⟨[], by simp⟩
      · exact ⟨[], by simp⟩
  · cases e
    · simp only [World.stepRaw, World.preC, World.muxAt]
      split
      · split
        next p _ =>
          obtain ⟨_, extra, h2, _⟩ := lat_preSelect p w.cm
          exact ⟨extra, h2⟩
        · exact ⟨[], by simp⟩
      · exact ⟨[], by simp⟩
    · simp only [World.stepRaw, World.preS, World.muxAt]
      split
      · split
        next p _ =>
          obtain ⟨_, extra, h2, _⟩ := lat_preSelect p w.sm
          exact ⟨extra, h2⟩
        · exact ⟨[], by simp⟩
      · exact ⟨[], by simp⟩
  · cases e
    · simp only [World.stepRaw, World.deliverC]
      cases hq : w.sm.out with
      | nil => exact ⟨[], by simp⟩
      | cons fr rest =>
        simp only
        split
        · exact ⟨[⟨0, Generated.CMD_PONG, fr.data⟩], by simp [World.muxAt, MuxL.send]⟩
        · split
          · exact ⟨[], by simp [World.muxAt]⟩
          · split
            · split <;> exact ⟨[], by simp [World.muxAt]⟩
            · split
              · exact ⟨[], by simp [World.muxAt]⟩
              · simp only [World.dispatchAt]
                split <;> exact ⟨[], by simp [World.muxAt]⟩
    · simp only [World.stepRaw, World.deliverS]
      cases hq : w.cm.out with
      | nil => exact ⟨[], by simp⟩
      | cons fr rest =>
        simp only
        split
        · exact ⟨[⟨0, Generated.CMD_PONG, fr.data⟩], by simp [World.muxAt, MuxL.send]⟩
        · split
          · exact ⟨[], by simp [World.muxAt]⟩
          · split
            · simp only [World.connectS]
              split
              · exact ⟨[], by simp [World.muxAt]⟩
              · split
                · exact ⟨[], by simp [World.muxAt]⟩
                · split
                  · exact ⟨[], by simp [World.muxAt]⟩
                  · split <;> exact ⟨[], by simp [World.muxAt]⟩
            · split
              · exact ⟨[], by simp [World.muxAt]⟩
              · simp only [World.dispatchAt]
                split <;> exact ⟨[], by simp [World.muxAt]⟩
  · cases e <;> exact ⟨[], by simp [World.stepRaw, World.rmC, World.rmS, World.muxAt]⟩

theorem run_out_append (e : End) (l : List Step) (w : World) (hl : ∀ st ∈ l, AtEnd e st)
    (hd : (w.run l).died = none) :
    ∃ extra, ((w.run l).muxAt e).out = (w.muxAt e).out ++ extra := by
  induction l generalizing w with
  | nil => exact ⟨[], by simp [World.run]⟩
  | cons a rest ih =>
    have hrun : w.run (a :: rest) = (w.step a).run rest := by simp only [World.run, List.foldl_cons]
    rw [hrun] at hd ⊢
    have h2 := (step_died_none (alive_of_run hd)).2
    obtain ⟨x2, hx2⟩ := ih (w.step a) (fun s hs => hl s (List.mem_cons_of_mem _ hs)) hd
    obtain ⟨x1, hx1⟩ := stepRaw_out_append w e a (hl a List.mem_cons_self)
    rw [h2] at hx2 ⊢
    exact ⟨x1 ++ x2, by rw [hx2, hx1, List.append_assoc]⟩

/-- Handling a PING queues its PONG (same payload, control channel). -/
theorem deliver_ping (w : World) (e : End) (c : ConnRes) (fr : Frame) (rest : List Frame)
    (hq : w.inQueue e = fr :: rest) (hp : fr.cmd = Generated.CMD_PING) :
    ((w.stepRaw (.deliver e c)).muxAt e).out = (w.muxAt e).out ++ [⟨0, Generated.CMD_PONG, fr.data⟩] := by
  cases e
  · simp only [World.inQueue] at hq
    simp [World.stepRaw, World.deliverC, hq, hp, World.muxAt, MuxL.send]
  · simp only [World.inQueue] at hq
    simp [World.stepRaw, World.deliverS, hq, hp, World.muxAt, MuxL.send]

theorem delivers_answer_ping (e : End) (c : ConnRes) (k : Nat) (w : World) (j : Nat) (fr : Frame) (hj : j < k)
    (hfr : (w.inQueue e)[j]? = some fr) (hp : fr.cmd = Generated.CMD_PING)
    (hd : (w.run (List.replicate k (Step.deliver e c))).died = none) :
    (⟨0, Generated.CMD_PONG, fr.data⟩ : Frame) ∈ ((w.run (List.replicate k (Step.deliver e c))).muxAt e).out := by
  induction k generalizing w j with
  | zero => omega
  | succ k ih =>
    have hrun : w.run (List.replicate (k + 1) (Step.deliver e c)) =
        (w.step (.deliver e c)).run (List.replicate k (Step.deliver e c)) := by
      simp only [List.replicate_succ, World.run, List.foldl_cons]
    rw [hrun] at hd ⊢
    have h2 := (step_died_none (alive_of_run hd)).2
    have hat : ∀ st ∈ List.replicate k (Step.deliver e c), AtEnd e st := by
      intro st hst
      rw [List.mem_replicate] at hst
      exact Or.inr (Or.inr (Or.inl ⟨c, hst.2⟩))
    cases j with
    | zero =>
      cases hq : w.inQueue e with
      | nil => rw [hq] at hfr; simp at hfr
      | cons g rest =>
        rw [hq] at hfr
        simp only [List.getElem?_cons_zero, Option.some.injEq] at hfr
        subst hfr
        obtain ⟨x, hx⟩ := run_out_append e _ (w.step (.deliver e c)) hat hd
        rw [hx, h2, deliver_ping w e c g rest hq hp]
        simp
    | succ j =>
      apply ih (w.step (.deliver e c)) j (by omega) ?_ hd
      rw [h2, stepRaw_inQueue w e _ (Or.inr (Or.inr (Or.inl ⟨c, rfl⟩)))]
      simp only [delivers, if_true]
      cases hq : w.inQueue e with
      | nil => rw [hq] at hfr; simp at hfr
      | cons g rest =>
        rw [hq] at hfr
        simpa using hfr

/-- **C09 (the PING is answered in the pass in which it arrived).**  If the `j`-th of the `k` frames
that have arrived at end `e` is a PING — whatever the frames in front of it and behind it are — then
after the pass (the process alive) its PONG, with the PING's payload, is in `e`'s output queue: no
later read, no other traffic is needed for the acknowledgement to be on its way. -/
theorem C09_ping_answered_in_the_pass (w : World) (e : End) (k : Nat) (conn : ConnRes) (sel : Sel)
    (ios : Nat → CbIo) (j : Nat) (fr : Frame) (hj : j < k) (hfr : (w.inQueue e)[j]? = some fr)
    (hp : fr.cmd = Generated.CMD_PING) (hd : (w.round e k conn sel ios).died = none) :
    (⟨0, Generated.CMD_PONG, fr.data⟩ : Frame) ∈ ((w.round e k conn sel ios).muxAt e).out := by
  let w1 := w.run (roundHead e w.flows.length)
  let cbs := ((List.range w1.flows.length).zip w1.flows).flatMap fun (x : Nat × Flow) =>
      List.replicate (cbCount w1 e k sel x.1 x.2) (Step.cb e x.1 (ios x.1))
  have hrun : w.round e k conn sel ios = ((w1.run (List.replicate k (Step.deliver e conn))).run cbs) := by
    simp only [World.round, roundTail, run_append, List.append_assoc, w1, cbs]
  rw [hrun] at hd ⊢
  have hd2 := alive_of_run hd
  have hd1 : w1.died = none := alive_of_run hd2
  have hq1 : w1.inQueue e = w.inQueue e := by
    have := run_inQueue e (roundHead e w.flows.length) w (roundHead_atEnd e _) hd1
    rw [deliversIn_roundHead] at this
    simpa using this
  have hpong := delivers_answer_ping e conn k w1 j fr hj (by rw [hq1]; exact hfr) hp hd2
  have hcbs : ∀ st ∈ cbs, AtEnd e st := by
    intro st hst
    simp only [cbs, List.mem_flatMap, List.mem_replicate] at hst
    obtain ⟨x, _, _, rfl⟩ := hst
    exact Or.inl ⟨x.1, ios x.1, rfl⟩
  obtain ⟨x, hx⟩ := run_out_append e cbs _ hcbs hd
  rw [hx]
  exact List.mem_append_left _ hpong

/-- Non-vacuity: the server's pass over a queue `[PING]` (the client's initial one) leaves the
queue empty and the server alive. -/
example :
    let w : World := { cm := ({} : MuxL).send 0 Generated.CMD_PING [1, 2, 3] }
    (w.round .server 1 .ok (w.truthfulSel .server) (fun _ => {})).died = none ∧
    (w.round .server 1 .ok (w.truthfulSel .server) (fun _ => {})).inQueue .server = [] := by
  decide

/-- Non-vacuity of the hypotheses of `C09_ping_answered_in_the_pass`, and its conclusion seen on a
concrete world: a PING behind a frame for a channel nobody has, both arrived. -/
example :
    let w : World := { cm := (({} : MuxL).send 9 Generated.CMD_TCP_EOF []).send 0 Generated.CMD_PING [1, 2, 3] }
    (w.inQueue .server)[1]? = some ⟨0, Generated.CMD_PING, [1, 2, 3]⟩ ∧
    (w.round .server 2 .ok (w.truthfulSel .server) (fun _ => {})).died = none ∧
    ((w.round .server 2 .ok (w.truthfulSel .server) (fun _ => {})).muxAt .server).out =
      [⟨0, Generated.CMD_PONG, [1, 2, 3]⟩] := by
  decide

end Sshuttle.Tunnel
