/-
C18 — The remote end runs the client's own code with the client's options.

Property theorems only; helper lemmas are in `Lemmas/Bootstrap.lean` (buffered reader,
decimal), `Lemmas/BootstrapFraming.lean` (assembler loop, `packList`),
`Lemmas/BootstrapOptions.lean` (`%r` / literal evaluation), `Lemmas/BootstrapUtf8.lean`,
`Lemmas/BootstrapInstances.lean`
(the regenerated values and source shapes of the working tree, pinned).
-/
import SshuttleModel.Spec.Bootstrap
import SshuttleModel.Lemmas.BootstrapInstances
import SshuttleModel.Lemmas.BootstrapOptions
import SshuttleModel.Lemmas.BootstrapUtf8
import SshuttleModel.Lemmas.BootstrapSession

namespace Sshuttle.Bootstrap

/-! ## 0. The codec law is satisfiable, also by a stateful codec -/

/-- The identity codec satisfies the codec law. -/
theorem C18_idCodec_lawful : idCodec.Lawful := by
  intro datas
  induction datas with
  | nil => rfl
  | cons d ds ih =>
    simp only [Codec.packAll, Codec.unpackAll, Codec.chunk, idCodec, List.append_nil] at ih ⊢
    rw [ih]; rfl

/-- A codec whose chunks depend on how many chunks came before (as zlib's do) satisfies the
law too — with it, "one shared compressor, one shared decompressor" is not interchangeable
with a fresh compressor per module (`C18_separate_compressor_breaks`). -/
theorem C18_countCodec_lawful : countCodec.Lawful := countCodec_from 0

/-! ## 1. Framing: names, order and bytes survive, for every size, codec and segmentation -/

/-- **C18 framing.**  For every module list (names non-empty ASCII without blanks, each
dotted name after its parent), every lawful codec, every content of the files and of the
options module — any sizes: the length line is an unbounded decimal — and **every** way
the upload (followed by any further bytes `extra`) is cut into raw reads on the remote
side: the one-liner hands the assembler exactly the assembler source the client read, the
loop ends normally, the modules created are exactly the client's `(name, source bytes)` in
the client's order, and the reader stands exactly at the end of the upload. -/
theorem C18_framing (c : Codec) (hc : c.Lawful) (binary : Bool) (env : Env) (asmName : Bytes)
    (names explicit : List Bytes) (optdata : Bytes) (pre : List Bytes) (up : Upload)
    (hup : connectWith c binary env asmName names explicit [10] optdata = .ok up)
    (hclean : ∀ n ∈ names, CleanName n) (hpar : parentsOk pre names = true)
    (raw : List Bytes) (extra : Bytes)
    (hraw : Spec.Segmentation (up.content ++ up.content2 ++ extra) raw) :
    ∃ datas,
      names.map (fun n => srcFor binary env n (dataArg explicit optdata n)) = datas.map SrcRes.ok ∧
      (bootstrap c up.content.length pre raw).assembler = up.content ∧
      (bootstrap c up.content.length pre raw).fin = .done ∧
      Spec.SameProgram (names.zip datas) (bootstrap c up.content.length pre raw).st.mods ∧
      (bootstrap c up.content.length pre raw).st.rd.flat = extra := by
  unfold connectWith at hup
  cases hsrc : getModuleSource binary env asmName with
  | noSuchModule => rw [hsrc] at hup; cases hup
  | decodeError => rw [hsrc] at hup; cases hup
  | ok content =>
    rw [hsrc] at hup
    simp only at hup
    cases hpack : packList c binary env explicit optdata c.cinit names with
    | error e => rw [hpack] at hup; cases hup
    | ok frames =>
      rw [hpack] at hup
      simp only [Except.ok.injEq] at hup
      subst hup
      obtain ⟨datas, hd1, _, hd3⟩ := packList_ok c binary env explicit optdata names c.cinit frames hpack
      have hlen : names.length = (c.packAll c.cinit datas).length := by
        rw [packAll_length]
        have := congrArg List.length hd1
        simpa using this
      refine ⟨datas, hd1, ?_⟩
      simp only [Spec.Segmentation] at hraw
      obtain ⟨r1, r2⟩ := read_spec ⟨[], raw⟩ content.length
      simp only [BufReader.flat, List.nil_append, hraw] at r1 r2
      have r1' : (read ⟨[], raw⟩ content.length).1 = content := by
        rw [r1]; simp [List.append_assoc]
      have r2' : (read ⟨[], raw⟩ content.length).2.flat =
          framesOf names (c.packAll c.cinit datas) ++ 10 :: extra := by
        simp only [BufReader.flat]
        rw [r2, hd3]; simp [List.append_assoc]
      have hfuel : names.length < total raw + 1 := by
        have h1 := framesOf_length names _ hlen
        have h2 : (framesOf names (c.packAll c.cinit datas)).length ≤ total raw := by
          simp only [total, hraw, hd3, List.length_append]; omega
        omega
      obtain ⟨st', g1, g2, g3, _⟩ := asmLoop_frames c names (c.packAll c.cinit datas) datas
        ⟨(read ⟨[], raw⟩ content.length).2, c.dinit, pre, []⟩ (total raw + 1) extra hlen (hc datas)
        hclean hpar r2' hfuel
      simp only [bootstrap, g1, r1', Spec.SameProgram]
      exact ⟨trivial, trivial, by simpa using g2, g3⟩

/-- Non-vacuity of `C18_framing`: a two-module upload (the second nested in the first, one
of them empty) through the stateful codec, cut into reads of 1, 2, 3, … bytes, with two
bytes following the terminator. -/
example :
    (connectWith countCodec true
        ⟨fun n => if n = [97] then some [] else if n = [97, 46, 98] then some [1, 13, 10] else
                  if n = [90] then some [65, 66] else none, some⟩
        [90] [[97], [97, 46, 98]] [] [10] []).toOption =
      some ⟨[65, 66], [97, 10, 49, 10, 0, 97, 46, 98, 10, 52, 10, 1, 1, 13, 10, 10]⟩ ∧
    (bootstrap countCodec 2 [] [[65], [66, 97], [10, 49, 10], [0, 97, 46, 98], [10, 52, 10, 1, 1],
                                [13, 10, 10, 7, 7]]).st.mods = [([97], []), ([97, 46, 98], [1, 13, 10])] ∧
    (bootstrap countCodec 2 [] [[65], [66, 97], [10, 49, 10], [0, 97, 46, 98], [10, 52, 10, 1, 1],
                                [13, 10, 10, 7, 7]]).st.rd.flat = [7, 7] := by decide

/-- **The working tree's `ssh.connect`.**  With the module list, order, explicit-data
module, terminator and file-open mode regenerated from the repository: whenever `connect`
succeeds, for every lawful codec, every file content, every options text and every
segmentation, the remote interpreter (fresh: nothing of sshuttle loaded) assembles exactly
the packaged names in order, each with exactly the client's bytes, the `import`s after the
loop are served by the uploaded modules, and nothing beyond the upload is consumed. -/
theorem C18_connect_assembles (c : Codec) (hc : c.Lawful) (env : Env) (optdata : Bytes) (up : Upload)
    (hup : connect c env optdata = .ok up) (raw : List Bytes) (extra : Bytes)
    (hraw : Spec.Segmentation (up.content ++ up.content2 ++ extra) raw) :
    ∃ datas,
      Gen.C18.PACKAGED_BYTES.map (fun n => srcFor Gen.C18.SOURCE_BINARY env n
        (dataArg Gen.C18.EXPLICIT_DATA_BYTES optdata n)) = datas.map SrcRes.ok ∧
      (bootstrap c up.content.length [] raw).assembler = up.content ∧
      (bootstrap c up.content.length [] raw).fin = .done ∧
      (bootstrap c up.content.length [] raw).st.mods = Gen.C18.PACKAGED_BYTES.zip datas ∧
      importsResolved (bootstrap c up.content.length [] raw).st.mods Gen.C18.ASSEMBLER_IMPORTS_BYTES = true ∧
      (bootstrap c up.content.length [] raw).st.rd.flat = extra := by
  unfold connect at hup
  rw [pin_terminator] at hup
  obtain ⟨datas, h1, h2, h3, h4, h5⟩ := C18_framing c hc _ env _ _ _ optdata [] up hup
    packaged_clean packaged_parents raw extra hraw
  refine ⟨datas, h1, h2, h3, h4, ?_, h5⟩
  rw [h4]
  have hl : Gen.C18.PACKAGED_BYTES.length = datas.length := by
    have := congrArg List.length h1
    simpa using this
  simp only [importsResolved, List.all_eq_true, List.contains_iff_mem]
  intro n hn
  have : (Gen.C18.PACKAGED_BYTES.zip datas).map Prod.fst = Gen.C18.PACKAGED_BYTES := by
    rw [List.map_fst_zip]; omega
  rw [this]
  exact imports_packaged n hn

/-- `connect` never fails because of a name: it fails only when a source file is missing
(or, in text mode, undecodable) — shown here for the direction used above: all files
present implies success, for every content. -/
theorem C18_connect_succeeds (c : Codec) (env : Env) (optdata : Bytes)
    (hfiles : ∀ n ∈ Gen.C18.ASSEMBLER_MODULE_BYTES :: Gen.C18.PACKAGED_BYTES, (env.fs n).isSome) :
    ∃ up, connect c env optdata = .ok up := by
  have hsrc : ∀ n ∈ Gen.C18.ASSEMBLER_MODULE_BYTES :: Gen.C18.PACKAGED_BYTES, ∀ d,
      ∃ x, srcFor Gen.C18.SOURCE_BINARY env n d = .ok x := by
    intro n hn d
    obtain ⟨f, hf⟩ := Option.isSome_iff_exists.mp (hfiles n hn)
    unfold srcFor getModuleSource
    rw [pin_source_binary, hf]
    cases d with
    | none => exact ⟨f, rfl⟩
    | some d => by_cases hd : d.isEmpty <;> simp [hd]
  have hpl : ∀ (names : List Bytes) (s : c.CState), (∀ n ∈ names, n ∈ Gen.C18.PACKAGED_BYTES) →
      ∃ fr, packList c Gen.C18.SOURCE_BINARY env Gen.C18.EXPLICIT_DATA_BYTES optdata s names = .ok fr := by
    intro names
    induction names with
    | nil => intro s _; exact ⟨[], rfl⟩
    | cons n ns ih =>
      intro s hm
      obtain ⟨x, hx⟩ := hsrc n (List.mem_cons_of_mem _ (hm n (by simp)))
        (dataArg Gen.C18.EXPLICIT_DATA_BYTES optdata n)
      obtain ⟨fr, hfr⟩ := ih (c.chunk s x).1 (fun m h => hm m (by simp [h]))
      have ha := clean_all_ascii (packaged_clean n (hm n (by simp)))
      refine ⟨frameOf n (c.chunk s x).2 ++ fr, ?_⟩
      simp only [packList, empackage, hx, ha, ↓reduceIte, hfr]
  obtain ⟨a, ha⟩ := hsrc Gen.C18.ASSEMBLER_MODULE_BYTES (by simp) none
  obtain ⟨fr, hfr⟩ := hpl Gen.C18.PACKAGED_BYTES c.cinit (fun _ h => h)
  refine ⟨⟨a, fr ++ Gen.C18.TERMINATOR⟩, ?_⟩
  simp only [srcFor] at ha
  simp only [connect, connectWith, ha, hfr]

/-- A fresh compressor per module is **not** equivalent: with the stateful codec the second
module then fails to decompress (the self-test mutation "separate compressor per module"). -/
theorem C18_separate_compressor_breaks :
    let f1 := frameOf [97] (countCodec.chunk countCodec.cinit [1]).2
    let f2 := frameOf [98] (countCodec.chunk countCodec.cinit [2]).2     -- fresh compressor
    (bootstrap countCodec 0 [] [f1 ++ f2 ++ [10]]).fin = .zlibError := by decide

/-- Why nothing may follow the upload before the server has started reading fd 0 itself:
bytes that arrive in the same raw read as the end of the upload sit in the assembler's
reader buffer, where `server.main`'s unbuffered `FileIO(0)` never sees them. -/
theorem C18_readahead_is_lost :
    (bootstrap idCodec 1 [] [[65, 97, 10, 49, 10, 120, 10, 83, 83, 0, 0]]).st.rd.buf = [83, 83, 0, 0] ∧
    (bootstrap idCodec 1 [] [[65, 97, 10, 49, 10, 120, 10, 83, 83, 0, 0]]).st.rd.raw = [] := by decide

/-! ## 2. The packaged bytes are the file's bytes -/

/-- **Source bytes.**  `get_module_source`, as the working tree has it (binary read), returns
the file's bytes unchanged, for every content (any bytes: CR, CRLF, NUL, invalid UTF-8) and
independently of the locale (`env.recode` is not consulted). -/
theorem C18_source_bytes (env : Env) (name file : Bytes) (h : env.fs name = some file) :
    getModuleSource Gen.C18.SOURCE_BINARY env name = .ok file := by
  rw [pin_source_binary]; simp [getModuleSource, h]

/-- The text-mode read (`open(…, 'rt')` + `.encode('utf-8')`, the code before the repair)
returns the file's bytes only under two extra conditions: the locale codec decodes the
file to the text its UTF-8 bytes denote, and the file has no carriage return. -/
theorem C18_source_bytes_partial (env : Env) (name file : Bytes) (h : env.fs name = some file)
    (hlocale : env.recode file = some file) (hcr : 13 ∉ file) :
    getModuleSource false env name = .ok file := by
  simp [getModuleSource, h, hlocale, translate_id file hcr]

example : ∃ env : Env, ∃ file, env.fs [109] = some file ∧ env.recode file = some file ∧ 13 ∉ file ∧
    file ≠ [] := ⟨⟨fun _ => some [120, 10, 195, 169], some⟩, [120, 10, 195, 169], rfl, rfl, by decide, by decide⟩

/-- …and neither condition can be dropped: with a UTF-8 locale a file `a\r\nb` is packaged as
`a\nb` (F18), and under a locale whose codec rejects the bytes the read raises. -/
theorem C18_textmode_read_false :
    ¬ (∀ (env : Env) (name file : Bytes), env.fs name = some file → env.recode file = some file →
        getModuleSource false env name = .ok file) ∧
    ¬ (∀ (env : Env) (name file : Bytes), env.fs name = some file → 13 ∉ file →
        getModuleSource false env name = .ok file) := by
  constructor
  · intro h
    have := h ⟨fun _ => some [97, 13, 10, 98], some⟩ [109] [97, 13, 10, 98] rfl rfl
    revert this; decide
  · intro h
    have := h ⟨fun _ => some [35, 195, 169], fun _ => none⟩ [109] [35, 195, 169] rfl (by decide)
    revert this; decide

/-! ## 3. Options -/

/-- **Options round trip.**  For every list of `key = value` with values `bool`, `int` (any
size, negative included), `None`, or `str` of arbitrary code points, whatever the set of
non-printable code points of the Unicode database is: evaluating the text `"%s=%r\n"`
renders gives back the same keys with the same values, in order.  Keys are the client's
identifiers (no `=`, no newline); string values are lists of code points (`ValidOpts`). -/
theorem C18_options (np : Nat → Bool) (opts : List (List Nat × Val))
    (hk : ∀ kv ∈ opts, 61 ∉ kv.1 ∧ 10 ∉ kv.1) (hv : ValidOpts opts) (fuel : Nat) (hf : opts.length < fuel) :
    evalOptions fuel (renderOptions np opts) = some opts :=
  evalOptions_render np opts hk hv fuel hf

/-- Same statement with the fuel `remoteOptions` supplies. -/
theorem C18_options_text (np : Nat → Bool) (opts : List (List Nat × Val))
    (hk : ∀ kv ∈ opts, 61 ∉ kv.1 ∧ 10 ∉ kv.1) (hv : ValidOpts opts) :
    evalOptions ((renderOptions np opts).length + 1) (renderOptions np opts) = some opts :=
  evalOptions_render np opts hk hv _ (by have := renderOptions_length np opts; omega)

/-- **Options on the wire.**  Rendering, `encode("UTF8")`, the remote decoding of the module
source and its evaluation compose to the identity: whenever the client manages to encode
the rendered options (it always does for what `repr` leaves unescaped: lone surrogates are
not printable), the remote `sshuttle.cmdline_options` holds exactly the client's keys and
values. -/
theorem C18_options_wire (np : Nat → Bool) (opts : List (List Nat × Val))
    (hk : ∀ kv ∈ opts, 61 ∉ kv.1 ∧ 10 ∉ kv.1) (hv : ValidOpts opts) (wire : Bytes)
    (henc : optdataOf np opts = some wire) :
    Option.map (Spec.SameOptions opts) (remoteOptions wire) = some True := by
  unfold optdataOf at henc
  have hdec := decodeUtf8_encode _ wire henc (wire.length + 1)
    (by have := encodeUtf8_length _ wire henc; omega)
  simp only [remoteOptions, hdec, C18_options_text np opts hk hv, Option.map_some, Spec.SameOptions]

/-- Non-vacuity: the five real keys with a value of each kind, a string with both quotes,
a backslash, a newline, é and a non-printable U+FFFE, through the UTF-8 wire format. -/
example :
    let opts : List (List Nat × Val) :=
      [([108, 99], .bool true), ([108, 98], .int 32768), ([97, 104], .bool false),
       ([116, 110], .str [39, 34, 92, 10, 233, 65534]), ([97, 110], .none), ([120], .int (-7))]
    (optdataOf (fun c => c == 65534) opts).bind remoteOptions = some opts := by decide

/-- **The server is entered with the client's values.**  With the parameter list of the
working tree's `server.main` and the call at the end of the working tree's `assembler.py`:
whatever the assembled options module holds, every parameter of `server.main` receives the
option *of the same name* — and the parameters are exactly the options the client sends.
(Together with `C18_options_wire`: the value the client gave for that name.) -/
theorem C18_server_main_receives (ns : String → Option Val) :
    enterMain Gen.C18.SERVER_MAIN_PARAMS Gen.C18.MAIN_BINDING ns =
      Gen.C18.SERVER_MAIN_PARAMS.map (fun p => (p, ns p)) ∧
    (∀ k ∈ Gen.C18.OPTION_KEYS, k ∈ Gen.C18.SERVER_MAIN_PARAMS) := by
  refine ⟨?_, pin_main_params.2.1⟩
  rw [pin_main_binding]
  exact zip_map_self _ _

/-- A call order that differs from the parameter list hands values to the wrong
parameters (the seeded change "server.main's parameters reordered"): the statement above
is not a tautology of `enterMain`. -/
theorem C18_reordered_main_breaks :
    enterMain ["auto_nets", "to_nameserver"] ["to_nameserver", "auto_nets"]
        (fun k => if k = "auto_nets" then some (.bool true) else some .none) ≠
      [("auto_nets", some (.bool true)), ("to_nameserver", some .none)] := by decide

/-- **Every falsy value survives.**  `False`, `0`, `None`, `''` and `[]` — the values a
"leave out what is unset" shortcut would lose — are rendered and read back as themselves. -/
theorem C18_falsy_values_survive (np : Nat → Bool) (rest : List Nat) :
    ∀ v ∈ [Val.bool false, .int 0, .none, .str [], .emptyList],
      parseLit (reprVal np v ++ 10 :: rest) = some (v, 10 :: rest) := by
  intro v hv
  apply parseLit_repr
  simp only [List.mem_cons, List.not_mem_nil, or_false] at hv
  rcases hv with rfl | rfl | rfl | rfl | rfl <;> simp [ValidVal]

/-- **Option binding, end to end.**  For every option record over the client's option names
(regenerated `OPTION_KEYS`; values `bool`, `int`, `None`, `str`, `[]` — every falsy value
included), whatever the non-printable set: rendering with `%r`, `encode("UTF8")`, the
remote decoding and evaluation of the module body, attribute lookup by the expressions of
`assembler.py`'s call and binding against the regenerated parameter list of `server.main`
enter `server.main` with, for **each** parameter, exactly the value the client gave for the
option of that name — and every parameter does receive a value. -/
theorem C18_option_binding (np : Nat → Bool) (opts : List (List Nat × Val))
    (hkeys : opts.map Prod.fst = Gen.C18.OPTION_KEYS.map bytesOfStr) (hv : ValidOpts opts)
    (wire : Bytes) (henc : optdataOf np opts = some wire) :
    ∃ ns, remoteOptions wire = some ns ∧
      enterMain Gen.C18.SERVER_MAIN_PARAMS Gen.C18.MAIN_BINDING (lookupOpt ns) =
        Gen.C18.SERVER_MAIN_PARAMS.map (fun p => (p, lookupOpt opts p)) ∧
      ∀ p ∈ Gen.C18.SERVER_MAIN_PARAMS, (lookupOpt opts p).isSome = true := by
  have hk : ∀ kv ∈ opts, 61 ∉ kv.1 ∧ 10 ∉ kv.1 := by
    intro kv hm
    apply option_keys_ok
    rw [← hkeys]; exact List.mem_map_of_mem hm
  have hw := C18_options_wire np opts hk hv wire henc
  cases hr : remoteOptions wire with
  | none => rw [hr] at hw; simp at hw
  | some ns =>
    rw [hr] at hw
    simp only [Option.map_some, Option.some.injEq, Spec.SameOptions, eq_iff_iff, iff_true] at hw
    subst hw
    refine ⟨ns, rfl, (C18_server_main_receives (lookupOpt ns)).1, ?_⟩
    intro p hp
    apply lookupOpt_isSome
    rw [hkeys]
    exact List.mem_map_of_mem (pin_main_params.1 p hp)

/-- Non-vacuity, with **all five options falsy** (`False`, `0`, `False`, `None`, `False` — the
`--no-latency-control` session the seeded change M-C18-L lost) and once with `''`/`[]`:
`server.main` is entered with exactly these. -/
example :
    let opts : List (List Nat × Val) :=
      (Gen.C18.OPTION_KEYS.map bytesOfStr).zip [.bool false, .int 0, .bool false, .none, .bool false]
    let opts2 : List (List Nat × Val) :=
      (Gen.C18.OPTION_KEYS.map bytesOfStr).zip [.bool false, .emptyList, .str [], .str [], .emptyList]
    ((optdataOf (fun _ => false) opts).bind remoteOptions).map
        (fun ns => enterMain Gen.C18.SERVER_MAIN_PARAMS Gen.C18.MAIN_BINDING (lookupOpt ns)) =
      some [("latency_control", some (.bool false)), ("latency_buffer_size", some (.int 0)),
            ("auto_hosts", some (.bool false)), ("to_nameserver", some .none), ("auto_nets", some (.bool false))] ∧
    ((optdataOf (fun _ => false) opts2).bind remoteOptions) = some opts2 := by decide +kernel

/-! ## 4. Nothing is written between the upload and the server's announcement -/

/-- **Nothing before sync.**  In every run of the client's start-up — every upload, every
segmentation of the server's output, every write grant — the bytes written to the tunnel
before the init string was accepted are exactly `content ++ content2` (the multiplexer's
initial PING is queued by `Mux.__init__` and first flushed inside the main loop), and when
the init string is rejected nothing else is ever written. -/
theorem C18_nothing_before_sync (up : Upload) (serverOut : Handshake.Reader) (grant : Option Nat) :
    Spec.QuietUntilSync (clientStart up serverOut grant) (up.content ++ up.content2) ∧
    (∀ got, Ev.fatal got ∈ clientStart up serverOut grant →
      clientStart up serverOut grant = [.write up.content, .write up.content2, .fatal got]) := by
  unfold clientStart Spec.QuietUntilSync
  cases Handshake.handshake serverOut with
  | fatal g =>
    refine ⟨by simp [writtenBeforeSync], ?_⟩
    intro got hm
    simp only [List.mem_cons, Ev.fatal.injEq, reduceCtorEq, List.mem_nil_iff, or_false, false_or] at hm
    subst hm; rfl
  | ok rest =>
    refine ⟨by simp [writtenBeforeSync], ?_⟩
    intro got hm
    exfalso
    simp only [List.cons_append, List.nil_append, List.mem_cons, reduceCtorEq, false_or] at hm
    split at hm <;> simp at hm

/-- Non-vacuity: a run whose server output arrives as 2 + 1 + 13 bytes (noise, the two NULs,
the init string, one tunnel byte) reaches `syncOk` and only then writes the queued PING. -/
example :
    clientStart ⟨[1], [2, 10]⟩ [[7, 0], [0], [83, 83, 72, 85, 84, 84, 76, 69, 48, 48, 48, 49, 83]] (some 100) =
      [.write [1], .write [2, 10], .syncOk,
       .write [83, 83, 0, 0, 66, 1, 0, 7, 99, 104, 105, 99, 107, 101, 110]] := by decide

/-- The queued PING exists (so "nothing written before sync" is not for lack of anything
to write): `Mux.__init__` leaves one 15-byte frame in `outbuf`. -/
theorem C18_ping_is_queued : muxInit.outbuf = [[83, 83, 0, 0, 66, 1, 0, 7, 99, 104, 105, 99, 107, 101, 110]] := by
  decide

/-! ## 5. Everything together -/

/-- **The whole session start, as one statement.**  For every client file system (module
sources of arbitrary bytes: any encoding, line ends, BOM, size), every lawful codec, every
non-empty option record over the client's option names, every cut of the upload (followed
by anything) into raw reads on the remote side, and every cut of the server's output into
reads on the client side with any write grant — whenever `ssh.connect` succeeds in packaging:

* the one-liner executes exactly the assembler source the client read;
* the assembler loop ends normally having created exactly the packaged names, in order;
* every module other than the options module was compiled from exactly the bytes of the
  client's file of that name; the options module from exactly the rendered options;
* the `import`s after the loop are served by the uploaded modules;
* nothing beyond the upload was consumed;
* the options module evaluates to the client's option record, and `server.main` is entered
  with, for each parameter, the client's value of the option of that name;
* the client wrote nothing but the upload before it accepted the server's init string. -/
theorem C18_session (c : Codec) (hc : c.Lawful) (env : Env) (np : Nat → Bool)
    (opts : List (List Nat × Val)) (hne : opts ≠ [])
    (hkeys : opts.map Prod.fst = Gen.C18.OPTION_KEYS.map bytesOfStr) (hv : ValidOpts opts)
    (wire : Bytes) (henc : optdataOf np opts = some wire)
    (up : Upload) (hup : connect c env wire = .ok up)
    (raw : List Bytes) (extra : Bytes) (hraw : Spec.Segmentation (up.content ++ up.content2 ++ extra) raw)
    (serverOut : Handshake.Reader) (grant : Option Nat) :
    env.fs Gen.C18.ASSEMBLER_MODULE_BYTES = some up.content ∧
    (bootstrap c up.content.length [] raw).assembler = up.content ∧
    (bootstrap c up.content.length [] raw).fin = .done ∧
    (bootstrap c up.content.length [] raw).st.mods.map Prod.fst = Gen.C18.PACKAGED_BYTES ∧
    (∀ n d, (n, d) ∈ (bootstrap c up.content.length [] raw).st.mods →
      (n ∉ Gen.C18.EXPLICIT_DATA_BYTES → env.fs n = some d) ∧ (n ∈ Gen.C18.EXPLICIT_DATA_BYTES → d = wire)) ∧
    importsResolved (bootstrap c up.content.length [] raw).st.mods Gen.C18.ASSEMBLER_IMPORTS_BYTES = true ∧
    (bootstrap c up.content.length [] raw).st.rd.flat = extra ∧
    remoteOptions wire = some opts ∧
    enterMain Gen.C18.SERVER_MAIN_PARAMS Gen.C18.MAIN_BINDING (lookupOpt opts) =
      Gen.C18.SERVER_MAIN_PARAMS.map (fun p => (p, lookupOpt opts p)) ∧
    (∀ p ∈ Gen.C18.SERVER_MAIN_PARAMS, (lookupOpt opts p).isSome = true) ∧
    Spec.QuietUntilSync (clientStart up serverOut grant) (up.content ++ up.content2) := by
  obtain ⟨datas, h1, h2, h3, h4, h5, h6⟩ := C18_connect_assembles c hc env wire up hup raw extra hraw
  obtain ⟨ns, hn1, hn2, hn3⟩ := C18_option_binding np opts hkeys hv wire henc
  have hk : ∀ kv ∈ opts, 61 ∉ kv.1 ∧ 10 ∉ kv.1 := by
    intro kv hm
    apply option_keys_ok
    rw [← hkeys]; exact List.mem_map_of_mem hm
  have hw := C18_options_wire np opts hk hv wire henc
  rw [hn1] at hw
  simp only [Option.map_some, Option.some.injEq, Spec.SameOptions, eq_iff_iff, iff_true] at hw
  subst hw
  have hlen : Gen.C18.PACKAGED_BYTES.length = datas.length := by
    have := congrArg List.length h1
    simpa using this
  have hasm : env.fs Gen.C18.ASSEMBLER_MODULE_BYTES = some up.content := by
    unfold connect connectWith at hup
    cases hs : getModuleSource Gen.C18.SOURCE_BINARY env Gen.C18.ASSEMBLER_MODULE_BYTES with
    | noSuchModule => rw [hs] at hup; cases hup
    | decodeError => rw [hs] at hup; cases hup
    | ok content =>
      rw [hs] at hup
      simp only at hup
      cases hp : packList c Gen.C18.SOURCE_BINARY env Gen.C18.EXPLICIT_DATA_BYTES wire c.cinit Gen.C18.PACKAGED_BYTES with
      | error e => rw [hp] at hup; cases hup
      | ok frames =>
        rw [hp] at hup
        simp only [Except.ok.injEq] at hup
        subst hup
        rw [pin_source_binary] at hs
        unfold getModuleSource at hs
        cases hf : env.fs Gen.C18.ASSEMBLER_MODULE_BYTES with
        | none => rw [hf] at hs; cases hs
        | some file =>
          rw [hf] at hs
          simp only [↓reduceIte, SrcRes.ok.injEq] at hs
          rw [hs]
  refine ⟨hasm, h2, h3, ?_, ?_, h5, h6, hn1, hn2, hn3, (C18_nothing_before_sync up serverOut grant).1⟩
  · rw [h4, List.map_fst_zip]; omega
  · intro n d hm
    rw [h4] at hm
    have hsrc := zip_mem_of_map_eq
      (fun n => srcFor Gen.C18.SOURCE_BINARY env n (dataArg Gen.C18.EXPLICIT_DATA_BYTES wire n)) SrcRes.ok
      _ _ h1 n d hm
    constructor
    · intro hnot
      have hc' : Gen.C18.EXPLICIT_DATA_BYTES.contains n = false := by
        simpa using hnot
      rw [pin_source_binary] at hsrc
      simp only [srcFor, dataArg, hc', Bool.false_eq_true, ↓reduceIte, getModuleSource] at hsrc
      cases hf : env.fs n with
      | none => rw [hf] at hsrc; cases hsrc
      | some file =>
        rw [hf] at hsrc
        simp only [SrcRes.ok.injEq] at hsrc
        rw [hsrc]
    · intro hin
      have hc' : Gen.C18.EXPLICIT_DATA_BYTES.contains n = true := by
        simpa using hin
      have hwne := optdata_nonempty np ns hne wire henc
      simp only [srcFor, dataArg, hc', ↓reduceIte, hwne, Bool.false_eq_true, SrcRes.ok.injEq] at hsrc
      exact hsrc.symm

end Sshuttle.Bootstrap
