/-
C11 — Forwarded UDP keeps datagram boundaries, payload and addressing.

Property theorems only; helper lemmas are in `Lemmas/Dgram.lean`, `Lemmas/DgramClient.lean`.
-/
import SshuttleModel.Spec.Dgram
import SshuttleModel.Lemmas.DgramClient
import SshuttleModel.Lemmas.DgramAssoc
import SshuttleModel.Lemmas.DgramPins

namespace Sshuttle.Dgram

/-! ## 1. The `ip,port,` header -/

/-- **Header round trip.** For every address text without a comma, every port and *every*
payload (commas, NULs, a payload that itself looks like a header): splitting
`ip,port,payload` at the first two commas gives back exactly `ip`, the port digits and the
payload, and the digits parse back to the port.  Both directions of the tunnel use this
codec (`"%s,%d,"` on the client, `"%s,%r,"` on the server, `split(b",", 2)` on both). -/
theorem C11_hdr_roundtrip (ip : Bytes) (port : Nat) (data : Bytes) (h : comma ∉ ip) :
    HdrRoundTrip ip port data :=
  ⟨split2_mkHdr ip port data h, parseDec_dec port⟩

/-- Non-vacuity and the adversarial case of the property text: payload `",,"` behind
address `5.6.7.8`, port 99. -/
example : split2 (mkHdr (bytesOfStr "5.6.7.8") 99 ++ [44, 44]) = some (bytesOfStr "5.6.7.8", dec 99, [44, 44]) :=
  (C11_hdr_roundtrip (bytesOfStr "5.6.7.8") 99 [44, 44] (by decide)).1

/-! ## 2. One datagram in, one datagram out -/

/-- **Client, captured datagram.** Every accepted datagram queues exactly one UDP_DATA frame,
carrying `dst-ip,dst-port,` + the payload as received; before it at most the UDP_OPEN of a
fresh association (same id), after it only UDP_CLOSE frames of associations swept in the same
call. -/
theorem C11_one_to_one_capture {cfg : Cfg} {now : Nat} {cap : Capture} {c c' : Client} {fr : List Frame}
    {src : Addr} {d : Addr} {data : Bytes}
    (hr : recvUdp cfg.method cfg.recvMax cap = some (src, some d, data))
    (h : onacceptUdp cfg now cap c = .ok (c', fr)) :
    fr = [] ∨      -- no id free: datagram discarded with a warning
    ∃ chan opens closes,
      fr = opens ++ [⟨chan, CMD_UDP_DATA, mkHdr d.ip d.port ++ data⟩] ++ closes ∧
      (opens = [] ∨ opens = [⟨chan, CMD_UDP_OPEN, dec cap.lsn⟩]) ∧
      (∀ f ∈ closes, f.cmd = CMD_UDP_CLOSE ∧ f.data = []) := by
  unfold onacceptUdp at h
  rw [hr] at h
  simp only at h
  split at h
  · simp only [Except.ok.injEq, Prod.mk.injEq] at h
    exact Or.inl h.2.symm
  · next c1 chan opens hal =>
    split at h
    · cases h
    · next c3 closes he =>
      simp only [Except.ok.injEq, Prod.mk.injEq] at h
      obtain ⟨_, rfl⟩ := h
      obtain ⟨_, _, _, _, _, hcl, _⟩ := expire_ok he
      refine Or.inr ⟨chan, opens, closes, rfl, ?_, ?_⟩
      · obtain ⟨_, _, _, e4⟩ := udpAlloc_ok hal
        rcases e4 with ⟨_, e5 | ⟨ch, t, _, e5⟩⟩ | ⟨ch, _, _, _, e5⟩
        · cases e5
        · simp only [Option.some.injEq, Prod.mk.injEq] at e5; exact Or.inl e5.2
        · simp only [Option.some.injEq, Prod.mk.injEq] at e5
          obtain ⟨rfl, rfl⟩ := e5
          exact Or.inr rfl
      · intro f hf
        rw [hcl] at hf
        simp only [List.mem_map] at hf
        obtain ⟨p, _, rfl⟩ := hf
        exact ⟨rfl, rfl⟩

/-- **Server, tunnel → network.** A UDP_DATA frame for an open association whose payload is
`ip,port,` + `data` makes the server call `sendto(data, (ip, port))` exactly once, on that
association's socket: identical payload, original destination.  (The outcome of the call —
`failed` — is the environment's; an error is logged and nothing else happens.) -/
theorem C11_one_to_one_server (cfg : Cfg) (now : Nat) (s : SSys) (sc : Script) (chan : Nat)
    (ip : Bytes) (port : Nat) (data : Bytes) (h : UdpH) (hid : Nat)
    (hip : comma ∉ ip) (halive : s.dead = none) (hopen : s.chans.contains chan = true)
    (hmap : lookup chan s.udphandlers = some hid) (hh : s.udpH.find? (·.hid = hid) = some h) :
    (srvGot cfg now ⟨chan, CMD_UDP_DATA, mkHdr ip port ++ data⟩ sc s).1 =
      { s with usends := s.usends ++ [⟨chan, h.sock, ip, port, data, sc.popResult.1⟩] } := by
  have e1 : (CMD_UDP_DATA = CMD_DNS_REQ) = False := by decide
  have e2 : (CMD_UDP_DATA = CMD_UDP_OPEN) = False := by decide
  have e3 : isChannelCmd CMD_UDP_DATA = true := by decide
  unfold srvGot
  simp only [halive, Option.isSome_none, Bool.false_eq_true, if_false, e1, e2, e3, if_true, hopen,
    not_true_eq_false, split2_mkHdr ip port data hip, parseDec_dec, hmap, Option.bind_some, hh]

/-- **Server, network → tunnel.** Each datagram read from an association's socket becomes
exactly one UDP_DATA frame on the association's id, `host,port,` + payload as received. -/
theorem C11_one_to_one_reply (cfg : Cfg) (h : UdpH) (host : Addr) (d : Bytes) :
    udpCallback cfg h (.data host d) =
      .ok [⟨h.chan, CMD_UDP_DATA, mkHdr host.ip host.port ++ d.take cfg.srvRecvMax⟩] := rfl

/-- **Client, tunnel → local application.** Such a frame, arriving on the id of the
association of `src`, produces exactly one datagram: payload unchanged, destination the
association's source, sent from a socket bound to the replying host's address and port
(tproxy), and the client's tables are untouched. -/
theorem C11_one_to_one_delivery (cfg : Cfg) (c : Client) (chan lsn : Nat) (src host : Addr) (d : Bytes)
    (hm : cfg.method = .tproxy) (hip : comma ∉ host.ip)
    (hcb : lookup chan c.chans = some (.udp lsn src)) :
    clientGot cfg ⟨chan, CMD_UDP_DATA, mkHdr host.ip host.port ++ d⟩ c =
      .ok (c, [⟨lsn, some ⟨host.ip, host.port, []⟩, src, d⟩]) := by
  have e3 : isChannelCmd CMD_UDP_DATA = true := by decide
  unfold clientGot
  simp only [e3, not_true_eq_false, if_false, hcb, udpDone, split2_mkHdr host.ip host.port d hip,
    parseDec_dec, sendUdp, hm]

/-! ## 3. One socket per source -/

/-- **While a source is in the table, all its datagrams use its id** (no new id, no UDP_OPEN),
and the entry is only refreshed. -/
theorem C11_same_id_while_associated (cfg : Cfg) (lsn : Nat) (src : Addr) (c : Client) (chan t : Nat)
    (h : lookup src c.udpBySrc = some (chan, t)) :
    udpAlloc cfg lsn src c = (c, some (chan, [])) := by
  unfold udpAlloc; rw [h]

/-- **The server keeps one socket per id**: UDP_OPEN creates exactly one `UdpProxy` with one new
socket and maps the id to it (`C11_one_to_one_server` shows every datagram of that id then
leaves through this socket). -/
theorem C11_open_one_socket (cfg : Cfg) (now : Nat) (s : SSys) (sc : Script) (chan fam : Nat)
    (halive : s.dead = none) (hfree : s.chans.contains chan = false)
    (hnew : hasKey chan s.udphandlers = false) :
    (srvGot cfg now ⟨chan, CMD_UDP_OPEN, dec fam⟩ sc s).1 =
      { s with chans := s.chans ++ [chan], nextSock := s.nextSock + 1, nextHid := s.nextHid + 1,
               udpH := s.udpH ++ [⟨s.nextHid, chan, s.nextSock, fam, true⟩],
               udphandlers := set chan s.nextHid s.udphandlers } := by
  have e1 : (CMD_UDP_OPEN = CMD_DNS_REQ) = False := by decide
  unfold srvGot
  simp only [halive, Option.isSome_none, Bool.false_eq_true, if_false, e1, if_true, hfree,
    parseDec_dec, hnew]

/-- The ids in `udp_by_src` are all occupied in `mux.channels` by their own callback. -/
def TablesInChans (c : Client) : Prop :=
  ∀ p ∈ c.udpBySrc, ∃ l, lookup p.2.1 c.chans = some (.udp l p.1)

/-- **Distinct sources get distinct ids (partial).** When a source that is not in the table is
given an id, that id differs from the id of every source in the table — provided the table's
ids are registered in `mux.channels` (`TablesInChans`).  Missing for the full statement: that
`TablesInChans` is an invariant of every step (it is what the code maintains by registering the
callback before the table entry and deleting both together; the harness oracle
`C11:two-sources-share-an-id` checks the conclusion on every run). -/
theorem C11_one_socket_per_source_partial (cfg : Cfg) (lsn : Nat) (src : Addr) (c c1 : Client)
    (chan : Nat) (opens : List Frame) (hinv : TablesInChans c)
    (hnew : lookup src c.udpBySrc = none)
    (h : udpAlloc cfg lsn src c = (c1, some (chan, opens))) :
    ∀ p ∈ c.udpBySrc, p.2.1 ≠ chan := by
  obtain ⟨_, _, _, e4⟩ := udpAlloc_ok h
  rcases e4 with ⟨_, e5 | ⟨ch, t, e5, _⟩⟩ | ⟨ch, _, hfree, _, e5⟩
  · cases e5
  · rw [hnew] at e5; cases e5
  · simp only [Option.some.injEq, Prod.mk.injEq] at e5
    obtain ⟨e5, _⟩ := e5
    subst e5
    intro p hp e
    obtain ⟨l, hl⟩ := hinv p hp
    rw [e] at hl
    have := (hasKey_eq_false_iff _ c.chans).1 hfree _ (lookup_mem hl)
    exact this rfl

/-- Non-vacuity: a table with one association satisfies `TablesInChans`. -/
example : TablesInChans { chans := [(1, .udp 2 ⟨[49], 7, []⟩)], udpBySrc := [(⟨[49], 7, []⟩, (1, 30720))] } := by
  intro p hp
  simp only [List.mem_singleton] at hp
  subst hp
  exact ⟨2, by decide⟩

/-! ## 4. Expiry -/

/-- **Expiry, client.** After `expire_connections(now)`: no association (and no DNS query) whose
deadline is before `now` remains; those that remain are exactly the others, unchanged and in
order; exactly one UDP_CLOSE, with empty payload, was queued for each removed association, in
table order; every removed id is free in `mux.channels`; every callback whose id was not
removed is still registered.  Expiry is lazy: it happens only inside accept events. -/
theorem C11_expiry {now : Nat} {c c' : Client} {fr : List Frame} (h : expire now c = .ok (c', fr)) :
    SweptAt now c c' ∧
    fr = (c.udpBySrc.filter fun p => p.2.2 < now).map (fun p => ⟨p.2.1, CMD_UDP_CLOSE, []⟩) ∧
    (∀ p ∈ c.udpBySrc, p.2.2 < now → hasKey p.2.1 c'.chans = false) ∧
    (∀ p ∈ c.chans, p.1 ∉ (c.dnsreqs.filter fun q => q.2 < now).map (·.1) →
        p.1 ∉ (c.udpBySrc.filter fun q => q.2.2 < now).map (·.2.1) → p ∈ c'.chans) := by
  obtain ⟨_, _, _, e1, e2, e3, e4, _, e6⟩ := expire_ok h
  refine ⟨⟨e1, e2⟩, e3, ?_, e4⟩
  intro p hp hlt
  apply e6
  simp only [List.mem_map, List.mem_filter]
  exact ⟨p, ⟨hp, by simpa using hlt⟩, rfl⟩

/-- **An overdue association that sees traffic before any sweep is refreshed, not reopened**
(the reading of "idle for 30 seconds" the code implements): `onaccept_udp` looks the source up
and rewrites its deadline to `now + 30 s` *before* it sweeps. -/
theorem C11_refresh_before_sweep (cfg : Cfg) (now : Nat) (cap : Capture) (c : Client) (src d : Addr)
    (data : Bytes) (chan t : Nat)
    (hr : recvUdp cfg.method cfg.recvMax cap = some (src, some d, data))
    (h : lookup src c.udpBySrc = some (chan, t)) :
    onacceptUdp cfg now cap c =
      match expire now { c with udpBySrc := set src (chan, now + cfg.udpHorizonS * cfg.ticksPerS) c.udpBySrc } with
      | .error e => .error e
      | .ok (c3, closes) => .ok (c3, [⟨chan, CMD_UDP_DATA, mkHdr d.ip d.port ++ data⟩] ++ closes) := by
  unfold onacceptUdp
  rw [hr]
  simp only [C11_same_id_while_associated cfg cap.lsn src c chan t h, List.nil_append]
  rfl

/-- **Expiry, server.** UDP_CLOSE for an open association retires its handler and frees the id
at once; the sweep at the end of the round then drops the id → handler entry, so that a later
UDP_OPEN for the id is accepted (`C11_open_one_socket`). -/
theorem C11_close_server (cfg : Cfg) (now : Nat) (s : SSys) (sc : Script) (chan hid : Nat)
    (halive : s.dead = none) (hopen : s.chans.contains chan = true)
    (hmap : lookup chan s.udphandlers = some hid) :
    (srvGot cfg now ⟨chan, CMD_UDP_CLOSE, []⟩ sc s).1 =
      { s with udpH := s.udpH.map fun h => if h.hid = hid then { h with ok := false } else h,
               chans := s.chans.erase chan } := by
  have e1 : (CMD_UDP_CLOSE = CMD_DNS_REQ) = False := by decide
  have e2 : (CMD_UDP_CLOSE = CMD_UDP_OPEN) = False := by decide
  have e3 : isChannelCmd CMD_UDP_CLOSE = true := by decide
  have e4 : (CMD_UDP_CLOSE = CMD_UDP_DATA) = False := by decide
  unfold srvGot
  simp only [halive, Option.isSome_none, Bool.false_eq_true, if_false, e1, e2, e3, e4, if_true, hopen,
    not_true_eq_false, hmap]

/-! ## 5. One association per source while it lives — every event sequence, every errno -/

/-- **Client: while a source's association lives it keeps its id.**  For every configuration and
every sequence of client events (captures from this and other sources, DNS captures, other
accepts, sweeps, ids taken/released by other flows, arbitrary incoming frames), each seeing an
arbitrary clock reading: if at every event the association has not reached its deadline
(`AliveThrough`) and the client has not stopped, the source is still associated with the *same*
id at the end — so (`C11_same_id_while_associated`) every one of its datagrams in between was
queued on that id without a new UDP_OPEN, i.e. leaves from the one server socket of the id. -/
theorem C11_one_association_per_source (cfg : Cfg) (src : Addr) (chan t : Nat) (s : CSys)
    (ops : List (Nat × COp)) (h0 : lookup src s.c.udpBySrc = some (chan, t))
    (halive : AliveThrough cfg src s ops = true) (hrun : (s.run cfg ops).dead = none) :
    ∃ t', lookup src (s.run cfg ops).c.udpBySrc = some (chan, t') :=
  assoc_survives_run ops h0 halive hrun

/-- Non-vacuity: after a first datagram at clock 0, a DNS capture at 100, a second datagram at
29 s and an unrelated accept at 59 s satisfy `AliveThrough`, and the association still has id 1. -/
example :
    let cfg : Cfg := { method := .tproxy }
    let src : Addr := ⟨[49], 4000, []⟩
    let cap : Capture := ⟨2, src, some ⟨[57], 53, []⟩, [44, 44]⟩
    let s0 := CSys.run cfg {} [(0, .udp cap)]
    let ops : List (Nat × COp) := [(100, .dns cap), (29696, .udp cap), (60416, .accept)]
    lookup src s0.c.udpBySrc = some (1, 30720) ∧ AliveThrough cfg src s0 ops = true ∧
    (s0.run cfg ops).dead = none ∧ lookup src (s0.run cfg ops).c.udpBySrc = some (1, 60416) := by
  decide

/-- **Server: a failing `sendto` of ANY errno leaves the association in place.**  Whatever the
scripted outcome of the call (success, an errno in `NET_ERRS`, EPERM, EINVAL, EMSGSIZE, …), the
only thing `udp_req` changes is the log of the attempted datagram: the handler, its socket, the
id → handler map and `mux.channels` are exactly as before, and the server keeps running. -/
theorem C11_send_error_keeps_association (cfg : Cfg) (now : Nat) (s : SSys) (sc : Script) (chan : Nat)
    (ip : Bytes) (port : Nat) (data : Bytes) (h : UdpH) (hid : Nat)
    (hip : comma ∉ ip) (halive : s.dead = none) (hopen : s.chans.contains chan = true)
    (hmap : lookup chan s.udphandlers = some hid) (hh : s.udpH.find? (·.hid = hid) = some h) :
    let s' := (srvGot cfg now ⟨chan, CMD_UDP_DATA, mkHdr ip port ++ data⟩ sc s).1
    s'.dead = none ∧ s'.udpH = s.udpH ∧ s'.udphandlers = s.udphandlers ∧ s'.chans = s.chans ∧
    s'.out = s.out ∧ s'.usends = s.usends ++ [⟨chan, h.sock, ip, port, data, sc.popResult.1⟩] := by
  intro s'
  have e : s' = _ := C11_one_to_one_server cfg now s sc chan ip port data h hid hip halive hopen hmap hh
  rw [e]
  exact ⟨halive, rfl, rfl, rfl, rfl, rfl⟩

/-- **Server: all datagrams of one id leave from one socket, send errors or not.**  A whole
batch of UDP_DATA frames for an open association, read in one round, with any script of
`sendto` outcomes: exactly one `sendto` per frame, in order, each with its own destination and
payload, every one on the association's socket; afterwards the association is as before. -/
theorem C11_batch_one_socket (cfg : Cfg) (now chan hid : Nat) (h : UdpH)
    (ds : List (Bytes × Nat × Bytes)) :
    ∀ (s : SSys) (sc : Script), s.dead = none → s.chans.contains chan = true →
      lookup chan s.udphandlers = some hid → s.udpH.find? (·.hid = hid) = some h →
      (∀ d ∈ ds, comma ∉ d.1) →
      let s' := (srvGotAll cfg now (ds.map fun d => ⟨chan, CMD_UDP_DATA, mkHdr d.1 d.2.1 ++ d.2.2⟩) sc s).1
      s'.dead = none ∧ s'.udpH = s.udpH ∧ s'.udphandlers = s.udphandlers ∧ s'.chans = s.chans ∧
      ∃ outcomes : List (Option Nat), outcomes.length = ds.length ∧
        s'.usends = s.usends ++ (ds.zip outcomes).map fun p => ⟨chan, h.sock, p.1.1, p.1.2.1, p.1.2.2, p.2⟩ := by
  induction ds with
  | nil =>
    intro s sc h1 _ _ _ _
    exact ⟨h1, rfl, rfl, rfl, [], rfl, by simp [srvGotAll]⟩
  | cons d ds ih =>
    intro s sc h1 h2 h3 h4 h5
    obtain ⟨a1, a2, a3, a4, _, a6⟩ := C11_send_error_keeps_association cfg now s sc chan d.1 d.2.1 d.2.2 h hid
      (h5 d (by simp)) h1 h2 h3 h4
    simp only [List.map_cons, srvGotAll]
    generalize hg : srvGot cfg now ⟨chan, CMD_UDP_DATA, mkHdr d.1 d.2.1 ++ d.2.2⟩ sc s = r at a1 a2 a3 a4 a6
    obtain ⟨s1, sc1⟩ := r
    simp only at a1 a2 a3 a4 a6 ⊢
    obtain ⟨b1, b2, b3, b4, outs, b5, b6⟩ := ih s1 sc1 a1 (by rw [a4]; exact h2) (by rw [a3]; exact h3)
      (by rw [a2]; exact h4) (fun d' hd' => h5 d' (List.mem_cons_of_mem _ hd'))
    refine ⟨b1, b2.trans a2, b3.trans a3, b4.trans a4, sc.popResult.1 :: outs, by simp [b5], ?_⟩
    rw [b6, a6]
    simp

/-! ## 6. Both ends agree on closing; one clock -/

/-- **After UDP_CLOSE neither side holds the id.**  Client side: `C11_expiry` (entry gone from
`udp_by_src`, id free in `mux.channels`, exactly one UDP_CLOSE queued).  Server side, for that
frame: the id leaves the server's `mux.channels` at once, the handler is retired, and the sweep
that ends the same round drops the id → handler entry, so a later UDP_OPEN for the id is
accepted (`C11_open_one_socket`) — the precondition whose violation is the F19 finding. -/
theorem C11_close_both_ends (cfg : Cfg) (now now' : Nat) (s : SSys) (sc : Script) (chan hid : Nat) (h : UdpH)
    (halive : s.dead = none) (hopen : s.chans.contains chan = true) (hnodup : s.chans.Nodup)
    (hmap : lookup chan s.udphandlers = some hid) (hh : s.udpH.find? (·.hid = hid) = some h)
    (huniq : ∀ p ∈ s.udphandlers, p.1 = chan → p.2 = hid) :
    (srvSweep now' (srvGot cfg now ⟨chan, CMD_UDP_CLOSE, []⟩ sc s).1).chans.contains chan = false ∧
    hasKey chan (srvSweep now' (srvGot cfg now ⟨chan, CMD_UDP_CLOSE, []⟩ sc s).1).udphandlers = false ∧
    (srvSweep now' (srvGot cfg now ⟨chan, CMD_UDP_CLOSE, []⟩ sc s).1).dead = none := by
  rw [C11_close_server cfg now s sc chan hid halive hopen hmap]
  refine ⟨?_, ?_, halive⟩
  · simp only [srvSweep, List.contains_eq_mem, decide_eq_false_iff_not]
    exact fun hm => (List.Nodup.not_mem_erase hnodup) hm
  · rw [hasKey_eq_false_iff]
    intro p hp
    simp only [srvSweep, List.mem_filter] at hp
    obtain ⟨hp1, hp2⟩ := hp
    intro hk
    have hp3 := huniq p hp1 hk
    rw [hp3, find_map_retire s.udpH hid h hh] at hp2
    simp at hp2

/-- **One clock.** The deadline of an association is written from the clock reading `now` its
capture saw (`now + 30 s`), survives that capture's own sweep, and every later sweep compares it
with the clock reading *it* is given: the entry stays exactly while that reading is not beyond
the deadline.  In the Python all these readings come from the same call (pinned below); the model
has one `now` parameter per event, so a stamp is never compared in another clock's domain. -/
theorem C11_one_clock {cfg : Cfg} {now : Nat} {cap : Capture} {c c' : Client} {fr : List Frame}
    {src d : Addr} {data : Bytes}
    (hr : recvUdp cfg.method cfg.recvMax cap = some (src, some d, data))
    (h : onacceptUdp cfg now cap c = .ok (c', fr)) (hfr : fr ≠ []) :
    (∃ chan, lookup src c'.udpBySrc = some (chan, now + cfg.udpHorizonS * cfg.ticksPerS)) ∧
    ∀ now' c'' fr', expire now' c' = .ok (c'', fr') →
      (now' ≤ now + cfg.udpHorizonS * cfg.ticksPerS →
        ∃ chan, lookup src c''.udpBySrc = some (chan, now + cfg.udpHorizonS * cfg.ticksPerS)) ∧
      (∀ p ∈ c''.udpBySrc, ¬ p.2.2 < now') := by
  have hl : ∃ chan, lookup src c'.udpBySrc = some (chan, now + cfg.udpHorizonS * cfg.ticksPerS) := by
    unfold onacceptUdp at h
    rw [hr] at h
    simp only at h
    split at h
    · simp only [Except.ok.injEq, Prod.mk.injEq] at h; exact absurd h.2.symm hfr
    · next c1 ch ops hal =>
      split at h
      · cases h
      · next c3 cl he =>
        simp only [Except.ok.injEq, Prod.mk.injEq] at h
        obtain ⟨rfl, _⟩ := h
        obtain ⟨_, _, _, _, e5, _⟩ := expire_ok he
        exact ⟨ch, by rw [e5]; exact lookup_filter _ (lookup_set_self _ _ _) (by simp)⟩
  refine ⟨hl, ?_⟩
  intro now' c'' fr' he
  obtain ⟨_, _, _, _, e5, _⟩ := expire_ok he
  refine ⟨?_, ?_⟩
  · intro hle
    obtain ⟨chan, hc⟩ := hl
    exact ⟨chan, by rw [e5]; exact lookup_filter _ hc (by simp; omega)⟩
  · intro p hp
    rw [e5] at hp
    simpa using (List.mem_filter.1 hp).2

/-- Pin: every deadline is written and compared with the same clock call. -/
example : Gen.C11.CLOCK_READS =
    ["client.onaccept_tcp:time.time", "client.onaccept_udp:time.time", "client.ondns:time.time",
     "server.DnsProxy.__init__:time.time", "server.UdpProxy.__init__:time.time", "server.main:time.time"] := by
  decide

end Sshuttle.Dgram
