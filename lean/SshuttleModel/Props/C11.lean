/-
C11 — Forwarded UDP keeps datagram boundaries, payload and addressing.

Property theorems only; helper lemmas are in `Lemmas/Dgram.lean`, `Lemmas/DgramClient.lean`.
-/
import SshuttleModel.Spec.Dgram
import SshuttleModel.Lemmas.DgramClient
import SshuttleModel.Lemmas.DgramPins

namespace Sshuttle.Dgram

/-! ## 1. The `ip,port,` header -/

/-- **Header round trip.** For every address text without a comma, every port and *every*
payload (commas, NULs, a payload that itself looks like a header): splitting
`ip,port,payload` at the first two commas gives back exactly `ip`, the port digits and the
payload, and the digits parse back to the port.  Both directions of the tunnel use this
codec (`"%s,%d,"` on the client, `"%s,%r,"` on the server, `split(b",", 2)` on both). -/
theorem C11_hdr_roundtrip (ip : Bytes) (port : Nat) (data : Bytes) (h : comma ∉ ip) :
    HdrRoundTrip ip port data :=
  ⟨split2_mkHdr ip port data h, parseDec_dec port⟩

/-- Non-vacuity and the adversarial case of the property text: payload `",,"` behind
address `5.6.7.8`, port 99. -/
example : split2 (mkHdr (bytesOfStr "5.6.7.8") 99 ++ [44, 44]) = some (bytesOfStr "5.6.7.8", dec 99, [44, 44]) :=
  (C11_hdr_roundtrip (bytesOfStr "5.6.7.8") 99 [44, 44] (by decide)).1

/-! ## 2. One datagram in, one datagram out -/

/-- **Client, captured datagram.** Every accepted datagram queues exactly one UDP_DATA frame,
carrying `dst-ip,dst-port,` + the payload as received; before it at most the UDP_OPEN of a
fresh association (same id), after it only UDP_CLOSE frames of associations swept in the same
call. -/
theorem C11_one_to_one_capture {cfg : Cfg} {now : Nat} {cap : Capture} {c c' : Client} {fr : List Frame}
    {src : Addr} {d : Addr} {data : Bytes}
    (hr : recvUdp cfg.method cfg.recvMax cap = some (src, some d, data))
    (h : onacceptUdp cfg now cap c = .ok (c', fr)) :
    fr = [] ∨      -- no id free: datagram discarded with a warning
    ∃ chan opens closes,
      fr = opens ++ [⟨chan, CMD_UDP_DATA, mkHdr d.ip d.port ++ data⟩] ++ closes ∧
      (opens = [] ∨ opens = [⟨chan, CMD_UDP_OPEN, dec cap.lsn⟩]) ∧
      (∀ f ∈ closes, f.cmd = CMD_UDP_CLOSE ∧ f.data = []) := by
  unfold onacceptUdp at h
  rw [hr] at h
  simp only at h
  split at h
  · simp only [Except.ok.injEq, Prod.mk.injEq] at h
    exact Or.inl h.2.symm
  · next c1 chan opens hal =>
    split at h
    · cases h
    · next c3 closes he =>
      simp only [Except.ok.injEq, Prod.mk.injEq] at h
      obtain ⟨_, rfl⟩ := h
      obtain ⟨_, _, _, _, _, hcl, _⟩ := expire_ok he
      refine Or.inr ⟨chan, opens, closes, rfl, ?_, ?_⟩
      · obtain ⟨_, _, _, e4⟩ := udpAlloc_ok hal
        rcases e4 with ⟨_, e5 | ⟨ch, t, _, e5⟩⟩ | ⟨ch, _, _, _, e5⟩
        · cases e5
        · simp only [Option.some.injEq, Prod.mk.injEq] at e5; exact Or.inl e5.2
        · simp only [Option.some.injEq, Prod.mk.injEq] at e5
          obtain ⟨rfl, rfl⟩ := e5
          exact Or.inr rfl
      · intro f hf
        rw [hcl] at hf
        simp only [List.mem_map] at hf
        obtain ⟨p, _, rfl⟩ := hf
        exact ⟨rfl, rfl⟩

/-- **Server, tunnel → network.** A UDP_DATA frame for an open association whose payload is
`ip,port,` + `data` makes the server call `sendto(data, (ip, port))` exactly once, on that
association's socket: identical payload, original destination.  (The outcome of the call —
`failed` — is the environment's; an error is logged and nothing else happens.) -/
theorem C11_one_to_one_server (cfg : Cfg) (now : Nat) (s : SSys) (sc : Script) (chan : Nat)
    (ip : Bytes) (port : Nat) (data : Bytes) (h : UdpH) (hid : Nat)
    (hip : comma ∉ ip) (halive : s.dead = none) (hopen : s.chans.contains chan = true)
    (hmap : lookup chan s.udphandlers = some hid) (hh : s.udpH.find? (·.hid = hid) = some h) :
    (srvGot cfg now ⟨chan, CMD_UDP_DATA, mkHdr ip port ++ data⟩ sc s).1 =
      { s with usends := s.usends ++ [⟨chan, h.sock, ip, port, data, sc.popResult.1⟩] } := by
  have e1 : (CMD_UDP_DATA = CMD_DNS_REQ) = False := by decide
  have e2 : (CMD_UDP_DATA = CMD_UDP_OPEN) = False := by decide
  have e3 : isChannelCmd CMD_UDP_DATA = true := by decide
  unfold srvGot
  simp only [halive, Option.isSome_none, Bool.false_eq_true, if_false, e1, e2, e3, if_true, hopen,
    not_true_eq_false, split2_mkHdr ip port data hip, parseDec_dec, hmap, Option.bind_some, hh]

/-- **Server, network → tunnel.** Each datagram read from an association's socket becomes
exactly one UDP_DATA frame on the association's id, `host,port,` + payload as received. -/
theorem C11_one_to_one_reply (cfg : Cfg) (h : UdpH) (host : Addr) (d : Bytes) :
    udpCallback cfg h (.data host d) =
      .ok [⟨h.chan, CMD_UDP_DATA, mkHdr host.ip host.port ++ d.take cfg.srvRecvMax⟩] := rfl

/-- **Client, tunnel → local application.** Such a frame, arriving on the id of the
association of `src`, produces exactly one datagram: payload unchanged, destination the
association's source, sent from a socket bound to the replying host's address and port
(tproxy), and the client's tables are untouched. -/
theorem C11_one_to_one_delivery (cfg : Cfg) (c : Client) (chan lsn : Nat) (src host : Addr) (d : Bytes)
    (hm : cfg.method = .tproxy) (hip : comma ∉ host.ip)
    (hcb : lookup chan c.chans = some (.udp lsn src)) :
    clientGot cfg ⟨chan, CMD_UDP_DATA, mkHdr host.ip host.port ++ d⟩ c =
      .ok (c, [⟨lsn, some ⟨host.ip, host.port, []⟩, src, d⟩]) := by
  have e3 : isChannelCmd CMD_UDP_DATA = true := by decide
  unfold clientGot
  simp only [e3, not_true_eq_false, if_false, hcb, udpDone, split2_mkHdr host.ip host.port d hip,
    parseDec_dec, sendUdp, hm]

/-! ## 3. One socket per source -/

/-- **While a source is in the table, all its datagrams use its id** (no new id, no UDP_OPEN),
and the entry is only refreshed. -/
theorem C11_same_id_while_associated (cfg : Cfg) (lsn : Nat) (src : Addr) (c : Client) (chan t : Nat)
    (h : lookup src c.udpBySrc = some (chan, t)) :
    udpAlloc cfg lsn src c = (c, some (chan, [])) := by
  unfold udpAlloc; rw [h]

/-- **The server keeps one socket per id**: UDP_OPEN creates exactly one `UdpProxy` with one new
socket and maps the id to it (`C11_one_to_one_server` shows every datagram of that id then
leaves through this socket). -/
theorem C11_open_one_socket (cfg : Cfg) (now : Nat) (s : SSys) (sc : Script) (chan fam : Nat)
    (halive : s.dead = none) (hfree : s.chans.contains chan = false)
    (hnew : hasKey chan s.udphandlers = false) :
    (srvGot cfg now ⟨chan, CMD_UDP_OPEN, dec fam⟩ sc s).1 =
      { s with chans := s.chans ++ [chan], nextSock := s.nextSock + 1, nextHid := s.nextHid + 1,
               udpH := s.udpH ++ [⟨s.nextHid, chan, s.nextSock, fam, true⟩],
               udphandlers := set chan s.nextHid s.udphandlers } := by
  have e1 : (CMD_UDP_OPEN = CMD_DNS_REQ) = False := by decide
  unfold srvGot
  simp only [halive, Option.isSome_none, Bool.false_eq_true, if_false, e1, if_true, hfree,
    parseDec_dec, hnew]

/-- The ids in `udp_by_src` are all occupied in `mux.channels` by their own callback. -/
def TablesInChans (c : Client) : Prop :=
  ∀ p ∈ c.udpBySrc, ∃ l, lookup p.2.1 c.chans = some (.udp l p.1)

/-- **Distinct sources get distinct ids (partial).** When a source that is not in the table is
given an id, that id differs from the id of every source in the table — provided the table's
ids are registered in `mux.channels` (`TablesInChans`).  Missing for the full statement: that
`TablesInChans` is an invariant of every step (it is what the code maintains by registering the
callback before the table entry and deleting both together; the harness oracle
`C11:two-sources-share-an-id` checks the conclusion on every run). -/
theorem C11_one_socket_per_source_partial (cfg : Cfg) (lsn : Nat) (src : Addr) (c c1 : Client)
    (chan : Nat) (opens : List Frame) (hinv : TablesInChans c)
    (hnew : lookup src c.udpBySrc = none)
    (h : udpAlloc cfg lsn src c = (c1, some (chan, opens))) :
    ∀ p ∈ c.udpBySrc, p.2.1 ≠ chan := by
  obtain ⟨_, _, _, e4⟩ := udpAlloc_ok h
  rcases e4 with ⟨_, e5 | ⟨ch, t, e5, _⟩⟩ | ⟨ch, _, hfree, _, e5⟩
  · cases e5
  · rw [hnew] at e5; cases e5
  · simp only [Option.some.injEq, Prod.mk.injEq] at e5
    obtain ⟨e5, _⟩ := e5
    subst e5
    intro p hp e
    obtain ⟨l, hl⟩ := hinv p hp
    rw [e] at hl
    have := (hasKey_eq_false_iff _ c.chans).1 hfree _ (lookup_mem hl)
    exact this rfl

/-- Non-vacuity: a table with one association satisfies `TablesInChans`. -/
example : TablesInChans { chans := [(1, .udp 2 ⟨[49], 7, []⟩)], udpBySrc := [(⟨[49], 7, []⟩, (1, 30720))] } := by
  intro p hp
  simp only [List.mem_singleton] at hp
  subst hp
  exact ⟨2, by decide⟩

/-! ## 4. Expiry -/

/-- **Expiry, client.** After `expire_connections(now)`: no association (and no DNS query) whose
deadline is before `now` remains; those that remain are exactly the others, unchanged and in
order; exactly one UDP_CLOSE, with empty payload, was queued for each removed association, in
table order; every removed id is free in `mux.channels`; every callback whose id was not
removed is still registered.  Expiry is lazy: it happens only inside accept events. -/
theorem C11_expiry {now : Nat} {c c' : Client} {fr : List Frame} (h : expire now c = .ok (c', fr)) :
    SweptAt now c c' ∧
    fr = (c.udpBySrc.filter fun p => p.2.2 < now).map (fun p => ⟨p.2.1, CMD_UDP_CLOSE, []⟩) ∧
    (∀ p ∈ c.udpBySrc, p.2.2 < now → hasKey p.2.1 c'.chans = false) ∧
    (∀ p ∈ c.chans, p.1 ∉ (c.dnsreqs.filter fun q => q.2 < now).map (·.1) →
        p.1 ∉ (c.udpBySrc.filter fun q => q.2.2 < now).map (·.2.1) → p ∈ c'.chans) := by
  obtain ⟨_, _, _, e1, e2, e3, e4, _, e6⟩ := expire_ok h
  refine ⟨⟨e1, e2⟩, e3, ?_, e4⟩
  intro p hp hlt
  apply e6
  simp only [List.mem_map, List.mem_filter]
  exact ⟨p, ⟨hp, by simpa using hlt⟩, rfl⟩

/-- **An overdue association that sees traffic before any sweep is refreshed, not reopened**
(the reading of "idle for 30 seconds" the code implements): `onaccept_udp` looks the source up
and rewrites its deadline to `now + 30 s` *before* it sweeps. -/
theorem C11_refresh_before_sweep (cfg : Cfg) (now : Nat) (cap : Capture) (c : Client) (src d : Addr)
    (data : Bytes) (chan t : Nat)
    (hr : recvUdp cfg.method cfg.recvMax cap = some (src, some d, data))
    (h : lookup src c.udpBySrc = some (chan, t)) :
    onacceptUdp cfg now cap c =
      match expire now { c with udpBySrc := set src (chan, now + cfg.udpHorizonS * cfg.ticksPerS) c.udpBySrc } with
      | .error e => .error e
      | .ok (c3, closes) => .ok (c3, [⟨chan, CMD_UDP_DATA, mkHdr d.ip d.port ++ data⟩] ++ closes) := by
  unfold onacceptUdp
  rw [hr]
  simp only [C11_same_id_while_associated cfg cap.lsn src c chan t h, List.nil_append]
  rfl

/-- **Expiry, server.** UDP_CLOSE for an open association retires its handler and frees the id
at once; the sweep at the end of the round then drops the id → handler entry, so that a later
UDP_OPEN for the id is accepted (`C11_open_one_socket`). -/
theorem C11_close_server (cfg : Cfg) (now : Nat) (s : SSys) (sc : Script) (chan hid : Nat)
    (halive : s.dead = none) (hopen : s.chans.contains chan = true)
    (hmap : lookup chan s.udphandlers = some hid) :
    (srvGot cfg now ⟨chan, CMD_UDP_CLOSE, []⟩ sc s).1 =
      { s with udpH := s.udpH.map fun h => if h.hid = hid then { h with ok := false } else h,
               chans := s.chans.erase chan } := by
  have e1 : (CMD_UDP_CLOSE = CMD_DNS_REQ) = False := by decide
  have e2 : (CMD_UDP_CLOSE = CMD_UDP_OPEN) = False := by decide
  have e3 : isChannelCmd CMD_UDP_CLOSE = true := by decide
  have e4 : (CMD_UDP_CLOSE = CMD_UDP_DATA) = False := by decide
  unfold srvGot
  simp only [halive, Option.isSome_none, Bool.false_eq_true, if_false, e1, e2, e3, e4, if_true, hopen,
    not_true_eq_false, hmap]

end Sshuttle.Dgram
