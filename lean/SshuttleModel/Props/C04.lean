/-
C04 — Firewall changes are undone on every exit path.

Property theorems only.  The model: `Code/FwSession.lean` (firewall.main's try/finally, the
methods' setup_firewall/restore_firewall as command sequences, `nonfatal` placement read from the
source) running against `Env/FwState.lean` (netfilter with natural command failures and a fault
schedule).  Helper lemmas: `Lemmas/FwSessionCore.lean` (what a command can do under any schedule /
under no fault), `Lemmas/FwSessionNat.lean`, `Lemmas/FwSessionNatProc.lean` (partial-state
characterisation, DESIGN Appendix A.2), `Lemmas/FwSessionMain.lean` (the session),
`Lemmas/FwSessionPins.lean` (the source structure the model was written for).

Proved here for the **nat**, **tproxy** and **nft** methods, both address families, any chain
body (DNS rules, excludes, port ranges, UDP rules), user/group (nat's MARK rule in mangle),
resolvectl, for every pre-existing foreign configuration, every dialogue and every fault schedule
that leaves the tear-down commands alone; plus, per method, the two lemmas the property rests on:
set-up stopped anywhere leaves a *partial view* over the base configuration, and
restore_firewall with naturally behaving commands maps every partial view back to exactly the
base configuration.  tproxy: `Lemmas/FwSessionTproxy*.lean`; nft: `Lemmas/FwSessionNft.lean`; the
method-independent session argument: `Lemmas/FwSessionGen.lean`.  pf: model and nothing else.
Tear-down faults and commands that cannot be spawned: oracle on the real code only.
-/
import SshuttleModel.Lemmas.FwSessionMain
import SshuttleModel.Lemmas.FwSessionTproxyMain
import SshuttleModel.Lemmas.FwSessionPins

namespace Sshuttle.Fw

/-- What "a session on these ports has not left anything" means for the nat method, for the
header `hd` a dialogue parses to: per family in use, no chain named after the port, no rule
jumping to `sshuttle-<port>`, and our MARK rule absent (see `C04_fresh_natFresh`: this follows
from the specification's `fresh port s`). -/
def NatFreshFor (hd : Hdr) (s : FwState) : Prop :=
  (hd.has6 = true → NatFresh .v6 hd.port6 hd.opts s) ∧ (hd.has4 = true → NatFresh .v4 hd.port4 hd.opts s)

/-- **No command before GO.**  If the control dialogue ends (EOF, blank line, malformed or
unexpected line) before the `GO` line has been read, `main` returns or raises before the `try`:
not a single external command is issued and nothing at all changes (configuration, hosts file,
command counter, log). -/
theorem C04_truncation_before_go (c : Config) (d : List Line) (e : Env)
    (h : ∀ hd rest, parseDialogue d ≠ .go hd rest) : (session c d e).2 = e := by
  unfold session
  cases hp : parseDialogue d with
  | early => rfl
  | raised x => rfl
  | go hd rest => exact absurd hp (h hd rest)

/-- **Set-up faults (any number, any position) are undone.**  nat method, any plan, any dialogue
that reaches `GO` (complete, or cut anywhere after it — EOF, junk line, malformed HOST line,
STARTED unwritable), any fault schedule `e0.fail` — every subset of the commands issued during
set-up, DNS flush and the wait loop may fail, the k-th for every k included — provided the
commands of the `finally` block behave naturally: the configuration after `main` equals the
configuration before, exactly (foreign chains and rules, other instances, the other tables, nft,
pf included). -/
theorem C04_nat_setup_fault (c : Config) (hm : c.method = .nat) (d : List Line) (e0 : Env)
    (hd : Hdr) (rest : List Line) (hp : parseDialogue d = .go hd rest)
    (hu : hd.opts.udp = false) (hfresh : NatFreshFor hd e0.st)
    (hnat : ∀ i, (tryBody c hd rest {} e0).2.2.count ≤ i → e0.fail i = false) :
    (session c d e0).2.st = e0.st := by
  unfold session
  rw [hp]
  simp only
  obtain ⟨hmid, hs⟩ := tryBody_nat hm hfresh.1 hfresh.2 rest {} e0 rfl
  cases hr : tryBody c hd rest {} e0 with
  | mk r le =>
    obtain ⟨l1, e1⟩ := le
    rw [hr] at hmid hs hnat
    simp only at hmid hs hnat ⊢
    have hN : NoFault e1 := by
      intro i hi
      rw [hs.fail]
      exact hnat i hi
    have := finallyBody_nat hm hfresh.1 hfresh.2 hu l1 e1 hN hmid
    cases hf : finallyBody c hd l1 e1 with
    | mk l2 e2 => rw [hf] at this; exact this

/-- **Single k-th command failing during set-up**, the form in which the property states it:
for every `k` smaller than the number of commands issued before the `finally` block began. -/
theorem C04_nat_kth_setup_command_fails (c : Config) (hm : c.method = .nat) (d : List Line)
    (s0 : FwState) (k : Nat) (hd : Hdr) (rest : List Line) (hp : parseDialogue d = .go hd rest)
    (hu : hd.opts.udp = false) (hfresh : NatFreshFor hd s0)
    (hk : k < (tryBody c hd rest {} { st := s0, fail := fun i => i == k }).2.2.count) :
    (session c d { st := s0, fail := fun i => i == k }).2.st = s0 := by
  apply C04_nat_setup_fault c hm d { st := s0, fail := fun i => i == k } hd rest hp hu hfresh
  intro i hi
  simp only [beq_eq_false_iff_ne, ne_eq]
  omega

/-- **Set-up followed by tear-down is the identity**, for *every* dialogue — complete, or cut at
any position (every prefix of a dialogue is a dialogue), so this is also the truncation theorem:
with no fault the configuration after `main` equals the configuration before. -/
theorem C04_nat_identity_and_truncation (c : Config) (hm : c.method = .nat) (d : List Line) (s0 : FwState)
    (hfresh : ∀ hd rest, parseDialogue d = .go hd rest → hd.opts.udp = false ∧ NatFreshFor hd s0) :
    (session c d { st := s0 }).2.st = s0 := by
  cases hp : parseDialogue d with
  | early => rw [C04_truncation_before_go c d _ (by intro hd rest h; rw [hp] at h; cases h)]
  | raised x => rw [C04_truncation_before_go c d _ (by intro hd rest h; rw [hp] at h; cases h)]
  | go hd rest =>
    obtain ⟨hu, hf⟩ := hfresh hd rest hp
    exact C04_nat_setup_fault c hm d { st := s0 } hd rest hp hu hf (fun _ _ => rfl)

/-- The same for an explicit prefix of a dialogue (the quantifier of the property: "the control
channel closing at any point of the start-up dialogue"). -/
theorem C04_nat_truncation (c : Config) (hm : c.method = .nat) (d d' : List Line) (_hpre : d' <+: d)
    (s0 : FwState)
    (hfresh : ∀ hd rest, parseDialogue d' = .go hd rest → hd.opts.udp = false ∧ NatFreshFor hd s0) :
    (session c d' { st := s0 }).2.st = s0 ∧
    ((∀ hd rest, parseDialogue d' ≠ .go hd rest) → (session c d' { st := s0 }).2.log = []) := by
  refine ⟨C04_nat_identity_and_truncation c hm d' s0 hfresh, ?_⟩
  intro h
  rw [C04_truncation_before_go c d' _ h]

/-- **Partial set-up states (DESIGN A.2).**  Whatever fails while `setup_firewall` of the nat
method runs on a base configuration `s`, what it leaves is `s` with a view laid over it that
`restore_firewall` can undo: our chain absent ⇒ no jump rule and no MARK rule of ours. -/
theorem C04_nat_setup_prefix_partial {f : Fam} {p : Nat} {o : Opts} {s : FwState}
    (hF : NatFresh f p o s) (pl : FamPlan) (hf : pl.fam = f) (hp : pl.port = p) (e : Env) (he : e.st = s) :
    ∃ v, NatPartial o v ∧ (natSetup pl o e).2.st = putNat f p o s v := by
  have := natSetup_hoare hF pl hf hp e he
  cases hr : (natSetup pl o e).1 <;> rw [hr] at this <;> exact this.2

/-- **restore_firewall undoes every partial state** when its commands behave naturally: the chain
absent ⇒ the query says so and nothing is issued; present ⇒ every `nonfatal -D` either deletes our
rule or fails harmlessly, `-F` empties the chain and `-X` succeeds because no reference is left. -/
theorem C04_nat_restore_from_partial {f : Fam} {p : Nat} {o : Opts} {s : FwState}
    (hF : NatFresh f p o s) (pl : FamPlan) (hf : pl.fam = f) (hp : pl.port = p) (hu : o.udp = false)
    (e : Env) (hN : NoFault e) (v : NatView) (hv : NatPartial o v) (he : e.st = putNat f p o s v) :
    (natRestore pl o e).2.st = s :=
  (natRestore_natural hF pl hf hp hu e hN v hv he).1

/-- **Whatever fails — tear-down commands included — what does not belong to the session is
untouched after the `try` body**: the configuration is the initial one with one view per family
laid over it (`putNat` only ever changes our chain, our jump rules and our MARK rule). -/
theorem C04_nat_try_frame (c : Config) (hm : c.method = .nat) (hd : Hdr) (rest : List Line)
    (e0 : Env) (hfresh : NatFreshFor hd e0.st) :
    NatMid hd e0.st (tryBody c hd rest {} e0).2.2.st :=
  (tryBody_nat hm hfresh.1 hfresh.2 rest {} e0 rfl).1

/-- The specification's `fresh port s` (nothing reachable from names derived from `port`) gives
the freshness the nat theorems use. -/
theorem C04_fresh_natFresh (f : Fam) (p : Nat) (o : Opts) (s : FwState) (h : fresh p s) :
    NatFresh f p o s := by
  have key : ∀ t, ∀ ch ∈ s.ipt f t,
      ownsName p ch.name = false ∧ ∀ r ∈ ch.rules, ownsRule p r = false := by
    intro t ch hch
    have h0 := h.1 f t
    unfold ownedTable at h0
    rw [List.filter_eq_nil_iff] at h0
    have h1 := h0 _ (List.mem_map_of_mem hch)
    by_cases hn : ownsName p ch.name = true
    · simp [hn] at h1
    · simp only [hn, Bool.false_eq_true, if_false, Bool.false_or] at h1
      have h2 : List.filter (ownsRule p) ch.rules = [] := by
        cases hl : List.filter (ownsRule p) ch.rules with
        | nil => rfl
        | cons a b => rw [hl] at h1; simp at h1
      rw [List.filter_eq_nil_iff] at h2
      refine ⟨by simpa using hn, ?_⟩
      intro r hr
      simpa using h2 r hr
  refine ⟨?_, ?_, ?_⟩
  · intro ch hch k hk
    have := (key .nat ch hch).1
    rw [hk] at this
    simp [ownsName] at this
  · intro ch hch r hr ht
    have := (key .nat ch hch).2 r hr
    simp [ownsRule, ht, ownsName] at this
  · intro ch hch hr
    have := (key .mangle ch hch).2 _ hr
    simp [ownsRule, natMarkRule, markValue] at this

/-- **C04_identity / C04_truncation in the specification's vocabulary**: if nothing reachable from
the session's port names is present before (`fresh`), then for every dialogue (every prefix
included) a fault-free session of the nat method ends in exactly the configuration it started
from. -/
theorem C04_identity (c : Config) (hm : c.method = .nat) (d : List Line) (s0 : FwState)
    (hfresh : ∀ hd rest, parseDialogue d = .go hd rest →
      hd.opts.udp = false ∧ (hd.has6 = true → fresh hd.port6 s0) ∧ (hd.has4 = true → fresh hd.port4 s0)) :
    (session c d { st := s0 }).2.st = s0 := by
  apply C04_nat_identity_and_truncation c hm d s0
  intro hd rest hp
  obtain ⟨hu, h6, h4⟩ := hfresh hd rest hp
  exact ⟨hu, fun h => C04_fresh_natFresh _ _ _ _ (h6 h), fun h => C04_fresh_natFresh _ _ _ _ (h4 h)⟩

/-- **C04_setup_fault in the specification's vocabulary**, for every `k`. -/
theorem C04_setup_fault (c : Config) (hm : c.method = .nat) (d : List Line)
    (s0 : FwState) (k : Nat) (hd : Hdr) (rest : List Line) (hp : parseDialogue d = .go hd rest)
    (hu : hd.opts.udp = false)
    (h6 : hd.has6 = true → fresh hd.port6 s0) (h4 : hd.has4 = true → fresh hd.port4 s0)
    (hk : k < (tryBody c hd rest {} { st := s0, fail := fun i => i == k }).2.2.count) :
    (session c d { st := s0, fail := fun i => i == k }).2.st = s0 :=
  C04_nat_kth_setup_command_fails c hm d s0 k hd rest hp hu
    ⟨fun h => C04_fresh_natFresh _ _ _ _ (h6 h), fun h => C04_fresh_natFresh _ _ _ _ (h4 h)⟩ hk


/-! ## tproxy -/

/-- Nothing of the session's tproxy half is present, per family in use: no chain named after the
port in the mangle table, no rule there jumping to such a chain. -/
def TpFreshFor (hd : Hdr) (s : FwState) : Prop :=
  (hd.has6 = true → TpFresh .v6 hd.port6 s) ∧ (hd.has4 = true → TpFresh .v4 hd.port4 s)

/-- The chain bodies tproxy appends refer to nothing of ours except `-j sshuttle-d-<port>` from the
tproxy chain (tproxy.py:149-229: targets MARK, TPROXY, RETURN, ACCEPT and that one jump).  The
harness checks this on every body the real code emits. -/
def TpBodiesOk (c : Config) (hd : Hdr) : Prop :=
  (∀ kr ∈ c.body6.body, TpBodyOk hd.port6 kr.1 kr.2) ∧ (∀ kr ∈ c.body4.body, TpBodyOk hd.port4 kr.1 kr.2)

/-- **tproxy: set-up stopped anywhere leaves a partial view.**  Whatever fails while
`setup_firewall` runs on a base configuration `s` (any k, any number of failures, the initial
restore included), the result is `s` with a `TpOk` view laid over its mangle table: some of our
three chains with some rules, our OUTPUT/PREROUTING jumps only if their chain exists, and no rule
of ours referring to the mark or tproxy chain.  Everything else in `s` is untouched. -/
theorem C04_tproxy_setup_prefix_partial {f : Fam} {p : Nat} {s : FwState} (hF : TpFresh f p s)
    (pl : FamPlan) (hf : pl.fam = f) (hp : pl.port = p) (o : Opts)
    (hbody : ∀ kr ∈ pl.body, TpBodyOk p kr.1 kr.2) (e : Env) (he : e.st = s) :
    ∃ v, TpOk p v ∧ (tproxySetup pl o e).2.st = putTp f p s v := by
  have := tproxySetup_hoare hF pl hf hp o hbody e he
  cases hr : (tproxySetup pl o e).1 <;> rw [hr] at this <;> exact this.2

/-- **tproxy: restore from every partial state returns exactly the pre-session configuration.**
For every `TpOk` view over a base `s` (foreign chains and rules of `s` arbitrary), tproxy's
`restore_firewall` with naturally behaving commands ends in `s`: each `nonfatal -D`/`-F` either
works or fails harmlessly, each `-X` succeeds because nothing refers to the chain any more, the
divert chain is removed after the tproxy chain that jumps to it.  (Needs the `nonfatal` wrappers
the repaired tproxy.py has; with the 1.3.0 code this theorem does not build — finding F5.) -/
theorem C04_tproxy_restore_from_partial {f : Fam} {p : Nat} {s : FwState} (hF : TpFresh f p s)
    (pl : FamPlan) (hf : pl.fam = f) (hp : pl.port = p) (o : Opts)
    (e : Env) (hN : NoFault e) (v : TpView) (hv : TpOk p v) (he : e.st = putTp f p s v) :
    (tproxyRestore pl o e).2.st = s :=
  (tproxyRestore_natural hF pl hf hp o e hN v hv he).1

/-- **tproxy: set-up is all-or-undone under faults at any command index.**  Any plan, both
families, any dialogue reaching `GO`, any fault schedule over set-up / DNS flush / wait loop
(every k, any number), tear-down commands behaving naturally: the configuration after `main`
equals the configuration before, exactly. -/
theorem C04_tproxy_setup_fault (c : Config) (hm : c.method = .tproxy) (d : List Line) (e0 : Env)
    (hd : Hdr) (rest : List Line) (hp : parseDialogue d = .go hd rest)
    (hfresh : TpFreshFor hd e0.st) (hb : TpBodiesOk c hd)
    (hnat : ∀ i, (tryBody c hd rest {} e0).2.2.count ≤ i → e0.fail i = false) :
    (session c d e0).2.st = e0.st :=
  session_gen (tproxyLayers c hm hd e0.st hfresh.1 hfresh.2 hb.1 hb.2) d e0 rest hp rfl hnat

/-- tproxy, the single k-th set-up command failing, for every k. -/
theorem C04_tproxy_kth_setup_command_fails (c : Config) (hm : c.method = .tproxy) (d : List Line)
    (s0 : FwState) (k : Nat) (hd : Hdr) (rest : List Line) (hp : parseDialogue d = .go hd rest)
    (hfresh : TpFreshFor hd s0) (hb : TpBodiesOk c hd)
    (hk : k < (tryBody c hd rest {} { st := s0, fail := fun i => i == k }).2.2.count) :
    (session c d { st := s0, fail := fun i => i == k }).2.st = s0 := by
  apply C04_tproxy_setup_fault c hm d { st := s0, fail := fun i => i == k } hd rest hp hfresh hb
  intro i hi
  simp only [beq_eq_false_iff_ne, ne_eq]
  omega

/-- tproxy: a fault-free session is the identity, for every dialogue (every truncation point). -/
theorem C04_tproxy_identity_and_truncation (c : Config) (hm : c.method = .tproxy) (d : List Line)
    (s0 : FwState)
    (hfresh : ∀ hd rest, parseDialogue d = .go hd rest → TpFreshFor hd s0 ∧ TpBodiesOk c hd) :
    (session c d { st := s0 }).2.st = s0 := by
  cases hp : parseDialogue d with
  | early => rw [C04_truncation_before_go c d _ (by intro hd rest h; rw [hp] at h; cases h)]
  | raised x => rw [C04_truncation_before_go c d _ (by intro hd rest h; rw [hp] at h; cases h)]
  | go hd rest =>
    obtain ⟨hf, hb⟩ := hfresh hd rest hp
    exact C04_tproxy_setup_fault c hm d { st := s0 } hd rest hp hf hb (fun _ _ => rfl)

/-- The specification's `fresh port s` gives the freshness the tproxy theorems use. -/
theorem C04_fresh_tpFresh (f : Fam) (p : Nat) (s : FwState) (h : fresh p s) : TpFresh f p s := by
  have key : ∀ ch ∈ s.ipt f .mangle,
      ownsName p ch.name = false ∧ ∀ r ∈ ch.rules, ownsRule p r = false := by
    intro ch hch
    have h0 := h.1 f .mangle
    unfold ownedTable at h0
    rw [List.filter_eq_nil_iff] at h0
    have h1 := h0 _ (List.mem_map_of_mem hch)
    by_cases hn : ownsName p ch.name = true
    · simp [hn] at h1
    · simp only [hn, Bool.false_eq_true, if_false, Bool.false_or] at h1
      have h2 : List.filter (ownsRule p) ch.rules = [] := by
        cases hl : List.filter (ownsRule p) ch.rules with
        | nil => rfl
        | cons a b => rw [hl] at h1; simp at h1
      rw [List.filter_eq_nil_iff] at h2
      refine ⟨by simpa using hn, ?_⟩
      intro r hr
      simpa using h2 r hr
  refine ⟨?_, ?_⟩
  · intro ch hch k hk
    have := (key ch hch).1
    rw [hk] at this
    simp [ownsName] at this
  · intro ch hch r hr k ht
    have := (key ch hch).2 r hr
    simp [ownsRule, ht, ownsName] at this

/-! ## nft -/

/-- No table `sshuttle-ipv{6,4}-<port>` exists, per family in use. -/
def NftFreshFor (hd : Hdr) (s : FwState) : Prop :=
  (hd.has6 = true → NftFresh .v6 hd.port6 s) ∧ (hd.has4 = true → NftFresh .v4 hd.port4 s)

/-- **nft: set-up stopped anywhere leaves our table absent or present, nothing else touched.**
Whatever fails while nft's `setup_firewall` runs (add table, the three chains, flush, the two
jumps, every body rule — any k, any number), the configuration is the base one with the table
`sshuttle-ipv{4,6}-<port>` either absent or appended with some chains and rules. -/
theorem C04_nft_setup_prefix_partial {f : Fam} {p : Nat} {s : FwState} (hF : NftFresh f p s)
    (pl : FamPlan) (hf : pl.fam = f) (hp : pl.port = p) (o : Opts) (e : Env) (he : e.st = s) :
    ∃ v, (nftSetup pl o e).2.st = nftLayer f p v s := by
  have := nftSetup_hoare hF pl hf hp o e he
  cases hr : (nftSetup pl o e).1 <;> rw [hr] at this <;> exact ⟨this.2.choose, this.2.choose_spec.2⟩

/-- **nft: the delete-table undo returns exactly the pre-session configuration**, from every such
partial state, with any other tables before (`A`) and after (`B`) ours in the ruleset: a naturally
behaving `delete table` removes the table with all its chains and rules, or finds nothing. -/
theorem C04_nft_restore_from_partial {f : Fam} {p : Nat} (pl : FamPlan) (hf : pl.fam = f) (hp : pl.port = p)
    (o : Opts) (hu : o.udp = false) (A B : List NftTable) (hA : nftHas A (.own f p) = false)
    (hB : nftHas B (.own f p) = false) (v : Option (List NftChain)) (base : FwState)
    (e : Env) (hN : NoFault e) (he : e.st = putNft base (A ++ optT (.own f p) v ++ B)) :
    (nftRestore pl o e).2.st = putNft base (A ++ B) :=
  (nftRestore_natural pl hf hp o hu A B hA hB v base e hN he).1

/-- **nft: set-up is all-or-undone under faults at any command index** (both families, any plan,
any dialogue reaching `GO`, any schedule over the `try` body, natural tear-down). -/
theorem C04_nft_setup_fault (c : Config) (hm : c.method = .nft) (d : List Line) (e0 : Env)
    (hd : Hdr) (rest : List Line) (hp : parseDialogue d = .go hd rest)
    (hu : hd.opts.udp = false) (hfresh : NftFreshFor hd e0.st)
    (hnat : ∀ i, (tryBody c hd rest {} e0).2.2.count ≤ i → e0.fail i = false) :
    (session c d e0).2.st = e0.st :=
  session_gen (nftLayers c hm hd e0.st hu hfresh.1 hfresh.2) d e0 rest hp rfl hnat

/-- nft, the single k-th set-up command failing, for every k. -/
theorem C04_nft_kth_setup_command_fails (c : Config) (hm : c.method = .nft) (d : List Line)
    (s0 : FwState) (k : Nat) (hd : Hdr) (rest : List Line) (hp : parseDialogue d = .go hd rest)
    (hu : hd.opts.udp = false) (hfresh : NftFreshFor hd s0)
    (hk : k < (tryBody c hd rest {} { st := s0, fail := fun i => i == k }).2.2.count) :
    (session c d { st := s0, fail := fun i => i == k }).2.st = s0 := by
  apply C04_nft_setup_fault c hm d { st := s0, fail := fun i => i == k } hd rest hp hu hfresh
  intro i hi
  simp only [beq_eq_false_iff_ne, ne_eq]
  omega

/-- nft: a fault-free session is the identity, for every dialogue (every truncation point). -/
theorem C04_nft_identity_and_truncation (c : Config) (hm : c.method = .nft) (d : List Line)
    (s0 : FwState)
    (hfresh : ∀ hd rest, parseDialogue d = .go hd rest → hd.opts.udp = false ∧ NftFreshFor hd s0) :
    (session c d { st := s0 }).2.st = s0 := by
  cases hp : parseDialogue d with
  | early => rw [C04_truncation_before_go c d _ (by intro hd rest h; rw [hp] at h; cases h)]
  | raised x => rw [C04_truncation_before_go c d _ (by intro hd rest h; rw [hp] at h; cases h)]
  | go hd rest =>
    obtain ⟨hu, hf⟩ := hfresh hd rest hp
    exact C04_nft_setup_fault c hm d { st := s0 } hd rest hp hu hf (fun _ _ => rfl)

/-- The specification's `fresh port s` gives the freshness the nft theorems use. -/
theorem C04_fresh_nftFresh (f : Fam) (p : Nat) (s : FwState) (h : fresh p s) : NftFresh f p s := by
  have h2 := h.2.1
  rw [List.filter_eq_nil_iff] at h2
  unfold NftFresh nftHas
  rw [List.any_eq_false]
  intro t ht hn
  have := h2 t ht
  simp only [decide_eq_true_eq] at hn
  rw [hn] at this
  simp [ownsNft] at this

/-! ## truncation at every byte

The control channel carries bytes.  `readerLines` (the reader of `Code/FwDialogue.lean` with the
end-of-input behaviour of the source under test: an unfinished last line is given up, or — before
fix ff70e94 — handed out as if it were a line) turns them into raw lines, `classify` (any function)
into what `main` tests.  The identity theorems above hold for every list of lines, so they hold for
the dialogue obtained from **every byte prefix** of every text, whichever of the two reader
behaviours the source has. -/

/-- nat: the channel may close after any byte. -/
theorem C04_nat_truncation_every_byte (c : Config) (hm : c.method = .nat) (classify : Bytes → Line)
    (text text' : Bytes) (_hpre : text' <+: text) (s0 : FwState)
    (hfresh : ∀ hd rest, parseDialogue (dialogueOfText classify text') = .go hd rest →
      hd.opts.udp = false ∧ NatFreshFor hd s0) :
    (sessionText c classify text' { st := s0 }).2.st = s0 :=
  C04_nat_identity_and_truncation c hm _ s0 hfresh

/-- tproxy: the channel may close after any byte. -/
theorem C04_tproxy_truncation_every_byte (c : Config) (hm : c.method = .tproxy) (classify : Bytes → Line)
    (text text' : Bytes) (_hpre : text' <+: text) (s0 : FwState)
    (hfresh : ∀ hd rest, parseDialogue (dialogueOfText classify text') = .go hd rest →
      TpFreshFor hd s0 ∧ TpBodiesOk c hd) :
    (sessionText c classify text' { st := s0 }).2.st = s0 :=
  C04_tproxy_identity_and_truncation c hm _ s0 hfresh

/-- nft: the channel may close after any byte. -/
theorem C04_nft_truncation_every_byte (c : Config) (hm : c.method = .nft) (classify : Bytes → Line)
    (text text' : Bytes) (_hpre : text' <+: text) (s0 : FwState)
    (hfresh : ∀ hd rest, parseDialogue (dialogueOfText classify text') = .go hd rest →
      hd.opts.udp = false ∧ NftFreshFor hd s0) :
    (sessionText c classify text' { st := s0 }).2.st = s0 :=
  C04_nft_identity_and_truncation c hm _ s0 hfresh

/-- A text that ends inside its first line (`R`, `ROU`, `ROUTE` …): with the reader that gives an
unfinished line up there is no line at all and `main` returns without touching anything. -/
theorem C04_unfinished_first_line_is_eof (c : Config) (classify : Bytes → Line) (text : Bytes)
    (h : readerLines text = []) (e : Env) : sessionText c classify text e = (.returned, e) := by
  unfold sessionText dialogueOfText session
  rw [h]
  rfl

/-! ### the hypotheses are satisfiable by a non-trivial configuration and dialogue -/

/-- Built-in chains, a foreign chain with a rule, a foreign jump, another instance on port 23456. -/
def exState : FwState where
  ipt := fun f t =>
    match f, t with
    | .v4, .nat =>
      [⟨.builtin "PREROUTING", [⟨.chain (.own .main 23456), []⟩]⟩,
       ⟨.builtin "OUTPUT", [⟨.chain (.own .main 23456), []⟩, ⟨.chain (.user "DOCKER"), ["-m", "addrtype"]⟩]⟩,
       ⟨.user "DOCKER", [⟨.std "RETURN", ["-i", "docker0"]⟩]⟩,
       ⟨.own .main 23456, [⟨.std "REDIRECT", ["--to-ports", "23456"]⟩]⟩]
    | _, .mangle => [⟨.builtin "OUTPUT", [⟨.std "MARK", ["--set-mark", "7"]⟩]⟩]
    | _, _ => [⟨.builtin "OUTPUT", []⟩]
  nft := [⟨.user "filter", []⟩]
  pf := {}

example : fresh 1025 exState := by
  refine ⟨fun f t => ?_, by decide, by decide⟩
  cases f <;> cases t <;> decide

def exDialogue : List Line :=
  [.routes, .route (some .v4), .route (some .v6), .nslist, .ns (some .v4), .ports 1025 1025,
   .go { user := some "alice" }, .host "h" "10.0.0.1", .junk]

example : parseDialogue exDialogue =
    .go ⟨true, true, 1025, 1025, { user := some "alice" }⟩ [.host "h" "10.0.0.1", .junk] := by rfl

example : ∀ hd rest, parseDialogue (exDialogue.take 3) ≠ .go hd rest := by
  intro hd rest h
  have : parseDialogue (exDialogue.take 3) = .raised .fatal := by rfl
  rw [this] at h
  cases h

example : NatPartial {} ⟨some [], true, false, false⟩ := natPartial_some [] true false false (fun _ => rfl)


/-- a partial tproxy state: mark and divert chains created, jump to the mark chain in place, the
tproxy chain not yet -/
example : TpOk 1025 ⟨true, false, [⟨.own .mark 1025, [⟨.std "MARK", ["--set-mark", "0x01"]⟩]⟩,
    ⟨.own .divert 1025, []⟩]⟩ := by
  refine ⟨?_, ?_, ?_, ?_⟩
  · intro ch hch; simp at hch; rcases hch with rfl | rfl <;> simp
  · intro _; decide
  · intro h; cases h
  · intro ch hch r hr
    simp at hch
    rcases hch with rfl | rfl
    · simp at hr; subst hr; simp
    · cases hr

example : TpBodyOk 1025 .tproxy ⟨.chain (.own .divert 1025), ["-m", "socket", "-m", "tcp", "-p", "tcp"]⟩ :=
  ⟨by simp, by simp, fun _ => rfl⟩

example : NftFresh .v4 1025 exState ∧ TpFresh .v6 1025 exState :=
  ⟨C04_fresh_nftFresh _ _ _ (by
      refine ⟨fun f t => ?_, by decide, by decide⟩
      cases f <;> cases t <;> decide),
   C04_fresh_tpFresh _ _ _ (by
      refine ⟨fun f t => ?_, by decide, by decide⟩
      cases f <;> cases t <;> decide)⟩


/-- "ROU" then end of input: the reader under test (fix ff70e94) hands out no line; before the fix
(`drops = false`) the same bytes were taken for the line `ROU`. -/
example : FwDialogue.rawLines 128 true [82, 79, 85] = [] ∧ FwDialogue.rawLines 128 false [82, 79, 85] = [[82, 79, 85]] := by
  decide

end Sshuttle.Fw
