/-
C12 — Interception exists only alongside a verified, live tunnel.

Property theorems only.  The program is `Code/ClientMain.lean` (`run sc` = the tail of
`client.main` around `client._main`, on the scripted world `sc`); the predicates are in
`Spec/ClientTrace.lean`; helper lemmas in `Lemmas/ClientMain*.lean`.

Every theorem quantifies over the whole `Script`: configuration (daemon/foreground, listeners,
seed hosts, auto-nets, latency control), segmentation of the start-of-stream bytes, per-iteration
liveness answers, arriving tunnel bytes (hence every order of ROUTES / HOST_LIST / data /
garbage and every cut), write grants, incoming connections, the helper's reply — and an
arbitrary fault map `faults : Nat → Option Exc` (any exception kind at any boundary call, any
number of them, inside the `finally` part too).
-/
import SshuttleModel.Lemmas.ClientMainHs

namespace Sshuttle.ClientMain
open Sshuttle.ClientTrace

/-- **The helper is started only after sync string and ROUTES, and once.**  In the trace of every
session the first line of the start dialogue (`ROUTES\n` written to the helper) is preceded by
the point where both start-up checks passed (`hsOk`: init string equal to `SSHUTTLE0001` and
`serverproc.poll()` is `None`) and by the delivery of a `CMD_ROUTES` frame to `Mux.got_packet`,
and it occurs at most once (`mux.got_routes` is cleared before `serverready()`; a second
ROUTES frame raises). -/
theorem C12_start_after_sync_and_routes (sc : Script) :
    Precedes IsHandshakeOk IsFwStart (run sc).2.trace ∧
    Precedes IsRoutes IsFwStart (run sc).2.trace ∧
    AtMostOnce IsFwStart (run sc).2.trace := by
  have h := run_okTrace sc
  unfold okTrace at h
  simp only [Bool.and_eq_true, Bool.not_eq_eq_eq_not, Bool.not_true] at h
  obtain ⟨⟨h1, h2, h3, _⟩, _⟩ := mon_sound _ h.1 h.2
  exact ⟨h1, h2, h3⟩

/-- **Readiness only after confirmation.**  `sdnotify.send(READY=1)` is preceded by the return of
`fw.start()`, which happens only when `STARTED\n` was read back and the helper was seen alive. -/
theorem C12_ready_after_confirm (sc : Script) :
    Precedes IsConfirmed IsNotifyReady (run sc).2.trace := by
  have h := run_okTrace sc
  unfold okTrace at h
  simp only [Bool.and_eq_true, Bool.not_eq_eq_eq_not, Bool.not_true] at h
  exact (mon_sound _ h.1 h.2).1.2.2.2

/-- `fw.start()` returns normally only if the helper's line is `STARTED\n` and `p.poll()` is falsy:
this is what the marker `started` in `C12_ready_after_confirm` stands for. -/
theorem C12_confirm_means_started (sc : Script) (w : World) (w' : World)
    (h : fwStart sc w = (.ok (), w')) : sc.cfg.line = startedLine ∧ truthy sc.cfg.hpoll = false := by
  have key : Triple (fun _ => True) (fwStart sc)
      (fun _ _ => sc.cfg.line = startedLine ∧ truthy sc.cfg.hpoll = false) (fun _ => True) := by
    unfold fwStart fwCheck
    refine Triple.bind (Triple.trivial _) fun _ => ?_
    refine Triple.bind (Triple.trivial _) fun _ => ?_
    refine Triple.bind (Triple.trivial _) fun _ => ?_
    refine Triple.bind (Triple.trivial _) fun _ => ?_
    refine Triple.bind (Triple.trivial _) fun _ => ?_
    refine Triple.bind (Triple.trivial _) fun _ => ?_
    refine Triple.bind (Triple.trivial _) fun _ => ?_
    refine Triple.bind (Triple.trivial _) fun _ => ?_
    refine Triple.bind (Triple.trivial _) fun _ => ?_
    refine Triple.bind (Triple.trivial _) fun _ => ?_
    refine Triple.bind (R := fun _ _ => truthy sc.cfg.hpoll = false) ?_ fun _ => ?_
    · refine Triple.bind (Triple.trivial _) fun _ => ?_
      by_cases hp : truthy sc.cfg.hpoll = true
      · simp only [hp, ↓reduceIte]; exact Triple.raise _ fun _ _ => trivial
      · simp only [hp]; exact Triple.pure _ fun _ _ => by first | trivial | (simp at hp; exact hp)
    · refine Triple.bind (R := fun _ _ => sc.cfg.line = startedLine ∧ truthy sc.cfg.hpoll = false) ?_ fun _ => ?_
      · by_cases hl : sc.cfg.line = startedLine
        · simp only [hl, ne_eq, not_true_eq_false, ↓reduceIte]
          exact Triple.pure _ fun _ hw => ⟨trivial, hw⟩
        · simp only [ne_eq, hl, not_false_eq_true, ↓reduceIte]
          exact Triple.raise _ fun _ _ => trivial
      · exact Triple.mark fun _ hw => hw
  have := key w trivial
  rw [h] at this
  exact this

/-- **One trace theorem for every history** (any handshake bytes and segmentation, any helper reply
including EOF/garbage, ssh death at any probe, any exception kind at any boundary call, daemon or
foreground).  The events of the session satisfy, together:
* `Ordered` — no `ROUTES…GO` dialogue before the init string was accepted and a ROUTES frame arrived,
  at most one dialogue, `READY=1` only after `fw.start()` returned;
* `AcceptOnlyGenuine` — every acceptance was of exactly the regenerated literal `SYNC_EXPECTED`;
* `DeadTunnelReleased` — after the first sign of a dead tunnel (the loop's probe saw ssh gone) there
  is no further pass, probe, tunnel or helper traffic and no `READY`, and `pfile.close()` follows:
  the rules cannot outlive the pass that noticed;
* `ClosedOnce` — exactly one `close`, and nothing is written to or read from the channel after it.
Proved by an invariant carried through the program by induction on its structure (loops by
induction on the scripted steps / frames / lines), then `mon_sound` (induction on the trace). -/
theorem C12_trace_rules (sc : Script) :
    Ordered (run sc).2.trace ∧ AcceptOnlyGenuine (run sc).2.trace ∧
    DeadTunnelReleased (run sc).2.trace ∧ ClosedOnce (run sc).2.trace := by
  have h := run_okTrace sc
  unfold okTrace at h
  simp only [Bool.and_eq_true, Bool.not_eq_eq_eq_not, Bool.not_true] at h
  obtain ⟨h1, h2, h3, _, h5⟩ := mon_sound _ h.1 h.2
  exact ⟨h1, h5, h3, h2⟩

/-- **The liveness probe comes first in every pass** (the rule a cached / rate-limited probe breaks):
in every history, the event immediately before each entry into `runonce` — the only place where the
loop can block — is `serverproc.poll()` or `os.kill(pid, 0)`.  The loop body and `check_ssh_alive`
are pinned to the source text (`MAIN_LOOP`, `CHECK_SSH_ALIVE`), so a probe that is skipped on some
passes breaks a pin, and a model that followed such code would falsify this theorem. -/
theorem C12_probe_before_every_pass (sc : Script) : ProbeBeforeEachPass (run sc).2.trace := by
  have h := run_okTrace sc
  unfold okTrace at h
  simp only [Bool.and_eq_true, Bool.not_eq_eq_eq_not, Bool.not_true] at h
  exact (mon_sound _ h.1 h.2).2.2.2.1

/-- The literal the model compares with is the one regenerated from the source on every run. -/
example : Handshake.expected = bytesOfStr Generated.SYNC_EXPECTED := rfl

/-- **Acceptance is equality with the literal.**  If the start-up of `_main` gets past its checks,
then `serverproc.poll()` was `None` and the bytes read from the server end with exactly
`SYNC_EXPECTED` — the compared `initstring` is the tail of what the start-up reads handed out
(`hsBytes` records every such byte), so no other spelling of the version field, no truncation and no
near miss is accepted.  (Run level: `C12_trace_rules` / `AcceptOnlyGenuine`.) -/
theorem C12_accept_only_genuine (sc : Script) (w w' : World) (h : startup sc w = (.ok (), w')) :
    sc.cfg.poll0 = none ∧ ∃ pre, w'.hsBytes = w.hsBytes ++ pre ++ bytesOfStr Generated.SYNC_EXPECTED := by
  have key := startupChecks_accept sc w.hsBytes w rfl
  rw [startup_eq] at h
  simp only [bind_apply] at h
  rcases hs : startupChecks sc w with ⟨r, w1⟩
  rw [hs] at h key
  cases r with
  | error x => cases h
  | ok init =>
    simp only [mark] at h
    obtain ⟨⟨pre, hp⟩, hi, hp0⟩ := key
    have hw : w' = push (.hsOk init) w1 := by injection h with _ h2; exact h2.symm
    subst hi
    exact ⟨hp0, pre, by rw [hw]; exact hp⟩

/-- … and conversely the acceptance test itself is nothing but that equality: with ssh alive, the
two checks pass for an init string iff it equals the literal. -/
theorem C12_accept_iff_literal (init : Bytes) (w : World) :
    ((if init ≠ Handshake.expected then raise .fatal else pure () : M Unit) w).1 = .ok () ↔
      init = bytesOfStr Generated.SYNC_EXPECTED := by
  by_cases hi : init = Handshake.expected
  · simp [hi, Handshake.expected]
  · simp only [ne_eq, hi, not_false_eq_true, ↓reduceIte, raise]
    constructor
    · intro h; cases h
    · intro h; exact (hi h).elim

/-- **Always closed.**  For every script — every fault position, every exception kind, daemon
and foreground — the trace of the session contains `pfile.close()`, and after it the control
channel is not touched again (only `wait`, `STOPPING=1`, `daemon_cleanup` follow).  This is the
`finally` rule: the final world is the one the `finally` part makes of whatever world the body
left, and the `finally` part starts with `close`.  Composition with C04: the helper reads EOF
on its stdin exactly when this `close` has happened, and C04's theorem says that EOF ⇒ restore. -/
theorem C12_always_closed (sc : Script) : ClosedLast (run sc).2.trace := by
  unfold run mainTail
  rw [tryFinally_world]
  obtain ⟨post, h1, h2⟩ := finPart_closed sc (main_ sc (initWorld sc)).2
  refine ⟨_, post, h1, ?_⟩
  intro x hx
  rcases h2 x hx with h | h | h <;> subst h <;> exact ⟨rfl, by decide⟩

/-- The executable monitor of the specification accepts the trace of every session (this is the
verdict the driver prints; the harness asks it about the traces of the real code as well). -/
theorem C12_trace_accepted (sc : Script) : okTrace (run sc).2.trace = true := run_okTrace sc

/-- **ssh death.**  If `poll()` / `os.kill(pid, 0)` reports ssh gone in an iteration, that
iteration consists of the liveness call alone — no `runonce`, no `select`, no read or write of
the tunnel — and it raises, whatever the fault map says (`sshDead` is the model's marker for
"the probe saw ssh gone"; it is absent when the probe call itself was made to raise). -/
theorem C12_ssh_death (sc : Script) (i : Nat) (s : Step) (rest : List Step) (h : s.alive.isSome)
    (w : World) :
    ∃ x w' l, mainLoop sc i (s :: rest) w = (.error x, w') ∧
      w'.trace = w.trace ++ (if sc.cfg.daemon then Ev.kill else Ev.poll) :: l ∧
      (l = [] ∨ l = [Ev.sshDead]) := by
  rw [mainLoop_dead sc i s rest h]
  exact checkAlive_dead sc s h w

/-- … and for the whole session nothing that is scripted after that iteration matters: the main
loop behaves as if the script ended there; by `C12_always_closed` the session ends with the
control channel closed. -/
theorem C12_ssh_death_session (sc : Script) (pre : List Step) (s : Step) (rest : List Step)
    (h : s.alive.isSome) (hs : sc.steps = pre ++ s :: rest) :
    mainLoop sc 0 sc.steps = mainLoop sc 0 (pre ++ [s]) ∧ ClosedLast (run sc).2.trace := by
  refine ⟨?_, C12_always_closed sc⟩
  rw [hs, mainLoop_truncate sc pre s rest h 0]

/-- **Dead ssh at start-up** (`serverproc.poll()` is not `None` after the init string was read):
the session ends with an exception and the only calls before the `finally` part are
`ssh.connect`, reads of the pipe and that `poll()` — nothing is written to the helper.
(Partial with respect to the design's `C12_bad_handshake`: the case "wrong/short/missing sync
string" is covered by the ordering theorem — no `hsOk`, hence no start — and by the model's
`if init ≠ expected then raise Fatal`; the formal link between the bytes assembled by the
monadic reads here and `Handshake.handshake` of C07 is proved in `Props/C12_Handshake.lean`, which
states the full `C12_bad_handshake` on the bytes the server sent.) -/
theorem C12_bad_handshake_partial (sc : Script) (h : sc.cfg.poll0.isSome) :
    (∃ x, (run sc).1 = .error x) ∧ ∀ e ∈ (run sc).2.trace, isFwWrite e = false := by
  -- `_main` stops inside the start-up checks
  have hdead := startupChecks_dead sc h (initWorld sc) trivial
  have honly := only_startupChecks sc [] (initWorld sc) ⟨[], rfl, by simp⟩
  have hmain : ∃ x, main_ sc (initWorld sc) = (.error x, (startupChecks sc (initWorld sc)).2) := by
    unfold main_
    rw [startup_eq]
    simp only [bind_apply]
    rcases hsc : startupChecks sc (initWorld sc) with ⟨r, w'⟩
    rw [hsc] at hdead
    cases r with
    | ok a => exact hdead.elim
    | error x => exact ⟨x, rfl⟩
  obtain ⟨x, hx⟩ := hmain
  obtain ⟨l, hl, hS⟩ := honly
  constructor
  · unfold run mainTail tryFinally
    rw [hx]
    simp only
    rcases finPart sc _ with ⟨r2, w2⟩
    cases r2 with
    | ok _ => exact ⟨x, rfl⟩
    | error y => exact ⟨y, rfl⟩
  · unfold run mainTail
    rw [tryFinally_world, hx]
    obtain ⟨post, h1, h2⟩ := finPart_closed sc (startupChecks sc (initWorld sc)).2
    simp only at h1 ⊢
    rw [h1, hl]
    intro e he
    simp only [List.nil_append, List.mem_append, List.mem_cons] at he
    rcases he with (he | he) | he | he
    · rcases hS e he with h | h | h <;> subst h <;> rfl
    · cases hd : sc.cfg.daemon <;> simp [hd] at he
      subst he; rfl
    · subst he; rfl
    · rcases h2 e he with h | h | h <;> subst h <;> rfl

/-! ### non-vacuity: concrete sessions -/

def demoFrame : Bytes := Mux.encode ⟨0, Generated.CMD_ROUTES, bytesOfStr "2,10.0.0.0,8\n"⟩

/-- An ordinary session: sync string split 6 + 8, ROUTES in the first tunnel read, the helper
confirms, the user presses ^C in the third iteration. -/
def demo : Script where
  cfg := { hs := [[0, 0, 83, 83, 72, 85], bytesOfStr "TTLE0001"], nInc := 1, nExc := 1,
           line := startedLine, endExc := .kbint }
  steps := [{ arrive := .data demoFrame, grant := some 4096 }, { accept := true }]
  faults := fun _ => none

/-- The ordinary session really starts the helper, reports readiness and closes. -/
example : Ev.fw .routes ∈ (run demo).2.trace ∧ Ev.ready ∈ (run demo).2.trace ∧
    (match (run demo).1 with | .error .kbint => true | _ => false) = true := by decide +kernel

/-- ROUTES, then EOF on the ssh pipe while ssh is still reported alive, then two quiet iterations. -/
def eofDemo : Script where
  cfg := { hs := [[0, 0] ++ bytesOfStr "SSHUTTLE0001" ++ demoFrame], nInc := 1, nExc := 1,
           line := startedLine, endExc := .kbint }
  steps := [{ grant := some 4096 }, { arrive := .eof }, {}, {}]
  faults := fun _ => none

/-- **Observation outside the property's statement** (not a violation, not a finding).  C12 speaks
of the handshake, of ssh death and of "any other way the main loop ends"; it does not demand that
the loop end when the tunnel reaches EOF while ssh is still reported alive, and the code does not
end it: after the helper was started, the ssh pipe reaches EOF in iteration 1 (`Mux.ok = False`);
iterations 2 and 3 are still entered (`runonce` without the mux) with the control channel open,
because `_main` never tests `mux.ok`.  The session ends when `check_ssh_alive` notices the
process exit (or, here, with ^C) — and then `C12_always_closed` applies.  Kept as a concrete
witness that the theorems above make no claim about this situation. -/
theorem C12_tunnel_eof_loop_continues :
    Ev.fw .routes ∈ (run eofDemo).2.trace ∧ Ev.run 3 ∈ (run eofDemo).2.trace ∧
    (run eofDemo).2.muxOk = false := by decide +kernel

/-- `C12_accept_only_genuine` is not vacuous: the start-up of `demo` (sync string cut 6 + 8) succeeds. -/
example : (match (startup demo (initWorld demo)).1 with | .ok _ => true | _ => false) = true := by
  decide +kernel

/-- `C12_ssh_death` applies to a reachable state: ssh dies in the second iteration of `demo`. -/
example : ∃ x w', mainLoop demo 1 [{ alive := some 255 }] (initWorld demo) = (.error x, w') :=
  ⟨_, _, (C12_ssh_death demo 1 { alive := some 255 } [] rfl (initWorld demo)).choose_spec.choose_spec.choose_spec.1⟩

/-- `C12_bad_handshake_partial`: a script with ssh dead at start-up exists. -/
example : ({ demo with cfg := { demo.cfg with poll0 := some 255 } } : Script).cfg.poll0.isSome := rfl

end Sshuttle.ClientMain
