/-
C12 — "a wrong or missing handshake … always results in the control channel to the helper being
closed", with the handshake being the one C07 specifies.

`Props/C12.lean` proves the ordering (no `ROUTES\n` to the helper before `hsOk`) on the monadic
model of `client._main`, whose start-up reads are written statement by statement; C07 proves that
the pure recognition `Handshake.handshake` depends on the byte stream only (`Handshake.spec`).
Here the two are joined (`Lemmas/ClientMainLink.lean`): the monadic reads return, and leave unread,
exactly what the pure recognition does on the same segments.  This removes the `_partial` of
`C12_bad_handshake_partial`: the theorem now covers the wrong / short / missing sync string, stated
on the bytes the server sent, for every segmentation and every fault map.
-/
import SshuttleModel.Props.C12
import SshuttleModel.Props.C07
import SshuttleModel.Lemmas.ClientMainTotal

namespace Sshuttle.ClientMain
open Sshuttle.ClientTrace

/-- **Start-up succeeds only on a stream C07's recognition accepts**, and the tunnel's reader is
left with exactly the segments that recognition leaves: nothing of the first frames is eaten. -/
theorem C12_startup_is_handshake (sc : Script) (w' : World)
    (h : startup sc (initWorld sc) = (.ok (), w')) :
    Handshake.handshake sc.cfg.hs = .ok w'.reader := by
  rw [startup_eq] at h
  simp only [bind_apply] at h
  have hl := startupChecks_link sc sc.cfg.hs (initWorld sc) rfl
  rcases hsc : startupChecks sc (initWorld sc) with ⟨r, w1⟩
  rw [hsc] at hl h
  cases r with
  | error x => simp at h
  | ok init =>
    simp only at hl h
    obtain ⟨h1, h2⟩ := hl
    have hw : w' = push (.hsOk init) w1 := by
      unfold mark at h
      injection h with _ h; exact h.symm
    rw [handshake_eq_initOf, ← h1]
    simp only [h2, ↓reduceIte, hw, push]

/-- … in terms of the bytes alone (`Handshake.spec` of C07: skip through two NULs, the next twelve
bytes are the init string): whatever the segmentation and whatever faults are injected. -/
theorem C12_startup_needs_sync (sc : Script) (w' : World)
    (h : startup sc (initWorld sc) = (.ok (), w')) :
    Handshake.spec sc.cfg.hs.flatten = (true, w'.reader.flatten) := by
  have := C12_startup_is_handshake sc w' h
  rw [← Handshake.C07_handshake, this]
  rfl

/-- **Wrong, short or missing handshake** (full statement; `C12_bad_handshake_partial` covered the
dead-ssh half only).  If the bytes on ssh's stdout are not "…NUL…NUL`SSHUTTLE0001`…" — cut anywhere —
the session ends with an exception, nothing at all is written to the helper before the `finally`
part, and (by `C12_always_closed`) the control channel is closed. -/
theorem C12_bad_handshake (sc : Script) (h : (Handshake.spec sc.cfg.hs.flatten).1 = false) :
    (∃ x, (run sc).1 = .error x) ∧ (∀ e ∈ (run sc).2.trace, isFwWrite e = false) ∧
      ClosedLast (run sc).2.trace := by
  have hdead : match startupChecks sc (initWorld sc) with
      | (.ok _, _) => False
      | (.error _, _) => True := by
    have hl := startupChecks_link sc sc.cfg.hs (initWorld sc) rfl
    rcases hsc : startupChecks sc (initWorld sc) with ⟨r, w1⟩
    rw [hsc] at hl
    cases r with
    | error x => trivial
    | ok init =>
      simp only at hl ⊢
      obtain ⟨h1, h2⟩ := hl
      have : Handshake.handshake sc.cfg.hs = .ok w1.reader := by
        rw [handshake_eq_initOf, ← h1]; simp only [h2, ↓reduceIte]
      rw [← Handshake.C07_handshake, this] at h
      simp [Handshake.Outcome.flat] at h
  have honly := only_startupChecks sc [] (initWorld sc) ⟨[], rfl, by simp⟩
  have hmain : ∃ x, main_ sc (initWorld sc) = (.error x, (startupChecks sc (initWorld sc)).2) := by
    unfold main_
    rw [startup_eq]
    simp only [bind_apply]
    rcases hsc : startupChecks sc (initWorld sc) with ⟨r, w'⟩
    rw [hsc] at hdead
    cases r with
    | ok a => exact hdead.elim
    | error x => exact ⟨x, rfl⟩
  obtain ⟨x, hx⟩ := hmain
  obtain ⟨l, hl, hS⟩ := honly
  refine ⟨?_, ?_, C12_always_closed sc⟩
  · unfold run mainTail tryFinally
    rw [hx]
    simp only
    rcases finPart sc _ with ⟨r2, w2⟩
    cases r2 with
    | ok _ => exact ⟨x, rfl⟩
    | error y => exact ⟨y, rfl⟩
  · unfold run mainTail
    rw [tryFinally_world, hx]
    obtain ⟨post, h1, h2⟩ := finPart_closed sc (startupChecks sc (initWorld sc)).2
    simp only at h1 ⊢
    rw [h1, hl]
    intro e he
    simp only [List.nil_append, List.mem_append, List.mem_cons] at he
    rcases he with (he | he) | he | he
    · rcases hS e he with h | h | h <;> subst h <;> rfl
    · cases hd : sc.cfg.daemon <;> simp [hd] at he
      subst he; rfl
    · subst he; rfl
    · rcases h2 e he with h | h | h <;> subst h <;> rfl

/-- **The converse: a genuine stream is never refused.**  With no boundary call made to raise and
ssh alive at the first `poll()`, a stream that C07's recognition accepts — in any segmentation —
makes the start-up succeed, and the bytes left for the tunnel are exactly those after the sync
string.  (Together with `C12_startup_needs_sync`: the start-up succeeds *iff* the stream is
genuine, under these two conditions.) -/
theorem C12_startup_succeeds_on_sync (sc : Script) (hnf : ∀ n, sc.faults n = none)
    (hp : sc.cfg.poll0 = none) (rest : Bytes)
    (hs : Handshake.spec sc.cfg.hs.flatten = (true, rest)) :
    ∃ w', startup sc (initWorld sc) = (.ok (), w') ∧ w'.reader.flatten = rest := by
  rw [← Handshake.C07_handshake] at hs
  cases hh : Handshake.handshake sc.cfg.hs with
  | fatal g => rw [hh] at hs; simp [Handshake.Outcome.flat] at hs
  | ok r3 =>
    rw [hh] at hs
    simp only [Handshake.Outcome.flat, Prod.mk.injEq, true_and] at hs
    obtain ⟨init, w1, hm, _, hr⟩ := startupChecks_total hnf hp sc.cfg.hs r3 hh (initWorld sc) rfl
    refine ⟨push (.hsOk init) w1, ?_, ?_⟩
    · rw [startup_eq]
      simp only [bind_apply, hm]
      rfl
    · simp only [push, hr, hs]

/-- In the server's own terms (`server.py` writes `\0\0SSHUTTLE0001` and then frames; ssh may put
NUL-free noise in front of either NUL): whatever follows the sync string — e.g. the encoded ROUTES
frame — is what the tunnel's reader holds when `_main` goes on, cut anywhere. -/
theorem C12_startup_leaves_the_frames (sc : Script) (hnf : ∀ n, sc.faults n = none)
    (hp : sc.cfg.poll0 = none) (noise1 noise2 tail : Bytes)
    (hn1 : Handshake.afterNul (noise1 ++ [0]) = some [])
    (hn2 : Handshake.afterNul (noise2 ++ [0]) = some [])
    (h : sc.cfg.hs.flatten = noise1 ++ [0] ++ noise2 ++ [0] ++ Handshake.expected ++ tail) :
    ∃ w', startup sc (initWorld sc) = (.ok (), w') ∧ w'.reader.flatten = tail := by
  apply C12_startup_succeeds_on_sync sc hnf hp
  rw [← Handshake.C07_handshake]
  exact Handshake.C07_handshake_accepts_sync noise1 noise2 tail sc.cfg.hs hn1 hn2 h

/-- Non-vacuity: `demo` is fault-free, ssh is alive, and its stream is the sync string cut 6 + 8. -/
example : (∀ n, demo.faults n = none) ∧ demo.cfg.poll0 = none ∧
    Handshake.spec demo.cfg.hs.flatten = (true, []) := by
  refine ⟨fun _ => rfl, rfl, ?_⟩
  decide

/-- Non-vacuity of `C12_bad_handshake`: a near miss of the version field (`SSHUTTLE0002`), cut
inside the string, is a stream the hypothesis holds of … -/
example : (Handshake.spec ([[0, 0, 83, 83, 72, 85], [84, 84, 76, 69, 48, 48, 48, 50]] : List Bytes).flatten).1
    = false := by decide

/-- … and so is a stream that ends inside the sync string. -/
example : (Handshake.spec ([[0], [0, 83, 83, 72, 85]] : List Bytes).flatten).1 = false := by decide

/-- Non-vacuity of `C12_startup_is_handshake`: `demo`'s start-up succeeds (see `Props/C12.lean`). -/
example : ∃ w', startup demo (initWorld demo) = (.ok (), w') := by
  have h : (match (startup demo (initWorld demo)).1 with | .ok _ => true | _ => false) = true := by
    decide +kernel
  rcases hs : startup demo (initWorld demo) with ⟨r, w⟩
  rw [hs] at h
  cases r with
  | ok u => exact ⟨w, rfl⟩
  | error x => simp at h

end Sshuttle.ClientMain
