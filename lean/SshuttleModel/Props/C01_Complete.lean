/-
C01, last sentence — "If neither endpoint aborts, every byte written before the writer closed is
eventually delivered."

The theorem rests on the machinery of Props/C02 (the select loop as the model makes it, the
termination measure, `Quiet`), which itself imports Props/C01; hence this separate file.  It is
built, audited and counted with C01's theorems by the C01 check (harness/common.py: Props/<ID>_*.lean).
-/
import SshuttleModel.Props.C02
import SshuttleModel.Props.C06_World

namespace Sshuttle.Tunnel
open Sshuttle.Mux (Frame)
open Sshuttle.Wrap

/-- **C01 (completeness).**  Take any history of the two select loops in their own alphabet
(`LoopEvent`: connections accepted, the endpoints writing and closing whenever they like, latency
control on or off, traffic of other flow kinds, `runonce` passes at either end in any order with
whatever `select` reported and whatever the sockets answered) that leaves both processes alive,
the flow identifiers of the run distinct.  The loop cannot go on for ever lowering its measure
(`C02_effective_passes_bounded`: at most `worldMu` effective passes); once a pass at each end no
longer lowers it, then for EVERY flow, in both directions:

* while the receiving endpoint's socket has not been shut down, what it has received is exactly what
  the tunnel has read from its peer — and if nothing the peer wrote is left unread, exactly what the
  peer wrote (`written = consumed ++ pending`);
* nothing is left unread while the tunnel end still reads: a handler that has not stopped reading
  its socket has read everything the endpoint wrote (and seen its close, if any);
* a close whose data has all been read has reached the other endpoint's socket.

So a byte written by an endpoint stays undelivered at rest only if the receiving socket was shut
(the receiver aborted or closed) or the tunnel end stopped reading the writer's socket (after the
writer's own end-of-stream, after an error on that socket, or on the receiver's STOP_SENDING). -/
theorem C01_complete (w0 : World) (h0 : Fresh w0)
    (hf : w0.cm.tooFull = false ∧ w0.sm.tooFull = false) (evs : List LoopEvent)
    (hg : ∀ ev ∈ evs, GoodEvent ev)
    (hn : (chans (w0.events evs)).Nodup) (hd : (w0.events evs).died = none)
    (kc ks : Nat)
    (hkc : (w0.events evs).sm.out ≠ [] → 0 < kc) (hks : (w0.events evs).cm.out ≠ [] → 0 < ks)
    (hc : worldMu ((w0.events evs).roundAuto .client kc fullIo) = worldMu (w0.events evs))
    (hs : worldMu ((w0.events evs).roundAuto .server ks fullIo) = worldMu (w0.events evs)) :
    ∀ f ∈ (w0.events evs).flows,
      (f.dst.sawShut = false → f.app.pending = [] → f.dst.delivered = written f.app) ∧
      (f.app.sawShut = false → f.dst.pending = [] → f.app.delivered = written f.dst) ∧
      (∀ p, f.c = some p → p.sw.shutR = false → f.app.pending = [] ∧ f.app.eofIn = false) ∧
      (∀ p, f.s = some p → p.sw.shutR = false → f.dst.pending = [] ∧ f.dst.eofIn = false) ∧
      (f.app.eofIn = true → f.app.pending = [] → f.dst.sawShut = true) ∧
      (f.dst.eofIn = true → f.dst.pending = [] → f.app.sawShut = true) := by
  obtain ⟨hq, hall⟩ := C02_loop_history_completes w0 h0 hf evs hg hn hd kc ks hkc hks hc hs
  intro f hfm
  obtain ⟨a, b, c, d⟩ := hall f hfm
  obtain ⟨_, _, hqf⟩ := hq
  obtain ⟨hQc, hQs⟩ := hqf f hfm
  refine ⟨?_, ?_, ?_, ?_, c, d⟩
  · intro h1 h2
    unfold written
    rw [h2, List.append_nil]
    exact (a h1).symm
  · intro h1 h2
    unfold written
    rw [h2, List.append_nil]
    exact (b h1).symm
  · intro p hp hr
    exact (hQc p hp).2.2.2.1 hr
  · intro p hp hr
    exact (hQs p hp).2.2.2.1 hr

/-! ### The same for every session below a full cycle of the identifier space, with no hypothesis
about identifiers -/

def isAcceptEv : LoopEvent → Bool
  | .accept => true
  | _ => false

theorem loopMove_not_accept {st : Step} (h : LoopMove st) : isAccept st = false := by
  cases st <;> first | rfl | cases h

theorem filter_accept_loopMoves (l : List Step) (h : ∀ st ∈ l, LoopMove st) : (l.filter isAccept).length = 0 := by
  rw [List.length_eq_zero_iff, List.filter_eq_nil_iff]
  intro st hst
  rw [loopMove_not_accept (h st hst)]
  exact Bool.false_ne_true

theorem events_is_run_count (w : World) (evs : List LoopEvent) (hg : ∀ ev ∈ evs, GoodEvent ev) :
    ∃ steps, (∀ st ∈ steps, GoodStep st) ∧ w.events evs = w.run steps ∧
      (steps.filter isAccept).length = (evs.filter isAcceptEv).length := by
  induction evs generalizing w with
  | nil => exact ⟨[], fun _ h => (by cases h), rfl, rfl⟩
  | cons a rest ih =>
    have hrun : w.events (a :: rest) = (w.event a).events rest := by simp only [World.events, List.foldl_cons]
    obtain ⟨s2, g2, r2, c2⟩ := ih (w.event a) (fun ev hev => hg ev (List.mem_cons_of_mem _ hev))
    have hone : ∃ s1, (∀ st ∈ s1, GoodStep st) ∧ w.event a = w.run s1 ∧
        (s1.filter isAccept).length = (if isAcceptEv a then 1 else 0) := by
      cases a with
      | pass e k conn sel ios =>
        obtain ⟨s1, m1, r1, _⟩ := C02_round_is_run w e k conn sel ios
        exact ⟨s1, fun st h => loopMove_good (m1 st h), r1, filter_accept_loopMoves s1 m1⟩
      | accept => exact ⟨[.accept], fun st h => (by simp only [List.mem_singleton] at h; subst h; trivial), rfl, rfl⟩
      | checkFull e => exact ⟨[.checkFull e], fun st h => (by simp only [List.mem_singleton] at h; subst h; trivial), rfl, rfl⟩
      | foreign e f =>
        refine ⟨[.foreign e f], fun st h => ?_, rfl, rfl⟩
        simp only [List.mem_singleton] at h; subst h
        exact hg _ List.mem_cons_self
      | appWrite i b => exact ⟨[.appWrite i b], fun st h => (by simp only [List.mem_singleton] at h; subst h; trivial), rfl, rfl⟩
      | appEof i => exact ⟨[.appEof i], fun st h => (by simp only [List.mem_singleton] at h; subst h; trivial), rfl, rfl⟩
      | dstWrite i b => exact ⟨[.dstWrite i b], fun st h => (by simp only [List.mem_singleton] at h; subst h; trivial), rfl, rfl⟩
      | dstEof i => exact ⟨[.dstEof i], fun st h => (by simp only [List.mem_singleton] at h; subst h; trivial), rfl, rfl⟩
    obtain ⟨s1, g1, r1, c1⟩ := hone
    refine ⟨s1 ++ s2, ?_, ?_, ?_⟩
    · intro st h
      rcases List.mem_append.mp h with h | h
      · exact g1 st h
      · exact g2 st h
    · rw [hrun, r2, r1, run_append]
    · rw [List.filter_append, List.length_append, c1, c2, List.filter_cons]
      split <;> simp <;> omega

/-- **C01 (completeness) for every session with fewer than `maxChan` connections** — no hypothesis
about identifiers, handlers, queues or latency control: from a client that has handed out nothing
yet and shares its identifier space with no other flow kind, after ANY history of the two loops
with at most `maxChan` accepted connections that leaves both processes alive, once a pass at each
end no longer lowers the measure every flow has delivered, in both directions, exactly what the
tunnel read from the peer endpoint whose socket is still open, and every close has been passed
on. -/
theorem C01_complete_below_wrap (w0 : World) (h0 : Fresh w0) (hch : w0.chani = 0) (hex : w0.extraOcc = [])
    (hf : w0.cm.tooFull = false ∧ w0.sm.tooFull = false) (evs : List LoopEvent)
    (hg : ∀ ev ∈ evs, GoodEvent ev) (hacc : (evs.filter isAcceptEv).length ≤ w0.maxChan)
    (hd : (w0.events evs).died = none)
    (kc ks : Nat)
    (hkc : (w0.events evs).sm.out ≠ [] → 0 < kc) (hks : (w0.events evs).cm.out ≠ [] → 0 < ks)
    (hc : worldMu ((w0.events evs).roundAuto .client kc fullIo) = worldMu (w0.events evs))
    (hs : worldMu ((w0.events evs).roundAuto .server ks fullIo) = worldMu (w0.events evs)) :
    ∀ f ∈ (w0.events evs).flows,
      (f.dst.sawShut = false → f.app.pending = [] → f.dst.delivered = written f.app) ∧
      (f.app.sawShut = false → f.dst.pending = [] → f.app.delivered = written f.dst) ∧
      (f.app.eofIn = true → f.app.pending = [] → f.dst.sawShut = true) ∧
      (f.dst.eofIn = true → f.dst.pending = [] → f.app.sawShut = true) := by
  obtain ⟨steps, _, hrun, hcount⟩ := events_is_run_count w0 evs hg
  have hn : (chans (w0.events evs)).Nodup := by
    rw [hrun]
    exact (C06_session_ids_distinct w0 h0.1 hch hex steps (by rw [hcount]; exact hacc)).2
  intro f hfm
  obtain ⟨a, b, _, _, c, d⟩ := C01_complete w0 h0 hf evs hg hn hd kc ks hkc hks hc hs f hfm
  exact ⟨a, b, c, d⟩

/-! ### … and with the liveness of the two processes proved instead of assumed -/

/-- The environment's side for a history: connects end with an errno from the handled set (any
other is re-raised by design), and traffic of other flow kinds is not addressed to a TCP flow's id. -/
def SafeEvent (fin : List Nat) : LoopEvent → Prop
  | .pass _ _ conn _ ios => HandledConn conn ∧ ∀ i, HandledConn (ios i).conn
  | .foreign _ fr => isStreamCmd fr.cmd = false ∧ Benign fin fr
  | _ => True

theorem SafeEvent.good {fin : List Nat} {ev : LoopEvent} (h : SafeEvent fin ev) : GoodEvent ev := by
  cases ev <;> simp only [GoodEvent]
  exact h.1

theorem round_steps_safe (fin : List Nat) (w : World) (e : End) (k : Nat) (conn : ConnRes) (sel : Sel)
    (ios : Nat → CbIo) (hc : HandledConn conn) (hi : ∀ i, HandledConn (ios i).conn) :
    ∀ st ∈ roundHead e w.flows.length ++ roundTail (w.run (roundHead e w.flows.length)) e k conn sel ios,
      SafeStep fin st := by
  intro st h
  rcases List.mem_append.mp h with h | h
  · simp only [roundHead, List.mem_cons, List.mem_map, List.mem_range] at h
    rcases h with rfl | ⟨i, _, rfl⟩ <;> trivial
  · simp only [roundTail, List.mem_append, List.mem_replicate, List.mem_flatMap] at h
    rcases h with ⟨_, rfl⟩ | ⟨⟨i, f⟩, _, _, rfl⟩
    · cases e
      · trivial
      · exact hc
    · exact hi i

theorem events_is_run_safe (fin : List Nat) (w : World) (evs : List LoopEvent) (hg : ∀ ev ∈ evs, SafeEvent fin ev) :
    ∃ steps, (∀ st ∈ steps, SafeStep fin st) ∧ w.events evs = w.run steps ∧
      (steps.filter isAccept).length = (evs.filter isAcceptEv).length := by
  induction evs generalizing w with
  | nil => exact ⟨[], fun _ h => (by cases h), rfl, rfl⟩
  | cons a rest ih =>
    have hrun : w.events (a :: rest) = (w.event a).events rest := by simp only [World.events, List.foldl_cons]
    obtain ⟨s2, g2, r2, c2⟩ := ih (w.event a) (fun ev hev => hg ev (List.mem_cons_of_mem _ hev))
    have ha := hg a List.mem_cons_self
    have hone : ∃ s1, (∀ st ∈ s1, SafeStep fin st) ∧ w.event a = w.run s1 ∧
        (s1.filter isAccept).length = (if isAcceptEv a then 1 else 0) := by
      cases a with
      | pass e k conn sel ios =>
        refine ⟨roundHead e w.flows.length ++ roundTail (w.run (roundHead e w.flows.length)) e k conn sel ios,
          round_steps_safe fin w e k conn sel ios ha.1 ha.2, by simp only [World.event, World.round, run_append], ?_⟩
        apply filter_accept_loopMoves
        intro st h
        rcases List.mem_append.mp h with h | h
        · exact roundHead_moves _ _ st h
        · exact roundTail_moves _ _ _ _ _ _ st h
      | accept => exact ⟨[.accept], fun st h => (by simp only [List.mem_singleton] at h; subst h; trivial), rfl, rfl⟩
      | checkFull e => exact ⟨[.checkFull e], fun st h => (by simp only [List.mem_singleton] at h; subst h; trivial), rfl, rfl⟩
      | foreign e f =>
        refine ⟨[.foreign e f], fun st h => ?_, rfl, rfl⟩
        simp only [List.mem_singleton] at h; subst h
        exact ha
      | appWrite i b => exact ⟨[.appWrite i b], fun st h => (by simp only [List.mem_singleton] at h; subst h; trivial), rfl, rfl⟩
      | appEof i => exact ⟨[.appEof i], fun st h => (by simp only [List.mem_singleton] at h; subst h; trivial), rfl, rfl⟩
      | dstWrite i b => exact ⟨[.dstWrite i b], fun st h => (by simp only [List.mem_singleton] at h; subst h; trivial), rfl, rfl⟩
      | dstEof i => exact ⟨[.dstEof i], fun st h => (by simp only [List.mem_singleton] at h; subst h; trivial), rfl, rfl⟩
    obtain ⟨s1, g1, r1, c1⟩ := hone
    refine ⟨s1 ++ s2, ?_, ?_, ?_⟩
    · intro st h
      rcases List.mem_append.mp h with h | h
      · exact g1 st h
      · exact g2 st h
    · rw [hrun, r2, r1, run_append]
    · rw [List.filter_append, List.length_append, c1, c2, List.filter_cons]
      split <;> simp <;> omega

/-- **C01 + C02 + C08 in one statement, for every session below a full cycle of the identifier
space.**  Start both processes (`Boot`), the client having handed out no identifier and sharing the
identifier space with no other flow kind, latency control at rest.  Take ANY history of the two
select loops in their own alphabet — at most `maxChan` connections accepted; the endpoints write and
close whenever they like; `check_fullness` or not; traffic of other flow kinds not addressed to a
TCP flow's identifier; `runonce` passes at either end in any order, with whatever `select` reported
and whatever the sockets answered (resets, broken pipes, failing shutdowns, short reads and writes,
connects ending with any errno of the handled set).  Then:

* neither process has ended (`died = none` — not a hypothesis any more);
* no two flows ever shared an identifier, and every endpoint has received a prefix of what its own
  peer wrote;
* and once a pass at each end no longer lowers the termination measure — which happens after at
  most `worldMu` effective passes — every endpoint whose socket is still open has received exactly
  what the tunnel read from its peer, and every close has been passed on. -/
theorem C01_C02_C08_session (w0 : World) (hb : Boot w0) (hch : w0.chani = 0) (hex : w0.extraOcc = [])
    (hf : w0.cm.tooFull = false ∧ w0.sm.tooFull = false) (evs : List LoopEvent)
    (hg : ∀ ev ∈ evs, SafeEvent (chans (w0.events evs)) ev)
    (hacc : (evs.filter isAcceptEv).length ≤ w0.maxChan) :
    (w0.events evs).died = none ∧ (chans (w0.events evs)).Nodup ∧
    (∀ f ∈ (w0.events evs).flows,
      f.dst.delivered <+: written f.app ∧ f.app.delivered <+: written f.dst) ∧
    ∀ kc ks : Nat,
      ((w0.events evs).sm.out ≠ [] → 0 < kc) → ((w0.events evs).cm.out ≠ [] → 0 < ks) →
      worldMu ((w0.events evs).roundAuto .client kc fullIo) = worldMu (w0.events evs) →
      worldMu ((w0.events evs).roundAuto .server ks fullIo) = worldMu (w0.events evs) →
      ∀ f ∈ (w0.events evs).flows,
        (f.dst.sawShut = false → f.app.pending = [] → f.dst.delivered = written f.app) ∧
        (f.app.sawShut = false → f.dst.pending = [] → f.app.delivered = written f.dst) ∧
        (f.app.eofIn = true → f.app.pending = [] → f.dst.sawShut = true) ∧
        (f.dst.eofIn = true → f.dst.pending = [] → f.app.sawShut = true) := by
  obtain ⟨steps, hsafe, hrun, hcount⟩ := events_is_run_safe (chans (w0.events evs)) w0 evs hg
  have hn : (chans (w0.events evs)).Nodup := by
    rw [hrun]
    exact (C06_session_ids_distinct w0 hb.1 hch hex steps (by rw [hcount]; exact hacc)).2
  have hd : (w0.events evs).died = none := by
    rw [hrun] at hsafe hn ⊢
    exact C08_no_death w0 hb steps hsafe hn
  have hgood : ∀ st ∈ steps, GoodStep st := fun st h => (hsafe st h).good
  refine ⟨hd, hn, ?_, ?_⟩
  · rw [hrun] at hn ⊢
    exact C01_prefix w0 hb.fresh steps hgood hn
  · intro kc ks hkc hks hc hs
    exact C01_complete_below_wrap w0 hb.fresh hch hex hf evs (fun ev hev => (hg ev hev).good) hacc hd
      kc ks hkc hks hc hs

/-- The hypotheses are met by a whole connection in the loop's alphabet (`demoHistory`): three
bytes written, both endpoints close, five passes per end; at rest the three bytes have arrived. -/
example :
    let w : World := ({} : World).events demoHistory
    Fresh ({} : World) ∧ w.died = none ∧ (chans w).Nodup ∧
    worldMu (w.roundAuto .client 0 fullIo) = worldMu w ∧ worldMu (w.roundAuto .server 0 fullIo) = worldMu w ∧
    w.flows.map (fun f => (f.dst.delivered, written f.app)) = [([1, 2, 3], [1, 2, 3])] := by
  intro w
  exact ⟨⟨rfl, by decide, by decide⟩, by decide +kernel, by decide +kernel, by decide +kernel, by decide +kernel,
    by decide +kernel⟩

/-- The premises of `C01_C02_C08_session` are met by `demoHistory` from the empty world. -/
example : Boot ({} : World) ∧ (∀ ev ∈ demoHistory, SafeEvent [] ev) ∧
    (demoHistory.filter isAcceptEv).length ≤ ({} : World).maxChan := by
  refine ⟨⟨rfl, rfl, fun _ h => (by cases h), fun _ h => (by cases h)⟩, ?_, by decide⟩
  intro ev hev
  simp only [demoHistory, List.mem_append, List.mem_cons, List.mem_flatten, List.mem_replicate] at hev
  rcases hev with (rfl | rfl | rfl | rfl | h) | ⟨l, ⟨_, rfl⟩, h⟩
  · trivial
  · trivial
  · trivial
  · trivial
  · cases h
  · simp only [List.mem_cons, List.not_mem_nil, or_false] at h
    rcases h with rfl | rfl <;> exact ⟨trivial, fun _ => trivial⟩

end Sshuttle.Tunnel
