/-
C07 — unique decodability of the wire format.

"Survives any segmentation" presupposes that a byte stream stands for ONE sequence of messages: if two
different message sequences could serialise to the same bytes, no receiver could be right for both.
These are corollaries of the round trip (`C07_roundtrip`, `C07_roundtrip_list`), stated outright:
the encoding is injective, prefix-free (a frame followed by anything is never another frame followed
by something else), and injective on whole sequences.  Core Lean only.
-/
import SshuttleModel.Props.C07

namespace Sshuttle.Mux

/-- Prefix-freedom: the first frame of a stream and what follows it are determined by the bytes. -/
theorem C07_prefix_free (f g : Frame) (r s : Bytes) (h : encode f ++ r = encode g ++ s) :
    f = g ∧ r = s := by
  have h1 := C07_roundtrip f r
  have h2 := C07_roundtrip g s
  rw [h] at h1
  rw [h1] at h2
  injection h2 with hf hr
  exact ⟨hf, hr⟩

/-- Two frames with the same encoding are the same frame (channel, command and payload). -/
theorem C07_encode_injective (f g : Frame) (h : encode f = encode g) : f = g := by
  have := C07_prefix_free f g [] [] (by simpa using h)
  exact this.1

/-- Two message sequences with the same serialisation are the same sequence: no byte stream has two
readings, so the frames `C07_any_segmentation_delivers` hands over are the only ones the stream
can mean. -/
theorem C07_stream_injective (fs gs : List Frame)
    (h : (fs.map encode).flatten = (gs.map encode).flatten) : fs = gs := by
  have h1 := C07_roundtrip_list fs
  have h2 := C07_roundtrip_list gs
  rw [h] at h1
  rw [h1] at h2
  injection h2

/-- The encoder adds exactly the eight header bytes. -/
theorem C07_encode_length (f : Frame) : (encode f).length = 8 + f.data.length := by
  simp [encode, header, be16]; omega

/-- Non-vacuity: two frames differing only in the channel have different encodings. -/
example : encode ⟨1, 0x4206, [1, 2]⟩ ≠ encode ⟨2, 0x4206, [1, 2]⟩ := by decide

end Sshuttle.Mux
