/-
C19 — Remote host names cannot corrupt the hosts file nor get lost in transit.

Property theorems only; helper lemmas are in `Lemmas/HostPipeline.lean` (split/join, the
reassembly step against `cutLastNl`, validity classes) and the `Lemmas/FwDialogue*.lean` files
(the `HOST` line between client and helper, shared with C13).
-/
import SshuttleModel.Lemmas.HostChain

namespace Sshuttle.HostPipeline
open Sshuttle.FwDialogue

/-! ## 0. The regenerated texts the model was written for -/

theorem C19_pin_client :
    Gen.C19.CLIENT_HOSTNAME_RE = "[-A-Za-z0-9_.]{1,253}\\Z" ∧
    Gen.C19.CLIENT_HOSTIP_RE = "[0-9]{1,3}\\.[0-9]{1,3}\\.[0-9]{1,3}\\.[0-9]{1,3}\\Z" ∧
    Gen.C19.ONHOSTLIST = [",", "match", "partition", "sethostip", "split", "strip"] ∧
    Gen.C19.NAME_MAX = 253 := by decide

theorem C19_pin_scanner :
    Gen.C19.REPRESENTABLE_RES =
      ["[-A-Za-z0-9_.]{1,253}\\Z", "[0-9]{1,3}\\.[0-9]{1,3}\\.[0-9]{1,3}\\.[0-9]{1,3}\\Z"] ∧
    Gen.C19.FOUND_HOST = ["'\\\\..*' ''", "'[^-\\\\w\\\\.]' '_' flags=re.ASCII", "127.", "255.", "localhost",
      "%s,%s\n"] ∧
    Gen.C19.OPEN_ERRORS_REPLACE = true := by decide

theorem C19_pin_server_helper :
    Gen.C19.HOSTWATCH_READY = ["assert hw.pid", "content = hw.sock.recv(4096)",
      "if content:\n    lines = (hw.leftover + content).split(b('\\n'))\n    if lines[-1]:\n        hw.leftover = lines.pop()\n        lines.append(b(''))\n    else:\n        hw.leftover = b('')\n    mux.send(0, ssnet.CMD_HOST_LIST, b('\\n').join(lines))\nelse:\n    raise Fatal('hostwatch process died')"] ∧
    Gen.C19.REWRITE_FORMATS = ["%s.sbak", "# sshuttle-firewall-%d AUTOCREATED", "%s.%d.tmp", "%s\n",
      "%-30s %s\n", "%s %s"] ∧
    Gen.C19.HOSTS_PAD = 30 ∧ Generated.HOSTWATCH_RECV = 4096 ∧ Generated.SEND_MAX_LEN = 65535 :=
  ⟨rfl, rfl, rfl, rfl, rfl⟩

/-! ## 1. What reaches the hosts file has the required shape -/

/-- For every pair that passes the client's two checks, the line `rewrite_etc_hosts` writes is
the address, one space, the name, padding, the marker of this instance and a newline, with a
dotted-quad address and a name over `[-A-Za-z0-9_.]`. -/
theorem C19_line_shape (port : Nat) (name ip : Str) (hn : validName name = true) (hi : validIp ip = true) :
    LineShape port (hostsLine port name ip) :=
  ⟨ip, name, List.replicate (Gen.C19.HOSTS_PAD - (ip ++ [32] ++ name).length) 32,
    by simp [hostsLine, List.append_assoc], validIp_quad ip hi, (validName_plain name hn).1,
    fun c hc => (List.mem_replicate.mp hc).2⟩

example : validName [119, 101, 98, 45, 49, 46, 101, 120] = true ∧ validIp [49, 48, 46, 48, 46, 48, 46, 50, 53, 53] = true := by
  decide   -- web-1.ex , 10.0.0.255

/-- **Whatever payload a server sends**, the client raises nothing (`onHostList` is never
`none`: neither the unpack nor an `assert` can fail), every `HOST` line it writes carries a
pair that passed both checks, the helper reads back exactly those pairs — one update each, in
order, ending at end of input — and therefore every line added to the hosts file has the
required shape.  Entries without a comma, with a byte outside the alphabet, with an address
that is not a dotted quad, or with a name longer than 253 bytes are skipped. -/
theorem C19_client_never_fatal (payload : Bytes) (port : Nat) :
    ∃ pairs : List (Bytes × Bytes),
      pairs = (tokens (stripB payload)).filterMap entry ∧
      onHostList payload = some (hostLines pairs) ∧
      hostLoop (helperLines (hostLines pairs).flatten) = (pairs, .eof) ∧
      ∀ h ∈ pairs, validName h.1 = true ∧ validIp h.2 = true ∧ LineShape port (hostsLine port h.1 h.2) := by
  refine ⟨_, rfl, ?_, ?_, ?_⟩
  · unfold onHostList
    apply mapOpt_ok
    intro h hh
    obtain ⟨line, _, hl⟩ := List.mem_filterMap.mp hh
    obtain ⟨hv1, hv2, _⟩ := entry_valid line h hl
    exact renderHost_ok h ⟨(validName_plain _ hv1).2.2, validIp_ipBytes _ hv2⟩
  · have hok : ∀ h ∈ (tokens (stripB payload)).filterMap entry, HostOk h := by
      intro h hh
      obtain ⟨line, _, hl⟩ := List.mem_filterMap.mp hh
      obtain ⟨hv1, hv2, _⟩ := entry_valid line h hl
      exact ⟨(validName_plain _ hv1).2.2, validIp_ipBytes _ hv2⟩
    have := helperLines_lines (hostLines _) (hostLines_isLine _ hok)
    rw [this]
    exact hostLoop_hosts _ hok
  · intro h hh
    obtain ⟨line, _, hl⟩ := List.mem_filterMap.mp hh
    obtain ⟨hv1, hv2, _⟩ := entry_valid line h hl
    exact ⟨hv1, hv2, C19_line_shape port h.1 h.2 hv1 hv2⟩

/-- What the repair changed at the client: before
`proposed_fixes/C19-client-skips-invalid-host-entries.diff` an entry without a comma raised
`ValueError` and an entry such as `web/srv.example,10.1.2.3` or `a,b,1.2.3.4` failed an `assert`;
either ended the session.  An entry such as `foo,1` was forwarded and produced the hosts-file
line `1 foo …`, which is not address-name-marker with a dotted quad. -/
theorem C19_never_fatal_legacy_false :
    legacyEntry [120] = .valueError ∧
    legacyEntry [119, 101, 98, 47, 115, 114, 118, 46, 101, 120, 44, 49, 48, 46, 49, 46, 50, 46, 51] = .assertion ∧
    legacyEntry [97, 44, 98, 44, 49, 46, 50, 46, 51, 46, 52] = .assertion ∧
    legacyEntry [102, 111, 111, 44, 49] = .forwarded [102, 111, 111] [49] ∧ validIp [49] = false := by
  decide

/-! ## 2. The scanner reports only what the client can use -/

/-- Everything `found_host` writes, for **any** name and address (arbitrary code points, any
length), is a sequence of records `name,ip\n` whose name and address pass the client's checks;
in particular it is ASCII (no encoding error on any locale), every line is at most
253 + 1 + 15 + 1 bytes long, and an unrepresentable name is skipped. -/
theorem C19_scanner_emits_valid : ∀ (fuel : Nat) (m : HostNames) (name ip : Str) (m' : HostNames) (out : Str),
    foundHost fuel m name ip = some (m', out) →
    ∃ recs : List (Str × Str), out = (recs.map recLine).flatten ∧
      ∀ r ∈ recs, validName r.1 = true ∧ validIp r.2 = true
  | 0, _, _, _, _, _, h => by simp [foundHost] at h
  | fuel + 1, m, name, ip, m', out, h => by
    unfold foundHost at h
    simp only at h
    split at h
    · injection h with h; simp only [Prod.mk.injEq] at h; obtain ⟨_, rfl⟩ := h
      exact ⟨[], rfl, by simp⟩
    · split at h
      · cases h
      · next m1 out1 hrec =>
        have hsub : ∃ recs : List (Str × Str), out1 = (recs.map recLine).flatten ∧
            ∀ r ∈ recs, validName r.1 = true ∧ validIp r.2 = true := by
          split at hrec
          · exact C19_scanner_emits_valid fuel m _ ip m1 out1 hrec
          · injection hrec with hrec; simp only [Prod.mk.injEq] at hrec; obtain ⟨_, rfl⟩ := hrec
            exact ⟨[], rfl, by simp⟩
        obtain ⟨recs, hout, hv⟩ := hsub
        split at h
        · injection h with h; simp only [Prod.mk.injEq] at h; obtain ⟨_, rfl⟩ := h
          exact ⟨recs, hout, hv⟩
        · next hvalid =>
          simp only [Bool.not_eq_true, Bool.not_eq_false', Bool.and_eq_true] at hvalid
          split at h
          · injection h with h; simp only [Prod.mk.injEq] at h; obtain ⟨_, rfl⟩ := h
            refine ⟨recs ++ [(name, ip)], by simp [hout, recLine, List.append_assoc], ?_⟩
            intro r hr
            rcases List.mem_append.mp hr with hr | hr
            · exact hv r hr
            · simp at hr; subst hr; exact hvalid
          · injection h with h; simp only [Prod.mk.injEq] at h; obtain ⟨_, rfl⟩ := h
            exact ⟨recs, hout, hv⟩

example : (foundHostTop [] [119, 101, 98, 47, 120, 46, 101] [49, 46, 50, 46, 51, 46, 52]).map (·.2) =
    some [119, 101, 98, 95, 120, 44, 49, 46, 50, 46, 51, 46, 52, 10] := by
  decide   -- found_host("web/x.e", "1.2.3.4") reports "web_x,1.2.3.4" only

/-- `found_host` recurses at most once (the short name of a short name is itself), so Python's
recursion limit is never reached: a top-level call always returns. -/
theorem C19_scanner_no_recursion_error (m : HostNames) (name ip : Str) :
    ∃ r, foundHostTop m name ip = some r := by
  have A : ∀ (f : Nat) (m : HostNames) (n : Str), sanitize (cutDots false n) = n →
      ∃ r, foundHost (f + 1) m n ip = some r := by
    intro f m n hn
    unfold foundHost
    simp only [hn, bne_self_eq_false, Bool.false_eq_true, if_false]
    split
    · exact ⟨_, rfl⟩
    · split
      · exact ⟨_, rfl⟩
      · split <;> exact ⟨_, rfl⟩
  unfold foundHostTop foundHost
  simp only
  split
  · exact ⟨_, rfl⟩
  · by_cases hne : (sanitize (cutDots false name) != name) = true
    · obtain ⟨r, hr⟩ : ∃ r, foundHost 2 m (sanitize (cutDots false name)) ip = some r :=
        A 1 m (sanitize (cutDots false name)) (shortName_idem name)
      simp only [hne, if_true, hr]
      repeat' (first | exact ⟨_, rfl⟩ | contradiction | split)
    · simp only [hne, if_false]
      repeat' (first | exact ⟨_, rfl⟩ | contradiction | split)

/-! ## 3. No record is lost or duplicated between scanner and client, however the stream is cut -/

/-- **Reassembly.** For every initial `leftover` without a newline and every sequence of
non-empty reads — of any sizes, cutting lines anywhere — on which the server does not stop:
the concatenation of the HOST_LIST payloads is exactly the complete-lines part of the stream
(everything up to and including its last newline: each complete line once, in order), the
final `leftover` is exactly the unterminated tail, and every payload is empty or ends with a
newline (so a line is never split across two payloads). -/
theorem C19_reassembly : ∀ (chunks : List Bytes) (lo : Bytes) (ps : List Bytes) (lo' : Bytes),
    (∀ c ∈ chunks, c ≠ []) → 10 ∉ lo → feed lo chunks = some (ps, lo') →
    ps.flatten = (cutLastNl (lo ++ chunks.flatten)).1 ∧ lo' = (cutLastNl (lo ++ chunks.flatten)).2 ∧
    ∀ p ∈ ps, p = [] ∨ p.getLast? = some 10
  | [], lo, ps, lo', _, hlo, h => by
    simp only [feed, Option.some.injEq, Prod.mk.injEq] at h
    obtain ⟨rfl, rfl⟩ := h
    simp [cut_nonl lo hlo]
  | c :: cs, lo, ps, lo', hne, hlo, h => by
    unfold feed at h
    rw [hostwatchReady_spec lo c (hne c (by simp))] at h
    by_cases hbig : (cutLastNl (lo ++ c)).1.length > Generated.SEND_MAX_LEN
    · simp [hbig] at h
    · simp only [hbig, if_false] at h
      cases hf : feed (cutLastNl (lo ++ c)).2 cs with
      | none => simp [hf] at h
      | some v =>
        obtain ⟨ps1, l1⟩ := v
        simp only [hf, Option.some.injEq, Prod.mk.injEq] at h
        obtain ⟨rfl, rfl⟩ := h
        obtain ⟨p1, p2, p3⟩ := cutLastNl_parts (lo ++ c)
        obtain ⟨i1, i2, i3⟩ := C19_reassembly cs _ ps1 l1 (fun x hx => hne x (by simp [hx])) p2 hf
        have e : lo ++ (c :: cs).flatten = (lo ++ c) ++ cs.flatten := by simp
        rw [e, cut_append (lo ++ c) cs.flatten]
        refine ⟨by simp [i1], i2, ?_⟩
        intro p hp
        rcases List.mem_cons.mp hp with rfl | hp
        · exact p3
        · exact i3 p hp

/-- The server never stops on the scanner's output: if every newline-free stretch of the
stream is at most 65535 − 4096 bytes long (the scanner's lines are at most 270 bytes,
`C19_scanner_emits_valid`) and every read returns 1…4096 bytes, no read fails
`Mux.send`'s length assertion and no read is taken for the scanner's death. -/
theorem C19_reassembly_no_stop : ∀ (chunks : List Bytes) (lo : Bytes),
    (∀ c ∈ chunks, c ≠ [] ∧ c.length ≤ Generated.HOSTWATCH_RECV) → 10 ∉ lo →
    (∀ a seg b, lo ++ chunks.flatten = a ++ seg ++ b → 10 ∉ seg →
      seg.length + Generated.HOSTWATCH_RECV ≤ Generated.SEND_MAX_LEN) →
    ∃ r, feed lo chunks = some r
  | [], lo, _, _, _ => ⟨_, rfl⟩
  | c :: cs, lo, hc, hlo, hseg => by
    obtain ⟨hcne, hclen⟩ := hc c (by simp)
    obtain ⟨p1, p2, _⟩ := cutLastNl_parts (lo ++ c)
    have hlolen : lo.length + Generated.HOSTWATCH_RECV ≤ Generated.SEND_MAX_LEN :=
      hseg [] lo (c :: cs).flatten (by simp) hlo
    have hplen : (cutLastNl (lo ++ c)).1.length ≤ Generated.SEND_MAX_LEN := by
      have : (cutLastNl (lo ++ c)).1.length ≤ (lo ++ c).length := by
        have := congrArg List.length p1
        simp only [List.length_append] at this ⊢
        omega
      simp only [List.length_append] at this
      omega
    have hrest : ∀ a seg b, (cutLastNl (lo ++ c)).2 ++ cs.flatten = a ++ seg ++ b → 10 ∉ seg →
        seg.length + Generated.HOSTWATCH_RECV ≤ Generated.SEND_MAX_LEN := by
      intro a seg b hab hs
      apply hseg ((cutLastNl (lo ++ c)).1 ++ a) seg b _ hs
      have : lo ++ (c :: cs).flatten = (cutLastNl (lo ++ c)).1 ++ ((cutLastNl (lo ++ c)).2 ++ cs.flatten) := by
        rw [← List.append_assoc, p1]; simp
      rw [this, hab]; simp [List.append_assoc]
    obtain ⟨r, hr⟩ := C19_reassembly_no_stop cs _ (fun x hx => hc x (by simp [hx])) p2 hrest
    unfold feed
    rw [hostwatchReady_spec lo c hcne]
    have : ¬ (cutLastNl (lo ++ c)).1.length > Generated.SEND_MAX_LEN := by omega
    simp only [this, if_false, hr]
    exact ⟨_, rfl⟩

/-- Beyond that bound the statement is false: a single line longer than 65535 bytes (what the
scanner of the unrepaired code emits for a 70 000-character hosts-file entry) makes the payload
exceed `Mux.send`'s limit; its `assert` fails and the server ends. -/
theorem C19_reassembly_long_line_false (n : Nat) (h : n ≥ 65535) :
    hostwatchReady (List.replicate n 97) [10] = .assertLen := by
  rw [hostwatchReady_spec _ _ (by simp)]
  have hc := cut_unique (List.replicate n 97 ++ [10]) [] (by simp) (Or.inr List.getLast?_concat)
  rw [List.append_nil] at hc
  rw [hc]
  have : (List.replicate n 97 ++ [10]).length > Generated.SEND_MAX_LEN := by
    simp [Generated.SEND_MAX_LEN]; omega
  simp only [this, if_true]

example : (∀ c ∈ [[97, 44], [49, 46, 50, 46, 51, 46, 52, 10, 98]], c ≠ ([] : Bytes)) ∧
    feed [] [[97, 44], [49, 46, 50, 46, 51, 46, 52, 10, 98]] =
      some ([[], [97, 44, 49, 46, 50, 46, 51, 46, 52, 10]], [98]) := by
  decide   -- "a," then "1.2.3.4\nb": one empty payload, then the complete line; "b" is kept

/-- A payload boundary after a newline neither merges nor splits entries: the client's
white-space split of two payloads, the first ending with a newline, is the split of their
concatenation. -/
theorem C19_payload_boundary (p q : Bytes) (hp : p = [] ∨ p.getLast? = some 10) :
    tokens (p ++ q) = tokens p ++ tokens q := tokens_append p q hp

/-! ## 4. The whole chain: scanner → server → tunnel → client → helper -/

/-- **A scanner session.** For every sequence of `found_host` calls — arbitrary code points as
names and address texts, any lengths, any repetitions — the scanner never hits the recursion
limit and everything it writes is a sequence of records `name,ip\n` that pass the client's two
checks (so: ASCII only, lines of at most 253 + 1 + 15 + 1 bytes). -/
theorem C19_scanner_session : ∀ (calls : List (Str × Str)) (m : HostNames),
    ∃ (m' : HostNames) (S : Str) (recs : List (Str × Str)),
      scanAll m calls = some (m', S) ∧ S = (recs.map recLine).flatten ∧
      ∀ r ∈ recs, validName r.1 = true ∧ validIp r.2 = true
  | [], m => ⟨m, [], [], rfl, rfl, by simp⟩
  | c :: cs, m => by
    obtain ⟨⟨m1, o1⟩, h1⟩ := C19_scanner_no_recursion_error m c.1 c.2
    obtain ⟨recs1, ho1, hv1⟩ := C19_scanner_emits_valid 3 m c.1 c.2 m1 o1 h1
    obtain ⟨m2, S2, recs2, h2, hS2, hv2⟩ := C19_scanner_session cs m1
    refine ⟨m2, o1 ++ S2, recs1 ++ recs2, ?_, ?_, ?_⟩
    · simp [scanAll, h1, h2]
    · simp [ho1, hS2]
    · intro r hr
      rcases List.mem_append.mp hr with h | h
      · exact hv1 r h
      · exact hv2 r h

/-- **The chain, end to end.** For every sequence of `found_host` calls and every cutting of the
scanner's output into reads of 1…4096 bytes (any sizes, any interleaving of short reads; a line
may be spread over any number of reads): the server never stops (no read fails `Mux.send`'s
length assertion), the `leftover` is empty when the stream has been read, and — the HOST_LIST
frames crossing the tunnel intact and in order (C07, used as the step from `feed`'s payload list
to the client's calls) — the client raises nothing, and the updates the helper finally acts on
are **exactly the records the scanner emitted**: each one once, in order, verbatim, every one
representable, and nothing else; the helper ends at end of input. -/
theorem C19_chain (calls : List (Str × Str)) (chunks : List Bytes)
    (hc : ∀ c ∈ chunks, c ≠ [] ∧ c.length ≤ Generated.HOSTWATCH_RECV) :
    ∃ (m : HostNames) (S : Str) (recs : List (Str × Str)),
      scanAll [] calls = some (m, S) ∧ S = (recs.map recLine).flatten ∧
      (∀ r ∈ recs, validName r.1 = true ∧ validIp r.2 = true) ∧
      (chunks.flatten = S →
        ∃ ps outs, feed [] chunks = some (ps, []) ∧ mapOpt onHostList ps = some outs ∧
          hostLoop (helperLines (outs.map List.flatten).flatten) = (recs, .eof)) := by
  obtain ⟨m, S, recs, hscan, hS, hv⟩ := C19_scanner_session calls []
  refine ⟨m, S, recs, hscan, hS, hv, ?_⟩
  intro hflat
  -- the stream as a list of bounded lines
  have hS' : S = ((recs.map recBody).map (· ++ [10])).flatten := by
    rw [hS, List.map_map]; congr 1; apply List.map_congr_left; intro r _; exact recLine_eq r
  have hbodies : ∀ b ∈ recs.map recBody, b.length ≤ Gen.C19.NAME_MAX + 16 := by
    intro b hb
    obtain ⟨r, hr, rfl⟩ := List.mem_map.mp hb
    exact (recBody_props r (hv r hr).1 (hv r hr).2).2.2.2
  have hbound : Gen.C19.NAME_MAX + 16 + Generated.HOSTWATCH_RECV ≤ Generated.SEND_MAX_LEN := by decide
  -- the server does not stop
  obtain ⟨⟨ps, lo⟩, hfeed⟩ := C19_reassembly_no_stop chunks [] hc (by simp) (by
    intro a seg b hab hs
    have := seg_bound _ (recs.map recBody) hbodies a seg b (by rw [← hS', ← hflat]; simpa using hab) hs
    omega)
  obtain ⟨hps, hlo, hshape⟩ := C19_reassembly chunks [] ps lo (fun c hcm => (hc c hcm).1) (by simp) hfeed
  -- the stream is complete lines only
  have hcut : cutLastNl S = (S, []) := by
    have hend : S = [] ∨ S.getLast? = some 10 := by
      rcases List.eq_nil_or_concat recs with rfl | ⟨init, r, rfl⟩
      · left; simp [hS]
      · right
        rw [hS, List.concat_eq_append, List.map_append, List.flatten_append]
        simp [recLine, List.getLast?_concat, ← List.append_assoc]
    simpa using cut_unique S [] (by simp) hend
  simp only [List.nil_append, hflat, hcut] at hps hlo
  subst hlo
  -- the client
  let pairs := fun p : Bytes => (tokens (stripB p)).filterMap entry
  have hpairs : ps.flatMap pairs = recs := client_pairs ps recs hv hshape (by rw [hps, hS])
  have hon : mapOpt onHostList ps = some (ps.map fun p => hostLines (pairs p)) := by
    apply mapOpt_ok
    intro p _
    obtain ⟨_, rfl, h2, _⟩ := C19_client_never_fatal p 0
    exact h2
  refine ⟨ps, _, hfeed, hon, ?_⟩
  have hok : ∀ h ∈ recs, HostOk h := fun h hh =>
    ⟨(validName_plain _ (hv h hh).1).2.2, validIp_ipBytes _ (hv h hh).2⟩
  rw [List.map_map]
  have := hostLines_flatMap ps pairs
  simp only [Function.comp_def] at this ⊢
  rw [this, hpairs, helperLines_lines _ (hostLines_isLine recs hok)]
  exact hostLoop_hosts recs hok

example : (∀ c ∈ [[119, 44, 49, 46], [50, 46, 51, 46, 52, 10]], c ≠ ([] : Bytes) ∧ c.length ≤ Generated.HOSTWATCH_RECV) ∧
    (scanAll [] [([119], [49, 46, 50, 46, 51, 46, 52])]).map (·.2) = some [119, 44, 49, 46, 50, 46, 51, 46, 52, 10] := by
  decide   -- found_host("w","1.2.3.4") emits "w,1.2.3.4\n", read as "w,1." then "2.3.4\n"

/-- **Never fatal, total.** For every byte string arriving as a HOST_LIST payload — whatever a
server, hostile or broken, could send — the client's `onhostlist` returns normally (no unpack
error, no failed `assert`), and every line it sends to the helper is `HOST name,ip\n` with a name
of 1…253 bytes over `[-A-Za-z0-9_.]` and a dotted-quad address. -/
theorem C19_never_fatal (payload : Bytes) :
    ∃ lines, onHostList payload = some lines ∧
      ∀ l ∈ lines, ∃ name ip, l = HOST_ ++ (name ++ 44 :: ip) ++ [10] ∧ validName name = true ∧ validIp ip = true := by
  obtain ⟨pairs, _, h2, _, h4⟩ := C19_client_never_fatal payload 0
  refine ⟨hostLines pairs, h2, ?_⟩
  intro l hl
  obtain ⟨h, hh, rfl⟩ := List.mem_map.mp hl
  exact ⟨h.1, h.2, rfl, (h4 h hh).1, (h4 h hh).2.1⟩

end Sshuttle.HostPipeline
