/-
C16 — Subnet, listen and remote arguments mean what the manual says.

Property theorems only.  Code model: `Code/Args.lean` (+ library model `Code/InetAton.lean`);
spec: `Spec/Args.lean`; helper lemmas: `Lemmas/Args*.lean`; `Lemmas/ArgsPins.lean` ties the
hand-written parsers to the regular-expression texts currently in the source.
-/
import SshuttleModel.Lemmas.ArgsMain
import SshuttleModel.Lemmas.ArgsReject
import SshuttleModel.Lemmas.ArgsEnv
import SshuttleModel.Lemmas.ArgsPins
import SshuttleModel.Lemmas.ArgsIpport
import SshuttleModel.Lemmas.ArgsAscii
import SshuttleModel.Lemmas.ArgsFile
import SshuttleModel.Lemmas.ArgsV6Sub
import SshuttleModel.Lemmas.ArgsHostpart

namespace Sshuttle.ArgsSpec
open Sshuttle.Inet Sshuttle.Args

/-! ## 1. IPv4 subnet arguments -/

/-- **Every documented IPv4 spelling means its address.**  For every 32-bit address, every
spelling of it (1–4 parts, each part decimal, `0`-octal, `0x`/`0X` hex), every width `≤ 32`
or none, every port, port range or none (ports `< 65536`), and whatever the resolver /
idna oracle would answer: `parse_subnetport` returns exactly one entry — family IPv4, the
canonical dotted quad, the given or else maximal width, the given port range. -/
theorem C16_v4_spellings (env : Env) (a : Nat) (ha : a < 2 ^ 32) (sh : Shape4)
    (w : Option Nat) (hw : ∀ x, w = some x → x ≤ 32) (ps : PortSpec) (hps : ps.Valid) :
    parseSubnetport env (spellSubnet4 a sh w ps) = .ok [denotes4 a w ps] := by
  rw [parse_spell_aux env a ha sh w ps,
    subnetLoop_single w (fun x hx => by have := hw x hx; omega) ps hps]
  cases w with
  | none => rfl
  | some x => simp [hw x rfl, denotes4, dotted, ntoa]

example : (2 : Nat) ^ 31 + 5 < 2 ^ 32 ∧ (∀ x, some 24 = some x → x ≤ 32) ∧ (PortSpec.range 8000 9000).Valid := by
  refine ⟨by decide, ?_, ?_⟩
  · intro x h; injection h with h; omega
  · exact ⟨by decide, by decide⟩

/-- The canonical text does not depend on the spelling: two spellings of one address with the
same width and ports parse to the same result. -/
theorem C16_v4_spelling_independent (env : Env) (a : Nat) (ha : a < 2 ^ 32) (sh₁ sh₂ : Shape4)
    (w : Option Nat) (hw : ∀ x, w = some x → x ≤ 32) (ps : PortSpec) (hps : ps.Valid) :
    parseSubnetport env (spellSubnet4 a sh₁ w ps) = parseSubnetport env (spellSubnet4 a sh₂ w ps) := by
  rw [C16_v4_spellings env a ha sh₁ w hw ps hps, C16_v4_spellings env a ha sh₂ w hw ps hps]

example : (0 : Nat) < 2 ^ 32 ∧ (∀ x, (none : Option Nat) = some x → x ≤ 32) ∧ PortSpec.none.Valid :=
  ⟨by decide, (fun _ h => nomatch h), trivial⟩

/-! ## 1b. IPv6 subnet arguments -/

/-- **Embedded-IPv4 IPv6 literals are accepted** (finding F15, repaired code: the IPv6
expression's class is `[\\w:.]`): bare, with a width, bracketed with a port, bracketed with
width and port range.  The address comes back in glibc's `inet_ntop` text. -/
theorem C16_v6_embedded :
    parseSubnetport envNone "::ffff:1.2.3.4".toList = .ok [⟨.inet6, "::ffff:1.2.3.4".toList, 128, 0, 0⟩] ∧
    parseSubnetport envNone "::1.2.3.4/96".toList = .ok [⟨.inet6, "::1.2.3.4".toList, 96, 0, 0⟩] ∧
    parseSubnetport envNone "[::FFFF:192.0.2.1]:80".toList = .ok [⟨.inet6, "::ffff:192.0.2.1".toList, 128, 80, 80⟩] ∧
    parseSubnetport envNone "[64:ff9b::192.0.2.33/96]:443-444".toList =
      .ok [⟨.inet6, "64:ff9b::c000:221".toList, 96, 443, 444⟩] := by
  refine ⟨?_, ?_, ?_, ?_⟩ <;> decide +kernel

/-- The full statement for the code *before* the repair is false: its IPv6 expression
(`[\\w:]+`, no `.`) rejects the documented embedded-IPv4 form as "not a valid
address/mask:port format".  Witness `::ffff:1.2.3.4`; replayed on the real code by the check. -/
theorem C16_v6_embedded_orig_false :
    ¬ (parseSubnetportOrig envNone "::ffff:1.2.3.4".toList = .ok [⟨.inet6, "::ffff:1.2.3.4".toList, 128, 0, 0⟩]) := by
  decide +kernel

/-- **glibc's `inet_pton` reads every IPv6 spelling as the address it denotes** (library model):
for every `Spell6` — all groups written out or one `::` at any position (start, middle, end)
standing for one or more zero groups, each group 1–4 hex digits with any leading zeros and any
mix of upper and lower case, optionally the last 32 bits as a dotted quad.  Proved by induction
over the group list (`pton6_groups`), the three ways a text can end, and the `::` expansion. -/
theorem C16_v6_pton (sp : Spell6) (h : sp.Valid) : pton6 sp.text = some sp.denotes :=
  pton6_spell sp h

example : (Spell6.compressed [[⟨15, true⟩, ⟨12, false⟩, ⟨0, false⟩, ⟨0, false⟩]] [] (.quad 0x01020304)).Valid := by
  refine ⟨?_, ?_, (by decide : (0x01020304 : Nat) < 2 ^ 32), by decide, ?_⟩
  · intro g hg
    simp only [List.mem_singleton] at hg
    subst hg
    exact ⟨by decide, by decide, by decide⟩
  · intro g hg; cases hg
  · intro h; cases h

/-- The address a spelling denotes is a 128-bit number. -/
theorem C16_v6_denotes_lt (sp : Spell6) (h : sp.Valid) : sp.denotes < 2 ^ 128 := denotes_lt sp h

example : (Spell6.compressed [] [] .nothing).Valid :=
  ⟨(fun _ h => nomatch h), (fun _ h => nomatch h), trivial, by decide, fun _ => rfl⟩

/-- **Every documented IPv6 subnet argument means its address.**  For every IPv6 spelling (as
above), bare or in brackets, every width `≤ 128` or none (inside the brackets when there are
brackets), every port, port range or none after the closing bracket, and whatever the resolver /
idna oracle would answer: `parse_subnetport` returns exactly one entry — family IPv6, the
address in glibc's canonical `inet_ntop` text, the given or else maximal width, the given
port range. -/
theorem C16_v6_spellings (env : Env) (sp : Spell6) (h : sp.Valid) (w : Option Nat)
    (hw : ∀ x, w = some x → x ≤ 128) (f : Form6) (hf : f.Valid) :
    parseSubnetport env (spellSubnet6 sp w f) = .ok [denotes6 sp w f] := by
  rw [parse_spell6_aux env sp h w f,
    subnetLoop_single_fam .inet6 w (fun x hx => by have := hw x hx; omega) f.ports (form6_ports_valid f hf)]
  cases w with
  | none => simp [denotes6, maxCidr_inet6]
  | some x => simp [hw x rfl, denotes6, maxCidr_inet6]

example : (Spell6.full (List.replicate 7 [⟨0, false⟩]) (.group [⟨1, false⟩])).Valid ∧
    (∀ x, some 64 = some x → x ≤ 128) ∧ (Form6.bracketed (.range 8000 9000)).Valid := by
  refine ⟨⟨?_, ⟨by decide, by decide, by decide⟩, rfl, by decide⟩, ?_, ⟨by decide, by decide⟩⟩
  · intro g hg
    simp only [List.mem_replicate] at hg
    rw [hg.2]
    exact ⟨by decide, by decide, by decide⟩
  · intro x hx; injection hx with hx; omega

/-- A width above 128 on an IPv6 literal is a usage error, for every spelling and form. -/
theorem C16_v6_width_range (env : Env) (sp : Spell6) (h : sp.Valid) (x : Nat) (hx : 128 < x) (hx' : x < 10 ^ 10)
    (f : Form6) (hf : f.Valid) :
    parseSubnetport env (spellSubnet6 sp (some x) f) = .error (.fatal .cidrRange) ∧
    argparseType (parseSubnetport env (spellSubnet6 sp (some x) f)) = .usage := by
  have hr : parseSubnetport env (spellSubnet6 sp (some x) f) = .error (.fatal .cidrRange) := by
    rw [parse_spell6_aux env sp h (some x) f,
      subnetLoop_single_fam .inet6 (some x) (fun y hy => by injection hy with hy; omega) f.ports
        (form6_ports_valid f hf)]
    have : ¬ x ≤ 128 := by omega
    simp [maxCidr_inet6, this]
  exact ⟨hr, by rw [hr]; rfl⟩

example : (128 : Nat) < 129 ∧ (129 : Nat) < 10 ^ 10 ∧ Form6.bare.Valid := ⟨by decide, by decide, trivial⟩

/-- Boundary instances, among them two forms outside `Spell6`/`Form6` that the code also
accepts: the unbracketed `addr:port-port` (the regular expression has to back-track) and an
upper-case address with leading zeros and width. -/
theorem C16_v6_instances :
    parseSubnetport envNone "::/0".toList = .ok [⟨.inet6, "::".toList, 0, 0, 0⟩] ∧
    parseSubnetport envNone "2A01:7E00:E000:0188::0001/128".toList =
      .ok [⟨.inet6, "2a01:7e00:e000:188::1".toList, 128, 0, 0⟩] ∧
    parseSubnetport envNone "1:0:0:2:0:0:0:3".toList = .ok [⟨.inet6, "1:0:0:2::3".toList, 128, 0, 0⟩] ∧
    parseSubnetport envNone "[1:2::3/64]:8000-9000".toList = .ok [⟨.inet6, "1:2::3".toList, 64, 8000, 9000⟩] ∧
    parseSubnetport envNone "1:2::3:456-500".toList = .ok [⟨.inet6, "1:2::3".toList, 128, 456, 500⟩] ∧
    parseSubnetport envNone "fc00::/129".toList = .error (.fatal .cidrRange) := by
  refine ⟨?_, ?_, ?_, ?_, ?_, ?_⟩ <;> decide +kernel

/-! ## 1c. Subnet files (`-s`, `-X`: `parse_subnetport_file`) -/

/-- **Every line of a subnet file is parsed on its own.**  A line that is neither blank nor a
`#` comment contributes exactly what `parse_subnetport` makes of its stripped text, in file
order and independently of every other line (no merging, no de-duplication); a failing later
line fails the file. -/
theorem C16_subnet_file_line (env : Env) (l : Str) (rest : List Str) (v : List Subnet)
    (hne : (strip l).isEmpty = false) (hc : (strip l).head? ≠ some '#')
    (hv : parseSubnetport env (strip l) = .ok v) :
    fileLoop env (l :: rest) =
      (match fileLoop env rest with
       | .error e => .error e
       | .ok tl => .ok (v :: tl)) :=
  fileLoop_line env l rest v hne hc hv

example : (strip " 1.2.3.4:80 \t".toList).isEmpty = false ∧ (strip " 1.2.3.4:80 \t".toList).head? ≠ some '#' ∧
    parseSubnetport envNone (strip " 1.2.3.4:80 \t".toList) = .ok [⟨.inet, "1.2.3.4".toList, 32, 80, 80⟩] := by
  refine ⟨?_, ?_, ?_⟩ <;> decide +kernel

/-- Blank lines and comment lines contribute nothing. -/
theorem C16_subnet_file_skip (env : Env) (l : Str) (rest : List Str)
    (h : (strip l).isEmpty = true ∨ (strip l).head? = some '#') :
    fileLoop env (l :: rest) = fileLoop env rest :=
  fileLoop_skip env l rest h

example : (strip "  # 10.0.0.0/8".toList).isEmpty = true ∨ (strip "  # 10.0.0.0/8".toList).head? = some '#' :=
  Or.inr (by decide +kernel)

/-- **A file of documented IPv4 entries yields every entry, each with its own ports** — for every
list of entries (any address, spelling, width ≤ 32 or none, port / range / none), in particular
for entries that share address and width and differ only in the port range: the result is the
list of their denotations, one per line, in order. -/
theorem C16_subnet_file_v4 (env : Env) (es : List Entry4) (h : ∀ e ∈ es, e.Valid) :
    fileLoop env (es.map Entry4.text) = .ok (es.map fun e => [denotes4 e.a e.w e.ps]) :=
  fileLoop_entries env es h

example : ∀ e ∈ [(⟨0x0a010000, .p4 .dec .dec .dec .dec, some 16, .one 80⟩ : Entry4),
    ⟨0x0a010000, .p4 .dec .dec .dec .dec, some 16, .one 443⟩], e.Valid := by
  intro e he
  simp only [List.mem_cons, List.not_mem_nil, or_false] at he
  rcases he with rfl | rfl <;>
    exact ⟨by decide, fun x hx => by injection hx with hx; omega, (by decide : _ < 65536)⟩

/-- the seeded-change witness as an instance: both lines of `10.1.0.0/16:80`, `10.1.0.0/16:443` -/
theorem C16_subnet_file_instance :
    parseSubnetportFile envNone "10.1.0.0/16:80\n10.1.0.0/16:443\n# c\n\n".toList =
      .ok [[⟨.inet, "10.1.0.0".toList, 16, 80, 80⟩], [⟨.inet, "10.1.0.0".toList, 16, 443, 443⟩]] := by
  decide +kernel

/-! ## 2. Widths outside the family's range -/

/-- **A width above 32 on an IPv4 literal is a usage error** — for every address, spelling,
port specification and every width 33 … 10¹⁰−1, directly (`Fatal` "Slash in CIDR notation")
and through argparse (`SystemExit(2)`), never an accepted subnet. -/
theorem C16_width_range (env : Env) (a : Nat) (ha : a < 2 ^ 32) (sh : Shape4)
    (x : Nat) (hx : 32 < x) (hx' : x < 10 ^ 10) (ps : PortSpec) (hps : ps.Valid) :
    parseSubnetport env (spellSubnet4 a sh (some x) ps) = .error (.fatal .cidrRange) ∧
    argparseType (parseSubnetport env (spellSubnet4 a sh (some x) ps)) = .usage := by
  have h : parseSubnetport env (spellSubnet4 a sh (some x) ps) = .error (.fatal .cidrRange) := by
    rw [parse_spell_aux env a ha sh (some x) ps,
      subnetLoop_single (some x) (fun y hy => by injection hy with hy; omega) ps hps]
    have : ¬ x ≤ 32 := by omega
    simp [this]
  exact ⟨h, by rw [h]; rfl⟩

example : (32 : Nat) < 33 ∧ (33 : Nat) < 10 ^ 10 ∧ (PortSpec.one 80).Valid :=
  ⟨by decide, by decide, (by decide : 80 < 65536)⟩

/-- The width check itself, for both families and any matched texts: once `int(cidr)` exceeds
the family's maximum (32 / 128) the result is the CIDR usage error, whatever follows. -/
theorem C16_width_check (c : Str) (fport lport : Option Str) (fam : Family) (addr : Str) (port : Nat)
    (rest : List AddrInfo) (n : Nat) (hc : pyInt c = .ok n)
    (hn : n > (match fam with | .inet => 32 | .inet6 => 128)) :
    subnetLoop (some c) fport lport ((fam, addr, port) :: rest) = .error (.fatal .cidrRange) := by
  apply subnetLoop_width_too_big c fport lport fam addr port rest n hc
  cases fam with
  | inet => rw [maxCidr_inet]; exact hn
  | inet6 => rw [maxCidr_inet6]; exact hn

example : pyInt ['1', '2', '9'] = .ok 129 ∧ 129 > (match Family.inet6 with | .inet => 32 | .inet6 => 128) :=
  ⟨rfl, by decide⟩

/-! ## 3. Rejection class -/

/-- **For every string, every resolver and every idna answer, a subnet argument ends in
acceptance or a usage error**: through argparse's `type=` handling the outcome of
`parse_subnetport` is never an internal error (the model contains the `int()` digit-limit,
idna and `getaddrinfo` error sites; `gaierror` is always converted to `Fatal`,
`UnicodeError`/`ValueError` are what argparse reports as "invalid … value"). -/
theorem C16_reject_class (env : Env) (s : Str) (tag : String) :
    argparseType (parseSubnetport env s) ≠ .internalError tag :=
  argparseType_benign _ (fun e h => parseSubnetportWith_benign matchRx6 env s e h) tag

/-- Stronger form: the model never leaves its own domain either.  For every string and every
environment whose idna oracle — like the real codec — produces no `%` (zone separator) that
was not in its input, the outcome through argparse is **exactly** an accepted subnet list or a
usage error (`Outcome.unmodelled` is unreachable: neither expression lets a `%` into the host). -/
theorem C16_reject_class_total (env : Env) (henv : ∀ h b, env.idna h = some b → '%' ∉ b) (s : Str) :
    (∃ v, argparseType (parseSubnetport env s) = .ok v) ∨ argparseType (parseSubnetport env s) = .usage :=
  argparseType_usage _ (fun e h => parseSubnetportWith_usage isHost6 (by decide) env henv s e h)

example : ∀ h b, envNone.idna h = some b → '%' ∉ b := by
  intro h b hb; cases hb

/-- The same for `--to-ns` (`type=parse_ipport`). -/
theorem C16_reject_class_ipport (env : Env) (s : Str) (tag : String) :
    argparseType (parseIpport env s) ≠ .internalError tag :=
  argparseType_benign _ (fun e h => parseIpport_benign env s e h) tag

/-- `--listen` is *not* wired through `type=`: `cmdline.main` calls `parse_ipport` itself and
catches only `helpers.Fatal`, while `parse_ipport` raises `argparse.ArgumentTypeError`.  So
the corresponding statement for `--listen` is false: unparsable listen text is a traceback.
(Outside the property's claim, which demands usage errors for subnet arguments; recorded.) -/
theorem C16_listen_reject_class_false :
    ¬ ∀ (env : Env) (s : Str) (tag : String), parseListen env s ≠ .internalError tag := by
  intro h
  exact h ⟨fun _ => none, fun _ => none⟩ ['a', ' ', 'b'] "ArgumentTypeError" rfl

/-! ## 4. Environment variable and command line -/

/-- **The command line overrides the environment**, for every `store` option `dest`, every
list of (option, value) occurrences in `SSHUTTLE_ARGS` and on the command line: the value
argparse ends with is the last one on the command line if there is one, else the last one in
the environment, else the default. -/
theorem C16_env_override (dest : String) (envArgs argv : List (String × Str)) :
    storeValue dest envArgs argv = precedence dest envArgs argv := by
  have hfirst : Gen.C16.ENV_ARGS_FIRST = true := by decide
  simp only [storeValue, combineArgs, hfirst, ↓reduceIte, precedence]
  rw [storeFold_eq, lastOf_append]
  cases lastOf dest argv with
  | some v => rfl
  | none => cases lastOf dest envArgs <;> rfl

/-- In particular: an option given on the command line wins over any value from the environment. -/
theorem C16_env_override_cmdline_wins (dest : String) (envArgs pre post : List (String × Str)) (v : Str)
    (hpost : lastOf dest post = none) :
    storeValue dest envArgs (pre ++ (dest, v) :: post) = some v := by
  rw [C16_env_override]
  have : lastOf dest (pre ++ (dest, v) :: post) = some v := by
    rw [lastOf_append]; simp [lastOf, hpost]
  simp [precedence, this]

example : lastOf "--remote" [("--python", ['p', 'y'])] = none := by decide

/-- **`--listen` from the environment is replaced, not merged.**  The listeners handed on are
those of the *last* `--listen` occurrence alone — command line after environment — so an
address family named only in an earlier (environment) occurrence does not survive. -/
theorem C16_listen_env (env : Env) (envArgs argv : List (String × Str)) :
    listenAfterMerge env envArgs argv = (precedence "--listen" envArgs argv).map (parseListen env) := by
  have h := C16_env_override "--listen" envArgs argv
  unfold storeValue at h
  unfold listenAfterMerge
  rw [h]

/-- instance (the seeded-change witness): `SSHUTTLE_ARGS='-l [::1]:12300'` with
`-l 127.0.0.1:12345` on the command line gives an IPv4 listener only. -/
theorem C16_listen_env_instance :
    listenAfterMerge envNone [("--listen", "[::1]:12300".toList)] [("--listen", "127.0.0.1:12345".toList)] =
      some (.ok (none, some ("127.0.0.1".toList, 12345))) := by
  decide +kernel

/-! ## 5. Listen and remote-host specifications -/

/-- **The three documented `[ip:]port` forms of `--listen` / `--to-ns`** — `port`, `a.b.c.d:port`,
`a.b.c.d` — decompose into the address and port they denote (a bare port means `0.0.0.0`, a
bare address means port 0), for every 32-bit address and every port `< 65536`.  (Ports
`≥ 65536` are *accepted* and reduced modulo 65536 by glibc's `getaddrinfo` — modelled in
`Inet.gaiPort`, outside this claim.) -/
theorem C16_ipport (env : Env) (f : ListenForm)
    (hf : match f with
      | .portOnly p => p < 65536
      | .ipPort a p => a < 2 ^ 32 ∧ p < 65536
      | .ipOnly a => a < 2 ^ 32) :
    parseIpport env (spellListen f) = .ok (denotesListen f) :=
  parseIpport_listen env f hf

example : (match ListenForm.ipPort (2 ^ 31 + 1) 12300 with
    | .portOnly p => p < 65536
    | .ipPort a p => a < 2 ^ 32 ∧ p < 65536
    | .ipOnly a => a < 2 ^ 32) := by decide

/-- **`[v6]` and `[v6]:port` for `--listen` / `--to-ns`**: for every IPv6 spelling and every
port `< 65536` (or none, meaning 0) the result is that address (in `inet_ntop` text) and port. -/
theorem C16_ipport_v6 (env : Env) (sp : Spell6) (h : sp.Valid) (port : Option Nat)
    (hp : ∀ p, port = some p → p < 65536) :
    parseIpport env ('[' :: (sp.text ++ ']' :: portSuffix port)) =
      .ok (.inet6, ntop6 sp.denotes, port.getD 0) :=
  parseIpport_v6 env sp h port hp

example : (Spell6.compressed [] [] (.group [⟨1, false⟩])).Valid ∧ (∀ p, some 12300 = some p → p < 65536) := by
  refine ⟨⟨(fun _ h => nomatch h), (fun _ h => nomatch h), ⟨by decide, by decide, by decide⟩, by decide,
    (fun h => nomatch h)⟩, ?_⟩
  intro p h; injection h with h; omega

/-- **User name and password come back exactly as written, whatever printable characters they
contain.**  For every user name without `:` (it may contain `@ / ? # [ ] %`, blanks, anything
else), every password (any characters at all, including `:` and `@`; an empty one is reported
as absent) and *every* non-empty host part without `@` — a name, a dotted quad, `host:port`,
`[v6]:port`, a bare IPv6 literal, even garbage: `parse_hostport` splits at the *last* `@` and
then at the *first* `:`, returns that user and password, and its port / host / failure are
exactly those of the host part alone (`hostPart`).  There is no restriction on the characters
of user and password in this theorem, so nothing about them is correspondence-only. -/
theorem C16_hostport_userinfo (user pw : Option Str) (host : Str)
    (hhost : host ≠ []) (hat : '@' ∉ host)
    (hu : ∀ u, user = some u → ':' ∉ u) (hnone : user = none → pw = none) :
    parseHostport (some (spellRemote user pw host)) =
      (match hostPart host with
       | .error e => .error e
       | .ok (port, h) => .ok ⟨user, pwResult pw, port, h⟩) :=
  parseHostport_userinfo user pw host hhost hat hu hnone

example : "gw:2222".toList ≠ [] ∧ '@' ∉ "gw:2222".toList ∧ (∀ u, some "de/ploy".toList = some u → ':' ∉ u) ∧
    ((some "de/ploy".toList : Option Str) = none → some "tok/en#7[?]".toList = (none : Option Str)) := by
  refine ⟨by decide, by decide, ?_, ?_⟩
  · intro u h; injection h with h; subst h; decide
  · intro h; cases h

/-- A host part without a colon (a name, an ssh alias, a dotted quad, anything) is returned
verbatim and there is no port. -/
theorem C16_hostport_plain (user pw : Option Str) (host : Str)
    (hhost : host ≠ []) (hat : '@' ∉ host) (hcolon : ':' ∉ host)
    (hu : ∀ u, user = some u → ':' ∉ u) (hnone : user = none → pw = none) :
    parseHostport (some (spellRemote user pw host)) = .ok ⟨user, pwResult pw, none, some host⟩ :=
  parseHostport_remote user pw host hhost hat hcolon hu hnone

example : ['h'] ≠ [] ∧ '@' ∉ ['h'] ∧ ':' ∉ ['h'] ∧ (∀ u, some ['a', '@', 'b'] = some u → ':' ∉ u) ∧
    ((some ['a', '@', 'b'] : Option Str) = none → some [':', '@'] = (none : Option Str)) := by
  refine ⟨by decide, by decide, by decide, ?_, ?_⟩
  · intro u h; injection h with h; subst h; decide
  · intro h; cases h

/-- **Round trip of the remote specification.**  For every quadruple
(user, password, host, port) —
* user: absent, or any text without `:` (it may contain `@ / ? # [ ] %`, blanks, …);
* password: absent, or any text at all (`:` and `@` included; an empty one reads back as absent);
  there is no password without a user;
* host: a name / ssh alias over `[A-Za-z0-9._-]`, a dotted quad, or **any** IPv6 spelling
  (`Spell6`: `::` anywhere, leading zeros, either case, embedded IPv4), bare or in brackets;
* port: absent, or `< 65536` —
parsing the rendered text `[user[:password]@]host[:port]` gives the quadruple back, with the
host in canonical form (`HostSpec.canon`: an IPv6 literal in `ipaddress`'s compressed text, a
dotted quad and a name unchanged, except that `urlparse` lower-cases a name written with a port).
**Outside (`HostSpec.Valid`), because the text is ambiguous or means something else:** an
unbracketed IPv6 literal followed by `:port` (it is itself an IPv6 literal, see
`C16_hostport_outside`); a user name containing `:` (the first `:` starts the password); a name
that reads as a dotted quad once lower-cased, written with a port (it comes back as the
canonical quad: that is the `.v4` case); host parts with non-ASCII characters or a `%zone`
(the `urlparse` branch is modelled for ASCII only). -/
theorem C16_hostport_roundtrip (user pw : Option Str) (h : HostSpec) (port : Option Nat)
    (hu : ∀ u, user = some u → ':' ∉ u) (hnone : user = none → pw = none)
    (hv : h.Valid port) (hp : ∀ p, port = some p → p < 65536) :
    parseHostport (some (renderRemote user pw h port)) = .ok ⟨user, pwResult pw, port, some (h.canon port)⟩ :=
  parseHostport_roundtrip user pw h port hu hnone hv hp

example : (∀ u, some "de@ploy".toList = some u → ':' ∉ u) ∧
    ((some "de@ploy".toList : Option Str) = none → some "p:w@x".toList = (none : Option Str)) ∧
    (HostSpec.v6 (.compressed [[⟨2, false⟩, ⟨0, false⟩, ⟨0, false⟩, ⟨1, false⟩]] [] (.group [⟨1, false⟩])) true).Valid
      (some 22) ∧ (∀ p, some 22 = some p → p < 65536) := by
  refine ⟨?_, ?_, ⟨⟨?_, ?_, ⟨by decide, by decide, by decide⟩, by decide, ?_⟩, fun _ => rfl⟩, ?_⟩
  · intro u h; injection h with h; subst h; decide
  · intro h; cases h
  · intro g hg
    simp only [List.mem_singleton] at hg
    subst hg
    exact ⟨by decide, by decide, by decide⟩
  · intro g hg; cases hg
  · intro h; cases h
  · intro p h; injection h with h; omega

/-- The host part on its own (what `C16_hostport_userinfo` leaves open): for every valid host
and port, `hostPart` returns that port and the canonical host. -/
theorem C16_hostport_hostpart (h : HostSpec) (port : Option Nat) (hv : h.Valid port)
    (hp : ∀ p, port = some p → p < 65536) :
    hostPart (h.text ++ portSuffix port) = .ok (port, some (h.canon port)) :=
  hostPart_spec h port hv hp

example : (HostSpec.name "gw-1.Example".toList).Valid (some 2222) ∧ (∀ p, some 2222 = some p → p < 65536) := by
  refine ⟨⟨by decide, by decide, fun _ => by decide +kernel⟩, ?_⟩
  intro p h; injection h with h; omega

/-- What lies outside the round trip, as instances: an unbracketed IPv6 literal followed by
`:22` is the address `2001::1:22` without a port; a `:` in the user name moves the rest of it
into the password; an upper-case name with a port comes back lower-cased (and without one,
unchanged). -/
theorem C16_hostport_outside :
    parseHostport (some "2001::1:22".toList) = .ok ⟨none, none, none, some "2001::1:22".toList⟩ ∧
    parseHostport (some "a:b:c@h".toList) = .ok ⟨some ['a'], some "b:c".toList, none, some ['h']⟩ ∧
    parseHostport (some "GW:22".toList) = .ok ⟨none, none, some 22, some "gw".toList⟩ ∧
    parseHostport (some "GW".toList) = .ok ⟨none, none, none, some "GW".toList⟩ := by
  refine ⟨?_, ?_, ?_, ?_⟩ <;> decide +kernel

/-- instances of the colon branch: `user:pw@host:22`, `[2001::1]:22`, bare `2001::1`, and the
`ValueError` that escapes for a non-numeric or out-of-range port (DESIGN: a traceback from
`ssh.connect`, outside the property's positive claim). -/
theorem C16_hostport_instances :
    parseHostport (some "u:p:q@r@Host:22".toList) = .ok ⟨some ['u'], some "p:q@r".toList, some 22, some "host".toList⟩ ∧
    parseHostport (some "[2001::1]:22".toList) = .ok ⟨none, none, some 22, some "2001::1".toList⟩ ∧
    parseHostport (some "2001::1".toList) = .ok ⟨none, none, none, some "2001::1".toList⟩ ∧
    parseHostport (some "h:x".toList) = .error (.valueError "Port could not be cast to integer value") ∧
    parseHostport (some "h:70000".toList) = .error (.valueError "Port out of range 0-65535") := by
  refine ⟨?_, ?_, ?_, ?_, ?_⟩ <;> decide +kernel

end Sshuttle.ArgsSpec
